// C12 — Tier migration never makes data unreadable or visible twice.
//
// Seam: the REAL tiering.Manager.RunMigrationCycle (ScanAndRegisterFiles -> Migrator.MigrateTier ->
// MigrateFile/copyFileStreaming -> MetadataStore.UpdateTier -> source Delete -> CleanupEmptyDirectories ->
// ReconcileOrphanedFiles -> cleanupOldMigrations) over TWO real storage.LocalBackend roots (hot, cold) on
// /dev/shm and the real SQLite tier metadata (same DSN options as cmd/arc). tiering.NewManager is
// licence-gated; the *license.Client comes from an in-package overlay constructor (licences are RSA-signed).
//
// Fault space (every element is executed, nothing is sampled), per file layout:
//   - crash before EVERY mutating file-system call of the hot and cold backends during one migration cycle
//     (vos shim compiled into internal/storage/local.go; a write additionally with torn lengths), and crash
//     before EVERY mutating SQL statement the cycle sends to the tier-metadata database (a wrapping
//     database/sql driver) — this includes "just before UpdateTier" and (= the next event) "just after it".
//     After the crash point nothing reaches the disk or the database any more (the process is dead).
//   - one low-level file-system call returning an error (every call of the cycle in turn);
//   - error injection at the logical steps copy-read (at start / mid-stream), copy-write (at start /
//     mid-stream), metadata update, source delete, rollback delete, reconcile delete, RecordMigration,
//     CompleteMigration and the scan's RecordFile: ALL subsets of size <= 2;
//   - thorough: a second crash at every event of the recovery cycle, a step error followed by a crash at
//     every later file-system call, and step errors followed by a restart.
//
// After a crash: a fresh Manager over the same directories + SQLite file ("restart") runs one further
// fault-free cycle (incl. ReconcileOrphanedFiles). After an error (no crash) the same Manager runs one
// further fault-free cycle.
//
// Oracle (the property statement):
//   - at EVERY crash state (and after every faulty-but-finished cycle) the complete content of every file of
//     the layout is readable from at least one tier (byte comparison through LocalBackend.Read), and the
//     multi-tier query still answers and shows every file at least once;
//   - after the further fault-free cycle the multi-tier query sees each file / each row exactly once.
//
// Beyond one cycle (history.go, overlap.go, bounds.go): multi-operation histories over {cycle, MigrateFile of a
// STALE candidate, ReconcileOrphanedFiles} with every single fault in every position, and two overlapping
// RunMigrationCycle calls on the same Manager explored over all interleavings of their steps.
//
// Visibility is taken from the real multi-tier read expression (QueryHandler.buildMultiTierReadParquet via
// buildReadParquetExprForMeasurement and via the whole-statement transform getTransformedSQL) executed in a
// real DuckDB (database.New, sandboxed like production): file level = DuckDB glob() over exactly the path
// literals of the transformed statement, row level = the transformed statement itself (parquet layouts).
// Two observers ask: (1) a freshly constructed Manager + QueryHandler over the directories and the SQLite file
// (what a restarted arc sees; the only possible observer of a crash state), and (2) the long-lived
// QueryHandler of the very process that ran the cycle, wired like cmd/arc wires it (SetTieringManager(the
// migrating Manager)), which served the same statement text before the cycle and repeats it after the cycle
// has finished — so the handler's and the metadata store's caches are part of what is judged.
package main

import (
	"bytes"
	"context"
	"database/sql"
	"database/sql/driver"
	"encoding/json"
	"errors"
	"fmt"
	"io"
	"os"
	"path/filepath"
	"regexp"
	"sort"
	"strings"
	"sync"
	"time"

	"github.com/basekick-labs/arc/internal/api"
	"github.com/basekick-labs/arc/internal/config"
	"github.com/basekick-labs/arc/internal/database"
	"github.com/basekick-labs/arc/internal/license"
	"github.com/basekick-labs/arc/internal/storage"
	"github.com/basekick-labs/arc/internal/tiering"
	"github.com/basekick-labs/arc/zzverif/engine/ev"
	"github.com/basekick-labs/arc/zzverif/shim/vos"
	sqlite3 "github.com/mattn/go-sqlite3"
	"github.com/rs/zerolog"
)

var scratch = fmt.Sprintf("/dev/shm/verif.c12.%d", os.Getpid())

const (
	dbName = "db"
	meas   = "m"
)

var errInj = errors.New("verif: injected step failure")
var errDead = errors.New("verif: process crashed (injected)")

// ------------------------------------------------------------------ plan: what is injected into one cycle

type site struct {
	Kind  string `json:"kind"`            // R0 Rm W0 Wm M D B G I C S
	Role  string `json:"file"`            // which migrating file the step belongs to
	Cycle string `json:"cycle,omitempty"` // overlapping cycles: the cycle ("A" | "B") whose step fails
}

func (s site) onThread(t *othread) bool { return s.Cycle == "" || (t != nil && t.name == s.Cycle) }

var siteName = map[string]string{
	"R0": "copy-read(start)", "Rm": "copy-read(mid)", "W0": "copy-write(start)", "Wm": "copy-write(mid)",
	"M": "metadata-update", "D": "source-delete", "B": "rollback-delete", "G": "reconcile-delete",
	"I": "record-migration", "C": "complete-migration", "S": "scan-record-file",
}
var siteOrder = []string{"R0", "Rm", "W0", "Wm", "M", "D", "B", "G", "I", "C", "S"}

type plan struct {
	CrashFS  int    `json:"crash_fs"`  // index of the mutating fs call the process dies at (-1 none)
	Torn     int    `json:"torn"`      // bytes of that write that still reach the file (-1 none)
	CrashSQL int    `json:"crash_sql"` // index of the mutating SQL statement the process dies at (-1 none)
	FailFS   int    `json:"fail_fs"`   // index of the fs call that returns an error (-1 none)
	Sites    []site `json:"sites,omitempty"`
	Label    string `json:"label"` // stable description (fault kind + site), filled by the enumerator
	// operations of a multi-operation history (history.go): the operation is ReconcileOrphanedFiles alone (its
	// first hot Delete of a file is the reconcile delete), resp. the roles whose MigrateFile the operation runs
	ReconcileOp bool     `json:"reconcile_op,omitempty"`
	Roles       []string `json:"roles,omitempty"`

	fired    map[int]bool
	hotDel   map[string]int
	complete int
}

func noFault() *plan          { return &plan{CrashFS: -1, Torn: -1, CrashSQL: -1, FailFS: -1, Label: "none"} }
func (p *plan) isCrash() bool { return p.CrashFS >= 0 || p.CrashSQL >= 0 }
func (p *plan) reset() {
	p.fired, p.hotDel, p.complete = map[int]bool{}, map[string]int{}, 0
}

// ------------------------------------------------------------------ gate: the process-global injector

type sqlEv struct {
	Class string `json:"class"`
	Role  string `json:"file,omitempty"`
}

var gate struct {
	mu    sync.Mutex
	plan  *plan
	env   *env
	log   []sqlEv
	dead  bool
	armed bool
}

func arm(e *env, p *plan) {
	p.reset()
	gate.mu.Lock()
	gate.plan, gate.env, gate.log, gate.dead, gate.armed = p, e, nil, false, true
	gate.mu.Unlock()
	vos.Start(p.CrashFS, p.Torn)
	if p.FailFS >= 0 {
		vos.FailAt(p.FailFS, errInj)
	}
}

type cycleLog struct {
	FS    []vos.Op
	SQL   []sqlEv
	Died  bool
	Fired []string
}

func disarm() cycleLog {
	ops, died := vos.Stop()
	gate.mu.Lock()
	defer gate.mu.Unlock()
	l := cycleLog{FS: ops, SQL: gate.log, Died: died || gate.dead}
	if gate.plan != nil {
		for i, s := range gate.plan.Sites {
			if gate.plan.fired[i] {
				l.Fired = append(l.Fired, s.Kind)
			}
		}
	}
	gate.armed, gate.plan, gate.env = false, nil, nil
	return l
}

// hitSite reports whether an armed, not yet fired site of this kind targets the file (one-shot).
func hitSite(ctx context.Context, kind, path string) bool {
	gate.mu.Lock()
	defer gate.mu.Unlock()
	if !gate.armed || gate.plan == nil {
		return false
	}
	th := threadOf(ctx)
	for i, s := range gate.plan.Sites {
		if s.Kind == kind && !gate.plan.fired[i] && gate.env.roleOf(path) == s.Role && s.onThread(th) {
			gate.plan.fired[i] = true
			return true
		}
	}
	return false
}

func classify(q string) string {
	f := strings.Join(strings.Fields(q), " ")
	switch {
	case strings.HasPrefix(f, "INSERT INTO tier_files"):
		return "RecordFile"
	case strings.HasPrefix(f, "UPDATE tier_files"):
		return "UpdateTier"
	case strings.HasPrefix(f, "DELETE FROM tier_files"):
		return "DeleteFile"
	case strings.HasPrefix(f, "INSERT INTO tier_migrations"):
		return "RecordMigration"
	case strings.HasPrefix(f, "UPDATE tier_migrations"):
		return "CompleteMigration"
	case strings.HasPrefix(f, "DELETE FROM tier_migrations"):
		return "CleanupOldMigrations"
	case strings.HasPrefix(f, "--") || strings.HasPrefix(f, "CREATE"):
		return "schema"
	}
	if len(f) > 24 {
		f = f[:24]
	}
	return "other:" + f
}

// sqlGate is called before every mutating SQL statement of the metadata database.
func sqlGate(ctx context.Context, q string, args []driver.NamedValue) error {
	gate.mu.Lock()
	if !gate.armed {
		gate.mu.Unlock()
		return nil
	}
	if gate.dead || vos.Dead() {
		gate.dead = true
		gate.mu.Unlock()
		return errDead
	}
	class := classify(q)
	role := ""
	for _, a := range args {
		if s, ok := a.Value.(string); ok {
			if r := gate.env.roleOf(s); r != "" {
				role = r
				break
			}
		}
	}
	p := gate.plan
	th := threadOf(ctx)               // overlapping cycles (overlap.go): the cycle that issues the statement
	if class == "CompleteMigration" { // carries no path: the n-th statement belongs to the n-th migrating file
		roles := gate.env.migratingRoles()
		if p.Roles != nil {
			roles = p.Roles
		}
		n := &p.complete
		if th != nil {
			n = &th.complete
		}
		if *n < len(roles) {
			role = roles[*n]
		}
		*n++
	}
	idx := len(gate.log)
	gate.log = append(gate.log, sqlEv{class, role})
	if th != nil {
		th.note("sql:" + class + "[" + role + "]")
	}
	if idx == p.CrashSQL {
		gate.dead = true
		gate.mu.Unlock()
		// from here on the file system is dead too: the next mutating call is "the crash point"
		vos.Start(0, -1)
		return errDead
	}
	want := map[string]string{"UpdateTier": "M", "RecordMigration": "I", "CompleteMigration": "C", "RecordFile": "S"}[class]
	fail := false
	if want != "" {
		for i, s := range p.Sites {
			if s.Kind == want && !p.fired[i] && s.Role == role && s.onThread(th) {
				p.fired[i] = true
				fail = true
				break
			}
		}
	}
	gate.mu.Unlock()
	if fail {
		return errInj
	}
	return nil
}

// ---- database/sql driver that wraps mattn/go-sqlite3 and calls sqlGate before every Exec ----------------

type gateDriver struct{ base *sqlite3.SQLiteDriver }

func (d *gateDriver) Open(dsn string) (driver.Conn, error) {
	c, err := d.base.Open(dsn)
	if err != nil {
		return nil, err
	}
	return &gateConn{c.(*sqlite3.SQLiteConn)}, nil
}

type gateConn struct{ *sqlite3.SQLiteConn }

func (c *gateConn) ExecContext(ctx context.Context, q string, args []driver.NamedValue) (driver.Result, error) {
	if err := sqlGate(ctx, q, args); err != nil {
		return nil, err
	}
	return c.SQLiteConn.ExecContext(ctx, q, args)
}
func (c *gateConn) Exec(q string, args []driver.Value) (driver.Result, error) {
	nv := make([]driver.NamedValue, len(args))
	for i, a := range args {
		nv[i] = driver.NamedValue{Ordinal: i + 1, Value: a}
	}
	if err := sqlGate(context.Background(), q, nv); err != nil {
		return nil, err
	}
	return c.SQLiteConn.Exec(q, args)
}
func (c *gateConn) BeginTx(ctx context.Context, o driver.TxOptions) (driver.Tx, error) {
	unbound("the tier metadata store started a transaction; the C12 SQL gate models auto-commit statements only")
	return nil, nil
}
func (c *gateConn) Begin() (driver.Tx, error) {
	return c.BeginTx(context.Background(), driver.TxOptions{})
}
func (c *gateConn) PrepareContext(ctx context.Context, q string) (driver.Stmt, error) {
	s, err := c.SQLiteConn.PrepareContext(ctx, q)
	if err != nil {
		return nil, err
	}
	return &gateStmt{s.(*sqlite3.SQLiteStmt), q}, nil
}
func (c *gateConn) Prepare(q string) (driver.Stmt, error) {
	return c.PrepareContext(context.Background(), q)
}

type gateStmt struct {
	*sqlite3.SQLiteStmt
	q string
}

func (s *gateStmt) ExecContext(ctx context.Context, args []driver.NamedValue) (driver.Result, error) {
	if err := sqlGate(ctx, s.q, args); err != nil {
		return nil, err
	}
	return s.SQLiteStmt.ExecContext(ctx, args)
}
func (s *gateStmt) Exec(args []driver.Value) (driver.Result, error) {
	nv := make([]driver.NamedValue, len(args))
	for i, a := range args {
		nv[i] = driver.NamedValue{Ordinal: i + 1, Value: a}
	}
	if err := sqlGate(context.Background(), s.q, nv); err != nil {
		return nil, err
	}
	return s.SQLiteStmt.Exec(args)
}

func init() { sql.Register("verif_c12_sqlite3", &gateDriver{&sqlite3.SQLiteDriver{}}) }

// ---- storage.Backend wrapper: step failures at the interface the Migrator uses ------------------------------

type faultBackend struct {
	*storage.LocalBackend
	tier string
}

type limitWriter struct {
	w io.Writer
	n int
}

func (l *limitWriter) Write(p []byte) (int, error) {
	if len(p) <= l.n {
		l.n -= len(p)
		return l.w.Write(p)
	}
	n := 0
	if l.n > 0 {
		n, _ = l.w.Write(p[:l.n])
		l.n = 0
	}
	return n, errInj
}

type limitReader struct {
	r io.Reader
	n int
}

func (l *limitReader) Read(p []byte) (int, error) {
	if l.n <= 0 {
		return 0, errInj
	}
	if len(p) > l.n {
		p = p[:l.n]
	}
	n, err := l.r.Read(p)
	l.n -= n
	return n, err
}

func (b *faultBackend) ReadTo(ctx context.Context, path string, w io.Writer) error {
	if b.tier == "hot" {
		// overlapping cycles: the hot file is opened as part of the copy's first step (see overlap.go)
		if t := threadOf(ctx); t != nil {
			t.awaitCopyOpen(path)
		}
		if hitSite(ctx, "R0", path) {
			return fmt.Errorf("read %s: %w", path, errInj)
		}
		if hitSite(ctx, "Rm", path) {
			sz, _ := b.LocalBackend.StatFile(ctx, path)
			err := b.LocalBackend.ReadTo(ctx, path, &limitWriter{w, int(sz / 2)})
			if err == nil {
				err = errInj
			}
			return err
		}
	}
	return b.LocalBackend.ReadTo(ctx, path, w)
}

func (b *faultBackend) WriteReader(ctx context.Context, path string, r io.Reader, size int64) error {
	if b.tier != "cold" {
		return b.LocalBackend.WriteReader(ctx, path, r, size)
	}
	t := threadOf(ctx)
	role := ""
	if t != nil {
		role = "[" + gate.env.roleOf(path) + "]"
		t.yield("copy-open" + role) // next: create/truncate the staging file, open the hot file, read chunk 1
		t.copyOpened(path)
	}
	var err error
	switch {
	case hitSite(ctx, "W0", path):
		err = fmt.Errorf("write %s: %w", path, errInj)
	case hitSite(ctx, "Wm", path):
		err = b.LocalBackend.WriteReader(ctx, path, t.gated(&limitReader{r, int(size / 2)}, role, b.LocalBackend.GetFullPath(path)+".part"), size)
	default:
		err = b.LocalBackend.WriteReader(ctx, path, t.gated(r, role, b.LocalBackend.GetFullPath(path)+".part"), size)
	}
	if t != nil {
		t.copyClosed()
		// the copy is over: the next step is the metadata update (or the failure bookkeeping)
		if err == nil {
			t.yield("after-copy" + role + ":metadata-update")
		} else {
			t.yield("after-copy" + role + ":copy-failed")
		}
	}
	return err
}

func (b *faultBackend) Delete(ctx context.Context, path string) error {
	t := threadOf(ctx)
	if b.tier == "cold" {
		if t != nil {
			t.yield("rollback-delete-cold[" + gate.env.roleOf(path) + "]")
		}
		if hitSite(ctx, "B", path) {
			return fmt.Errorf("delete %s: %w", path, errInj)
		}
	}
	if b.tier == "hot" {
		gate.mu.Lock()
		n := -1
		reconcileOp := false
		if gate.armed && gate.plan != nil {
			cnt := gate.plan.hotDel
			if t != nil {
				cnt = t.hotDel
			}
			cnt[path]++
			n = cnt[path]
			reconcileOp = gate.plan.ReconcileOp
		}
		gate.mu.Unlock()
		if t != nil {
			t.yield("delete-hot[" + gate.env.roleOf(path) + "]")
		}
		// first hot Delete of a file in a cycle = source delete of MigrateFile, second = ReconcileOrphanedFiles
		// (an operation that is ReconcileOrphanedFiles alone: the first one is the reconcile delete)
		if n == 1 && !reconcileOp && hitSite(ctx, "D", path) {
			return fmt.Errorf("delete %s: %w", path, errInj)
		}
		if (n == 2 || (n == 1 && reconcileOp)) && hitSite(ctx, "G", path) {
			return fmt.Errorf("delete %s: %w", path, errInj)
		}
	}
	return b.LocalBackend.Delete(ctx, path)
}

// ListObjects / Exists: pass-through; scheduling points of overlapping cycles (the scan's listing of the hot
// tier and the reconciliation's existence probe read state the other cycle changes)
func (b *faultBackend) ListObjects(ctx context.Context, prefix string) ([]storage.ObjectInfo, error) {
	t := threadOf(ctx)
	if t != nil && b.tier == "hot" {
		t.yield("scan-list-hot")
	}
	o, err := b.LocalBackend.ListObjects(ctx, prefix)
	if t != nil && b.tier == "hot" {
		t.yield("scan-register+find-candidates") // next: RecordFile per listed file, FindCandidates, RecordMigration
	}
	return o, err
}

func (b *faultBackend) Exists(ctx context.Context, path string) (bool, error) {
	if t := threadOf(ctx); t != nil && b.tier == "hot" {
		t.yield("reconcile-exists-hot[" + gate.env.roleOf(path) + "]")
	}
	return b.LocalBackend.Exists(ctx, path)
}

// ------------------------------------------------------------------ layouts

type fileSpec struct {
	Role    string
	Path    string
	Tier    string // where it lives before the cycle
	Migr    bool   // is a migration candidate
	Content []byte
	FirstID int64
	NRows   int64
}

type layout struct {
	Size      string // "1B" | "70KB"
	OtherCold bool   // another file of the measurement is already cold (the cold glob is live)
	OtherHot  bool   // another, younger file of the measurement stays hot (the hot glob stays live)
	Two       bool   // a second file migrates in the same cycle
}

func b2i(b bool) int {
	if b {
		return 1
	}
	return 0
}
func (l layout) String() string {
	return fmt.Sprintf("size=%s,cold-sibling=%d,hot-sibling=%d,second-migrating=%d", l.Size, b2i(l.OtherCold), b2i(l.OtherHot), b2i(l.Two))
}
func (l layout) rank() int {
	r := b2i(l.OtherCold) + b2i(l.OtherHot) + 4*b2i(l.Two)
	if l.Size != "1B" {
		r += 8
	}
	return r
}

var tmpl struct {
	big, g, c0, h0 []byte
	bigRows        int64
}

func (l layout) files() []fileSpec {
	parquet := l.Size != "1B"
	pick := func(one byte, pq []byte) []byte {
		if parquet {
			return pq
		}
		return []byte{one}
	}
	fs := []fileSpec{{Role: "F", Path: "db/m/2020/01/01/00/f_daily.parquet", Tier: "hot", Migr: true, Content: pick('F', tmpl.big), FirstID: 1000, NRows: tmpl.bigRows}}
	if l.Two {
		fs = append(fs, fileSpec{Role: "G", Path: "db/m/2020/01/02/00/g_daily.parquet", Tier: "hot", Migr: true, Content: pick('G', tmpl.g), FirstID: 500000, NRows: 5})
	}
	if l.OtherCold {
		fs = append(fs, fileSpec{Role: "C0", Path: "db/m/2019/12/31/00/c0_daily.parquet", Tier: "cold", Content: pick('C', tmpl.c0), FirstID: 1, NRows: 3})
	}
	if l.OtherHot {
		fs = append(fs, fileSpec{Role: "H0", Path: "db/m/2020/01/01/05/h0.parquet", Tier: "hot", Content: pick('H', tmpl.h0), FirstID: 101, NRows: 3})
	}
	return fs
}

// ------------------------------------------------------------------ environment of one case

type env struct {
	dir, hotRoot, coldRoot, dbPath string
	lay                            layout
	files                          []fileSpec
}

func (e *env) roleOf(path string) string {
	for _, f := range e.files {
		if f.Path == path {
			return f.Role
		}
	}
	return ""
}
func (e *env) migratingRoles() []string {
	var r []string
	for _, f := range e.files {
		if f.Migr {
			r = append(r, f.Role)
		}
	}
	return r
}

var envSeq int

// unbound / nondeterminism: exit 2 paths that first remove this process's scratch directory
func unbound(what string)        { os.RemoveAll(scratch); ev.Unbound(what) }
func nondeterminism(what string) { os.RemoveAll(scratch); ev.Nondeterminism(what) }

func must(err error, what string) {
	if err != nil {
		unbound(what + ": " + err.Error())
	}
}

func newEnv(l layout) *env {
	envSeq++
	d := filepath.Join(scratch, fmt.Sprintf("e%06d", envSeq))
	e := &env{dir: d, hotRoot: filepath.Join(d, "hot"), coldRoot: filepath.Join(d, "cold"), dbPath: filepath.Join(d, "meta.db"), lay: l, files: l.files()}
	for _, f := range e.files {
		root := e.hotRoot
		if f.Tier == "cold" {
			root = e.coldRoot
		}
		full := filepath.Join(root, f.Path)
		must(os.MkdirAll(filepath.Dir(full), 0o700), "mkdir")
		must(os.WriteFile(full, f.Content, 0o600), "write fixture")
	}
	must(os.MkdirAll(e.hotRoot, 0o700), "mkdir")
	must(os.MkdirAll(e.coldRoot, 0o700), "mkdir")
	// steady state: an earlier cycle's scan has registered every file in the tier metadata
	p := newProc(e)
	for _, f := range e.files {
		pt := partitionTime(f.Path)
		must(p.mgr.GetMetadata().RecordFile(context.Background(), &tiering.FileMetadata{Path: f.Path, Database: dbName, Measurement: meas,
			PartitionTime: pt, Tier: tiering.TierFromString(f.Tier), SizeBytes: int64(len(f.Content)), CreatedAt: pt}), "register fixture")
	}
	p.close()
	return e
}

func (e *env) remove() { os.RemoveAll(e.dir) }

func partitionTime(p string) time.Time {
	var y, mo, d, h int
	parts := strings.Split(p, "/")
	fmt.Sscanf(parts[2]+" "+parts[3]+" "+parts[4]+" "+parts[5], "%d %d %d %d", &y, &mo, &d, &h)
	return time.Date(y, time.Month(mo), d, h, 0, 0, 0, time.UTC)
}

func tierCfg() *config.TieredStorageConfig {
	return &config.TieredStorageConfig{Enabled: true, MigrationSchedule: "0 2 * * *", MigrationMaxConcurrent: 1, MigrationBatchSize: 100,
		DefaultHotMaxAgeDays: 1, MigrationHistoryRetentionDays: 90, Cold: config.ColdTierConfig{Enabled: true, Backend: "local"}}
}

// proc = one process lifetime: SQLite handle, two LocalBackends (fresh directory caches), the Manager.
type proc struct {
	e    *env
	db   *sql.DB
	mgr  *tiering.Manager
	live *api.QueryHandler // the process's own long-lived QueryHandler (nil when the cold backend is wrapped)
}

// newProc starts a "process". Its QueryHandler is wired like cmd/arc wires it: storage = the hot LocalBackend,
// SetTieringManager(the Manager that runs the migrations). The cold backend is wrapped for step-failure
// injection only when the plan needs cold-side failures (storage.GetStoragePath needs the concrete
// *LocalBackend to build the cold glob, so such a process has no long-lived handler observer).
func newProc(e *env, wrapCold ...bool) *proc {
	db, err := sql.Open("verif_c12_sqlite3", e.dbPath+"?_journal_mode=WAL&_busy_timeout=5000")
	must(err, "sql.Open")
	hot, err := storage.NewLocalBackend(e.hotRoot, zerolog.Nop())
	must(err, "NewLocalBackend(hot)")
	cold, err := storage.NewLocalBackend(e.coldRoot, zerolog.Nop())
	must(err, "NewLocalBackend(cold)")
	var coldB storage.Backend = cold
	if len(wrapCold) > 0 && wrapCold[0] {
		coldB = &faultBackend{cold, "cold"}
	}
	mgr, err := tiering.NewManager(&tiering.ManagerConfig{HotBackend: &faultBackend{hot, "hot"}, ColdBackend: coldB,
		DB: db, Config: tierCfg(), LicenseClient: license.VerifTieringClient(), Logger: zerolog.Nop()})
	if err != nil {
		unbound("tiering.NewManager cannot be constructed: " + err.Error())
	}
	p := &proc{e: e, db: db, mgr: mgr}
	if coldB == storage.Backend(cold) {
		p.live = api.NewQueryHandler(duck, hot, zerolog.Nop(), 0, 0)
		p.live.SetTieringManager(mgr)
	}
	return p
}

// warm: a client of the running process issues the statement (dashboards repeat the same statement text)
func (p *proc) warm() {
	if p.live != nil {
		p.live.VerifC12TransformSQL(context.Background(), e2stmt(p.e), "")
	}
}

// liveObserve judges visibility through the process's own long-lived handler (same statement text again)
func (p *proc) liveObserve(base *obs) *obs {
	if p.live == nil {
		return nil
	}
	o := &obs{Files: map[string]*fileObs{}}
	for r, x := range base.Files {
		c := *x
		c.Seen, c.Rows, c.Distinct = 0, 0, 0
		o.Files[r] = &c
	}
	evalWith(p.live, p.e, o, "")
	return o
}

func (p *proc) cycle(pl *plan) cycleLog {
	arm(p.e, pl)
	err := p.mgr.RunMigrationCycle(context.Background())
	l := disarm()
	if err != nil {
		unbound("RunMigrationCycle returned an error: " + err.Error())
	}
	return l
}
func (p *proc) close() { p.db.Close() }

// ------------------------------------------------------------------ observation

var duck *database.DuckDB

type fileObs struct {
	Meta     string `json:"meta"`
	Hot      string `json:"hot"`  // ok | absent | corrupt
	Cold     string `json:"cold"` // ok | absent | corrupt
	ColdPart bool   `json:"cold_part"`
	Seen     int    `json:"query_sees_file"`
	Rows     int64  `json:"query_rows"`          // parquet layouts: rows of this file returned
	Distinct int64  `json:"query_distinct_rows"` // parquet layouts: distinct rows of this file returned
}

type obs struct {
	Files      map[string]*fileObs `json:"files"`
	Expr       string              `json:"read_expression"`
	QueryErr   string              `json:"query_error,omitempty"`
	Unexpected []string            `json:"unexpected_visible_files,omitempty"`
}

func (o *obs) key(e *env) string {
	var b strings.Builder
	for _, f := range e.files {
		x := o.Files[f.Role]
		fmt.Fprintf(&b, "%s[meta=%s hot=%s cold=%s part=%d seen=%d]", f.Role, x.Meta, x.Hot, x.Cold, b2i(x.ColdPart), x.Seen)
	}
	if o.QueryErr != "" {
		b.WriteString(" query-error")
	}
	return b.String()
}

var lit = regexp.MustCompile(`'((?:[^']|'')*)'`)

func check(content []byte, be *storage.LocalBackend, path string) string {
	ok, err := be.Exists(context.Background(), path)
	if err != nil || !ok {
		return "absent"
	}
	b, err := be.Read(context.Background(), path)
	if err != nil || !bytes.Equal(b, content) {
		return "corrupt"
	}
	return "ok"
}

// observe looks at the directories and the SQLite file the way a freshly started arc would: new backends,
// new Manager, new QueryHandler; nothing of the (possibly dead) process is reused.
func observe(e *env) *obs {
	ctx := context.Background()
	o := &obs{Files: map[string]*fileObs{}}
	db, err := sql.Open("sqlite3", e.dbPath+"?_journal_mode=WAL&_busy_timeout=5000")
	must(err, "sql.Open")
	defer db.Close()
	hot, err := storage.NewLocalBackend(e.hotRoot, zerolog.Nop())
	must(err, "NewLocalBackend")
	cold, err := storage.NewLocalBackend(e.coldRoot, zerolog.Nop())
	must(err, "NewLocalBackend")
	mgr, err := tiering.NewManager(&tiering.ManagerConfig{HotBackend: hot, ColdBackend: cold, DB: db, Config: tierCfg(),
		LicenseClient: license.VerifTieringClient(), Logger: zerolog.Nop()})
	must(err, "NewManager(oracle)")
	for _, f := range e.files {
		x := &fileObs{Meta: "none", Hot: check(f.Content, hot, f.Path), Cold: check(f.Content, cold, f.Path)}
		if m, err := mgr.GetMetadata().GetFile(ctx, f.Path); err == nil && m != nil {
			x.Meta = string(m.Tier)
		}
		if _, err := os.Stat(filepath.Join(e.coldRoot, f.Path) + ".part"); err == nil {
			x.ColdPart = true
		}
		o.Files[f.Role] = x
	}
	h := api.NewQueryHandler(duck, hot, zerolog.Nop(), 0, 0)
	h.SetTieringManager(mgr)
	expr := h.VerifC12ExprForMeasurement(ctx, dbName, meas, "SELECT * FROM "+meas, "FROM")
	direct := h.VerifC12MultiTierExpr(dbName, meas, mgr.GetRouter().GetGlobPathsForQuery(dbName, meas), "FROM")
	if expr != direct {
		unbound(fmt.Sprintf("buildReadParquetExprForMeasurement does not route through buildMultiTierReadParquet: %q vs %q", expr, direct))
	}
	evalWith(h, e, o, expr)
	return o
}

func e2stmt(e *env) string {
	var sel []string
	for _, f := range e.files {
		sel = append(sel, fmt.Sprintf("count(*) FILTER (WHERE id BETWEEN %d AND %d), count(DISTINCT id) FILTER (WHERE id BETWEEN %d AND %d)",
			f.FirstID, f.FirstID+f.NRows-1, f.FirstID, f.FirstID+f.NRows-1))
	}
	return "SELECT count(*), " + strings.Join(sel, ", ") + " FROM " + dbName + "." + meas
}

// evalWith asks handler h for the transformed statement (the real table-reference -> read_parquet conversion,
// through the handler's transform cache like every request) and evaluates it in DuckDB: file level = glob()
// over exactly the path literals of the statement, row level = the statement itself (parquet layouts).
func evalWith(h *api.QueryHandler, e *env, o *obs, wantExpr string) {
	tA := time.Now()
	defer func() { tObs += time.Since(tA) }()
	tr := h.VerifC12TransformSQL(context.Background(), e2stmt(e), "")
	if !strings.Contains(tr, "read_parquet(") && !strings.Contains(tr, "WHERE 1=0") {
		unbound(fmt.Sprintf("the statement transform produced no read_parquet expression: %q", tr))
	}
	if wantExpr != "" && !strings.Contains(tr, strings.TrimPrefix(wantExpr, "FROM ")) {
		unbound(fmt.Sprintf("the statement transform of a fresh handler does not use the multi-tier expression: %q", tr))
	}
	o.Expr = strings.ReplaceAll(tr[strings.Index(tr, " FROM ")+1:], e.dir, "")
	var matched []string
	memoOK := true
	for _, m := range lit.FindAllStringSubmatch(tr, -1) {
		p := strings.ReplaceAll(m[1], "''", "'")
		rows, err := duck.DB().Query("SELECT file FROM glob('" + strings.ReplaceAll(p, "'", "''") + "')")
		if err != nil {
			unbound("DuckDB glob(): " + err.Error())
		}
		for rows.Next() {
			var file string
			rows.Scan(&file)
			tier := "hot"
			if strings.HasPrefix(file, e.coldRoot+"/") {
				tier = "cold"
			}
			rel := strings.TrimPrefix(strings.TrimPrefix(file, e.hotRoot+"/"), e.coldRoot+"/")
			if r := e.roleOf(rel); r != "" {
				o.Files[r].Seen++
				status := o.Files[r].Hot
				if tier == "cold" {
					status = o.Files[r].Cold
				}
				if status != "ok" {
					memoOK = false
				}
				matched = append(matched, tier+":"+rel)
			} else {
				o.Unexpected = append(o.Unexpected, file[len(e.dir):])
				memoOK = false
			}
		}
		rows.Close()
	}
	sort.Strings(o.Unexpected)
	if e.lay.Size == "1B" {
		return
	}
	// The answer of the statement is a function of the statement and of the bytes of the files its globs match.
	// A statement that differs from an already executed one only in the scratch directory name, over a matched
	// file set that is byte-identical (every matched file verified complete by observe), is not executed again.
	sort.Strings(matched)
	memoKey := e.lay.String() + "|" + strings.ReplaceAll(tr, e.dir, "") + "|" + strings.Join(matched, ",")
	vals := make([]int64, 1+2*len(e.files))
	if mv, ok := rowMemo[memoKey]; ok && memoOK {
		st.rowMemoHits++
		if mv.err != "" {
			o.QueryErr = mv.err
			return
		}
		copy(vals, mv.vals)
	} else {
		dst := make([]any, len(vals))
		for i := range dst {
			dst[i] = &vals[i]
		}
		st.rowQueries++
		if err := duck.DB().QueryRow(tr).Scan(dst...); err != nil {
			o.QueryErr = strings.ReplaceAll(err.Error(), e.dir, "")
			if i := strings.IndexByte(o.QueryErr, '\n'); i >= 0 { // DuckDB appends a "LINE 1: ..." excerpt
				o.QueryErr = o.QueryErr[:i]
			}
			if memoOK {
				rowMemo[memoKey] = memoVal{err: o.QueryErr}
			}
			return
		}
		if memoOK {
			rowMemo[memoKey] = memoVal{vals: append([]int64{}, vals...)}
		}
	}
	sum := int64(0)
	for i, f := range e.files {
		o.Files[f.Role].Rows, o.Files[f.Role].Distinct = vals[1+2*i], vals[2+2*i]
		sum += vals[1+2*i]
	}
	if sum != vals[0] {
		o.QueryErr = fmt.Sprintf("the query returned %d rows that belong to no file of the layout", vals[0]-sum)
	}
}

// ------------------------------------------------------------------ oracles

type rawViolation struct {
	Oracle string   `json:"oracle"`
	Faults []string `json:"faults"`
	Layout string   `json:"layout"`
	Rank   int      `json:"layout_rank"`
	Phase  string   `json:"phase"`
	Detail string   `json:"detail"`
	Case   any      `json:"case"`
	Obs    *obs     `json:"observed"`
	Family string   `json:"family,omitempty"` // "" (one cycle) | history | overlap
	Ops    []string `json:"ops,omitempty"`    // history: the operations (with the fault)
	Steps  int      `json:"steps,omitempty"`  // overlap: length of the interleaving
}

type judge struct {
	run    *ev.Run
	e      *env
	faults []string
	cs     any
	bad    int
	family string   // "" | history | overlap
	ops    []string // history
	role   string   // the file the current verdict is about ("" = the query as a whole)

	buffered []bufViolation // overlap
}

var parens = regexp.MustCompile(`\([^)]*\)`)

type bufViolation struct {
	rv   rawViolation
	cls  string
	role string
}

var oraclePriority = []string{"content-unreadable", "multi-tier-query-fails", "rows-invisible", "rows-visible-twice", "unexpected-file-visible"}

func fileAnomaly(role string, x *fileObs) (string, bool) {
	d := fmt.Sprintf("%s[meta=%s hot=%s cold=%s]", role, x.Meta, x.Hot, x.Cold)
	bad := (x.Hot != "ok" && x.Cold != "ok") || x.Hot == "corrupt" || x.Cold == "corrupt" || (x.Meta == "hot" && x.Hot != "ok") || (x.Meta == "cold" && x.Cold != "ok")
	return d, bad
}

// flush reports the buffered verdicts of a history / overlap case: ONE per phase class. One anomaly (a truncated
// cold copy, metadata that names a tier the file is not in, a file in no tier) fails several oracles at once, in a
// layout-dependent way (the statement fails outright, misses rows, or attributes rows of the damaged file to
// other files), and several faults of one operation leave the same anomaly. So the class is
//
//	<kind>@<phase class> | <operations, the faulted one marked {*}> : <anomalous files> | <layout>
//
// kind = content-unreadable (the complete content is in no tier) or query-answer-wrong (any other oracle);
// anomalous = complete content in no tier, a corrupt copy in a tier, or not in the tier the metadata names.
// The concrete fault, the failing oracles and the observation are in the description / replay object.
func (j *judge) flush() {
	byCls := map[string][]bufViolation{}
	var order []string
	for _, b := range j.buffered {
		if byCls[b.cls] == nil {
			order = append(order, b.cls)
		}
		byCls[b.cls] = append(byCls[b.cls], b)
	}
	j.buffered = nil
	for _, cls := range order {
		bs := byCls[cls]
		top, topRank, topName, topWho := bs[0], 1000, "", ""
		var details, roles []string
		onlyLive := true
		seenDetail := map[string]bool{}
		for _, b := range bs {
			if !seenDetail[b.rv.Detail] {
				seenDetail[b.rv.Detail] = true
				details = append(details, b.rv.Detail)
			}
			if b.role != "" {
				roles = append(roles, b.role)
			}
			name, who, live := strings.TrimSuffix(b.rv.Oracle, "@"+cls), "", 0
			if strings.HasPrefix(name, "long-running-handler") {
				i := strings.LastIndex(name, ":")
				name, who, live = name[i+1:], name[:i+1], 100
			} else {
				onlyLive = false
			}
			rank := 2 // rows-invisible and its stale-read-expression form
			for r, o := range oraclePriority {
				if name == o {
					rank = r
				}
			}
			if rank+live < topRank {
				top, topRank, topName, topWho = b, rank+live, name, who
			}
		}
		var anomalous []string
		if top.rv.Obs != nil {
			for _, fl := range j.e.files {
				if d, bad := fileAnomaly(fl.Role, top.rv.Obs.Files[fl.Role]); bad {
					anomalous = append(anomalous, d)
				}
			}
			if len(anomalous) == 0 { // nothing wrong with any single file: name the files the oracles name
				for _, fl := range j.e.files {
					for _, r := range roles {
						if r == fl.Role {
							d, _ := fileAnomaly(fl.Role, top.rv.Obs.Files[fl.Role])
							anomalous = append(anomalous, d)
							break
						}
					}
				}
			}
		}
		rv := top.rv
		kind := "query-answer-wrong"
		if topName == "content-unreadable" {
			kind = "content-unreadable"
		}
		if onlyLive { // a freshly started arc answers correctly: the defect is in the running process's view
			kind = topWho + kind
		}
		rv.Oracle = kind + "@" + cls
		rv.Detail = strings.Join(details, "; ")
		var what string
		if j.family == "history" {
			var sk []string
			if cd, ok := j.cs.(caseDesc); ok {
				for _, o := range cd.Ops {
					if o.Plan != nil {
						sk = append(sk, o.name()+"{*}")
						rv.Detail = "fault " + o.Plan.Label + ": " + rv.Detail
					} else {
						sk = append(sk, o.name())
					}
				}
			}
			what = "history:" + strings.Join(sk, " ; ")
			rv.Ops = append(sk, strings.Join(anomalous, " "))
		} else {
			what = "overlap(" + strings.Join(j.faults, " ; ") + ")"
			// what is needed beyond the overlap itself: an injected failure and/or a further operation (none: the
			// same anomaly under "no-fault" dominates the ones found again with a failure injected)
			var needs []string
			for _, f := range j.faults {
				if f != "no-fault" {
					needs = append(needs, f)
				}
			}
			rv.Ops = append(needs, strings.Join(anomalous, " "))
		}
		rv.Faults = []string{what + ":" + strings.Join(anomalous, " ")}
		j.run.Violate(rv.Oracle+"|"+rv.Faults[0]+"|"+j.e.lay.String(), rv.Detail, rv)
	}
}

func (j *judge) seen(f fileSpec, x *fileObs) string {
	if j.e.lay.Size == "1B" {
		return fmt.Sprintf("file %s is matched %d times by the globs of the expression", f.Role, x.Seen)
	}
	return fmt.Sprintf("file %s is matched %d times by the globs of the expression; the statement returns %d rows (%d distinct) of its %d rows", f.Role, x.Seen, x.Rows, x.Distinct, f.NRows)
}

func (j *judge) violate(oracle, phase, detail string, o *obs) {
	j.bad++
	// one root cause, one oracle kind: a stale read expression makes migrated rows unreadable — whether the
	// statement then misses the rows or fails outright ("No files found") depends only on what else the stale
	// globs still match
	const stale = "long-running-handler(stale-read-expression):"
	if oracle == stale+"rows-invisible" || oracle == stale+"multi-tier-query-fails" {
		oracle = stale + "migrated-rows-unreadable"
	}
	f := append([]string{}, j.faults...)
	cls := "after-recovery"
	switch {
	case j.family == "" && strings.HasPrefix(oracle, "long-running-handler"):
		// the handler of the process that ran the cycle: "the cycle has finished" is the only phase there is
		cls = "after-a-finished-cycle"
	case strings.HasPrefix(phase, "crash-state"):
		cls = "at-crash-state"
	case strings.HasPrefix(phase, "faulty-cycle-finished"):
		cls = "after-faulty-cycle"
	case strings.HasPrefix(phase, "after-op"):
		cls = "after-op"
	}
	oracle += "@" + cls
	rv := rawViolation{Oracle: oracle, Faults: f, Layout: j.e.lay.String(), Rank: j.e.lay.rank(), Phase: phase, Detail: detail, Case: j.cs, Obs: o, Family: j.family, Ops: j.ops}
	if j.family != "" {
		// histories and overlaps: one verdict per (case, phase class), see flush
		if cd, ok := j.cs.(caseDesc); ok && cd.Overlap != nil {
			rv.Steps = len(cd.Overlap.Schedule)
		}
		j.buffered = append(j.buffered, bufViolation{rv, cls, j.role})
		return
	}
	j.run.Violate(oracle+"|"+strings.Join(f, " + ")+"|"+j.e.lay.String(), detail, rv)
}

// intermediate: a crash state or the state a finished faulty cycle leaves
// who = "" (a freshly started arc looks at the state) or "long-running-handler:" (the QueryHandler of the
// process that ran the cycle repeats the statement it served before the cycle)
func (j *judge) intermediate(o *obs, phase, who string) {
	if o == nil {
		return
	}
	for _, f := range j.e.files {
		x := o.Files[f.Role]
		j.role = f.Role
		if who == "" && x.Hot != "ok" && x.Cold != "ok" {
			j.violate("content-unreadable", phase, fmt.Sprintf("no tier holds the complete content of %s (hot=%s cold=%s)", f.Role, x.Hot, x.Cold), o)
		}
	}
	j.role = ""
	if o.QueryErr != "" {
		j.violate(who+"multi-tier-query-fails", phase, "the multi-tier query fails: "+o.QueryErr, o)
		return
	}
	for _, f := range j.e.files {
		x := o.Files[f.Role]
		j.role = f.Role
		if x.Seen == 0 || (j.e.lay.Size != "1B" && x.Distinct != f.NRows) {
			j.violate(who+"rows-invisible", phase, "the multi-tier query does not see every row: "+j.seen(f, x), o)
		}
	}
}

// final: after the further fault-free cycle
func (j *judge) final(o *obs, phase, who string) {
	if o == nil {
		return
	}
	for _, f := range j.e.files {
		x := o.Files[f.Role]
		j.role = f.Role
		if who == "" && x.Hot != "ok" && x.Cold != "ok" {
			j.violate("content-unreadable", phase, fmt.Sprintf("no tier holds the complete content of %s (hot=%s cold=%s)", f.Role, x.Hot, x.Cold), o)
		}
	}
	j.role = ""
	if o.QueryErr != "" {
		j.violate(who+"multi-tier-query-fails", phase, "the multi-tier query fails: "+o.QueryErr, o)
		return
	}
	for _, f := range j.e.files {
		x := o.Files[f.Role]
		j.role = f.Role
		rowsOK := j.e.lay.Size == "1B" || (x.Rows == f.NRows && x.Distinct == f.NRows)
		switch {
		case x.Seen == 0 || (j.e.lay.Size != "1B" && x.Distinct < f.NRows):
			j.violate(who+"rows-invisible", phase, "the multi-tier query does not see every row: "+j.seen(f, x), o)
		case x.Seen > 1 || !rowsOK:
			j.violate(who+"rows-visible-twice", phase, "the multi-tier query sees rows more than once: "+j.seen(f, x), o)
		}
	}
	j.role = ""
	if len(o.Unexpected) > 0 {
		j.violate(who+"unexpected-file-visible", phase, "the multi-tier query sees files that are not data files: "+strings.Join(o.Unexpected, ","), o)
	}
}

// ------------------------------------------------------------------ labels

func (e *env) fsLabel(op vos.Op) string {
	tier, root := "hot", e.hotRoot
	if strings.HasPrefix(op.Path, e.coldRoot) {
		tier, root = "cold", e.coldRoot
	}
	rel := strings.TrimPrefix(strings.TrimPrefix(op.Path, root), "/")
	target := "dir"
	role := ""
	switch {
	case strings.HasSuffix(rel, ".part"):
		target, role = "part", e.roleOf(strings.TrimSuffix(rel, ".part"))
	case e.roleOf(rel) != "":
		target, role = "file", e.roleOf(rel)
	default:
		for _, f := range e.files {
			if strings.HasPrefix(f.Path, rel+"/") && f.Migr && role == "" {
				role = f.Role
			}
		}
	}
	if op.Kind == "rename" {
		target = "part->file"
	}
	s := tier + ":" + op.Kind + ":" + target
	if e.lay.Two && role != "" {
		s += "[" + role + "]"
	}
	return s
}

func (e *env) sqlLabel(s sqlEv) string {
	l := "sql:" + s.Class
	if e.lay.Two && s.Role != "" {
		l += "[" + s.Role + "]"
	}
	return l
}

func (e *env) siteLabel(s site) string {
	l := "error@" + siteName[s.Kind]
	if e.lay.Two {
		l += "[" + s.Role + "]"
	}
	return l
}

// ------------------------------------------------------------------ one case

type caseDesc struct {
	Layout  string   `json:"layout"`
	Kind    string   `json:"kind"`
	Plans   []*plan  `json:"cycles"` // injected cycles in order; a fault-free cycle follows
	Restart bool     `json:"restart_after_error,omitempty"`
	Ops     []opDesc `json:"history,omitempty"` // multi-operation history (history.go)
	Overlap *ovlDesc `json:"overlap,omitempty"` // two overlapping cycles (overlap.go)
}

type caseResult struct {
	reached bool // every injected fault / crash point was actually reached
	states  []string
	logs    []cycleLog
	faults  []string
	bad     int
}

type stats struct {
	cases, reached, bad                                   int64
	transientDouble, crashStates, faultyCycles, reconcile int64
	rowQueries, rowMemoHits, liveJudged, liveDiffers      int64
	histories, histPruned, ovlStates, ovlRuns             int64
	extra                                                 map[string]int64
	states                                                map[string]bool
	byKind                                                map[string]int64
}

var st = stats{states: map[string]bool{}, byKind: map[string]int64{}, extra: map[string]int64{}}

// runCase executes the injected cycles (restart after each crash; same process after an error unless
// restart is asked for), then one further fault-free cycle, and judges every state.
func runCase(run *ev.Run, l layout, kind string, plans []*plan, restartAfterError bool, golden []*cycleLog) caseResult {
	e := newEnv(l)
	defer e.remove()
	cd := caseDesc{Layout: l.String(), Kind: kind, Plans: plans, Restart: restartAfterError}
	var res caseResult
	for _, p := range plans {
		res.faults = append(res.faults, p.Label)
	}
	if len(plans) == 0 {
		res.faults = []string{"no-fault"}
	}
	j := &judge{run: run, e: e, faults: res.faults, cs: cd}
	res.reached = true
	wrapCold := false
	for _, pl := range plans {
		for _, s := range pl.Sites {
			if s.Kind == "W0" || s.Kind == "Wm" || s.Kind == "B" {
				wrapCold = true
			}
		}
	}
	p := newProc(e, wrapCold)
	for i, pl := range plans {
		p.warm()
		lg := p.cycle(pl)
		res.logs = append(res.logs, lg)
		phase := fmt.Sprintf("after-cycle-%d", i+1)
		if pl.isCrash() {
			if !lg.Died {
				res.reached = false
			}
			// replay determinism: the event at the crash point is the one the enumerator saw
			if golden != nil && i < len(golden) && golden[i] != nil && lg.Died {
				g := golden[i]
				if pl.CrashFS >= 0 && (pl.CrashFS >= len(lg.FS) || pl.CrashFS >= len(g.FS) || e.fsLabel(lg.FS[pl.CrashFS]) != relabel(g, pl.CrashFS)) {
					nondeterminism(fmt.Sprintf("C12: replay of %s reached a different file-system call at the crash point", pl.Label))
				}
			}
			p.close()
			o := observe(e)
			st.crashStates++
			res.states = append(res.states, o.key(e))
			j.intermediate(o, "crash-state-"+phase, "")
			p = newProc(e, wrapCold)
		} else {
			want := len(pl.Sites)
			if pl.FailFS >= 0 {
				want = -1
				if pl.FailFS >= len(lg.FS) {
					res.reached = false
				}
			}
			if want >= 0 && len(lg.Fired) != want {
				res.reached = false
			}
			if restartAfterError {
				p.close()
			}
			o := observe(e)
			st.faultyCycles++
			res.states = append(res.states, o.key(e))
			j.intermediate(o, "faulty-cycle-finished-"+phase, "")
			if !restartAfterError {
				if lo := p.liveObserve(o); lo != nil {
					st.liveJudged++
					j.intermediate(lo, "faulty-cycle-finished-"+phase, liveWho(lo, o))
				}
			}
			for _, f := range e.files {
				if o.Files[f.Role].Seen > 1 {
					st.transientDouble++
					break
				}
			}
			if restartAfterError {
				p = newProc(e, wrapCold)
			}
		}
	}
	p.warm()
	lg := p.cycle(noFault())
	res.logs = append(res.logs, lg)
	for _, op := range lg.FS {
		if op.Kind == "remove" && strings.HasPrefix(op.Path, e.hotRoot) && e.roleOf(strings.TrimPrefix(op.Path, e.hotRoot+"/")) != "" {
			st.reconcile++ // a hot copy was removed by the recovery cycle (re-migration or orphan reconciliation)
			break
		}
	}
	o := observe(e)
	res.states = append(res.states, "final:"+o.key(e))
	j.final(o, "after-further-fault-free-cycle", "")
	if lo := p.liveObserve(o); lo != nil {
		st.liveJudged++
		if lo.key(e) != o.key(e) || lo.QueryErr != o.QueryErr {
			st.liveDiffers++
		}
		j.final(lo, "after-further-fault-free-cycle", liveWho(lo, o))
	}
	p.close()
	res.bad = j.bad
	st.cases++
	st.byKind[kind]++
	if res.reached {
		st.reached++
	}
	if res.bad > 0 {
		st.bad++
	}
	for _, s := range res.states {
		st.states[s] = true
	}
	if traceF != nil {
		fmt.Fprintf(traceF, "%s | %s | %s | reached=%v bad=%d | %s\n", l, kind, strings.Join(res.faults, " ; "), res.reached, res.bad, strings.Join(res.states, " => "))
	}
	return res
}

// liveWho names the observer; when the long-running handler answers with a read expression that differs from
// the one a fresh handler builds for the same state, the root cause (a stale cached transform) is part of the name.
func liveWho(live, fresh *obs) string {
	if live.Expr != fresh.Expr {
		return "long-running-handler(stale-read-expression):"
	}
	return "long-running-handler:"
}

var traceF *os.File
var tObs time.Duration

type memoVal struct {
	vals []int64
	err  string
}

var rowMemo = map[string]memoVal{}

var goldenLabels = map[*cycleLog][]string{}

func relabel(g *cycleLog, k int) string { return goldenLabels[g][k] }

// ------------------------------------------------------------------ enumeration

type job struct {
	l       layout
	kind    string
	plans   []*plan
	restart bool
	golden  []*cycleLog
	expand  bool // thorough: enumerate a second crash over this case's recovery cycle
	hist    *histJob
	ovl     *ovlJob
	weight  int // estimated number of executed cases (for the static distribution over the worker processes)
}

func tornCuts(n int, thorough bool) []int {
	if n <= 1 {
		return nil
	}
	if n == 2 {
		return []int{1}
	}
	if thorough {
		return []int{1, n / 2, n - 1}
	}
	return []int{n / 2}
}

// recordGolden runs the fault-free cycle of a layout and returns its event log with labels.
func recordGolden(run *ev.Run, l layout) (*cycleLog, *env) {
	e := newEnv(l)
	p := newProc(e)
	lg := p.cycle(noFault())
	p.close()
	g := &lg
	var labels []string
	for _, op := range lg.FS {
		labels = append(labels, e.fsLabel(op))
	}
	goldenLabels[g] = labels
	return g, e
}

func crashPlans(e *env, g *cycleLog, thorough bool) []*plan {
	var ps []*plan
	for k, op := range g.FS {
		lb := e.fsLabel(op)
		ps = append(ps, &plan{CrashFS: k, Torn: -1, CrashSQL: -1, FailFS: -1, Label: "crash-before=" + lb})
		if op.Kind == "write" {
			for _, t := range tornCuts(op.Len, thorough) {
				ps = append(ps, &plan{CrashFS: k, Torn: t, CrashSQL: -1, FailFS: -1, Label: "crash-during=" + lb})
			}
		}
	}
	for jx, s := range g.SQL {
		ps = append(ps, &plan{CrashFS: -1, Torn: -1, CrashSQL: jx, FailFS: -1, Label: "crash-before=" + e.sqlLabel(s)})
	}
	return ps
}

func sitePlans(e *env, max int) []*plan {
	var all []site
	for _, r := range e.migratingRoles() {
		for _, k := range siteOrder {
			all = append(all, site{Kind: k, Role: r})
		}
	}
	excl := func(a, b site) bool { // two variants of the same call cannot both fire
		return a.Role == b.Role && a.Kind[0] == b.Kind[0] && (a.Kind[0] == 'R' || a.Kind[0] == 'W')
	}
	var ps []*plan
	for i := range all {
		ps = append(ps, &plan{CrashFS: -1, Torn: -1, CrashSQL: -1, FailFS: -1, Sites: []site{all[i]}, Label: e.siteLabel(all[i])})
		if max < 2 {
			continue
		}
		for k := i + 1; k < len(all); k++ {
			if excl(all[i], all[k]) {
				continue
			}
			ps = append(ps, &plan{CrashFS: -1, Torn: -1, CrashSQL: -1, FailFS: -1, Sites: []site{all[i], all[k]},
				Label: e.siteLabel(all[i]) + " + " + e.siteLabel(all[k])})
		}
	}
	return ps
}

func clonePlan(p *plan) *plan {
	c := *p
	c.Sites = append([]site{}, p.Sites...)
	c.fired, c.hotDel = nil, nil
	return &c
}

func main() {
	run := ev.Start("C12", "fault_enumeration")
	shard, nShards, isShard := ev.Shard()
	thorough := !run.Quick()
	if run.Replay != "" {
		replay(run)
		return
	}
	if !isShard {
		parent(run, thorough)
		return
	}
	defer os.RemoveAll(scratch)
	setupProcess()
	t0 := time.Now()
	if tf := os.Getenv("VERIF_C12_TRACE"); tf != "" {
		traceF, _ = os.Create(fmt.Sprintf("%s.%d", tf, shard))
		defer traceF.Close()
	}

	var layouts []layout
	for _, size := range []string{"1B", "70KB"} {
		for _, oc := range []bool{false, true} {
			for _, oh := range []bool{false, true} {
				layouts = append(layouts, layout{size, oc, oh, false})
			}
		}
	}
	if thorough {
		for _, size := range []string{"1B", "70KB"} {
			layouts = append(layouts, layout{size, true, true, true}, layout{size, false, false, true})
		}
	}

	samples := ev.NewSamples(3)
	complete := true
	var jobs []job
	for _, l := range layouts {
		g, e := recordGolden(run, l)
		// the fault-free migration itself must satisfy the final oracle
		jobs = append(jobs, job{l: l, kind: "fault-free", plans: nil})
		for _, p := range crashPlans(e, g, thorough) {
			jobs = append(jobs, job{l: l, kind: "crash", plans: []*plan{p}, golden: []*cycleLog{g}, expand: thorough})
		}
		for k, op := range g.FS {
			jobs = append(jobs, job{l: l, kind: "fs-call-error", plans: []*plan{{CrashFS: -1, Torn: -1, CrashSQL: -1, FailFS: k, Label: "fs-error@" + e.fsLabel(op)}}})
		}
		for _, p := range sitePlans(e, 2) {
			jobs = append(jobs, job{l: l, kind: "step-errors", plans: []*plan{p}, expand: thorough && len(p.Sites) == 1})
			if thorough {
				jobs = append(jobs, job{l: l, kind: "step-errors+restart", plans: []*plan{clonePlan(p)}, restart: true})
			}
		}
		if shard == 0 && len(samples.List()) < 3 && (l.Size == "70KB" && l.OtherCold && l.OtherHot) {
			samples.Add(map[string]any{"layout": l.String(), "fault_free_cycle_fs_calls": goldenLabels[g], "fault_free_cycle_sql_statements": g.SQL})
		}
		e.remove()
	}
	jobs = append(jobs, newJobs(layouts, thorough)...)
	if only := os.Getenv("VERIF_C12_ONLY"); only != "" { // development aid: run one dimension; never reported as exhaustive
		complete = false
		var keep []job
		for _, jb := range jobs {
			k := "base"
			if jb.hist != nil {
				k = "history"
			} else if jb.ovl != nil {
				k = "overlap"
			}
			if strings.Contains(only, k) {
				keep = append(keep, jb)
			}
		}
		jobs = keep
	}
	// static distribution: longest estimated job first onto the least loaded worker (same result in every worker)
	for i := range jobs {
		if jobs[i].weight == 0 {
			jobs[i].weight = 1
			if jobs[i].expand {
				jobs[i].weight = 12
			}
		}
	}
	order := make([]int, len(jobs))
	for i := range order {
		order[i] = i
	}
	sort.SliceStable(order, func(a, b int) bool { return jobs[order[a]].weight > jobs[order[b]].weight })
	load := make([]int, nShards)
	owner := make([]int, len(jobs))
	for _, i := range order {
		m := 0
		for s := range load {
			if load[s] < load[m] {
				m = s
			}
		}
		owner[i] = m
		load[m] += jobs[i].weight
	}
	var mine []job
	for _, i := range order { // heavy jobs first: an internal deadline cuts the cheap tail, and says so
		if owner[i] == shard {
			mine = append(mine, jobs[i])
		}
	}
	for _, jb := range mine {
		if run.TimeUp() {
			complete = false
			break
		}
		if jb.hist != nil {
			if !runHistJob(run, *jb.hist, thorough) {
				complete = false
			}
			continue
		}
		if jb.ovl != nil {
			if r := exploreOverlap(run, *jb.ovl); !r.complete {
				complete = false
			}
			continue
		}
		res := runCase(run, jb.l, jb.kind, jb.plans, jb.restart, jb.golden)
		if !jb.expand || len(jb.plans) != 1 {
			continue
		}
		// thorough, level 2
		first := jb.plans[0]
		if first.isCrash() {
			// a second crash at every event of the recovery cycle
			rec := res.logs[1]
			for _, p2 := range crashPlansFromLog(jb.l, &rec) {
				if run.TimeUp() {
					complete = false
					break
				}
				runCase(run, jb.l, "crash+crash-in-recovery", []*plan{clonePlan(first), p2}, false, nil)
			}
		} else {
			// the step error combined with a crash before every file-system call of that faulty cycle
			lg := res.logs[0]
			for k := range lg.FS {
				if run.TimeUp() {
					complete = false
					break
				}
				p2 := clonePlan(first)
				p2.CrashFS = k
				p2.Label = first.Label + " + crash-before=" + labelIn(jb.l, lg.FS[k])
				runCase(run, jb.l, "step-error+crash", []*plan{p2}, false, nil)
			}
		}
	}
	if os.Getenv("VERIF_C12_TIMING") != "" {
		fmt.Fprintf(os.Stderr, "shard %d: %d cases in %v (query part of observe %v)\n", shard, st.cases, time.Since(t0), tObs)
	}
	duck.Close()
	counters := map[string]int64{"cases": st.cases, "reached": st.reached, "bad": st.bad, "crash_states": st.crashStates,
		"faulty_cycles": st.faultyCycles, "transient_double": st.transientDouble, "recovery_removed_hot_copy": st.reconcile,
		"row_queries": st.rowQueries, "row_memo": st.rowMemoHits, "live_judged": st.liveJudged, "live_differs": st.liveDiffers,
		"histories": st.histories, "history_positions_pruned": st.histPruned, "overlap_states": st.ovlStates, "overlap_runs": st.ovlRuns}
	for k, v := range st.byKind {
		counters["kind:"+k] = v
	}
	for k := range st.states {
		counters["state:"+k] = 1
	}
	for k, v := range st.extra {
		counters[k] = v
	}
	os.RemoveAll(scratch) // FinishShard exits the process: deferred clean-up would not run
	run.FinishShard(counters, samples.List(), complete)
}

// labelIn labels an op of a finished case (its directories are gone; only the path shape is needed).
func labelIn(l layout, op vos.Op) string {
	i := strings.Index(op.Path, "/hot/")
	jx := strings.Index(op.Path, "/cold/")
	e := &env{lay: l, files: l.files()}
	switch {
	case i >= 0 && (jx < 0 || i < jx):
		e.hotRoot, e.coldRoot = op.Path[:i+4], op.Path[:i]+"/cold"
	case jx >= 0:
		e.coldRoot, e.hotRoot = op.Path[:jx+5], op.Path[:jx]+"/hot"
	}
	return e.fsLabel(op)
}

// crashPlansFromLog enumerates crash points over a recorded (recovery) cycle of a finished case.
func crashPlansFromLog(l layout, g *cycleLog) []*plan {
	e := &env{lay: l, files: l.files()}
	var ps []*plan
	for k, op := range g.FS {
		ps = append(ps, &plan{CrashFS: k, Torn: -1, CrashSQL: -1, FailFS: -1, Label: "recovery-cycle-crash-before=" + labelIn(l, op)})
	}
	for jx, s := range g.SQL {
		ps = append(ps, &plan{CrashFS: -1, Torn: -1, CrashSQL: jx, FailFS: -1, Label: "recovery-cycle-crash-before=" + e.sqlLabel(s)})
	}
	return ps
}

// setupProcess: scratch directory, the DuckDB instance (sandboxed to the scratch directory) and the fixtures.
func setupProcess() {
	must(os.MkdirAll(scratch, 0o700), "scratch")
	var err error
	// database.New bounds its sandbox lock-down by a 5 s wall-clock timeout; on an overloaded machine that is a
	// property of the machine, not of the code under test: retry
	for try := 0; ; try++ {
		duck, err = database.New(&database.Config{MaxConnections: 2, MemoryLimit: "512MB", ThreadCount: 1, PreserveInsertionOrder: true,
			TempDirectory: filepath.Join(scratch, "spill"), LocalStorageRoot: scratch}, zerolog.Nop())
		if err == nil || try >= 8 || !(strings.Contains(err.Error(), "deadline exceeded") || strings.Contains(err.Error(), "Interrupted")) {
			break
		}
	}
	must(err, "database.New")
	makeTemplates()
}

// replay re-executes the minimal case of a replay file (./check C12 quick --replay <file>) in this process.
func replay(run *ev.Run) {
	b, err := os.ReadFile(run.Replay)
	must(err, "replay file")
	var doc struct {
		Replay struct {
			Minimal struct {
				Case caseDesc `json:"case"`
			} `json:"minimal"`
		} `json:"replay"`
	}
	must(json.Unmarshal(b, &doc), "replay file")
	cd := doc.Replay.Minimal.Case
	var l layout
	var oc, oh, two int
	if _, err := fmt.Sscanf(strings.NewReplacer(",", " ", "=", " ").Replace(cd.Layout), "size %s cold-sibling %d hot-sibling %d second-migrating %d", &l.Size, &oc, &oh, &two); err != nil {
		unbound("replay file: cannot parse layout " + cd.Layout)
	}
	l.OtherCold, l.OtherHot, l.Two = oc == 1, oh == 1, two == 1
	defer os.RemoveAll(scratch)
	setupProcess()
	traceF = os.Stdout
	switch {
	case cd.Overlap != nil:
		jb := ovlJob{l: l, label: "no-fault"}
		if len(cd.Plans) > 0 {
			jb.plan, jb.label = cd.Plans[0], cd.Plans[0].Label
		}
		ovlCase(run, jb, ovlPoint{sched: cd.Overlap.Schedule, steps: cd.Overlap.Steps}, cd.Overlap.Mode, cd.Overlap.Then)
	case cd.Ops != nil:
		runHistory(run, l, cd.Kind, cd.Ops, nil)
	default:
		runCase(run, l, cd.Kind, cd.Plans, cd.Restart, nil)
	}
	duck.Close()
	os.RemoveAll(scratch)
	raw, _ := run.TakeViolations()
	for _, v := range raw {
		fmt.Printf("replayed: %s :: %s\n", v.Signature, v.Desc)
		run.Violate(v.Signature, v.Desc, map[string]any{"minimal": v.Replay})
	}
	run.Coverage["evaluations"] = 1
	run.Finish()
}

func makeTemplates() {
	gen := func(first, n int64) []byte {
		p := filepath.Join(scratch, "tmpl.parquet")
		os.Remove(p)
		q := fmt.Sprintf("COPY (SELECT (range + %d)::BIGINT AS id, (hash(range) %% 1000000007)::BIGINT AS v FROM range(%d)) TO '%s' (FORMAT PARQUET, COMPRESSION UNCOMPRESSED)", first, n, p)
		if _, err := duck.DB().Exec(q); err != nil {
			unbound("cannot write the parquet fixture: " + err.Error())
		}
		b, err := os.ReadFile(p)
		must(err, "read fixture")
		os.Remove(p)
		return b
	}
	for n := int64(4000); ; n += 200 {
		b := gen(1000, n)
		if len(b) >= 70000 {
			tmpl.big, tmpl.bigRows = b, n
			break
		}
		if n > 40000 {
			unbound("cannot produce a 70 KB parquet fixture")
		}
	}
	tmpl.g, tmpl.c0, tmpl.h0 = gen(500000, 5), gen(1, 3), gen(101, 3)
}

// ------------------------------------------------------------------ parent: spawn, regroup, report

func atoms(faults []string) []string {
	var a []string
	for _, f := range faults {
		if f == "no-fault" { // the empty fault set
			continue
		}
		a = append(a, strings.Split(f, " + ")...)
	}
	return a
}

func properSubset(a, b []string) bool {
	if len(a) >= len(b) {
		return false
	}
	in := map[string]bool{}
	for _, x := range b {
		in[x] = true
	}
	for _, x := range a {
		if !in[x] {
			return false
		}
	}
	return true
}

func properSubsequence(a, b []string) bool {
	if len(a) >= len(b) {
		return false
	}
	i := 0
	for _, x := range b {
		if i < len(a) && a[i] == x {
			i++
		}
	}
	return i == len(a)
}

func parent(run *ev.Run, thorough bool) {
	counters, samples, complete := run.SpawnShards(16)
	raw, counts := run.TakeViolations()
	// regroup the raw (oracle, fault set, layout) failures into classes: drop a fault set when a proper
	// subset of it fails the same oracle in the same layout (1-minimal fault sets), then sign each
	// (oracle, minimal fault set) with the smallest layout that shows it.
	type item struct {
		rv    rawViolation
		atoms []string
		n     int
		desc  string
	}
	var items []item
	for _, v := range raw {
		b, _ := json.Marshal(v.Replay)
		var rv rawViolation
		if err := json.Unmarshal(b, &rv); err != nil {
			unbound("cannot decode a shard violation: " + err.Error())
		}
		items = append(items, item{rv, atoms(rv.Faults), counts[v.Signature], v.Desc})
	}
	type class struct {
		best item
		n    int
		lays map[string]bool
	}
	classes := map[string]*class{}
	rawByOracle := map[string]int{}
	for _, it := range items {
		rawByOracle[it.rv.Oracle] += it.n
	}
	for i, it := range items {
		dominated := false
		for k, o := range items {
			if k == i || o.rv.Oracle != it.rv.Oracle || o.rv.Layout != it.rv.Layout || o.rv.Family != it.rv.Family {
				continue
			}
			// one cycle: a proper subset of the fault set fails the same way; history / overlap followed by an
			// operation: a proper subsequence of the operations (same fault) fails the same way
			if (it.rv.Family == "" && properSubset(o.atoms, it.atoms)) || (it.rv.Family != "" && properSubsequence(o.rv.Ops, it.rv.Ops)) {
				dominated = true
				break
			}
		}
		if dominated {
			continue
		}
		fs := strings.Join(it.atoms, " + ")
		if fs == "" {
			fs = "no-fault"
		}
		key := it.rv.Oracle + "|" + fs
		c := classes[key]
		if c == nil {
			c = &class{best: it, lays: map[string]bool{}}
			classes[key] = c
		} else if it.rv.Rank < c.best.rv.Rank || (it.rv.Rank == c.best.rv.Rank && it.rv.Steps < c.best.rv.Steps) {
			c.best = it
		}
		c.n += it.n
		c.lays[it.rv.Layout] = true
	}
	for key, c := range classes {
		var lays []string
		for l := range c.lays {
			lays = append(lays, l)
		}
		sort.Strings(lays)
		sig := key + "|" + c.best.rv.Layout
		for i := 0; i < c.n; i++ {
			run.Violate(sig, c.best.desc, map[string]any{"minimal": c.best.rv, "layouts_showing_it": lays, "instances_with_this_minimal_fault_set": c.n,
				"raw_failing_cases_with_this_oracle_incl_supersets_of_the_fault_set": rawByOracle[c.best.rv.Oracle]})
		}
	}

	states := 0
	kinds := map[string]int64{}
	for k, v := range counters {
		if strings.HasPrefix(k, "state:") {
			states++
		}
		if strings.HasPrefix(k, "kind:") {
			kinds[strings.TrimPrefix(k, "kind:")] = v
		}
	}
	run.Coverage["exhaustive"] = complete
	run.Coverage["evaluations"] = counters["cases"]
	run.Coverage["distinct_nontrivial"] = counters["reached"]
	run.Coverage["cases_by_kind"] = kinds
	run.Coverage["crash_states_judged"] = counters["crash_states"]
	run.Coverage["faulty_cycles_judged"] = counters["faulty_cycles"]
	run.Coverage["distinct_observed_states"] = states
	run.Coverage["cases_with_a_violation"] = counters["bad"]
	run.Coverage["states_with_transient_double_visibility_after_a_finished_faulty_cycle"] = counters["transient_double"]
	run.Coverage["recovery_cycles_that_removed_a_hot_copy"] = counters["recovery_removed_hot_copy"]
	run.Coverage["raw_violation_tuples"] = len(raw)
	run.Coverage["states_also_judged_through_the_long_running_handler"] = counters["live_judged"]
	run.Coverage["final_states_where_the_long_running_handler_answers_differently_from_a_fresh_one"] = counters["live_differs"]
	run.Coverage["row_level_statements_executed"] = counters["row_queries"]
	run.Coverage["row_level_statements_answered_from_an_identical_earlier_execution"] = counters["row_memo"]
	run.Coverage["samples"] = samples
	run.Coverage["histories_executed_fault_free"] = counters["histories"]
	run.Coverage["history_fault_positions_skipped_by_the_two_stated_reductions"] = counters["history_positions_pruned"]
	ovl := map[string]map[string]int64{}
	for k, v := range counters {
		if strings.HasPrefix(k, "ovlstat:") {
			parts := strings.Split(strings.TrimPrefix(k, "ovlstat:"), " | ")
			name := parts[0] + " | " + parts[1]
			if ovl[name] == nil {
				ovl[name] = map[string]int64{}
			}
			ovl[name][parts[2]] = v
		}
	}
	run.Coverage["overlapping_cycles_explorations"] = ovl
	run.Coverage["overlapping_cycles_states"] = counters["overlap_states"]
	run.Coverage["overlapping_cycles_executions_of_the_exploration"] = counters["overlap_runs"]
	lay := "file sizes {1 byte, one parquet file >= 70 KB (3 streamed chunks)} x {no, one} already-cold sibling x {no, one} hot sibling that stays hot"
	if thorough {
		lay += "; plus layouts with a second file migrating in the same cycle"
	}
	run.Coverage["rule"] = "layouts: " + lay + ". Per layout the fault-free cycle is recorded through the vos shim (file-system calls of both LocalBackends) and the wrapping SQL driver (mutating statements of the tier metadata), then EVERY element of: {crash before each file-system call (each write also torn)} + {crash before each SQL statement} + {each file-system call returns an error} + {all subsets of size 1..2 of the step failures copy-read(start|mid), copy-write(start|mid), metadata-update, source-delete, rollback-delete, reconcile-delete, record-migration, complete-migration, scan-record-file}" +
		map[bool]string{true: " + {second crash at every event of the recovery cycle} + {single step failure then crash before each file-system call} + {step failures followed by a restart}", false: ""}[thorough] +
		" is executed on the real Manager, followed by restart (after a crash) and one further fault-free cycle. Every crash state, every state a finished faulty cycle leaves and every final state is judged through a freshly started Manager+QueryHandler; finished cycles are additionally judged through the long-lived QueryHandler of the process that ran them (it served the same statement before the cycle). evaluations = executed cases; a case is distinct by construction (layout, fault tuple) and counted non-trivial when every injected crash point / failure was actually reached by the run. " +
		"HISTORIES: ALL sequences of 1.." + map[bool]string{true: "3 operations on every single-file layout (1..2 on the two-file layouts, with migrate-stale[G] added)", false: "2 operations on the layouts {1 byte, 70 KB} x {no sibling, both siblings} and 1..3 operations on the layout 1 byte/no sibling"}[thorough] +
		" over the alphabet {cycle = RunMigrationCycle, migrate-stale[F] = Migrator.MigrateFile of the candidate that Migrator.FindCandidates listed BEFORE the first operation (stale candidate list / retry), reconcile = ReconcileOrphanedFiles alone} on one running process; the history [cycle] is the one-cycle enumeration above. Each history runs fault-free, then with EVERY single fault in EVERY position, the faults derived from the recorded events of that operation in the fault-free run of that history: crash before each file-system call (writes also torn), crash before each SQL statement, each file-system call returns an error, each single step failure whose step occurs in the operation. Two reductions, both resting on executed facts: a position is skipped when an earlier operation of the history performed no mutating file-system call and no metadata statement in the fault-free run (the case equals the one of the shorter history), and a fault before a trailing fault-free cycle is skipped (every history is followed by a fault-free cycle anyway). After EVERY operation the state is judged (crash state: restart first) like a crash state / finished faulty cycle, a fault-free cycle of a so far fault-free history like a final state; after the last operation one further fault-free cycle (which ends with reconciliation) and the final oracle. " +
		"OVERLAP: two RunMigrationCycle calls on the same Manager (cron + manual trigger; there is no guard), each under its own context, parked at the scheduling points {scan-list-hot, scan-register+find-candidates, copy-open, copy-write#k per 32 KB chunk, copy-rename/copy-abort, after-copy (next: UpdateTier), rollback-delete-cold, delete-hot, reconcile-exists-hot}: = the recorded file-system calls and SQL statements, except that SQL statements with no storage call between them form one step and the empty-directory clean-up belongs to the delete step. ALL interleavings of the two step lists are explored depth-first with explicit-state pruning (state = bytes of every file in both tiers and of the staging file + tier metadata + per cycle its own step/SQL trace, pending step, and what its open staging descriptor refers to), layouts " + map[bool]string{true: "all 8 with one migrating file", false: "{1 byte/no sibling, 70 KB/both siblings}"}[thorough] +
		"; at EVERY distinct disk state the process is killed (restart, judged as a crash state, fault-free cycle, final oracle); every distinct terminal state is also continued in the same process with nothing / migrate-stale[F] / reconcile, then the fault-free cycle and the final oracle" + map[bool]string{true: "; additionally every single step failure (10 kinds) in one of the two (symmetric) cycles on the layouts {1 byte/no sibling, 70 KB/both siblings}", false: ""}[thorough] + ". Counts per exploration: coverage.overlapping_cycles_explorations"
	fmt.Printf("C12: %d cases (%d with every injected fault reached), %d crash states + %d finished faulty cycles judged, %d distinct observed states, %d transient double-visibility states, %d raw violation tuples -> %d classes\n",
		counters["cases"], counters["reached"], counters["crash_states"], counters["faulty_cycles"], states, counters["transient_double"], len(raw), len(classes))
	run.Assume("crash model: process crash between system calls (every completed file-system call and every committed SQLite statement is durable, nothing after the crash point reaches disk or database); SQLite's own atomic commit and power-loss reordering are trusted / not modelled")
	run.Assume("the cold tier is a second storage.LocalBackend (S3/Azure are unreachable offline); the Migrator drives both tiers through the same storage.Backend interface")
	run.Assume("overlapping cycles are explored for layouts with ONE migrating file: with two, the order of the reconciliation's probes is ORDER BY migrated_at DESC over a one-second CURRENT_TIMESTAMP, i.e. decided by the wall clock")
	run.Assume("overlapping cycles: a cycle is never parked inside MetadataStore's mutex, therefore runs of consecutive SQL statements are atomic steps; in particular the scan's RecordFile upserts, FindCandidates and RecordMigration of one cycle are not interleaved with the other cycle's UpdateTier")
	run.Assume("a stale candidate list survives a crash of the process in the histories (the candidate is re-used after the restart): this over-approximates a retry and models a second process that scanned earlier")
	run.Assume("steady state before the cycle: every file of the layout is registered in the tier metadata (as an earlier cycle's ScanAndRegisterFiles leaves it); MigrationMaxConcurrent=1 so that the event order is deterministic")
	run.Assume("the long-lived handler observer is absent in cases that inject cold-side step failures (copy-write, rollback-delete): the cold backend is then a wrapper and storage.GetStoragePath needs the concrete *LocalBackend; those cases are judged by the fresh observer only")
	run.Assume("the long-lived handler repeats its statement within milliseconds of the cycle; cache TTLs (60 s SQL transform cache, 30 s tier cache) are real wall-clock TTLs and are not advanced")
	run.Assume("a 1-byte file is not valid parquet: for the 1-byte layouts visibility is the file list DuckDB's glob() returns for exactly the paths of the real multi-tier expression; for the parquet layouts the transformed statement is executed and rows are counted")
	run.Finish()
}
