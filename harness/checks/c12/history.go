// C12 — multi-operation histories.
//
// A history is a sequence of 1..3 operations on ONE running process (restart only after a crash), followed by
// one further fault-free RunMigrationCycle (which ends with ReconcileOrphanedFiles):
//
//	cycle              Manager.RunMigrationCycle
//	migrate-stale[f]   Migrator.MigrateFile(candidate of f) where the candidate comes from Migrator.FindCandidates
//	                   called BEFORE the first operation of the history (a stale candidate list: what a retry, or a
//	                   second cycle that scanned earlier, works from)
//	reconcile          Migrator.ReconcileOrphanedFiles alone
//
// Exactly one operation of a history carries a fault, taken from the same enumeration as for a single cycle and
// derived from the recorded events of THAT operation in the fault-free run of THAT history: crash before every
// file-system call (writes also torn) and before every metadata SQL statement, every file-system call returning
// an error, and every single step failure whose step occurs in the operation. The oracle is applied after every
// operation (crash state / state after the operation) and after the final cycle.
package main

import (
	"context"
	"fmt"
	"strings"

	"github.com/basekick-labs/arc/internal/tiering"
	"github.com/basekick-labs/arc/zzverif/engine/ev"
	"github.com/basekick-labs/arc/zzverif/shim/vos"
)

type opDesc struct {
	Op   string `json:"op"`              // cycle | migrate-stale | reconcile
	Role string `json:"file,omitempty"`  // migrate-stale: whose stale candidate
	Plan *plan  `json:"fault,omitempty"` // the fault injected into this operation
}

func (o opDesc) name() string {
	if o.Op == "migrate-stale" {
		return "migrate-stale[" + o.Role + "]"
	}
	return o.Op
}

func (o opDesc) String() string {
	if o.Plan != nil {
		return o.name() + "{" + o.Plan.Label + "}"
	}
	return o.name()
}

func histString(ops []opDesc) string {
	var s []string
	for _, o := range ops {
		s = append(s, o.String())
	}
	return strings.Join(s, " ; ")
}

// staleCandidates asks the real Migrator for its candidate list now; the history uses it later.
func (p *proc) staleCandidates() map[string]tiering.MigrationCandidate {
	cs, err := p.mgr.VerifC12Migrator().FindCandidates(context.Background(), tiering.TierHot, tiering.TierCold)
	must(err, "FindCandidates")
	m := map[string]tiering.MigrationCandidate{}
	for _, c := range cs {
		if r := p.e.roleOf(c.Path); r != "" {
			m[r] = c
		}
	}
	for _, r := range p.e.migratingRoles() {
		if _, ok := m[r]; !ok {
			unbound("FindCandidates does not list the migrating file " + r + " of the layout")
		}
	}
	return m
}

// runOp executes one operation with the plan armed.
func (p *proc) runOp(op opDesc, pl *plan, cands map[string]tiering.MigrationCandidate) (cycleLog, string) {
	pl.ReconcileOp = op.Op == "reconcile"
	if op.Op == "migrate-stale" {
		pl.Roles = []string{op.Role}
	}
	ctx := context.Background()
	outcome := "ok"
	arm(p.e, pl)
	switch op.Op {
	case "cycle":
		if err := p.mgr.RunMigrationCycle(ctx); err != nil {
			disarm()
			unbound("RunMigrationCycle returned an error: " + err.Error())
		}
	case "migrate-stale":
		if err := p.mgr.VerifC12Migrator().MigrateFile(ctx, cands[op.Role]); err != nil {
			outcome = "error"
		}
	case "reconcile":
		found, deleted, errs := p.mgr.VerifC12Migrator().ReconcileOrphanedFiles(ctx)
		outcome = fmt.Sprintf("found=%d,deleted=%d,errors=%d", found, deleted, errs)
	default:
		unbound("unknown operation " + op.Op)
	}
	return disarm(), outcome
}

type histResult struct {
	logs     []cycleLog
	fsLabels [][]string
	outcomes []string
	states   []string
	reached  bool
	bad      int
}

// runHistory executes the operations in order (restart after a crash), then one further fault-free cycle, and
// judges every state.
func runHistory(run *ev.Run, l layout, kind string, ops []opDesc, golden *histResult) histResult {
	e := newEnv(l)
	defer e.remove()
	cd := caseDesc{Layout: l.String(), Kind: kind, Ops: ops}
	j := &judge{run: run, e: e, faults: []string{histString(ops)}, cs: cd, family: "history"}
	for _, o := range ops {
		j.ops = append(j.ops, o.String())
	}
	res := histResult{reached: true}
	wrapCold := false
	faultSoFar := false
	for _, o := range ops {
		if o.Plan != nil {
			for _, s := range o.Plan.Sites {
				if s.Kind == "W0" || s.Kind == "Wm" || s.Kind == "B" {
					wrapCold = true
				}
			}
		}
	}
	p := newProc(e, wrapCold)
	cands := p.staleCandidates()
	for i, op := range ops {
		pl := noFault()
		if op.Plan != nil {
			pl = clonePlan(op.Plan)
			faultSoFar = true
		}
		p.warm()
		lg, outcome := p.runOp(op, pl, cands)
		res.logs = append(res.logs, lg)
		res.outcomes = append(res.outcomes, outcome)
		var lbs []string
		for _, f := range lg.FS {
			lbs = append(lbs, e.fsLabel(f))
		}
		res.fsLabels = append(res.fsLabels, lbs)
		phase := fmt.Sprintf("after-op-%d(%s)", i+1, op.name())
		if pl.isCrash() {
			if !lg.Died {
				res.reached = false
			}
			if golden != nil && lg.Died && pl.CrashFS >= 0 {
				if pl.CrashFS >= len(lbs) || pl.CrashFS >= len(golden.fsLabels[i]) || lbs[pl.CrashFS] != golden.fsLabels[i][pl.CrashFS] {
					nondeterminism(fmt.Sprintf("C12: replay of history %q reached a different file-system call at the crash point", histString(ops)))
				}
			}
			p.close()
			o := observe(e)
			st.crashStates++
			res.states = append(res.states, o.key(e))
			j.intermediate(o, "crash-state-"+phase, "")
			p = newProc(e, wrapCold)
			continue
		}
		if op.Plan != nil {
			want := len(pl.Sites)
			if pl.FailFS >= 0 {
				want = -1
				if pl.FailFS >= len(lg.FS) {
					res.reached = false
				}
			}
			if want >= 0 && len(lg.Fired) != want {
				res.reached = false
			}
			st.faultyCycles++
		}
		o := observe(e)
		res.states = append(res.states, o.key(e))
		// a finished fault-free cycle of a history without any fault so far: the migration and the reconciliation
		// have finished, each row must be visible exactly once
		if op.Op == "cycle" && !faultSoFar {
			j.final(o, phase, "")
		} else {
			j.intermediate(o, phase, "")
		}
		if lo := p.liveObserve(o); lo != nil {
			st.liveJudged++
			if op.Op == "cycle" && !faultSoFar {
				j.final(lo, phase, liveWho(lo, o))
			} else {
				j.intermediate(lo, phase, liveWho(lo, o))
			}
		}
	}
	p.warm()
	lg := p.cycle(noFault())
	res.logs = append(res.logs, lg)
	o := observe(e)
	res.states = append(res.states, "final:"+o.key(e))
	j.final(o, "after-further-fault-free-cycle", "")
	if lo := p.liveObserve(o); lo != nil {
		st.liveJudged++
		if lo.key(e) != o.key(e) || lo.QueryErr != o.QueryErr {
			st.liveDiffers++
		}
		j.final(lo, "after-further-fault-free-cycle", liveWho(lo, o))
	}
	p.close()
	j.flush()
	res.bad = j.bad
	st.cases++
	st.byKind[kind]++
	if res.reached {
		st.reached++
	}
	if res.bad > 0 {
		st.bad++
	}
	for _, s := range res.states {
		st.states[s] = true
	}
	if traceF != nil {
		fmt.Fprintf(traceF, "%s | %s | %s | outcomes=%s reached=%v bad=%d | %s\n", l, kind, histString(ops), strings.Join(res.outcomes, ","), res.reached, res.bad, strings.Join(res.states, " => "))
	}
	return res
}

// opFaults enumerates the single faults of one operation from its recorded fault-free events.
func opFaults(l layout, op opDesc, lg *cycleLog, thorough bool) []*plan {
	e := &env{lay: l, files: l.files()}
	var ps []*plan
	mk := func() *plan { return &plan{CrashFS: -1, Torn: -1, CrashSQL: -1, FailFS: -1} }
	for k, f := range lg.FS {
		lb := labelIn(l, f)
		p := mk()
		p.CrashFS, p.Label = k, "crash-before="+lb
		ps = append(ps, p)
		if f.Kind == "write" {
			for _, t := range tornCuts(f.Len, thorough) {
				p := mk()
				p.CrashFS, p.Torn, p.Label = k, t, "crash-during="+lb
				ps = append(ps, p)
			}
		}
	}
	for k, s := range lg.SQL {
		p := mk()
		p.CrashSQL, p.Label = k, "crash-before="+e.sqlLabel(s)
		ps = append(ps, p)
	}
	for k, f := range lg.FS {
		p := mk()
		p.FailFS, p.Label = k, "fs-error@"+labelIn(l, f)
		ps = append(ps, p)
	}
	// step failures whose step occurs in this operation
	hasSQL := func(class, role string) bool {
		for _, s := range lg.SQL {
			if s.Class == class && s.Role == role {
				return true
			}
		}
		return false
	}
	hotRemoves := func(role string) int {
		n := 0
		for _, f := range lg.FS {
			if f.Kind == "remove" && strings.Contains(f.Path, "/hot/") {
				for _, fl := range e.files {
					if fl.Role == role && strings.HasSuffix(f.Path, "/hot/"+fl.Path) {
						n++
					}
				}
			}
		}
		return n
	}
	for _, r := range e.migratingRoles() {
		if op.Op == "migrate-stale" && r != op.Role {
			continue
		}
		for _, k := range siteOrder {
			occurs := false
			switch k {
			case "R0", "Rm", "W0", "Wm", "I":
				occurs = hasSQL("RecordMigration", r)
			case "M":
				occurs = hasSQL("UpdateTier", r)
			case "C":
				occurs = hasSQL("CompleteMigration", r)
			case "S":
				occurs = hasSQL("RecordFile", r)
			case "D":
				occurs = op.Op != "reconcile" && hotRemoves(r) >= 1
			case "G":
				occurs = (op.Op == "reconcile" && hotRemoves(r) >= 1) || hotRemoves(r) >= 2
			case "B": // the rollback delete only happens after a failed metadata update: never the only failure
			}
			if !occurs {
				continue
			}
			s := site{Kind: k, Role: r}
			p := mk()
			p.Sites, p.Label = []site{s}, e.siteLabel(s)
			ps = append(ps, p)
		}
	}
	return ps
}

type histJob struct {
	l   layout
	ops []opDesc
}

// isNoOp: the operation performed no mutating file-system call and sent no metadata statement
func isNoOp(lg *cycleLog) bool { return len(lg.FS) == 0 && len(lg.SQL) == 0 }

// runHistJob: the fault-free history, then every single fault in every position.
// Reductions (each rests on an executed fact, not on reasoning about the code):
//   - a position is skipped when an EARLIER operation of the history is a verified no-op in the fault-free run (no
//     mutating file-system call, no metadata statement): up to the fault the run equals the fault-free run, so the
//     case equals the one of the history without that operation, which is enumerated on its own;
//   - a fault in a position before a trailing fault-free "cycle" is skipped: every history is followed by a
//     fault-free cycle anyway, so the case equals the one of the history without the trailing cycle followed by
//     two fault-free cycles instead of one (single-cycle faults: the check's one-cycle enumeration).
func runHistJob(run *ev.Run, jb histJob, thorough bool) (complete bool) {
	g := runHistory(run, jb.l, "history", jb.ops, nil)
	st.histories++
	n := len(jb.ops)
	for pos := 0; pos < n; pos++ {
		skip := false
		for k := 0; k < pos; k++ {
			if isNoOp(&g.logs[k]) {
				skip = true
			}
		}
		if pos < n-1 && jb.ops[n-1].Op == "cycle" {
			skip = true
		}
		if skip {
			st.histPruned++
			continue
		}
		for _, pl := range opFaults(jb.l, jb.ops[pos], &g.logs[pos], thorough) {
			if run.TimeUp() {
				return false
			}
			ops := append([]opDesc{}, jb.ops...)
			ops[pos].Plan = pl
			runHistory(run, jb.l, "history+fault", ops, &g)
		}
	}
	return true
}

func histories(alphabet []opDesc, maxLen int) [][]opDesc {
	var out [][]opDesc
	var rec func(cur []opDesc)
	rec = func(cur []opDesc) {
		if len(cur) > 0 {
			out = append(out, append([]opDesc{}, cur...))
		}
		if len(cur) == maxLen {
			return
		}
		for _, a := range alphabet {
			rec(append(cur, a))
		}
	}
	rec(nil)
	return out
}

var _ = vos.Dead
