// C12 — two migration cycles that overlap (the cron run and a manual POST /api/v1/tiering/migrate, or two manual
// requests: both end in Manager.RunMigrationCycle on the SAME Manager).
//
// Both cycles run the real RunMigrationCycle concurrently, each under its own context; the context carries the
// cycle's identity to the storage.Backend wrapper and to the SQL driver wrapper. A cycle parks at the
// SCHEDULING POINTS below and the explorer decides which of the two parked cycles performs its next step, so an
// interleaving is an explicit list "A,A,B,A,...". Between two scheduling points a cycle runs alone.
//
//	scan-list-hot                  ListObjects of the hot tier (the scan)
//	scan-register+find-candidates  RecordFile upsert per listed file, FindCandidates, RecordMigration
//	copy-open[f]                   create/truncate the cold staging file <f>.part, open the hot file, read chunk 1
//	copy-write#k[f]                write chunk k to the staging file (and read chunk k+1 from the hot file)
//	copy-rename[f] / copy-abort[f] close + rename staging -> final / the hot read failed: the staging file stays
//	after-copy[f]:metadata-update  UpdateTier           (after-copy[f]:copy-failed: CompleteMigration(error))
//	rollback-delete-cold[f]        Delete of the cold copy after a failed UpdateTier
//	delete-hot[f]                  Delete of the hot copy (+ empty-directory clean-up, CompleteMigration, the
//	                               reconciliation's query)
//	reconcile-exists-hot[f]        Exists probe of ReconcileOrphanedFiles
//
// These are exactly the calls the check records (file-system calls of both LocalBackends, metadata SQL
// statements) with this coarsening: consecutive SQL statements with no storage call between them are one step,
// and the empty-directory clean-up belongs to the delete step (MetadataStore serialises statements under its own
// mutex; a cycle must not be parked while it holds that mutex).
//
// Exploration: depth-first over ALL interleavings with explicit-state pruning. State = (bytes of every layout
// file in both tiers and of the staging file, tier metadata of every file, per cycle: its own trace of steps and
// SQL statements, its pending step, and whether the staging inode it writes to is still the staging file / has
// become the final file / is unlinked). The step function is deterministic in that state, so a state is
// expanded once. Every distinct DISK state (files + metadata) is then re-reached once more and the process is
// killed there (both cycles die; nothing more reaches disk or database): restart, observation, one fault-free
// cycle, observation — the same oracle as a single cycle's crash point. Every distinct terminal state (both
// cycles finished) is also continued without a restart: observation, [optionally MigrateFile of the stale
// candidate / ReconcileOrphanedFiles], fault-free cycle, observation.
package main

import (
	"context"
	"crypto/sha256"
	"database/sql"
	"fmt"
	"io"
	"os"
	"path/filepath"
	"sort"
	"strings"
	"sync"
	"sync/atomic"
	"syscall"
	"time"

	"github.com/basekick-labs/arc/internal/tiering"
	"github.com/basekick-labs/arc/zzverif/engine/ev"
	"github.com/basekick-labs/arc/zzverif/shim/vos"
)

type thrKey struct{}

// othread = one controlled migration cycle
type othread struct {
	name  string
	sc    *osched
	grant chan struct{}
	free  atomic.Bool // no more parking: run to the end (after a kill, or to wind a run down)

	mu       sync.Mutex
	pending  string
	trace    []string
	done     bool
	err      error
	copies   map[string]chan struct{}
	fdIno    uint64 // inode of the staging file this cycle is writing to (0 = none)
	fdPath   string
	hotDel   map[string]int
	complete int
}

func threadOf(ctx context.Context) *othread {
	if ctx == nil {
		return nil
	}
	t, _ := ctx.Value(thrKey{}).(*othread)
	return t
}

func (t *othread) note(s string) {
	t.mu.Lock()
	t.trace = append(t.trace, s)
	t.mu.Unlock()
}

// yield parks the cycle before the step named label until the explorer grants it.
func (t *othread) yield(label string) {
	if t == nil || t.free.Load() {
		return
	}
	t.mu.Lock()
	t.pending = label
	t.mu.Unlock()
	t.sc.events <- t
	<-t.grant
	t.note(label)
}

func (t *othread) copyChan(path string) chan struct{} {
	t.mu.Lock()
	defer t.mu.Unlock()
	c := t.copies[path]
	if c == nil {
		c = make(chan struct{})
		t.copies[path] = c
	}
	return c
}

// awaitCopyOpen: the reading half of copyFileStreaming must not open the hot file before the copy's first step
// has been granted (both halves start at the same time in their own goroutines).
func (t *othread) awaitCopyOpen(path string) {
	if t == nil || t.free.Load() {
		return
	}
	<-t.copyChan(path)
}

func (t *othread) copyOpened(path string) {
	c := t.copyChan(path)
	select {
	case <-c:
	default:
		close(c)
	}
}

// gated wraps the stream the cold backend's WriteReader consumes: one scheduling point per chunk, after the chunk
// has been read from the hot file and before it is written to the staging file.
func (t *othread) gated(r io.Reader, role, staging string) io.Reader {
	if t == nil {
		return r
	}
	return &gatedReader{t: t, r: r, role: role, staging: staging}
}

type gatedReader struct {
	t       *othread
	r       io.Reader
	role    string
	staging string
	n       int
	seen    bool
}

func inode(path string) uint64 {
	fi, err := os.Stat(path)
	if err != nil {
		return 0
	}
	if st, ok := fi.Sys().(*syscall.Stat_t); ok {
		return st.Ino
	}
	return 0
}

func (g *gatedReader) Read(p []byte) (int, error) {
	n, err := g.r.Read(p)
	if !g.seen {
		// WriteReader has created/truncated the staging file just before its first Read, and no other cycle has run
		// since: the staging file's inode is the one this cycle's descriptor refers to
		g.seen = true
		g.t.mu.Lock()
		g.t.fdIno, g.t.fdPath = inode(g.staging), g.staging
		g.t.mu.Unlock()
	}
	switch {
	case n > 0:
		g.n++
		g.t.yield(fmt.Sprintf("copy-write#%d%s", g.n, g.role))
	case err == io.EOF:
		g.t.yield("copy-rename" + g.role)
	default:
		g.t.yield("copy-abort" + g.role)
	}
	return n, err
}

func (t *othread) copyClosed() {
	if t == nil {
		return
	}
	t.mu.Lock()
	t.fdIno, t.fdPath = 0, ""
	t.mu.Unlock()
}

type osched struct {
	events  chan *othread
	threads []*othread
}

func (sc *osched) spawn(name string, body func(ctx context.Context) error) *othread {
	t := &othread{name: name, sc: sc, grant: make(chan struct{}, 1), copies: map[string]chan struct{}{}, hotDel: map[string]int{}}
	sc.threads = append(sc.threads, t)
	ctx := context.WithValue(context.Background(), thrKey{}, t)
	go func() {
		t.yield("start")
		err := body(ctx)
		t.mu.Lock()
		t.err, t.done, t.pending = err, true, ""
		t.mu.Unlock()
		sc.events <- t
	}()
	return t
}

// wait receives the next "parked" / "finished" notification. A cycle that neither parks nor finishes is blocked on
// something the scheduling points do not cover (e.g. a lock that serialises cycles): the check cannot bind.
func (sc *osched) wait() *othread {
	select {
	case t := <-sc.events:
		return t
	case <-time.After(120 * time.Second):
		unbound("C12 overlap: a migration cycle neither reached a scheduling point nor finished within 120 s (cycles serialised by a blocking lock?)")
		return nil
	}
}

func (sc *osched) step(t *othread) {
	t.grant <- struct{}{}
	if u := sc.wait(); u != t {
		nondeterminism("C12 overlap: a cycle moved that had not been granted a step")
	}
}

// ------------------------------------------------------------------ one execution of an interleaving

type ovlExec struct {
	run   *ev.Run
	l     layout
	e     *env
	p     *proc
	sc    *osched
	cands map[string]tiering.MigrationCandidate
	meta  *sql.DB
	plan  *plan
	sched []string // cycle names in the order their steps were granted
	steps []string // the step each grant executed
	armed bool
}

func startOvl(run *ev.Run, l layout, pl *plan) *ovlExec {
	x := &ovlExec{run: run, l: l, plan: clonePlan(pl)}
	x.e = newEnv(l)
	x.p = newProc(x.e, true)
	x.cands = x.p.staleCandidates()
	var err error
	x.meta, err = sql.Open("sqlite3", x.e.dbPath+"?_journal_mode=WAL&_busy_timeout=5000")
	must(err, "sql.Open")
	x.p.warm()
	arm(x.e, x.plan)
	x.armed = true
	x.sc = &osched{events: make(chan *othread)}
	for _, n := range []string{"A", "B"} {
		x.sc.spawn(n, func(ctx context.Context) error { return x.p.mgr.RunMigrationCycle(ctx) })
	}
	x.sc.wait()
	x.sc.wait()
	return x
}

func (x *ovlExec) thread(name string) *othread {
	for _, t := range x.sc.threads {
		if t.name == name {
			return t
		}
	}
	return nil
}

func (x *ovlExec) enabled() []*othread {
	var en []*othread
	for _, t := range x.sc.threads {
		t.mu.Lock()
		d := t.done
		t.mu.Unlock()
		if !d {
			en = append(en, t)
		}
	}
	return en
}

func (x *ovlExec) step(t *othread) {
	t.mu.Lock()
	lb := t.pending
	t.mu.Unlock()
	x.sched = append(x.sched, t.name)
	x.steps = append(x.steps, t.name+":"+lb)
	x.sc.step(t)
}

// replay re-executes a recorded interleaving; the steps must be the recorded ones (the harness owns the order).
func (x *ovlExec) replay(sched, steps []string) {
	for i, n := range sched {
		t := x.thread(n)
		t.mu.Lock()
		d, lb := t.done, t.pending
		t.mu.Unlock()
		if d || (steps != nil && n+":"+lb != steps[i]) {
			nondeterminism(fmt.Sprintf("C12 overlap: replay of %v diverged at step %d: cycle %s is at %q (finished=%v), recorded %q", sched, i, n, lb, d, steps[i]))
		}
		x.step(t)
	}
}

func short(b []byte) string {
	h := sha256.Sum256(b)
	return fmt.Sprintf("%x", h[:4])
}

func fileStatus(full string, want []byte) string {
	b, err := os.ReadFile(full)
	switch {
	case err != nil:
		return "absent"
	case string(b) == string(want):
		return "ok"
	}
	return fmt.Sprintf("corrupt(%dB:%s)", len(b), short(b))
}

// disk describes files and metadata; per file "F[meta=.. hot=.. cold=.. part=..]"
func (x *ovlExec) disk() (string, map[string]string) {
	tiers := map[string]string{}
	rows, err := x.meta.Query("SELECT path, tier FROM tier_files")
	must(err, "read tier_files")
	for rows.Next() {
		var p, t string
		rows.Scan(&p, &t)
		tiers[p] = t
	}
	rows.Close()
	per := map[string]string{}
	var all []string
	for _, f := range x.e.files {
		m := tiers[f.Path]
		if m == "" {
			m = "none"
		}
		part := "absent"
		if b, err := os.ReadFile(filepath.Join(x.e.coldRoot, f.Path) + ".part"); err == nil {
			switch {
			case len(b) == len(f.Content) && string(b) == string(f.Content):
				part = "complete"
			case len(b) <= len(f.Content) && string(b) == string(f.Content[:len(b)]):
				part = fmt.Sprintf("prefix(%dB)", len(b))
			default:
				part = fmt.Sprintf("other(%dB:%s)", len(b), short(b))
			}
		}
		s := fmt.Sprintf("%s[meta=%s hot=%s cold=%s staging=%s]", f.Role, m, fileStatus(filepath.Join(x.e.hotRoot, f.Path), f.Content),
			fileStatus(filepath.Join(x.e.coldRoot, f.Path), f.Content), part)
		per[f.Role] = s
		all = append(all, s)
	}
	return strings.Join(all, " "), per
}

func (x *ovlExec) stateKey(disk string) string {
	var ts []string
	for _, t := range x.sc.threads {
		t.mu.Lock()
		k := fmt.Sprintf("done=%v next=%s trace=%s", t.done, t.pending, strings.Join(t.trace, ","))
		if t.fdIno != 0 {
			final := strings.TrimSuffix(t.fdPath, ".part")
			switch t.fdIno {
			case inode(t.fdPath):
				k += " fd=staging"
			case inode(final):
				k += " fd=final"
			default:
				k += " fd=unlinked"
			}
		}
		if len(x.plan.Sites) > 0 { // a targeted failure makes the two cycles distinguishable
			k = t.name + ":" + k
		}
		t.mu.Unlock()
		ts = append(ts, k)
	}
	sort.Strings(ts)
	var fired []string
	gate.mu.Lock()
	for i := range x.plan.Sites {
		fired = append(fired, fmt.Sprint(x.plan.fired[i]))
	}
	gate.mu.Unlock()
	return disk + " || " + strings.Join(ts, " || ") + " || fired=" + strings.Join(fired, ",")
}

// kill: the process dies here. Nothing reaches the disk or the database any more; the parked cycles are released
// and wind down against a dead file system / dead database.
func (x *ovlExec) kill() {
	gate.mu.Lock()
	gate.dead = true
	gate.mu.Unlock()
	vos.Start(0, -1)
	x.windDown()
}

// windDown lets the unfinished cycles run to their end, one after the other.
func (x *ovlExec) windDown() {
	for _, t := range x.enabled() {
		t.free.Store(true)
		x.sc.step(t)
	}
}

func (x *ovlExec) disarm() cycleLog {
	if !x.armed {
		return cycleLog{}
	}
	x.armed = false
	return disarm()
}

func (x *ovlExec) end() {
	x.disarm()
	if x.p != nil {
		x.p.close()
	}
	x.meta.Close()
	x.e.remove()
}

// ------------------------------------------------------------------ exploration of one (layout, fault) pair

type ovlJob struct {
	l       layout
	plan    *plan  // step failures injected into one of the cycles (nil: none)
	follows bool   // continue every terminal state with MigrateFile(stale candidate) / ReconcileOrphanedFiles
	maxRuns int    // 0 = unbounded
	label   string // "no-fault" or the failure's label
}

type ovlPoint struct {
	sched, steps []string
	disk         string
	terminal     bool
}

type ovlStats struct {
	states, runs, diskStates, terminals, maxDepth int
	complete                                      bool
}

func exploreOverlap(run *ev.Run, jb ovlJob) ovlStats {
	pl := jb.plan
	if pl == nil {
		pl = noFault()
	}
	visited := map[string]bool{}
	diskSeen := map[string]bool{}
	var points []ovlPoint // first interleaving that reached each distinct disk state (terminal or not)
	termSeen := map[string]bool{}
	type todo struct{ sched, steps []string }
	stack := []todo{{}}
	stt := ovlStats{complete: true}
	for len(stack) > 0 {
		if run.TimeUp() || (jb.maxRuns > 0 && stt.runs >= jb.maxRuns) {
			stt.complete = false
			break
		}
		td := stack[len(stack)-1]
		stack = stack[:len(stack)-1]
		x := startOvl(run, jb.l, pl)
		stt.runs++
		x.replay(td.sched, td.steps)
		for {
			disk, _ := x.disk()
			key := x.stateKey(disk)
			if visited[key] {
				x.kill()
				break
			}
			visited[key] = true
			stt.states++
			en := x.enabled()
			dk := disk
			if len(en) == 0 {
				dk = "terminal:" + disk
			}
			if !diskSeen[dk] {
				diskSeen[dk] = true
				points = append(points, ovlPoint{append([]string{}, x.sched...), append([]string{}, x.steps...), disk, len(en) == 0})
			}
			if len(en) == 0 {
				if !termSeen[disk] {
					termSeen[disk] = true
					stt.terminals++
				}
				break
			}
			if len(x.sched) > stt.maxDepth {
				stt.maxDepth = len(x.sched)
			}
			for _, alt := range en[1:] {
				alt.mu.Lock()
				lb := alt.pending
				alt.mu.Unlock()
				stack = append(stack, todo{append(append([]string{}, x.sched...), alt.name), append(append([]string{}, x.steps...), alt.name+":"+lb)})
			}
			x.step(en[0])
		}
		x.end()
	}
	stt.diskStates = len(points)
	st.ovlStates += int64(stt.states)
	st.ovlRuns += int64(stt.runs)
	defer func() {
		k := "ovlstat:" + jb.l.String() + " | " + jb.label + " | "
		st.extra[k+"states"], st.extra[k+"executions"], st.extra[k+"distinct_disk_states"] = int64(stt.states), int64(stt.runs), int64(stt.diskStates)
		st.extra[k+"distinct_terminal_states"], st.extra[k+"longest_interleaving"], st.extra[k+"complete"] = int64(stt.terminals), int64(stt.maxDepth), int64(b2i(stt.complete))
	}()
	// every distinct disk state: the process dies there
	for _, pt := range points {
		if run.TimeUp() {
			stt.complete = false
			break
		}
		if !pt.terminal {
			ovlCase(run, jb, pt, "kill", nil)
			continue
		}
		ovlCase(run, jb, pt, "kill", nil)
		ovlCase(run, jb, pt, "continue", nil)
		if jb.follows {
			for _, f := range jb.l.files() {
				if f.Migr {
					ovlCase(run, jb, pt, "continue", &opDesc{Op: "migrate-stale", Role: f.Role})
				}
			}
			ovlCase(run, jb, pt, "continue", &opDesc{Op: "reconcile"})
		}
	}
	if traceF != nil {
		fmt.Fprintf(traceF, "%s | overlap | %s | states=%d runs=%d disk-states=%d terminals=%d depth=%d complete=%v\n", jb.l, jb.label, stt.states, stt.runs, stt.diskStates, stt.terminals, stt.maxDepth, stt.complete)
	}
	return stt
}

type ovlDesc struct {
	Schedule []string `json:"interleaving"` // cycle names in the order their steps run
	Steps    []string `json:"steps"`
	Mode     string   `json:"mode"` // kill (process dies after the last step) | continue (both cycles run to their end)
	Then     *opDesc  `json:"then,omitempty"`
}

// ovlCase re-executes an interleaving up to a point and judges what follows.
func ovlCase(run *ev.Run, jb ovlJob, pt ovlPoint, mode string, then *opDesc) int {
	pl := jb.plan
	if pl == nil {
		pl = noFault()
	}
	x := startOvl(run, jb.l, pl)
	e := x.e
	cd := caseDesc{Layout: jb.l.String(), Kind: "overlap", Plans: nil, Overlap: &ovlDesc{pt.sched, pt.steps, mode, then}}
	if jb.plan != nil {
		cd.Plans = []*plan{jb.plan}
	}
	j := &judge{run: run, e: e, faults: []string{jb.label}, cs: cd, family: "overlap"}
	x.replay(pt.sched, pt.steps)
	kind := "overlap+kill"
	var states []string
	if mode == "kill" {
		x.kill()
		x.disarm()
		x.p.close()
		o := observe(e)
		st.crashStates++
		states = append(states, o.key(e))
		j.intermediate(o, "crash-state-during-overlapping-cycles", "")
		x.p = newProc(e, true)
	} else {
		kind = "overlap+continue"
		if len(x.enabled()) != 0 {
			unbound("C12 overlap: a terminal interleaving is not terminal on replay")
		}
		x.disarm()
		if then == nil {
			o := observe(e)
			states = append(states, o.key(e))
			j.intermediate(o, "after-op-overlapping-cycles", "")
		} else { // (the state the two cycles leave is judged by the case without a further operation)
			kind = "overlap+continue+" + then.Op
			j.faults = []string{jb.label, then.name()}
			x.p.runOp(*then, noFault(), x.cands)
			o := observe(e)
			states = append(states, o.key(e))
			j.intermediate(o, "after-op-"+then.name(), "")
		}
	}
	x.p.warm()
	x.p.cycle(noFault())
	o := observe(e)
	states = append(states, "final:"+o.key(e))
	j.final(o, "after-further-fault-free-cycle", "")
	j.flush()
	x.end()
	st.cases++
	st.reached++
	st.byKind[kind]++
	if j.bad > 0 {
		st.bad++
	}
	for _, s := range states {
		st.states[s] = true
	}
	if traceF != nil {
		fmt.Fprintf(traceF, "%s | %s | %s | %s | bad=%d | %s\n", jb.l, kind, jb.label, strings.Join(pt.steps, ","), j.bad, strings.Join(states, " => "))
	}
	return j.bad
}
