// Types and helpers shared by the C26 driver (main.go, tag !c26worker) and its worker (worker.go, tag
// c26worker). No build tag: compiled into both binaries.
package main

import (
	"strconv"
	"strings"
)

// Case is one enumerated input. Two shapes:
//
//   - time-grid case (Hist == ""): original at T0+FirstS+Phi1Ns, byte-identical replay DelayNs later,
//     optionally with unrelated traffic every 61 s in between (Ticks);
//   - history case (Hist != ""): a sequence of events on ONE handler + nonce cache, written as
//     space-separated tokens: "+<seconds>" advances the virtual clock, "M" is the first delivery of the
//     message under test (signed timestamp = receiver second at that moment + OffS), "U" an unrelated
//     authentic message of the same sender with a fresh nonce, "V" an authentic message of ANOTHER node
//     id carrying the same nonce as M, "R" the byte-identical replay of M. U and V are stamped with the
//     receiver's current second. Example: "+0 M +541 U +0 R".
//     CONNECTIONS (sites served over a long-lived connection: the three HTTP sites and forward-apply):
//     every delivery of a history travels over the history's ONE keep-alive connection to the ONE
//     long-lived server, except a delivery whose token carries the suffix "f" ("Rf"): that one is sent
//     over a FRESH connection opened for it (and kept open until the history ends). Example:
//     "+0 M +0 U +0 Rf" = M and U back to back on the keep-alive connection, the replay from a second one.
//
// Case must stay comparable (map key, == on observations).
type Case struct {
	Site    string `json:"site"`
	OffS    int64  `json:"ts_offset_s"`     // signed timestamp minus receiver's unix second at first receipt
	DelayNs int64  `json:"replay_delay_ns"` // replay arrival minus first receipt (time-grid cases)
	Phi1Ns  int64  `json:"recv_phase_ns"`   // sub-second phase of the first receipt
	FirstS  int64  `json:"first_receipt_after_construction_s"`
	Ticks   bool   `json:"eviction_ticks"` // unrelated valid traffic every 61 s between the two arrivals
	Hist    string `json:"history,omitempty"`
}

type Obs struct {
	Case       Case   `json:"case"`
	TolS       int64  `json:"tolerance_s"`
	TTLNs      int64  `json:"nonce_ttl_ns"`
	Orig       string `json:"original"` // accepted | rejected:<why>
	Replay     string `json:"replay"`
	OrigDrift  int64  `json:"original_drift_s"` // receiver second minus signed timestamp
	ReplDrift  int64  `json:"replay_drift_s"`
	ElapsedNs  int64  `json:"replay_after_original_ns"` // replay arrival minus first receipt (both shapes)
	TicksSent  int    `json:"ticks_sent"`               // unrelated deliveries (ticks, U, V)
	TicksTaken int    `json:"ticks_accepted"`
	Events     string `json:"events,omitempty"` // history cases: every delivery with its virtual time and outcome
}

type Class struct {
	Kind     string `json:"kind"`
	Site     string `json:"site"`
	Region   string `json:"region"`
	Count    int    `json:"count"`
	Min      Obs    `json:"min"`
	MaxDelay int64  `json:"max_replay_delay_ns"`
	MinOff   int64  `json:"min_ts_offset_s"`
	MaxOff   int64  `json:"max_ts_offset_s"`
	// where the minimal case sits in the enumeration: its global index (1-based, the order of
	// enumerate*/enumerateHist, identical in every run of a tier) and the shard that ran it. Used when
	// the case does not reproduce on its own: the shard's whole case sequence up to it is re-run.
	MinIdx   int `json:"min_case_index"`
	MinShard int `json:"min_case_shard"`
}

// SeqSpec names a prefix of one worker's deterministic case sequence: the cases of shard Shard (of Of)
// of tier Tier with enumeration index <= Upto, run in enumeration order in ONE process.
type SeqSpec struct {
	Tier  string `json:"tier"`
	Shard int    `json:"shard"`
	Of    int    `json:"of"`
	Upto  int    `json:"upto_case_index"`
	// measured by the re-run
	Cases      int `json:"cases_in_sequence"`
	Deliveries int `json:"deliveries_in_sequence"`
}

// SeqReplay is the replay object of a violation that only shows after the preceding deliveries of the
// worker's own sequence (kind ...|depends-on-preceding-deliveries).
type SeqReplay struct {
	Case     Case    `json:"case"`
	Observed Obs     `json:"observed"`
	Sequence SeqSpec `json:"sequence"`
	Isolated []Obs   `json:"observed_in_isolation"`
}

type SiteInfo struct {
	TolNs int64 `json:"tolerance_ns"`
	TTLNs int64 `json:"nonce_ttl_ns"`
}

type WorkerOut struct {
	Sites           map[string]SiteInfo `json:"sites"`
	Cases           int                 `json:"cases"`
	HistCases       int                 `json:"history_cases"`
	HistByLen       map[string]int      `json:"history_cases_by_shape"`
	Deliveries      int                 `json:"deliveries"`
	NonTrivial      int                 `json:"nontrivial"`
	HistNonTrivial  int                 `json:"history_nontrivial"`
	Outcomes        map[string]int      `json:"outcomes"`
	Classes         []Class             `json:"classes"`
	Samples         []Obs               `json:"samples"`
	ClockReads      int64               `json:"clock_reads"`
	FreshRejected   int                 `json:"fresh_rejected"`
	Exhaustive      bool                `json:"exhaustive"`
	Errors          []string            `json:"errors"`
	DenseDelaysDone int                 `json:"dense_delays_done"` // thorough: whole-second delays of the dense grid completed (all sites)
	Retried         int                 `json:"cases_retried"`     // cases re-run once because a handler could not be driven
	GridOffsets     map[string]int      `json:"grid_offsets"`
	GridDelays      map[string]int      `json:"grid_delays"`
	AcceptedOrigin  map[string]int      `json:"accepted_originals"`
	// sweep/eviction periods of the nonce cache: every package-level time.Duration constant or variable
	// of nonce_cache.go (name -> ns), read from the compiled package; the history grid is built around them
	Intervals        map[string]int64   `json:"cache_duration_constants"`
	IntervalsAssumed bool               `json:"cache_interval_assumed_60s"`
	HistGaps         map[string][]int64 `json:"history_gap_grid_s"`
	HistFreshGaps    map[string][]int64 `json:"history_fresh_conn_quick_gap_grid_s"` // quick's reduced grid for the Rf variants
	UnrelatedSeen    map[string]int     `json:"unrelated_deliveries"`                // "<site>:<U|V>=<outcome>" -> n
	// connection accounting per site: deliveries served on a connection that had already served an
	// earlier request (keep-alive reuse), deliveries on a fresh connection opened for them, connections
	// the server closed under the harness (re-dialled)
	ConnReused     map[string]int `json:"conn_reused_deliveries"`
	ConnFresh      map[string]int `json:"conn_fresh_deliveries"`
	ConnReconnects map[string]int `json:"conn_reconnects"`
	// -upto runs: the observation of the target case (nil when the index is not in this shard)
	Target *Obs `json:"target,omitempty"`
}

// histFresh: does the history deliver anything over a fresh connection (a token with suffix "f")?
func histFresh(h string) bool {
	for _, t := range strings.Fields(h) {
		if t[0] != '+' && len(t) > 1 && t[len(t)-1] == 'f' {
			return true
		}
	}
	return false
}

// histShape: the delivery letters of a history ("MUR"; connection suffixes dropped), the sum of all
// advances and the sum of the advances between M and R (seconds).
func histShape(h string) (shape string, total, mToR int64) {
	afterM := false
	for _, t := range strings.Fields(h) {
		if t[0] == '+' {
			n, _ := strconv.ParseInt(t[1:], 10, 64)
			total += n
			if afterM {
				mToR += n
			}
			continue
		}
		t = t[:1]
		shape += t
		if t == "M" {
			afterM = true
		}
		if t == "R" {
			afterM = false
		}
	}
	return
}

// caseLess is the total order used to pick the minimal case of a violation class: a plain
// original+replay pair precedes every history (a class such a pair exhibits keeps the signature it
// always had), a history (at most 4 deliveries) precedes a pair with eviction ticks in between (one
// delivery per 61 s); histories order by number of deliveries, time between M and R, total time,
// |offset|, then text (so a history whose deliveries all use the keep-alive connection precedes the same
// history with the replay on a fresh connection: "... R" < "... Rf").
func caseLess(a, b Case) bool {
	rank := func(c Case) int { // plain pair < history < pair with eviction ticks (up to a dozen deliveries)
		switch {
		case c.Hist != "":
			return 1
		case c.Ticks:
			return 2
		}
		return 0
	}
	if ra, rb := rank(a), rank(b); ra != rb {
		return ra < rb
	}
	absneg := func(c Case) (int64, int64) {
		if c.OffS < 0 {
			return -c.OffS, 1
		}
		return c.OffS, 0
	}
	if a.Hist != "" {
		sa, ta, ma := histShape(a.Hist)
		sb, tb, mb := histShape(b.Hist)
		aa, na := absneg(a)
		ab, nb := absneg(b)
		x := [5]int64{int64(len(sa)), ma, ta, aa, na}
		y := [5]int64{int64(len(sb)), mb, tb, ab, nb}
		for i := range x {
			if x[i] != y[i] {
				return x[i] < y[i]
			}
		}
		if a.Hist != b.Hist {
			return a.Hist < b.Hist
		}
		return a.Site < b.Site
	}
	k := func(c Case) [6]int64 {
		t := int64(0)
		if c.Ticks {
			t = 1
		}
		ab, neg := absneg(c)
		return [6]int64{t, c.FirstS, c.Phi1Ns, c.DelayNs, ab, neg}
	}
	x, y := k(a), k(b)
	for i := range x {
		if x[i] != y[i] {
			return x[i] < y[i]
		}
	}
	return false
}
