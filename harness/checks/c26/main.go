//go:build !c26worker

// C26 — Nonce-protected cluster requests cannot be replayed (exploration: exhaustive time grid +
// exhaustive multi-event histories on one cache).
//
// Two stages, because the code under test reads time.Now() directly and has no clock seam:
//
//  1. this driver (built by ./check) GENERATES, from the current /repo working tree,
//     - clock-rewritten copies of internal/cluster/security/{nonce_cache,auth,edgesync_auth}.go
//     (`time.Now` -> `verifNow`, nothing else touched),
//     - in-package accessors that evaluate, inside their own package, the very expressions the
//     call sites use to build their nonce caches and to pass tolerances
//     (Coordinator.Start, handleForwardApply, handleReplicateSync, api.receiveFile/reconcile),
//     - a worker source file with the cmd/arc/main.go construction-site expressions
//     (package-level constants of package main substituted by their defining expressions),
//     writes a `go build -overlay` file and builds the worker (worker.go, tag c26worker);
//  2. the worker processes enumerate the time grid against the REAL handlers
//     (handlePeerConnection over net.Pipe - forward-apply on ONE persistent peer connection per case -,
//     fiber handlers behind ONE long-lived fasthttp server per case, requests written back to back on an
//     in-memory keep-alive connection, the replay also from a fresh connection) under the virtual clock;
//  3. the minimal case of every violating class is re-run alone (fresh process, twice); a case that does
//     not reproduce alone is re-run as the last case of its worker's whole case sequence (twice) and, if
//     that reproduces, reported with signature suffix |depends-on-preceding-deliveries.
//
// Nothing under /repo is edited. If any binding step fails the check exits 2 (HARNESS-UNBOUND).
package main

import (
	"bytes"
	"encoding/json"
	"fmt"
	"go/ast"
	"go/parser"
	"go/token"
	"os"
	"os/exec"
	"path/filepath"
	"sort"
	"strconv"
	"strings"
	"sync"
	"time"

	"github.com/basekick-labs/arc/zzverif/engine/ev"
)

const (
	repo        = "/repo"
	harnessDir  = "/verif/harness"
	secPkgDir   = "internal/cluster/security"
	secPkgPath  = "github.com/basekick-labs/arc/internal/cluster/security"
	clusterDir  = "internal/cluster"
	apiDir      = "internal/api"
	apiPkgPath  = "github.com/basekick-labs/arc/internal/api"
	mainPkgDir  = "cmd/arc"
	fiberPath   = "github.com/gofiber/fiber/v2"
	workerGenGo = harnessDir + "/checks/c26/zz_gen_sites.go"
)

func unbound(format string, a ...any) { ev.Unbound("C26: " + fmt.Sprintf(format, a...)) }

// ---------------------------------------------------------------------------------------------
// parsing helpers

type parsed struct {
	rel  string
	src  []byte
	fset *token.FileSet
	f    *ast.File
}

// srcOverlay (test facility, env VERIF_C26_SRC_OVERLAY=<go overlay json>) lets a mutated or patched
// copy of a repository file stand in for the file itself, so detection experiments and fix
// verification never edit /repo. Every read of a repository source goes through readRepo, and the
// same replacements are passed on to `go build -overlay`. Recorded in the evidence when used.
var srcOverlay = map[string]string{}

func loadSrcOverlay() {
	// VERIF_REPLACE="repo/rel/file.go=/abs/replacement.go,..." is the framework-wide form of the same
	// facility (./check hands it to overlaygen for the DRIVER build only; the worker is built by this
	// driver with its own overlay, so the replacements have to be carried over here or a variant of
	// the repository would silently be checked as the unchanged tree).
	if env := os.Getenv("VERIF_REPLACE"); env != "" {
		for _, kv := range strings.Split(env, ",") {
			p := strings.SplitN(kv, "=", 2)
			if len(p) != 2 || p[0] == "" {
				continue
			}
			src := p[1]
			if !filepath.IsAbs(src) {
				src = filepath.Join(harnessDir, src)
			}
			if _, err := os.Stat(src); err != nil {
				unbound("VERIF_REPLACE: %v", err)
			}
			srcOverlay[filepath.Join(repo, p[0])] = src
		}
	}
	p := os.Getenv("VERIF_C26_SRC_OVERLAY")
	if p == "" {
		return
	}
	b, err := os.ReadFile(p)
	if err != nil {
		unbound("VERIF_C26_SRC_OVERLAY: %v", err)
	}
	var o struct{ Replace map[string]string }
	if err := json.Unmarshal(b, &o); err != nil {
		unbound("VERIF_C26_SRC_OVERLAY: %v", err)
	}
	for k, v := range o.Replace {
		if !strings.HasPrefix(k, repo+"/") {
			unbound("VERIF_C26_SRC_OVERLAY: %s is not under %s", k, repo)
		}
		srcOverlay[k] = v
	}
}

func readRepo(abs string) ([]byte, error) {
	if r, ok := srcOverlay[abs]; ok {
		return os.ReadFile(r)
	}
	return os.ReadFile(abs)
}

func parseRel(rel string) *parsed {
	p := filepath.Join(repo, rel)
	src, err := readRepo(p)
	if err != nil {
		unbound("cannot read %s: %v", p, err)
	}
	fset := token.NewFileSet()
	f, err := parser.ParseFile(fset, p, src, parser.SkipObjectResolution)
	if err != nil {
		unbound("cannot parse %s: %v", p, err)
	}
	return &parsed{rel: rel, src: src, fset: fset, f: f}
}

func (p *parsed) off(pos token.Pos) int  { return p.fset.Position(pos).Offset }
func (p *parsed) text(n ast.Node) string { return string(p.src[p.off(n.Pos()):p.off(n.End())]) }
func (p *parsed) where(n ast.Node) string {
	return fmt.Sprintf("%s:%d", p.rel, p.fset.Position(n.Pos()).Line)
}

// imports returns local name -> import path.
func (p *parsed) imports() map[string]string {
	m := map[string]string{}
	for _, im := range p.f.Imports {
		path, _ := strconv.Unquote(im.Path.Value)
		name := ""
		if im.Name != nil {
			name = im.Name.Name
		} else {
			parts := strings.Split(path, "/")
			name = parts[len(parts)-1]
			if len(parts) > 1 && len(name) >= 2 && name[0] == 'v' && strings.Trim(name[1:], "0123456789") == "" {
				name = parts[len(parts)-2]
			}
			if i := strings.Index(name, "."); i > 0 { // gopkg.in/yaml.v3
				name = name[:i]
			}
		}
		if name == "_" || name == "." {
			continue
		}
		m[name] = path
	}
	return m
}

func (p *parsed) localName(path string) string {
	for n, ip := range p.imports() {
		if ip == path {
			return n
		}
	}
	return ""
}

func isPkgSel(e ast.Expr, pkg, sel string) bool {
	s, ok := e.(*ast.SelectorExpr)
	if !ok || s.Sel.Name != sel {
		return false
	}
	id, ok := s.X.(*ast.Ident)
	return ok && id.Name == pkg && pkg != ""
}

func goFiles(dirRel string) []string {
	ents, err := os.ReadDir(filepath.Join(repo, dirRel))
	if err != nil {
		unbound("cannot list %s: %v", dirRel, err)
	}
	var out []string
	for _, e := range ents {
		n := e.Name()
		if e.IsDir() || !strings.HasSuffix(n, ".go") || strings.HasSuffix(n, "_test.go") {
			continue
		}
		out = append(out, filepath.Join(dirRel, n))
	}
	sort.Strings(out)
	return out
}

// ---------------------------------------------------------------------------------------------
// a found expression together with what is needed to re-evaluate it in a generated file

type siteExpr struct {
	p     *parsed
	expr  ast.Expr
	fn    *ast.FuncDecl // enclosing function (nil for package main resolution)
	text  string
	where string
}

// importsUsed: local import names that appear as the base of a selector inside e.
func importsUsed(p *parsed, e ast.Node) map[string]string {
	im := p.imports()
	used := map[string]string{}
	ast.Inspect(e, func(n ast.Node) bool {
		if s, ok := n.(*ast.SelectorExpr); ok {
			if id, ok := s.X.(*ast.Ident); ok {
				if path, ok := im[id.Name]; ok {
					used[id.Name] = path
				}
			}
		}
		return true
	})
	return used
}

// findCalls returns every call of pkgPath.fn in the non-test files of dirRel.
func findCalls(dirRel, pkgPath, fn string) []siteExpr {
	var out []siteExpr
	for _, rel := range goFiles(dirRel) {
		src, _ := readRepo(filepath.Join(repo, rel))
		if !bytes.Contains(src, []byte(fn)) {
			continue
		}
		p := parseRel(rel)
		name := p.localName(pkgPath)
		for _, d := range p.f.Decls {
			fd, ok := d.(*ast.FuncDecl)
			if !ok || fd.Body == nil {
				continue
			}
			ast.Inspect(fd.Body, func(n ast.Node) bool {
				if c, ok := n.(*ast.CallExpr); ok && isPkgSel(c.Fun, name, fn) {
					out = append(out, siteExpr{p: p, expr: c, fn: fd, text: p.text(c), where: p.where(c)})
				}
				return true
			})
		}
	}
	return out
}

func one(what string, l []siteExpr) siteExpr {
	if len(l) != 1 {
		var w []string
		for _, s := range l {
			w = append(w, s.where)
		}
		unbound("expected exactly one %s, found %d %v", what, len(l), w)
	}
	return l[0]
}

func lastArg(s siteExpr) siteExpr {
	c := s.expr.(*ast.CallExpr)
	if len(c.Args) == 0 {
		unbound("%s: call has no arguments", s.where)
	}
	a := c.Args[len(c.Args)-1]
	return siteExpr{p: s.p, expr: a, fn: s.fn, text: s.p.text(a), where: s.p.where(a)}
}

// funcContainsTrack: the enclosing function must also consult a nonce cache (validate-then-Track).
func containsTrack(s siteExpr) bool {
	found := false
	ast.Inspect(s.fn.Body, func(n ast.Node) bool {
		if c, ok := n.(*ast.CallExpr); ok {
			if sel, ok := c.Fun.(*ast.SelectorExpr); ok && sel.Sel.Name == "Track" && len(c.Args) == 2 {
				found = true
			}
		}
		return true
	})
	return found
}

func recvText(s siteExpr) string {
	if s.fn == nil || s.fn.Recv == nil || len(s.fn.Recv.List) != 1 {
		return ""
	}
	return s.p.text(s.fn.Recv.List[0])
}

// ---------------------------------------------------------------------------------------------
// clock rewrite of the security package (generated from the current files, every run)

var clockFuncs = map[string]string{"Now": "verifNow", "Since": "verifSince", "Until": "verifUntil"}

// rewriteClock replaces time.Now/Since/Until selectors by the overlay clock. inScope decides per
// enclosing function name ("" for package-level initialisers).
func rewriteClock(p *parsed, inScope func(fn string) bool) (string, int) {
	timeName := p.localName("time")
	if timeName == "" {
		return "", 0
	}
	type span struct {
		a, b int
		to   string
	}
	var spans []span
	visit := func(fn string, n ast.Node) {
		if n == nil || !inScope(fn) {
			return
		}
		ast.Inspect(n, func(x ast.Node) bool {
			if s, ok := x.(*ast.SelectorExpr); ok {
				if id, ok := s.X.(*ast.Ident); ok && id.Name == timeName {
					if to, ok := clockFuncs[s.Sel.Name]; ok {
						spans = append(spans, span{p.off(s.Pos()), p.off(s.End()), to})
					}
				}
			}
			return true
		})
	}
	for _, d := range p.f.Decls {
		switch x := d.(type) {
		case *ast.FuncDecl:
			if x.Body != nil {
				visit(x.Name.Name, x.Body)
			}
		case *ast.GenDecl:
			if x.Tok == token.VAR {
				visit("", x)
			}
		}
	}
	if len(spans) == 0 {
		return "", 0
	}
	sort.Slice(spans, func(i, j int) bool { return spans[i].a > spans[j].a })
	out := append([]byte{}, p.src...)
	for _, s := range spans {
		out = append(out[:s.a], append([]byte(s.to), out[s.b:]...)...)
	}
	// keep the import used and mark the file; appended at the END so line numbers are unchanged
	tail := fmt.Sprintf("\n// Code generated by /verif check C26 from %s (time.Now -> verifNow, %d sites); DO NOT EDIT.\nvar _ %s.Duration\n",
		filepath.Join(repo, p.rel), len(spans), timeName)
	return string(out) + tail, len(spans)
}

// ---------------------------------------------------------------------------------------------
// package main (cmd/arc) expressions: substitute package-level constants, keep imported names

type mainConsts struct {
	vals map[string]siteExpr
}

func loadMainConsts() *mainConsts {
	mc := &mainConsts{vals: map[string]siteExpr{}}
	for _, rel := range goFiles(mainPkgDir) {
		p := parseRel(rel)
		for _, d := range p.f.Decls {
			g, ok := d.(*ast.GenDecl)
			if !ok || g.Tok != token.CONST {
				continue
			}
			for _, sp := range g.Specs {
				vs := sp.(*ast.ValueSpec)
				if len(vs.Names) != len(vs.Values) {
					continue // iota-style blocks are not needed here
				}
				for i, n := range vs.Names {
					mc.vals[n.Name] = siteExpr{p: p, expr: vs.Values[i], where: p.where(vs.Values[i]), text: p.text(vs.Values[i])}
				}
			}
		}
	}
	return mc
}

var predeclared = map[string]bool{"true": true, "false": true, "nil": true, "int": true, "int64": true,
	"int32": true, "uint": true, "uint64": true, "float64": true, "string": true}

// render returns Go source equivalent to e outside package main; imports used are collected.
func (mc *mainConsts) render(s siteExpr, e ast.Expr, imports map[string]string, depth int) string {
	if depth > 16 {
		unbound("%s: constant resolution too deep", s.where)
	}
	im := s.p.imports()
	switch x := e.(type) {
	case *ast.BasicLit:
		return x.Value
	case *ast.ParenExpr:
		return "(" + mc.render(s, x.X, imports, depth) + ")"
	case *ast.UnaryExpr:
		return x.Op.String() + mc.render(s, x.X, imports, depth)
	case *ast.BinaryExpr:
		return mc.render(s, x.X, imports, depth) + " " + x.Op.String() + " " + mc.render(s, x.Y, imports, depth)
	case *ast.CallExpr:
		var args []string
		for _, a := range x.Args {
			args = append(args, mc.render(s, a, imports, depth))
		}
		return mc.render(s, x.Fun, imports, depth) + "(" + strings.Join(args, ", ") + ")"
	case *ast.SelectorExpr:
		if id, ok := x.X.(*ast.Ident); ok {
			if path, ok := im[id.Name]; ok {
				if prev, dup := imports[id.Name]; dup && prev != path {
					unbound("%s: import name %q is ambiguous across files", s.where, id.Name)
				}
				imports[id.Name] = path
				return id.Name + "." + x.Sel.Name
			}
		}
		unbound("%s: %q is not a package-level constant expression (cannot be evaluated outside package main)", s.where, s.p.text(x))
	case *ast.Ident:
		if predeclared[x.Name] {
			return x.Name
		}
		if c, ok := mc.vals[x.Name]; ok {
			return "(" + mc.render(c, c.expr, imports, depth+1) + ")"
		}
		unbound("%s: identifier %q is not a package-level constant of cmd/arc (cannot be evaluated outside package main)", s.where, x.Name)
	}
	unbound("%s: unsupported expression form %T in %q", s.where, e, s.p.text(e))
	return ""
}

// ---------------------------------------------------------------------------------------------
// generation

type genOut struct {
	overlay map[string]string // target path -> generated/static file
	sites   map[string]string // evidence: what was bound, with file:line
	spans   []struct {        // source spans of bound NewNonceCache construction expressions
		rel  string
		a, b int
	}
}

func (g *genOut) bindSpan(s siteExpr) {
	g.spans = append(g.spans, struct {
		rel  string
		a, b int
	}{s.p.rel, s.p.off(s.expr.Pos()), s.p.off(s.expr.End())})
}

func importBlock(fixed map[string]string, used map[string]string) string {
	var b strings.Builder
	b.WriteString("import (\n")
	names := []string{}
	for n := range fixed {
		names = append(names, n)
	}
	sort.Strings(names)
	for _, n := range names {
		fmt.Fprintf(&b, "\t%s %q\n", n, fixed[n])
	}
	names = names[:0]
	for n := range used {
		names = append(names, n)
	}
	sort.Strings(names)
	for _, n := range names {
		fmt.Fprintf(&b, "\t%s %q\n", n, used[n])
	}
	b.WriteString(")\n")
	return b.String()
}

func mergeUsed(dst map[string]string, src map[string]string, where string) {
	for n, p := range src {
		if prev, ok := dst[n]; ok && prev != p {
			unbound("%s: import name %q maps to two paths", where, n)
		}
		dst[n] = p
	}
}

func generate(workDir string) *genOut {
	g := &genOut{overlay: map[string]string{}, sites: map[string]string{}}
	os.RemoveAll(workDir)
	if err := os.MkdirAll(workDir, 0o755); err != nil {
		unbound("mkdir %s: %v", workDir, err)
	}
	write := func(name, content string) string {
		p := filepath.Join(workDir, name)
		if err := os.WriteFile(p, []byte(content), 0o644); err != nil {
			unbound("write %s: %v", p, err)
		}
		return p
	}
	addTarget := func(target, src string) {
		if _, err := os.Stat(target); err == nil {
			unbound("overlay add target %s already exists", target)
		}
		g.overlay[target] = src
	}

	// --- 1. clock rewrite of package security ------------------------------------------------
	anchors := map[string]bool{"nonce_cache.go": true, "auth.go": true, "edgesync_auth.go": true}
	total := 0
	var rewritten []string
	for _, rel := range goFiles(secPkgDir) {
		base := filepath.Base(rel)
		p := parseRel(rel)
		scope := func(fn string) bool {
			if anchors[base] {
				return true
			}
			// other files: only freshness / nonce code, never connection deadlines
			return strings.HasPrefix(fn, "Validate") || strings.Contains(fn, "Fresh") || strings.Contains(fn, "Nonce")
		}
		out, n := rewriteClock(p, scope)
		if n == 0 {
			continue
		}
		total += n
		rewritten = append(rewritten, fmt.Sprintf("%s(%d)", base, n))
		g.overlay[filepath.Join(repo, rel)] = write("security__"+base, out)
	}
	for a := range anchors {
		if _, err := os.Stat(filepath.Join(repo, secPkgDir, a)); err != nil {
			unbound("anchor file %s/%s missing", secPkgDir, a)
		}
	}
	if total == 0 {
		unbound("no time.Now/Since/Until call found in %s: the package no longer reads the clock the way this check instruments it", secPkgDir)
	}
	g.sites["clock_rewrite"] = strings.Join(rewritten, " ")
	addTarget(filepath.Join(repo, secPkgDir, "zz_verif_c26_clock.go"), filepath.Join(harnessDir, "inpkg/security/zz_verif_c26_clock.go"))

	// --- 1b. the nonce cache's own periods (sweep interval, ...) ---------------------------------
	// Every package-level constant/variable of nonce_cache.go whose declaration mentions the time
	// package is handed, by name, to an accessor compiled into the package; the worker keeps those
	// that really are time.Durations and builds the history grid around them (60 s, 60 s ± 1 s,
	// retention − 60 s, ...). The VALUES come from the compiled package, not from this parse.
	{
		p := parseRel(filepath.Join(secPkgDir, "nonce_cache.go"))
		timeName := p.localName("time")
		var names []string
		for _, d := range p.f.Decls {
			gd, ok := d.(*ast.GenDecl)
			if !ok || (gd.Tok != token.CONST && gd.Tok != token.VAR) || timeName == "" {
				continue
			}
			for _, sp := range gd.Specs {
				vs := sp.(*ast.ValueSpec)
				mentions := false
				ast.Inspect(vs, func(n ast.Node) bool {
					if s, ok := n.(*ast.SelectorExpr); ok {
						if id, ok := s.X.(*ast.Ident); ok && id.Name == timeName {
							mentions = true
						}
					}
					return true
				})
				if !mentions {
					continue
				}
				for _, n := range vs.Names {
					if n.Name != "_" {
						names = append(names, n.Name)
					}
				}
			}
		}
		sort.Strings(names)
		var sbb strings.Builder
		sbb.WriteString("// Code generated by /verif check C26 from the current /repo working tree; DO NOT EDIT.\npackage security\n\nimport zzTime \"time\"\n\n")
		sbb.WriteString("func verifC26AsDur(v any) (zzTime.Duration, bool) { d, ok := v.(zzTime.Duration); return d, ok }\n\n")
		sbb.WriteString("// VerifC26DurationConsts: package-level time.Duration constants/variables of nonce_cache.go.\n")
		sbb.WriteString("func VerifC26DurationConsts() map[string]zzTime.Duration {\n\tm := map[string]zzTime.Duration{}\n")
		for _, n := range names {
			fmt.Fprintf(&sbb, "\tif d, ok := verifC26AsDur(%s); ok {\n\t\tm[%q] = d\n\t}\n", n, n)
		}
		sbb.WriteString("\treturn m\n}\n")
		addTarget(filepath.Join(repo, secPkgDir, "zz_verif_c26_gen.go"), write("security__zz_verif_c26_gen.go", sbb.String()))
		g.sites["nonce_cache_duration_names"] = strings.Join(names, " ")
	}

	// --- 2. internal/cluster: Start()'s cache, the two handlers' tolerances -------------------
	var assigns []siteExpr
	for _, rel := range goFiles(clusterDir) {
		src, _ := readRepo(filepath.Join(repo, rel))
		if !bytes.Contains(src, []byte("nonceCache")) {
			continue
		}
		p := parseRel(rel)
		for _, d := range p.f.Decls {
			fd, ok := d.(*ast.FuncDecl)
			if !ok || fd.Body == nil {
				continue
			}
			ast.Inspect(fd.Body, func(n ast.Node) bool {
				as, ok := n.(*ast.AssignStmt)
				if !ok || len(as.Lhs) != 1 || len(as.Rhs) != 1 {
					return true
				}
				if sel, ok := as.Lhs[0].(*ast.SelectorExpr); ok && sel.Sel.Name == "nonceCache" {
					assigns = append(assigns, siteExpr{p: p, expr: as.Rhs[0], fn: fd, text: p.text(as.Rhs[0]), where: p.where(as)})
				}
				return true
			})
		}
	}
	startCache := one("assignment to Coordinator.nonceCache in "+clusterDir, assigns)
	if startCache.fn.Name.Name != "Start" || !strings.Contains(recvText(startCache), "Coordinator") {
		unbound("%s: Coordinator.nonceCache is no longer built in (*Coordinator).Start (found in %s)", startCache.where, startCache.fn.Name.Name)
	}
	g.bindSpan(startCache)
	fwdCall := one("security.ValidateForwardHMAC call in "+clusterDir, findCalls(clusterDir, secPkgPath, "ValidateForwardHMAC"))
	rsCall := one("security.ValidateReplicateSyncHMAC call in "+clusterDir, findCalls(clusterDir, secPkgPath, "ValidateReplicateSyncHMAC"))
	for _, c := range []siteExpr{fwdCall, rsCall} {
		if !containsTrack(c) {
			unbound("%s: %s validates but no longer calls Track in the same function", c.where, c.fn.Name.Name)
		}
		if !strings.Contains(recvText(c), "Coordinator") {
			unbound("%s: %s is no longer a Coordinator method", c.where, c.fn.Name.Name)
		}
	}
	if fwdCall.fn.Name.Name != "handleForwardApply" || rsCall.fn.Name.Name != "handleReplicateSync" {
		unbound("validators moved: ValidateForwardHMAC in %s, ValidateReplicateSyncHMAC in %s", fwdCall.fn.Name.Name, rsCall.fn.Name.Name)
	}
	fwdTol, rsTol := lastArg(fwdCall), lastArg(rsCall)
	used := map[string]string{}
	for _, s := range []siteExpr{startCache, fwdTol, rsTol} {
		mergeUsed(used, importsUsed(s.p, s.expr), s.where)
	}
	var cb strings.Builder
	cb.WriteString("// Code generated by /verif check C26 from the current /repo working tree; DO NOT EDIT.\npackage cluster\n\n")
	cb.WriteString(importBlock(map[string]string{"zzTime": "time", "zzSecurity": secPkgPath}, used))
	fmt.Fprintf(&cb, "\n// %s\nfunc (%s) verifC26StartNonceCache() *zzSecurity.NonceCache { return %s }\n", startCache.where, recvText(startCache), startCache.text)
	fmt.Fprintf(&cb, "\n// %s\nfunc (%s) verifC26ForwardTol() zzTime.Duration { return %s }\n", fwdTol.where, recvText(fwdTol), fwdTol.text)
	fmt.Fprintf(&cb, "\n// %s\nfunc (%s) verifC26ReplicateSyncTol() zzTime.Duration { return %s }\n", rsTol.where, recvText(rsTol), rsTol.text)
	addTarget(filepath.Join(repo, clusterDir, "zz_verif_c26_gen.go"), write("cluster__zz_verif_c26_gen.go", cb.String()))
	addTarget(filepath.Join(repo, clusterDir, "zz_verif_c26.go"), filepath.Join(harnessDir, "inpkg/cluster/zz_verif_c26.go"))
	g.sites["coordinator_cache"] = startCache.where + ": " + startCache.text
	g.sites["forward_apply_tolerance"] = fwdTol.where + ": " + fwdTol.text
	g.sites["replicate_sync_tolerance"] = rsTol.where + ": " + rsTol.text

	// --- 3. internal/api: edge-sync tolerances -------------------------------------------------
	sfCall := one("security.ValidateSyncFileHMACWithReplay call in "+apiDir, findCalls(apiDir, secPkgPath, "ValidateSyncFileHMACWithReplay"))
	srCall := one("security.ValidateSyncReconcileHMACWithReplay call in "+apiDir, findCalls(apiDir, secPkgPath, "ValidateSyncReconcileHMACWithReplay"))
	for _, c := range []siteExpr{sfCall, srCall} {
		if !strings.Contains(recvText(c), "EdgeSyncHandler") {
			unbound("%s: %s is no longer an EdgeSyncHandler method", c.where, c.fn.Name.Name)
		}
	}
	sfTol, srTol := lastArg(sfCall), lastArg(srCall)
	used = map[string]string{}
	for _, s := range []siteExpr{sfTol, srTol} {
		mergeUsed(used, importsUsed(s.p, s.expr), s.where)
	}
	var ab strings.Builder
	ab.WriteString("// Code generated by /verif check C26 from the current /repo working tree; DO NOT EDIT.\npackage api\n\n")
	ab.WriteString(importBlock(map[string]string{"zzTime": "time"}, used))
	fmt.Fprintf(&ab, "\n// %s\nfunc (%s) VerifC26SyncFileTolerance() zzTime.Duration { return %s }\n", sfTol.where, recvText(sfTol), sfTol.text)
	fmt.Fprintf(&ab, "\n// %s\nfunc (%s) VerifC26SyncReconcileTolerance() zzTime.Duration { return %s }\n", srTol.where, recvText(srTol), srTol.text)
	addTarget(filepath.Join(repo, apiDir, "zz_verif_c26_gen.go"), write("api__zz_verif_c26_gen.go", ab.String()))
	addTarget(filepath.Join(repo, apiDir, "zz_verif_c26.go"), filepath.Join(harnessDir, "inpkg/api/zz_verif_c26.go"))
	g.sites["edge_sync_file_tolerance"] = sfTol.where + ": " + sfTol.text
	g.sites["edge_sync_reconcile_tolerance"] = srTol.where + ": " + srTol.text
	// the cache-invalidate handler must still validate-then-Track with its configured tolerance
	ciCall := one("security.ValidateCacheInvalidateHMAC call in "+apiDir, findCalls(apiDir, secPkgPath, "ValidateCacheInvalidateHMAC"))
	if !containsTrack(ciCall) {
		unbound("%s: cache-invalidate handler validates but no longer calls Track", ciCall.where)
	}
	g.sites["cache_invalidate_validator"] = ciCall.where + ": tolerance argument " + lastArg(ciCall).text

	// --- 4. cmd/arc: cache-invalidate handler arguments, edge-sync Replay guard ----------------
	mc := loadMainConsts()
	// parameter positions from the constructor's own signature
	var ciSig *ast.FuncDecl
	var ciSigP *parsed
	for _, rel := range goFiles(apiDir) {
		src, _ := readRepo(filepath.Join(repo, rel))
		if !bytes.Contains(src, []byte("func NewCacheInvalidateHandler(")) {
			continue
		}
		p := parseRel(rel)
		for _, d := range p.f.Decls {
			if fd, ok := d.(*ast.FuncDecl); ok && fd.Recv == nil && fd.Name.Name == "NewCacheInvalidateHandler" {
				ciSig, ciSigP = fd, p
			}
		}
	}
	if ciSig == nil {
		unbound("api.NewCacheInvalidateHandler not found")
	}
	cacheIdx, tolIdx, idx := -1, -1, 0
	for _, f := range ciSig.Type.Params.List {
		t := ciSigP.text(f.Type)
		n := len(f.Names)
		if n == 0 {
			n = 1
		}
		for k := 0; k < n; k++ {
			if strings.HasSuffix(t, ".NonceCache") {
				if cacheIdx >= 0 {
					unbound("NewCacheInvalidateHandler has two NonceCache parameters")
				}
				cacheIdx = idx
			}
			if t == "time.Duration" {
				if tolIdx >= 0 {
					unbound("NewCacheInvalidateHandler has two time.Duration parameters")
				}
				tolIdx = idx
			}
			idx++
		}
	}
	if cacheIdx < 0 || tolIdx < 0 {
		unbound("NewCacheInvalidateHandler signature changed: no (*security.NonceCache, time.Duration) parameters")
	}
	ciCtor := one("api.NewCacheInvalidateHandler call in "+mainPkgDir, findCalls(mainPkgDir, apiPkgPath, "NewCacheInvalidateHandler"))
	ciArgs := ciCtor.expr.(*ast.CallExpr).Args
	if len(ciArgs) != idx {
		unbound("%s: NewCacheInvalidateHandler called with %d args, signature has %d", ciCtor.where, len(ciArgs), idx)
	}
	ciCache := siteExpr{p: ciCtor.p, expr: ciArgs[cacheIdx], text: ciCtor.p.text(ciArgs[cacheIdx]), where: ciCtor.p.where(ciArgs[cacheIdx])}
	ciTol := siteExpr{p: ciCtor.p, expr: ciArgs[tolIdx], text: ciCtor.p.text(ciArgs[tolIdx]), where: ciCtor.p.where(ciArgs[tolIdx])}
	g.bindSpan(ciCache)

	var replay []siteExpr
	for _, rel := range goFiles(mainPkgDir) {
		src, _ := readRepo(filepath.Join(repo, rel))
		if !bytes.Contains(src, []byte("EdgeSyncHandlerConfig")) {
			continue
		}
		p := parseRel(rel)
		apiName := p.localName(apiPkgPath)
		ast.Inspect(p.f, func(n ast.Node) bool {
			cl, ok := n.(*ast.CompositeLit)
			if !ok || !isPkgSel(cl.Type, apiName, "EdgeSyncHandlerConfig") {
				return true
			}
			for _, el := range cl.Elts {
				if kv, ok := el.(*ast.KeyValueExpr); ok {
					if k, ok := kv.Key.(*ast.Ident); ok && k.Name == "Replay" {
						replay = append(replay, siteExpr{p: p, expr: kv.Value, text: p.text(kv.Value), where: p.where(kv.Value)})
					}
				}
			}
			return true
		})
	}
	esReplay := one("Replay: field of api.EdgeSyncHandlerConfig literal in "+mainPkgDir, replay)
	g.bindSpan(esReplay)

	// the production HTTP server's buffer-relevant fiber options (the harness serves the HTTP sites from a
	// fiber app configured the same way): each must be absent (fiber's default, false) or a literal bool
	fiberOpts := map[string]string{"Immutable": "false", "StreamRequestBody": "false", "DisableKeepalive": "false", "ReduceMemoryUsage": "false"}
	fiberNew := one("fiber.New call in "+apiDir+" (the production HTTP server)", findCalls(apiDir, fiberPath, "New"))
	if fa := fiberNew.expr.(*ast.CallExpr).Args; len(fa) > 1 {
		unbound("%s: fiber.New called with %d arguments", fiberNew.where, len(fa))
	} else if len(fa) == 1 {
		cl, ok := fa[0].(*ast.CompositeLit)
		if !ok || !isPkgSel(cl.Type, fiberNew.p.localName(fiberPath), "Config") {
			unbound("%s: fiber.New's argument is not a fiber.Config literal; cannot tell whether request strings are immutable", fiberNew.where)
		}
		for _, el := range cl.Elts {
			kv, ok := el.(*ast.KeyValueExpr)
			if !ok {
				unbound("%s: positional fiber.Config literal", fiberNew.where)
			}
			k, ok := kv.Key.(*ast.Ident)
			if !ok {
				continue
			}
			if _, want := fiberOpts[k.Name]; !want {
				continue
			}
			v, ok := kv.Value.(*ast.Ident)
			if !ok || (v.Name != "true" && v.Name != "false") {
				unbound("%s: fiber.Config.%s is not a literal bool (%s)", fiberNew.where, k.Name, fiberNew.p.text(kv.Value))
			}
			fiberOpts[k.Name] = v.Name
		}
	}
	g.sites["http_server_fiber_options"] = fmt.Sprintf("%s: Immutable=%s StreamRequestBody=%s DisableKeepalive=%s ReduceMemoryUsage=%s",
		fiberNew.where, fiberOpts["Immutable"], fiberOpts["StreamRequestBody"], fiberOpts["DisableKeepalive"], fiberOpts["ReduceMemoryUsage"])

	wimports := map[string]string{}
	ciCacheSrc := mc.render(ciCache, ciCache.expr, wimports, 0)
	ciTolSrc := mc.render(ciTol, ciTol.expr, wimports, 0)
	esReplaySrc := mc.render(esReplay, esReplay.expr, wimports, 0)
	g.sites["cache_invalidate_cache"] = ciCache.where + ": " + ciCache.text + "  =>  " + ciCacheSrc
	g.sites["cache_invalidate_tolerance"] = ciTol.where + ": " + ciTol.text + "  =>  " + ciTolSrc
	g.sites["edge_sync_replay_guard"] = esReplay.where + ": " + esReplay.text + "  =>  " + esReplaySrc
	var wb strings.Builder
	wb.WriteString("//go:build c26worker\n\n// Code generated by /verif check C26 from the current /repo working tree; DO NOT EDIT.\npackage main\n\n")
	wb.WriteString(importBlock(map[string]string{"zzTime": "time", "zzSecurity": secPkgPath}, wimports))
	fmt.Fprintf(&wb, "\n// %s\nfunc siteCacheInvalidateNonceCache() *zzSecurity.NonceCache { return %s }\n", ciCache.where, ciCacheSrc)
	fmt.Fprintf(&wb, "\n// %s\nfunc siteCacheInvalidateTolerance() zzTime.Duration { return %s }\n", ciTol.where, ciTolSrc)
	fmt.Fprintf(&wb, "\n// %s\nfunc siteEdgeSyncReplay() zzSecurity.ReplayGuard { return %s }\n", esReplay.where, esReplaySrc)
	fmt.Fprintf(&wb, "\n// %s\nconst (\n\tsiteFiberImmutable = %s\n\tsiteFiberStreamRequestBody = %s\n\tsiteFiberDisableKeepalive = %s\n\tsiteFiberReduceMemoryUsage = %s\n)\n",
		fiberNew.where, fiberOpts["Immutable"], fiberOpts["StreamRequestBody"], fiberOpts["DisableKeepalive"], fiberOpts["ReduceMemoryUsage"])
	sb, _ := json.Marshal(g.sites)
	fmt.Fprintf(&wb, "\nconst siteBindingsJSON = %s\n", strconv.Quote(string(sb)))
	addTarget(workerGenGo, write("worker__zz_gen_sites.go", wb.String()))

	// --- 5. every NewNonceCache construction in non-test code must be one of the bound sites ----
	var unboundSites []string
	var trackSites []string
	filepath.WalkDir(repo, func(path string, d os.DirEntry, err error) error {
		if err != nil {
			return nil
		}
		if d.IsDir() {
			n := d.Name()
			if path != repo && (strings.HasPrefix(n, ".") || n == "vendor" || n == "testdata" || n == "node_modules") {
				return filepath.SkipDir
			}
			return nil
		}
		if !strings.HasSuffix(path, ".go") || strings.HasSuffix(path, "_test.go") {
			return nil
		}
		src, err := readRepo(path)
		if err != nil || (!bytes.Contains(src, []byte("NewNonceCache(")) && !bytes.Contains(src, []byte(".Track("))) {
			return nil
		}
		rel, _ := filepath.Rel(repo, path)
		p := parseRel(rel)
		for _, dd := range p.f.Decls {
			fd, isFn := dd.(*ast.FuncDecl)
			ast.Inspect(dd, func(n ast.Node) bool {
				c, ok := n.(*ast.CallExpr)
				if !ok {
					return true
				}
				name := ""
				switch f := c.Fun.(type) {
				case *ast.SelectorExpr:
					name = f.Sel.Name
				case *ast.Ident:
					name = f.Name
				}
				if name == "NewNonceCache" {
					o := p.off(c.Pos())
					ok := false
					for _, s := range g.spans {
						if s.rel == rel && o >= s.a && o < s.b {
							ok = true
						}
					}
					if !ok {
						unboundSites = append(unboundSites, p.where(c))
					}
				}
				if name == "Track" && len(c.Args) == 2 && isFn {
					trackSites = append(trackSites, rel+":"+fd.Name.Name)
				}
				return true
			})
		}
		return nil
	})
	if len(unboundSites) > 0 {
		unbound("NewNonceCache construction site(s) not covered by this check: %v", unboundSites)
	}
	sort.Strings(trackSites)
	g.sites["track_call_sites"] = strings.Join(trackSites, " ")
	for k, v := range srcOverlay {
		if _, done := g.overlay[k]; !done {
			g.overlay[k] = v
		}
	}
	return g
}

// seqSuffix marks the signature family of violations that need the preceding deliveries to show.
const seqSuffix = "|depends-on-preceding-deliveries"

// connSites: the sites production serves over a long-lived connection (HTTP keep-alive; the persistent
// forward-apply peer connection). Their histories carry the connection dimension.
var connSites = []string{"cache-invalidate", "edge-sync-file", "edge-sync-reconcile", "forward-apply"}

// expectedTrackSites: the five validate-then-Track call sites this check drives.
var expectedTrackSites = []string{
	"internal/api/cache_invalidate.go:handle",
	"internal/cluster/coordinator.go:handleReplicateSync",
	"internal/cluster/forward_apply.go:handleForwardApply",
	"internal/cluster/security/edgesync_auth.go:ValidateSyncFileHMACWithReplay",
	"internal/cluster/security/edgesync_auth.go:ValidateSyncReconcileHMACWithReplay",
}

// ---------------------------------------------------------------------------------------------
// result types: shared.go

// symbolic rendering keeps the signature stable if the configured numbers change
func durS(ns int64) string {
	if ns%1e9 == 0 {
		return fmt.Sprintf("%ds", ns/1e9)
	}
	return strconv.FormatFloat(float64(ns)/1e9, 'f', -1, 64) + "s"
}

func symRel(v int64, names []string, vals []int64) (string, bool) {
	for i, base := range vals {
		d := v - base
		if d >= -2e9 && d <= 2e9 && base != 0 {
			switch {
			case d == 0:
				return names[i], true
			case d > 0:
				return names[i] + "+" + durS(d), true
			default:
				return names[i] + "-" + durS(-d), true
			}
		}
	}
	return "", false
}

func signature(c Class) string {
	o := c.Min
	tolNs := o.TolS * 1e9
	off := o.Case.OffS * 1e9
	var offS string
	switch {
	case off == 0:
		offS = "+0s"
	case off > 0:
		if s, ok := symRel(off, []string{"tol"}, []int64{tolNs}); ok {
			offS = "+" + s
		} else {
			offS = "+" + durS(off)
		}
	default:
		if s, ok := symRel(-off, []string{"tol"}, []int64{tolNs}); ok {
			offS = "-(" + s + ")"
		} else {
			offS = "-" + durS(-off)
		}
	}
	if o.Case.Hist != "" {
		// history case: deliveries and non-zero advances, advances near the retention written relative to it
		var ev []string
		for _, t := range strings.Fields(o.Case.Hist) {
			if t[0] != '+' {
				ev = append(ev, t)
				continue
			}
			n, _ := strconv.ParseInt(t[1:], 10, 64)
			if n == 0 {
				continue
			}
			v := n * 1e9
			switch d := v - o.TTLNs; {
			case d == 0:
				ev = append(ev, "+ttl")
			case d > 0 && d <= sigSweepNs+2e9:
				ev = append(ev, "+ttl+"+durS(d))
			case d < 0 && -d <= sigSweepNs+2e9:
				ev = append(ev, "+ttl-"+durS(-d))
			default:
				if s, ok := symRel(v, []string{"tol"}, []int64{tolNs}); ok {
					ev = append(ev, "+"+s)
				} else {
					ev = append(ev, "+"+durS(v))
				}
			}
		}
		return fmt.Sprintf("%s|%s|tol=%ds,ttl=%s|%s|ts=recv%s|history=%s", c.Kind, c.Site, o.TolS, durS(o.TTLNs), c.Region, offS, strings.Join(ev, ","))
	}
	delay, ok := symRel(o.Case.DelayNs, []string{"ttl", "2tol", "tol"}, []int64{o.TTLNs, 2 * tolNs, tolNs})
	if !ok {
		delay = durS(o.Case.DelayNs)
	}
	sig := fmt.Sprintf("%s|%s|tol=%ds,ttl=%s|%s|ts=recv%s|replay=+%s", c.Kind, c.Site, o.TolS, durS(o.TTLNs), c.Region, offS, delay)
	if o.Case.Phi1Ns != 0 {
		sig += "|recv-phase=" + durS(o.Case.Phi1Ns)
	}
	if o.Case.FirstS != 0 {
		sig += fmt.Sprintf("|first-receipt=%ds-after-construction", o.Case.FirstS)
	}
	if o.Case.Ticks {
		sig += "|with-eviction-ticks"
	}
	return sig
}

// sigSweepNs: the largest sweep/eviction period of the nonce cache found in the compiled package
// (60 s when none was found); history advances within that distance of the retention are written
// relative to it in signatures.
var sigSweepNs = int64(60e9)

// ---------------------------------------------------------------------------------------------

func sh(cmd string) ([]byte, error) {
	c := exec.Command("bash", "-c", ". /verif/bin/env.sh && "+cmd)
	return c.CombinedOutput()
}

func main() {
	run := ev.Start("C26", "exploration")
	buildRoot := os.Getenv("VERIF_BUILD")
	if buildRoot == "" {
		buildRoot = "/verif/.build"
	}
	workDir := filepath.Join(buildRoot, "ov", "c26gen")
	loadSrcOverlay()
	if len(srcOverlay) > 0 {
		workDir += "-srcov" // keep experiment builds apart from the registered check's files
		var l []string
		for k, v := range srcOverlay {
			l = append(l, k+" <= "+v)
		}
		sort.Strings(l)
		run.Coverage["source_overlay_EXPERIMENT"] = l
		run.Assume("EXPERIMENT RUN: repository sources replaced through VERIF_C26_SRC_OVERLAY; this is not a statement about /repo")
		fmt.Printf("C26: EXPERIMENT RUN with source overlay %v\n", l)
	}
	g := generate(workDir)
	ob, _ := json.MarshalIndent(map[string]any{"Replace": g.overlay}, "", " ")
	ovPath := filepath.Join(workDir, "overlay.json")
	if err := os.WriteFile(ovPath, ob, 0o644); err != nil {
		unbound("write overlay: %v", err)
	}
	bin := filepath.Join(buildRoot, "bin", "c26worker")
	if len(srcOverlay) > 0 {
		bin += "-srcov"
	}
	tb := time.Now()
	if out, err := sh(fmt.Sprintf("cd %s && go build -overlay %s -tags c26worker -o %s ./checks/c26", harnessDir, ovPath, bin)); err != nil {
		logp := filepath.Join(buildRoot, "c26worker.build.log")
		os.WriteFile(logp, out, 0o644)
		lines := strings.Split(strings.TrimSpace(string(out)), "\n")
		if len(lines) > 25 {
			lines = lines[len(lines)-25:]
		}
		fmt.Println(strings.Join(lines, "\n"))
		unbound("worker build with the generated overlay failed (see %s)", logp)
	}
	buildS := time.Since(tb).Seconds()

	scratch := fmt.Sprintf("/dev/shm/verif.c26.%d", os.Getpid())
	os.MkdirAll(scratch, 0o755)
	defer os.RemoveAll(scratch)
	exit := func(f func()) { os.RemoveAll(scratch); f() }

	runWorker := func(args ...string) (*WorkerOut, error) {
		c := exec.Command(bin, args...)
		var stderr bytes.Buffer
		c.Stderr = &stderr
		out, err := c.Output()
		if err != nil {
			return nil, fmt.Errorf("%v: %s", err, strings.TrimSpace(stderr.String()))
		}
		var w WorkerOut
		if err := json.Unmarshal(out, &w); err != nil {
			return nil, fmt.Errorf("bad worker output: %v: %.300s", err, out)
		}
		return &w, nil
	}

	if run.Replay != "" {
		b, err := os.ReadFile(run.Replay)
		if err != nil {
			exit(func() { unbound("replay file: %v", err) })
		}
		var rf struct {
			Replay struct {
				Case     Case     `json:"case"`
				Sequence *SeqSpec `json:"sequence"`
			} `json:"replay"`
		}
		if err := json.Unmarshal(b, &rf); err != nil {
			exit(func() { unbound("replay file: %v", err) })
		}
		var w *WorkerOut
		if sq := rf.Replay.Sequence; sq != nil {
			// a violation that depends on the preceding deliveries: re-run the recorded worker sequence
			w, err = runWorker("-tier", sq.Tier, "-shard", strconv.Itoa(sq.Shard), "-of", strconv.Itoa(sq.Of),
				"-scratch", filepath.Join(scratch, "seq"), "-upto", strconv.Itoa(sq.Upto))
			if err != nil {
				exit(func() { unbound("replay worker: %v", err) })
			}
			if w.Target == nil || w.Target.Case != rf.Replay.Case {
				exit(func() {
					unbound("replay: case %d of shard %d/%d (%s) is not the recorded case", sq.Upto, sq.Shard, sq.Of, sq.Tier)
				})
			}
			for _, c := range w.Classes {
				if c.Min.Case == rf.Replay.Case {
					sq.Cases, sq.Deliveries = w.Cases, w.Deliveries
					run.Violate(signature(c)+seqSuffix, describe(c), SeqReplay{Case: c.Min.Case, Observed: c.Min, Sequence: *sq})
				}
			}
			w.Samples = []Obs{*w.Target}
		} else {
			cb, _ := json.Marshal(rf.Replay.Case)
			w, err = runWorker("-scratch", scratch, "-case", string(cb))
			if err != nil {
				exit(func() { unbound("replay worker: %v", err) })
			}
			for _, c := range w.Classes {
				run.Violate(signature(c), describe(c), c.Min)
			}
		}
		pb, _ := json.MarshalIndent(w.Samples, "", " ")
		fmt.Println(string(pb))
		exit(run.Finish)
	}

	nw := 16
	workerDeadline := run.Deadline
	// the worker build counts against the run's clock; on a loaded machine a cold build can eat most of
	// the quick budget, so the enumeration always gets at least 3 minutes of its own
	if d := time.Now().Add(3 * time.Minute); d.After(workerDeadline) {
		workerDeadline = d
	}
	if !run.Quick() {
		// thorough budget is 15 min wall: stop enumerating 11 min after the build and report exhaustive=false
		if d := time.Now().Add(11 * time.Minute); d.Before(workerDeadline) {
			workerDeadline = d
		}
	}
	outs := make([]*WorkerOut, nw)
	errs := make([]error, nw)
	var wg sync.WaitGroup
	for i := 0; i < nw; i++ {
		wg.Add(1)
		go func(i int) {
			defer wg.Done()
			outs[i], errs[i] = runWorker("-tier", run.Tier, "-shard", strconv.Itoa(i), "-of", strconv.Itoa(nw),
				"-scratch", filepath.Join(scratch, fmt.Sprintf("w%d", i)), "-deadline", strconv.FormatInt(workerDeadline.Unix(), 10),
				"-seed", strconv.Itoa(run.Seed))
		}(i)
	}
	wg.Wait()
	for i, e := range errs {
		if e != nil {
			exit(func() { unbound("worker %d failed: %v", i, e) })
		}
	}

	// merge
	tot := &WorkerOut{Outcomes: map[string]int{}, GridOffsets: map[string]int{}, GridDelays: map[string]int{}, AcceptedOrigin: map[string]int{}, Exhaustive: true,
		HistByLen: map[string]int{}, UnrelatedSeen: map[string]int{},
		ConnReused: map[string]int{}, ConnFresh: map[string]int{}, ConnReconnects: map[string]int{}}
	classes := map[string]*Class{}
	var samples []Obs
	for i, w := range outs {
		if len(w.Errors) > 0 {
			exit(func() { unbound("worker could not drive a handler: %s", strings.Join(w.Errors, "; ")) })
		}
		if tot.Sites == nil {
			tot.Sites = w.Sites
		} else if fmt.Sprint(tot.Sites) != fmt.Sprint(w.Sites) {
			exit(func() { ev.Nondeterminism("workers disagree on site tolerances/TTLs") })
		}
		if tot.Intervals == nil {
			tot.Intervals, tot.IntervalsAssumed, tot.HistGaps, tot.HistFreshGaps = w.Intervals, w.IntervalsAssumed, w.HistGaps, w.HistFreshGaps
		} else if fmt.Sprint(tot.Intervals, tot.HistGaps, tot.HistFreshGaps) != fmt.Sprint(w.Intervals, w.HistGaps, w.HistFreshGaps) {
			exit(func() { ev.Nondeterminism("workers disagree on the nonce cache's duration constants / history grid") })
		}
		tot.HistCases += w.HistCases
		tot.Retried += w.Retried
		if i == 0 || w.DenseDelaysDone < tot.DenseDelaysDone {
			tot.DenseDelaysDone = w.DenseDelaysDone
		}
		tot.HistNonTrivial += w.HistNonTrivial
		for k, v := range w.HistByLen {
			tot.HistByLen[k] += v
		}
		for k, v := range w.UnrelatedSeen {
			tot.UnrelatedSeen[k] += v
		}
		for k, v := range w.ConnReused {
			tot.ConnReused[k] += v
		}
		for k, v := range w.ConnFresh {
			tot.ConnFresh[k] += v
		}
		for k, v := range w.ConnReconnects {
			tot.ConnReconnects[k] += v
		}
		tot.Cases += w.Cases
		tot.Deliveries += w.Deliveries
		tot.NonTrivial += w.NonTrivial
		tot.ClockReads += w.ClockReads
		tot.FreshRejected += w.FreshRejected
		tot.Exhaustive = tot.Exhaustive && w.Exhaustive
		for k, v := range w.Outcomes {
			tot.Outcomes[k] += v
		}
		for k, v := range w.AcceptedOrigin {
			tot.AcceptedOrigin[k] += v
		}
		for k, v := range w.GridOffsets {
			tot.GridOffsets[k] = v
		}
		for k, v := range w.GridDelays {
			tot.GridDelays[k] = v
		}
		for _, c := range w.Classes {
			c := c
			key := c.Kind + "|" + c.Site + "|" + c.Region
			if have, ok := classes[key]; !ok {
				classes[key] = &c
			} else {
				have.Count += c.Count
				if caseLess(c.Min.Case, have.Min.Case) {
					have.Min, have.MinIdx, have.MinShard = c.Min, c.MinIdx, c.MinShard
				}
				if c.MaxDelay > have.MaxDelay {
					have.MaxDelay = c.MaxDelay
				}
				if c.MinOff < have.MinOff {
					have.MinOff = c.MinOff
				}
				if c.MaxOff > have.MaxOff {
					have.MaxOff = c.MaxOff
				}
			}
		}
		if len(samples) < 6 {
			samples = append(samples, w.Samples...)
		}
	}
	siteNames := []string{}
	for s := range tot.Sites {
		siteNames = append(siteNames, s)
	}
	sort.Strings(siteNames)
	for _, v := range tot.Intervals {
		if v > sigSweepNs {
			sigSweepNs = v
		}
	}
	for _, s := range siteNames {
		if tot.AcceptedOrigin[s] == 0 && !tot.Exhaustive {
			exit(func() {
				unbound("site %s: the time budget ran out before the site was reached (worker build took %.0fs); re-run on a less loaded machine", s, buildS)
			})
		}
		if tot.AcceptedOrigin[s] == 0 {
			exit(func() {
				unbound("site %s: not one in-window original was accepted under the virtual clock — the handler reads time some other way, or the harness no longer speaks its protocol", s)
			})
		}
	}
	if tot.ClockReads == 0 {
		exit(func() { unbound("the rewritten clock was never read") })
	}
	// vacuity of the connection dimension: every long-lived-connection site must have served deliveries on
	// an already-used connection and on fresh ones
	for _, s := range connSites {
		if _, ok := tot.Sites[s]; !ok {
			exit(func() { unbound("site %s (served over a long-lived connection) is gone", s) })
		}
		if tot.ConnReused[s] == 0 || tot.ConnFresh[s] == 0 {
			exit(func() {
				unbound("site %s: %d deliveries on a reused connection, %d on fresh ones - the long-lived connection is not exercised", s, tot.ConnReused[s], tot.ConnFresh[s])
			})
		}
	}

	// every class: replay the minimal case twice in a fresh process, each time on a fresh handler + cache.
	// Identical observations -> VIOLATION with the case as replay object. Otherwise the case depends on
	// something outside itself: the shard's whole case sequence up to and including it (the harness's own
	// deterministic order: cases with enumeration index = shard mod workers, ascending) is re-run twice, each
	// in a fresh process; if both re-runs observe the violating case exactly as the run did, it is a
	// VIOLATION of kind ...|depends-on-preceding-deliveries whose replay object is that sequence. Only when
	// even the sequence does not reproduce is it HARNESS-NONDETERMINISM.
	keys := []string{}
	for k := range classes {
		keys = append(keys, k)
	}
	sort.Strings(keys)
	var nondet []string
	seqClasses := 0
	if len(keys) > 0 {
		var mins []Case
		for _, k := range keys {
			mins = append(mins, classes[k].Min.Case)
		}
		cb, _ := json.Marshal(mins)
		w, err := runWorker("-scratch", filepath.Join(scratch, "replay"), "-repeat", "2", "-case", string(cb))
		if err != nil {
			exit(func() { unbound("replay of minimal cases failed: %v", err) })
		}
		if len(w.Errors) > 0 || len(w.Samples) != 2*len(keys) {
			exit(func() { unbound("replay of minimal cases failed: %v (%d observations)", w.Errors, len(w.Samples)) })
		}
		type seqRes struct {
			outs [2]*WorkerOut
			errs [2]error
		}
		pending := map[string]*seqRes{}
		var swg sync.WaitGroup
		sem := make(chan struct{}, nw)
		for i, k := range keys {
			c := classes[k]
			if w.Samples[2*i] == c.Min && w.Samples[2*i+1] == c.Min {
				run.Violate(signature(*c), describe(*c), c.Min)
				continue
			}
			if c.MinIdx <= 0 {
				nondet = append(nondet, fmt.Sprintf("minimal case of %s does not reproduce and its place in the enumeration is unknown", k))
				continue
			}
			sr := &seqRes{}
			pending[k] = sr
			for rep := 0; rep < 2; rep++ {
				swg.Add(1)
				go func(k string, c *Class, rep int) {
					defer swg.Done()
					sem <- struct{}{}
					defer func() { <-sem }()
					sr.outs[rep], sr.errs[rep] = runWorker("-tier", run.Tier, "-shard", strconv.Itoa(c.MinShard), "-of", strconv.Itoa(nw),
						"-scratch", filepath.Join(scratch, fmt.Sprintf("seq-%d-%d", c.MinIdx, rep)), "-upto", strconv.Itoa(c.MinIdx),
						"-seed", strconv.Itoa(run.Seed))
				}(k, c, rep)
			}
		}
		swg.Wait()
		for i, k := range keys {
			sr, ok := pending[k]
			if !ok {
				continue
			}
			c := classes[k]
			wb, _ := json.Marshal(c.Min)
			ib, _ := json.Marshal(w.Samples[2*i : 2*i+2])
			same := true
			var got []string
			for rep := 0; rep < 2; rep++ {
				if sr.errs[rep] != nil {
					exit(func() { unbound("sequence re-run for %s failed: %v", k, sr.errs[rep]) })
				}
				if len(sr.outs[rep].Errors) > 0 {
					exit(func() { unbound("sequence re-run for %s failed: %v", k, sr.outs[rep].Errors) })
				}
				t := sr.outs[rep].Target
				if t == nil || *t != c.Min {
					same = false
				}
				tb, _ := json.Marshal(t)
				got = append(got, string(tb))
			}
			if !same {
				nondet = append(nondet, fmt.Sprintf("minimal case of %s reproduces neither in isolation nor after the worker's whole case sequence (shard %d/%d, cases up to index %d): run saw %s, isolation saw %s, sequence re-runs saw %s",
					k, c.MinShard, nw, c.MinIdx, wb, ib, strings.Join(got, " and ")))
				continue
			}
			seqClasses++
			sq := SeqSpec{Tier: run.Tier, Shard: c.MinShard, Of: nw, Upto: c.MinIdx, Cases: sr.outs[0].Cases, Deliveries: sr.outs[0].Deliveries}
			run.Violate(signature(*c)+seqSuffix,
				describe(*c)+fmt.Sprintf(" -- DEPENDS ON PRECEDING DELIVERIES: the case alone (fresh process, fresh handler + cache, run twice) gives original=%s replay=%s and original=%s replay=%s; it reproduces, twice, as the last of the %d cases (%d deliveries) worker %d/%d runs in one process in the harness's enumeration order (re-run: ./check C26 %s --replay <replay file>)",
					w.Samples[2*i].Orig, w.Samples[2*i].Replay, w.Samples[2*i+1].Orig, w.Samples[2*i+1].Replay, sq.Cases, sq.Deliveries, sq.Shard, sq.Of, run.Tier),
				SeqReplay{Case: c.Min.Case, Observed: c.Min, Sequence: sq, Isolated: w.Samples[2*i : 2*i+2]})
		}
	}
	if len(nondet) > 0 {
		if run.ViolationClasses() == 0 {
			exit(func() { ev.Nondeterminism(strings.Join(nondet, "; ")) })
		}
		// other classes are confirmed violations: report them (exit 1) and say what could not be confirmed
		for _, n := range nondet {
			fmt.Printf("HARNESS-NONDETERMINISM: %s\n", n)
		}
		run.Coverage["unconfirmed_nondeterministic_classes"] = nondet
	}
	run.Coverage["classes_confirmed_only_as_worker_sequence"] = seqClasses

	run.Coverage["evaluations"] = tot.Cases
	run.Coverage["deliveries"] = tot.Deliveries
	run.Coverage["distinct_nontrivial"] = tot.NonTrivial
	run.Coverage["rule"] = "per message type (replicate-sync, forward-apply, cache-invalidate, edge-sync-file, edge-sync-reconcile): fresh real handler + nonce cache built by the call site's own expression at virtual time T0; a signed message (timestamp = receiver second + offset) is delivered at T0+first+phase and the byte-identical message again `delay` later, optionally with unrelated valid traffic every 61 s in between (eviction sweeps). Grid = offsets x delays x recv-phase {0,0.5s} x delay sub-second {0,+0.999999999s} x first-receipt {0,61s} x ticks {off,on} (quick: edge values of tol/ttl; thorough adds every whole second of offset in [-tol-2,tol+2] x every whole second of delay in [0,max(2tol,ttl)+3]). Every tuple is distinct by construction; a case counts as non-trivial when the original was accepted and the replay arrived while its timestamp was still inside the window (only the nonce cache can stop it). HISTORIES (history_cases of the evaluations): every sequence of 2..4 deliveries on ONE handler + cache with exactly one first delivery M (timestamp = receiver second + offset), a final byte-identical replay R after it and unrelated authentic deliveries in the other positions, each U (same sender, fresh nonce) or V (another node id, the SAME nonce), every delivery preceded by a clock advance from the gap grid {0, 1s, I-1s, I, I+1s, ttl-I-1s, ttl-I, ttl-I+1s, ttl-1s, ttl, ttl+1s} (I = every time.Duration constant of nonce_cache.go as compiled, i.e. the sweep interval; history_gap_grid_s lists the values), the advances between M and R summing to at most 2*tol+2s (beyond that R is outside the window for every offset; the time grid covers that side), x the 9 edge offsets. quick: shapes MR, MXR, XMR with the time from construction to the first delivery in {0, I+1s} and MXXR starting at construction time; thorough adds construction gaps {0, I, I+1s} for those shapes, and the shapes XMXR, XXMR starting at construction time. ORDER: the quick set (histories + edge grid) of every site runs first and is never cut short; thorough then runs the extra histories and the dense grid delay by delay across all sites under its time cap (a cut sets exhaustive=false and dense_grid_delays_completed_s says how far every site got). Any accepted R after an accepted M is a violation; U and V are expected to be accepted (counted in unrelated_deliveries, a rejection is not a violation of this property). CONNECTIONS: the sites production serves over a long-lived connection (cache-invalidate, edge-sync-file, edge-sync-reconcile: HTTP keep-alive to the fiber/fasthttp server; forward-apply: the peer's persistent leader connection, handleForwardApplyLoop) get, per case, ONE long-lived server (a fiber app with the production server's Immutable/StreamRequestBody/DisableKeepalive/ReduceMemoryUsage options, its fasthttp server serving in-memory connections through Server.ServeConn; the real handlePeerConnection on an in-memory pipe) and ONE keep-alive connection over which every delivery of the case is written back to back, so the server's per-connection request object and header/body buffers are reused from delivery to delivery exactly as in production; all sender ids of a site and all nonces of a history have the same length, so a later delivery occupies exactly the bytes an earlier one did. Every history of those four sites is run in two variants: replay R on that same connection, and replay Rf on a FRESH connection opened for it while the first stays open (token suffix f) - i.e. the replay comes on the same and on a fresh connection after 0, 1 or 2 unrelated deliveries (U/V) served on M's connection since M (shapes MR, MXR, MXXR), and after unrelated deliveries before M (XMR). quick runs the Rf variants with every advance after the first drawn from the reduced grid {0, 1s, I+1s} (history_fresh_conn_quick_gap_grid_s) and the first advance as for R; thorough adds, for those shapes, the Rf variants over the full gap grid and all first advances {0, I, I+1s}, and for the thorough-only shapes (XMXR, XXMR) the Rf variants over the reduced grid. history_cases_by_shape counts Rf variants under '<shape>f'. replicate-sync is one handshake per connection in production and in the harness (no connection dimension). Time-grid cases deliver everything on the keep-alive connection. NON-REPRODUCING CASES: the minimal case of every violating class is re-run twice in a fresh process on a fresh handler; if it does not give the same observation, the worker's whole case sequence up to and including it (its shard of the enumeration, in enumeration order, one process) is re-run twice, and if both re-runs reproduce the observation the class is reported as a VIOLATION with signature suffix |depends-on-preceding-deliveries and that sequence as replay object; only otherwise is it HARNESS-NONDETERMINISM."
	run.Coverage["history_cases"] = tot.HistCases
	run.Coverage["cases_retried_after_harness_error"] = tot.Retried
	if !run.Quick() {
		run.Coverage["dense_grid_delays_completed_s"] = tot.DenseDelaysDone
	}
	run.Coverage["history_cases_by_shape"] = tot.HistByLen
	run.Coverage["history_nontrivial"] = tot.HistNonTrivial
	run.Coverage["history_gap_grid_s"] = tot.HistGaps
	run.Coverage["unrelated_deliveries"] = tot.UnrelatedSeen
	run.Coverage["history_fresh_conn_quick_gap_grid_s"] = tot.HistFreshGaps
	run.Coverage["conn_sites"] = connSites
	run.Coverage["conn_deliveries_on_reused_connection"] = tot.ConnReused
	run.Coverage["conn_deliveries_on_fresh_connection"] = tot.ConnFresh
	run.Coverage["conn_redials_after_server_close"] = tot.ConnReconnects
	iv := map[string]string{}
	for k, v := range tot.Intervals {
		iv[k] = durS(v)
	}
	run.Coverage["nonce_cache_duration_constants"] = iv
	if tot.IntervalsAssumed {
		run.Assume("no time.Duration constant was found in nonce_cache.go: the history grid assumes a 60 s sweep interval")
	}
	run.Coverage["exhaustive"] = tot.Exhaustive
	run.Coverage["outcomes"] = tot.Outcomes
	run.Coverage["accepted_originals"] = tot.AcceptedOrigin
	run.Coverage["fresh_in_window_rejected"] = tot.FreshRejected
	run.Coverage["clock_reads"] = tot.ClockReads
	run.Coverage["grid_offsets_per_site"] = tot.GridOffsets
	run.Coverage["grid_delays_per_site"] = tot.GridDelays
	st := map[string]any{}
	for _, s := range siteNames {
		st[s] = map[string]any{"tolerance": durS(tot.Sites[s].TolNs), "nonce_ttl": durS(tot.Sites[s].TTLNs)}
	}
	run.Coverage["sites"] = st
	run.Coverage["bindings"] = g.sites
	run.Coverage["worker_build_s"] = buildS
	run.Coverage["workers"] = nw
	var sl []any
	for i, s := range samples {
		if i >= 6 {
			break
		}
		sl = append(sl, s)
	}
	run.Coverage["samples"] = sl
	if got := strings.Fields(g.sites["track_call_sites"]); strings.Join(got, " ") != strings.Join(expectedTrackSites, " ") {
		run.Coverage["exhaustive"] = false
		run.Coverage["unexpected_track_call_sites"] = got
		run.Assume("the set of Track(id, nonce) call sites differs from the five this check drives; message types behind the extra sites are NOT covered")
	}
	run.Assume("window membership is judged at the protocol's granularity: receiver unix second vs signed unix second, outside iff |difference| > tolerance in whole seconds")
	run.Assume("time is virtual only inside internal/cluster/security (overlay rewrite of time.Now generated from the current files); handlers are assumed not to consult the wall clock for freshness themselves (if they did, no original would be accepted and the check would exit 2)")
	run.Assume("TTL and tolerance are the values of the call sites' own expressions (Coordinator.Start, cmd/arc/main.go, handler validate calls), evaluated by the compiler in their package; cmd/arc expressions must reduce to package-level constants and imported names")
	run.Assume("handlers are driven in isolation: Coordinator without Raft/replication sender (accept = reply past the auth gate), edge-sync without the API-token layer (authManager nil); join/leave/heartbeat/fetch/checkpoint MACs carry no nonce-cache check in the code and are outside this property's four message types")
	run.Assume("a rejected in-window ORIGINAL is not a violation of this property (counted in fresh_in_window_rejected)")
	run.Assume("connections: no connection is closed before its case ends, so a fresh connection is always served by a request object of its own; the route by which fasthttp hands a CLOSED connection's request object to a later connection (a sync.Pool, hit or miss depends on goroutine scheduling) is not enumerated - the same buffer reuse is reached deterministically by the deliveries that share the keep-alive connection. The server's wall-clock read/idle timeouts are not configured (they are not part of the property); unrelated deliveries always travel on M's connection, only the replay changes connection")
	fmt.Printf("C26 %s: %d cases (%d multi-event histories %v, %d of them non-trivial; cache periods %v), %d deliveries, %d non-trivial, %d violation classes, exhaustive=%v, sites=%v, worker build %.1fs\n",
		run.Tier, tot.Cases, tot.HistCases, tot.HistByLen, tot.HistNonTrivial, iv, tot.Deliveries, tot.NonTrivial, len(classes), tot.Exhaustive, st, buildS)
	ok := []string{}
	for k, v := range tot.Outcomes {
		ok = append(ok, fmt.Sprintf("%s=%d", k, v))
	}
	sort.Strings(ok)
	fmt.Printf("C26 outcomes: %s\n", strings.Join(ok, " "))
	exit(run.Finish)
}

func describe(c Class) string {
	o := c.Min
	switch c.Kind {
	case "replay-accepted":
		how := ""
		if o.Case.Hist != "" {
			how = fmt.Sprintf(" [history %q, ts offset %+ds: %s]", o.Case.Hist, o.Case.OffS, o.Events)
		}
		return fmt.Sprintf("%s: byte-identical (sender, nonce) message accepted twice: tolerance %ds, nonce TTL %s; original at drift %+ds accepted, replay %s later at drift %+ds accepted%s (%d grid cases in class; timestamp offsets %+d..%+ds, replay delays up to %s)",
			c.Site, o.TolS, durS(o.TTLNs), o.OrigDrift, durS(o.ElapsedNs), o.ReplDrift, how, c.Count, c.MinOff, c.MaxOff, durS(c.MaxDelay))
	default:
		return fmt.Sprintf("%s: message accepted although its timestamp is outside the ±%ds window (original drift %+ds -> %s, replay drift %+ds -> %s; %d grid cases in class)",
			c.Site, o.TolS, o.OrigDrift, o.Orig, o.ReplDrift, o.Replay, c.Count)
	}
}
