//go:build c26worker

// Worker of check C26: enumerates one shard of the time grid against the real handlers under the
// virtual clock. Built by the driver (main.go) with the overlay it generates from /repo.
// One case at a time per process: the virtual clock is a package global of the security package.
package main

import (
	"bufio"
	"bytes"
	"crypto/sha256"
	"database/sql"
	"encoding/hex"
	"encoding/json"
	"flag"
	"fmt"
	"io"
	"net"
	"net/http"
	"os"
	"path/filepath"
	"sort"
	"strconv"
	"strings"
	"time"

	"github.com/basekick-labs/arc/internal/api"
	"github.com/basekick-labs/arc/internal/cluster"
	"github.com/basekick-labs/arc/internal/cluster/protocol"
	"github.com/basekick-labs/arc/internal/cluster/security"
	"github.com/basekick-labs/arc/internal/edgesync"
	"github.com/basekick-labs/arc/internal/storage"
	"github.com/gofiber/fiber/v2"
	_ "github.com/mattn/go-sqlite3"
	"github.com/rs/zerolog"
	"github.com/valyala/fasthttp"
	"github.com/valyala/fasthttp/fasthttputil"
)

// ---- result types: shared.go ---------------------------------------------------------------------

// ---- sites -----------------------------------------------------------------------------------

const (
	secret      = "c26-cluster-shared-secret"
	clusterName = "c26-cluster"
	localNodeID = "c26-local"
	hubID       = "c26-hub"
	epochS      = int64(1_000_000_000) // virtual T0 (2001-09-09): far from the wall clock on purpose
)

// harnessErr aborts the run as HARNESS-UNBOUND (reported by the driver), never as a violation.
type harnessErr string

func fail(format string, a ...any) { panic(harnessErr(fmt.Sprintf(format, a...))) }

type instance interface {
	ttl() time.Duration
	// deliver sends one signed message through the real handler; accepted = passed validate-then-Track.
	// fresh=false: over the instance's one long-lived connection (opened by the first such delivery and
	// kept alive); fresh=true: over a connection opened for this delivery (kept open until close()).
	// Sites whose protocol carries one message per connection (replicate-sync) ignore it.
	deliver(sender, nonce string, ts int64, fresh bool) (accepted bool, why string)
	// close tears the instance's connections down and waits for the server side to return.
	close()
}

type site struct {
	name string
	tol  time.Duration
	mk   func() instance
	// conn: the site is served over a long-lived connection in production (HTTP keep-alive, the
	// persistent forward-apply peer connection), so the connection dimension applies to its histories
	conn bool
	st   *connStats
}

// connStats: per site, measured (evidence: the keep-alive connection really was reused).
type connStats struct{ reused, fresh, reconnects int }

func ttlOf(g any) time.Duration {
	t, ok := g.(interface{ VerifTTL() time.Duration })
	if !ok {
		fail("replay guard %T exposes no TTL (site no longer builds a *security.NonceCache)", g)
	}
	return t.VerifTTL()
}

// -- internal/cluster: handlePeerConnection over net.Pipe ----------------------------------------

type coordInst struct {
	c    *cluster.Coordinator
	kind string
	// forward-apply: the peer keeps ONE persistent connection to the leader and sends every forwarded
	// command over it (handleForwardApplyLoop); keep is that connection, all lists every open one
	keep *peerConn
	all  []*peerConn
	st   *connStats
}

type peerConn struct {
	raw    net.Conn
	cli    noDeadlineConn
	done   chan struct{}
	served int
}

func (i *coordInst) ttl() time.Duration { return ttlOf(i.c.VerifC26NonceCache()) }

func (i *coordInst) dial() *peerConn {
	rawCli, rawSrv := net.Pipe()
	pc := &peerConn{raw: rawCli, cli: noDeadlineConn{rawCli}, done: make(chan struct{})}
	go func() { i.c.VerifC26HandlePeer(noDeadlineConn{rawSrv}); rawSrv.Close(); close(pc.done) }()
	i.all = append(i.all, pc)
	return pc
}

func (i *coordInst) close() {
	for _, pc := range i.all {
		pc.raw.Close()
	}
	for _, pc := range i.all {
		select {
		case <-pc.done:
		case <-time.After(handlerWatchdog):
			fail("%s: peer-connection handler did not return after its connection was closed", i.kind)
		}
	}
	i.all, i.keep = nil, nil
}

// deliverForward: one forwarded command over the persistent connection (or a fresh one).
func (i *coordInst) deliverForward(msg *protocol.Message, fresh bool) *protocol.Message {
	for attempt := 0; ; attempt++ {
		var pc *peerConn
		if fresh {
			pc = i.dial()
			i.st.fresh++
		} else {
			if i.keep == nil {
				i.keep = i.dial()
			}
			pc = i.keep
		}
		wd := time.AfterFunc(handlerWatchdog, func() { pc.raw.Close() })
		err := protocol.SendMessage(pc.cli, msg, 0)
		if err != nil && !fresh && pc.served > 0 && attempt == 0 {
			// the handler ended the persistent connection after an earlier reply: a production peer
			// re-dials on the next command, so does the harness (counted)
			wd.Stop()
			pc.raw.Close()
			i.keep = nil
			i.st.reconnects++
			continue
		}
		if err != nil {
			wd.Stop()
			fail("%s: send: %v", i.kind, err)
		}
		resp, err := protocol.ReceiveMessage(pc.cli, 0)
		wd.Stop()
		if err != nil {
			fail("%s: no reply from handler: %v", i.kind, err)
		}
		if pc.served > 0 {
			i.st.reused++
		}
		pc.served++
		return resp
	}
}

// noDeadlineConn: the handler (and the protocol codec) arm WALL-CLOCK read/write deadlines of 5-30 s on
// the connection; on an in-memory pipe they are not part of the property, and on a heavily loaded box
// they fire spuriously (a starved goroutine is enough). The harness side is guarded by handlerWatchdog.
type noDeadlineConn struct{ net.Conn }

func (noDeadlineConn) SetDeadline(time.Time) error      { return nil }
func (noDeadlineConn) SetReadDeadline(time.Time) error  { return nil }
func (noDeadlineConn) SetWriteDeadline(time.Time) error { return nil }

// handlerWatchdog: how long one delivery may take in wall time before the case is abandoned (and
// retried once on a fresh handler). Only a hung handler can reach it.
const handlerWatchdog = 5 * time.Minute

func (i *coordInst) deliver(sender, nonce string, ts int64, fresh bool) (bool, string) {
	var msg *protocol.Message
	if i.kind == "forward-apply" {
		payload := []byte(`{"type":1,"payload":{}}`)
		msg = &protocol.Message{Type: protocol.MsgForwardApply, Payload: &protocol.ForwardApplyRequest{
			CommandJSON: payload, NodeID: sender, Nonce: nonce, Timestamp: ts,
			HMAC: security.ComputeForwardHMAC(secret, nonce, sender, clusterName, payload, ts),
		}}
	} else {
		msg = &protocol.Message{Type: protocol.MsgReplicateSync, Payload: &protocol.ReplicateSync{
			ReaderID: sender, LastKnownSequence: 7, Nonce: nonce, ClusterName: clusterName, Timestamp: ts,
			HMAC: security.ComputeReplicateSyncHMAC(secret, nonce, sender, clusterName, 7, ts),
		}}
	}
	var resp *protocol.Message
	if i.kind == "forward-apply" {
		resp = i.deliverForward(msg, fresh)
	} else {
		// replicate-sync: one handshake per connection (the handler hands the connection to the
		// replication sender, or closes it on rejection)
		rawCli, rawSrv := net.Pipe()
		cli, srv := noDeadlineConn{rawCli}, noDeadlineConn{rawSrv}
		done := make(chan struct{})
		go func() { i.c.VerifC26HandlePeer(srv); close(done) }()
		wd := time.AfterFunc(handlerWatchdog, func() { rawCli.Close(); rawSrv.Close() })
		defer wd.Stop()
		if err := protocol.SendMessage(cli, msg, 0); err != nil {
			fail("%s: send: %v", i.kind, err)
		}
		var err error
		resp, err = protocol.ReceiveMessage(cli, 0)
		if err != nil {
			fail("%s: no reply from handler: %v", i.kind, err)
		}
		cli.Close()
		<-done
		srv.Close()
	}
	switch a := resp.Payload.(type) {
	case *protocol.ForwardApplyAck:
		switch {
		case a.Code == protocol.ForwardCodeAuth && a.Error == "nonce replay":
			return false, "replay"
		case a.Code == protocol.ForwardCodeAuth:
			return false, "auth"
		case a.Code == protocol.ForwardCodeRaftUnavailable:
			return true, ""
		}
		fail("forward-apply: unexpected ack %+v", *a)
	case *protocol.ReplicateSyncAck:
		switch {
		case a.Error == "authentication failed":
			return false, "auth"
		case strings.Contains(a.Error, "not configured as a writer"):
			return true, ""
		}
		fail("replicate-sync: unexpected ack %+v", *a)
	}
	fail("%s: unexpected reply type %T", i.kind, resp.Payload)
	return false, ""
}

func coordSite(kind string) site {
	probe := cluster.VerifC26Coordinator(secret, clusterName)
	tol := probe.VerifC26ForwardTolerance()
	if kind == "replicate-sync" {
		tol = probe.VerifC26ReplicateSyncTolerance()
	}
	st := &connStats{}
	return site{name: kind, tol: tol, conn: kind == "forward-apply", st: st, mk: func() instance {
		return &coordInst{c: cluster.VerifC26Coordinator(secret, clusterName), kind: kind, st: st}
	}}
}

// -- HTTP sites: ONE long-lived fasthttp server per handler instance, requests written back to back on
// in-memory keep-alive connections ------------------------------------------------------------------
//
// The fiber app is built with the buffer-relevant options of the production api server (Immutable,
// StreamRequestBody, DisableKeepalive, ReduceMemoryUsage as written in internal/api/server.go; the
// driver reads them from the source) and its fasthttp server serves every connection through
// Server.ServeConn - the same serveConn loop the production listener's worker pool runs: one RequestCtx
// per connection, request header/body buffers reused from request to request on that connection.
// No connection is closed before the case ends, so a fresh connection always gets a RequestCtx of its
// own (fasthttp passes a closed connection's RequestCtx on through a sync.Pool whose hit or miss depends
// on scheduling; the harness keeps that out of the case).

type httpConn struct {
	c      net.Conn
	br     *bufio.Reader
	done   chan struct{}
	served int
}

type httpRig struct {
	what string
	srv  *fasthttp.Server
	keep *httpConn
	all  []*httpConn
	st   *connStats
}

func newFiberApp() *fiber.App {
	return fiber.New(fiber.Config{DisableStartupMessage: true, Immutable: siteFiberImmutable,
		StreamRequestBody: siteFiberStreamRequestBody, DisableKeepalive: siteFiberDisableKeepalive,
		ReduceMemoryUsage: siteFiberReduceMemoryUsage})
}

func newHTTPRig(what string, app *fiber.App, st *connStats) *httpRig {
	app.Handler() // fiber's startup step (route tree), what Listen/Listener/Test run before serving
	return &httpRig{what: what, srv: app.Server(), st: st}
}

func (h *httpRig) dial() *httpConn {
	pc := fasthttputil.NewPipeConns()
	hc := &httpConn{c: pc.Conn1(), br: bufio.NewReader(pc.Conn1()), done: make(chan struct{})}
	srvConn := pc.Conn2()
	go func() { h.srv.ServeConn(srvConn); close(hc.done) }()
	h.all = append(h.all, hc)
	return hc
}

func (h *httpRig) close() {
	for _, hc := range h.all {
		hc.c.Close()
	}
	for _, hc := range h.all {
		select {
		case <-hc.done:
		case <-time.After(handlerWatchdog):
			fail("%s: server did not return after its connection was closed", h.what)
		}
	}
	h.all, h.keep = nil, nil
}

// do writes one HTTP/1.1 request on the keep-alive connection (or a fresh one) and reads the reply.
func (h *httpRig) do(method, path string, hdr [][2]string, body []byte, fresh bool) (int, []byte) {
	var rd io.Reader
	if body != nil {
		rd = bytes.NewReader(body)
	}
	req, err := http.NewRequest(method, "http://c26.hub"+path, rd)
	if err != nil {
		fail("%s: request: %v", h.what, err)
	}
	for _, kv := range hdr {
		req.Header.Set(kv[0], kv[1])
	}
	var hc *httpConn
	if fresh {
		hc = h.dial()
		h.st.fresh++
	} else {
		if h.keep == nil {
			h.keep = h.dial()
		}
		hc = h.keep
	}
	wd := time.AfterFunc(handlerWatchdog, func() { hc.c.Close() })
	defer wd.Stop()
	if err := req.Write(hc.c); err != nil {
		fail("%s: write request: %v", h.what, err)
	}
	resp, err := http.ReadResponse(hc.br, req)
	if err != nil {
		fail("%s: read response: %v", h.what, err)
	}
	raw, err := io.ReadAll(resp.Body)
	resp.Body.Close()
	if err != nil {
		fail("%s: read response body: %v", h.what, err)
	}
	if hc.served > 0 {
		h.st.reused++
	}
	hc.served++
	if resp.Close && hc == h.keep {
		// the server announced it closes this connection: a production client dials again (counted)
		h.keep = nil
		h.st.reconnects++
	}
	return resp.StatusCode, raw
}

// -- internal/api: cache invalidate ---------------------------------------------------------------

type cacheInvInst struct {
	*httpRig
	cache *security.NonceCache
	calls *int
}

func (i *cacheInvInst) ttl() time.Duration { return ttlOf(i.cache) }

func (i *cacheInvInst) deliver(sender, nonce string, ts int64, fresh bool) (bool, string) {
	before := *i.calls
	status, _ := i.do(http.MethodPost, api.CacheInvalidatePath, [][2]string{
		{"X-Arc-Node-ID", sender},
		{"X-Arc-Cluster", clusterName},
		{"X-Arc-Nonce", nonce},
		{"X-Arc-Timestamp", strconv.FormatInt(ts, 10)},
		{"X-Arc-HMAC", security.ComputeCacheInvalidateHMAC(secret, nonce, sender, clusterName, ts)},
	}, nil, fresh)
	switch {
	case status == fiber.StatusNoContent && *i.calls == before+1:
		return true, ""
	case status == fiber.StatusForbidden && *i.calls == before:
		return false, "forbidden"
	}
	fail("cache-invalidate: status %d, onInvalidate calls %d->%d", status, before, *i.calls)
	return false, ""
}

func cacheInvSite() site {
	st := &connStats{}
	return site{name: "cache-invalidate", tol: siteCacheInvalidateTolerance(), conn: true, st: st, mk: func() instance {
		calls := new(int)
		cache := siteCacheInvalidateNonceCache()
		h := api.NewCacheInvalidateHandler(secret, clusterName, localNodeID, cache, siteCacheInvalidateTolerance(),
			func() { *calls++ }, zerolog.Nop())
		app := newFiberApp()
		h.Register(app)
		return &cacheInvInst{httpRig: newHTTPRig("cache-invalidate", app, st), cache: cache, calls: calls}
	}}
}

// -- internal/api: edge sync -----------------------------------------------------------------------

type edgeRig struct {
	recv *edgesync.Receiver
	rec  *edgesync.Reconciler
	hdr  map[string]string
}

func newEdgeRig(scratch string) *edgeRig {
	dir := filepath.Join(scratch, "hub")
	if err := os.MkdirAll(dir, 0o755); err != nil {
		fail("scratch: %v", err)
	}
	backend, err := storage.NewLocalBackend(dir, zerolog.Nop())
	if err != nil {
		fail("edge-sync backend: %v", err)
	}
	db, err := sql.Open("sqlite3", filepath.Join(scratch, "hubindex.db"))
	if err != nil {
		fail("edge-sync sqlite: %v", err)
	}
	idx, err := edgesync.NewHubIndex(db, zerolog.Nop())
	if err != nil {
		fail("edge-sync hub index: %v", err)
	}
	recv, err := edgesync.NewReceiver(edgesync.ReceiverConfig{Backend: backend, Index: idx, Logger: zerolog.Nop()})
	if err != nil {
		fail("edge-sync receiver: %v", err)
	}
	rec, err := edgesync.NewReconciler(edgesync.ReconcilerConfig{Index: idx, Backend: backend, MaxEntries: 100})
	if err != nil {
		fail("edge-sync reconciler: %v", err)
	}
	return &edgeRig{recv: recv, rec: rec, hdr: api.VerifC26SyncHeaders()}
}

type edgeInst struct {
	*httpRig
	rig   *edgeRig
	guard security.ReplayGuard
	kind  string
}

func (i *edgeInst) ttl() time.Duration { return ttlOf(i.guard) }

var edgeBody = []byte("c26 parquet payload")

const edgePath = "metrics/cpu/2026/08/07/14/cpu_c26.parquet"

func (i *edgeInst) deliver(sender, nonce string, ts int64, fresh bool) (bool, string) {
	h := i.rig.hdr
	var hdr [][2]string
	var path string
	var body []byte
	if i.kind == "edge-sync-file" {
		sum := sha256.Sum256(edgeBody)
		sha := hex.EncodeToString(sum[:])
		mac, err := security.ComputeSyncFileHMAC(secret, nonce, sender, hubID, edgePath, sha, ts)
		if err != nil {
			fail("edge-sync-file: sign: %v", err)
		}
		path, body = "/api/v1/sync/file", edgeBody
		hdr = append(hdr, [2]string{h["path"], edgePath}, [2]string{h["sha256"], sha},
			[2]string{h["size"], strconv.Itoa(len(edgeBody))}, [2]string{h["mac"], mac})
	} else {
		body = []byte(`{"entries":[]}`)
		mac, err := security.ComputeSyncReconcileHMAC(secret, nonce, sender, hubID, body, ts)
		if err != nil {
			fail("edge-sync-reconcile: sign: %v", err)
		}
		path = "/api/v1/sync/reconcile"
		hdr = append(hdr, [2]string{"Content-Type", "application/json"}, [2]string{h["mac"], mac})
	}
	hdr = append(hdr, [2]string{h["spoke"], sender}, [2]string{h["hub"], hubID}, [2]string{h["nonce"], nonce},
		[2]string{h["ts"], strconv.FormatInt(ts, 10)})
	status, raw := i.do(http.MethodPost, path, hdr, body, fresh)
	switch status {
	case fiber.StatusOK:
		return true, ""
	case fiber.StatusUnauthorized:
		var m map[string]any
		json.Unmarshal(raw, &m)
		why, _ := m["reason"].(string)
		if why == "" {
			why = "auth"
		}
		return false, why
	}
	fail("%s: unexpected status %d body %.200s", i.kind, status, raw)
	return false, ""
}

func edgeSite(rig *edgeRig, kind string) site {
	st := &connStats{}
	mk := func() *edgeInst {
		guard := siteEdgeSyncReplay()
		h, err := api.NewEdgeSyncHandler(api.EdgeSyncHandlerConfig{
			Receiver: rig.recv, Reconciler: rig.rec,
			SpokeSecrets: api.StaticSpokeSecrets(map[string]string{"spoke-a": secret, "spoke-t": secret, "spoke-u": secret}),
			Replay:       guard, HubID: hubID, MaxFileBytes: 1 << 20, Logger: zerolog.Nop(),
		})
		if err != nil {
			fail("edge-sync handler: %v", err)
		}
		app := newFiberApp()
		h.RegisterRoutes(app)
		return &edgeInst{httpRig: newHTTPRig(kind, app, st), rig: rig, guard: guard, kind: kind}
	}
	// tolerance: the handler method's own argument expression
	hh, err := api.NewEdgeSyncHandler(api.EdgeSyncHandlerConfig{Receiver: rig.recv, Reconciler: rig.rec,
		SpokeSecrets: api.StaticSpokeSecrets(map[string]string{"spoke-a": secret}), Replay: siteEdgeSyncReplay(),
		HubID: hubID, MaxFileBytes: 1 << 20, Logger: zerolog.Nop()})
	if err != nil {
		fail("edge-sync handler: %v", err)
	}
	tol := hh.VerifC26SyncFileTolerance()
	if kind == "edge-sync-reconcile" {
		tol = hh.VerifC26SyncReconcileTolerance()
	}
	return site{name: kind, tol: tol, conn: true, st: st, mk: func() instance { return mk() }}
}

// ---- one case -------------------------------------------------------------------------------------

// senders: the sender under test and the ids of the unrelated senders (tickers, V deliveries). All ids of
// a site have the SAME length, and so have all nonces of a history (unrelatedNonce): a delivery that
// follows M on M's connection then occupies exactly the bytes M's id and nonce occupied in the server's
// request buffers, which is what production traffic from one peer looks like (fixed-width node ids,
// fixed-width random nonces).
func senders(siteName string) (string, []string) {
	if strings.HasPrefix(siteName, "edge-sync") {
		return "spoke-a", []string{"spoke-t", "spoke-u"}
	}
	return "node-a", []string{"node-t", "node-u"}
}

func unrelatedNonce(k int) string { return fmt.Sprintf("nonce-unrelat-%02d", k) }

func abs(x int64) int64 {
	if x < 0 {
		return -x
	}
	return x
}

type result struct {
	obs        Obs
	deliveries int
	freshRej   int
	unrelated  map[string]int // "U=accepted" ... (history cases)
}

const nonceUnderTest = "nonce-under-test"

func init() {
	if len(unrelatedNonce(1)) != len(nonceUnderTest) {
		panic("c26: unrelated nonces must have the length of the nonce under test")
	}
}

// runHistory executes a history case (see Case in shared.go) on one fresh handler + nonce cache.
func runHistory(s site, c Case) result {
	t0 := epochS * 1e9
	security.VerifSetClock(t0)
	in := s.mk()
	defer in.close()
	tolS := int64(s.tol.Seconds())
	ttl := in.ttl()
	sender, tickers := senders(s.name)
	r := result{obs: Obs{Case: c, TolS: tolS, TTLNs: int64(ttl)}, unrelated: map[string]int{}}
	fmtRes := func(acc bool, why string) string {
		if acc {
			return "accepted"
		}
		return "rejected:" + why
	}
	now := t0
	var ts, tM int64
	nU, nV := 0, 0
	var evs []string
	for _, tok := range strings.Fields(c.Hist) {
		if tok[0] == '+' {
			n, err := strconv.ParseInt(tok[1:], 10, 64)
			if err != nil || n < 0 {
				fail("bad history token %q in %q", tok, c.Hist)
			}
			now += n * 1e9
			continue
		}
		security.VerifSetClock(now)
		var res string
		fresh := false
		full := tok
		if len(tok) == 2 && tok[1] == 'f' {
			if !s.conn {
				fail("history %q: site %s has no long-lived connection, token %q does not apply", c.Hist, s.name, tok)
			}
			fresh, tok = true, tok[:1]
		}
		switch tok {
		case "M":
			if r.obs.Orig != "" {
				fail("history %q delivers M twice", c.Hist)
			}
			tM, ts = now, now/1e9+c.OffS
			res = fmtRes(in.deliver(sender, nonceUnderTest, ts, fresh))
			r.obs.Orig, r.obs.OrigDrift = res, now/1e9-ts
		case "R":
			if r.obs.Orig == "" || r.obs.Replay != "" {
				fail("history %q: R must come once, after M", c.Hist)
			}
			res = fmtRes(in.deliver(sender, nonceUnderTest, ts, fresh))
			r.obs.Replay, r.obs.ReplDrift, r.obs.ElapsedNs = res, now/1e9-ts, now-tM
		case "U", "V":
			var acc bool
			var why string
			if tok == "U" { // same sender, a nonce of its own
				nU++
				acc, why = in.deliver(sender, unrelatedNonce(nU), now/1e9, fresh)
			} else { // another node id, the nonce under test
				nV++
				if nV > len(tickers) {
					fail("history %q: more than %d V deliveries", c.Hist, len(tickers))
				}
				acc, why = in.deliver(tickers[nV-1], nonceUnderTest, now/1e9, fresh)
			}
			res = fmtRes(acc, why)
			r.obs.TicksSent++
			if acc {
				r.obs.TicksTaken++
			} else {
				r.freshRej++
			}
			r.unrelated[tok+"="+res]++
		default:
			fail("bad history token %q in %q", tok, c.Hist)
		}
		r.deliveries++
		evs = append(evs, fmt.Sprintf("%s@+%ds=%s", full, (now-t0)/1e9, res))
	}
	if r.obs.Orig == "" || r.obs.Replay == "" {
		fail("history %q lacks M or R", c.Hist)
	}
	r.obs.Events = strings.Join(evs, " ")
	return r
}

// runCaseRetry: a case whose handler could not be driven (harnessErr: watchdog, broken pipe, ...) is
// run once more on a fresh handler + cache before the worker gives up with HARNESS-UNBOUND.
func runCaseRetry(s site, c Case, retried *int) (r result) {
	for attempt := 0; ; attempt++ {
		ok := func() (ok bool) {
			defer func() {
				if e := recover(); e != nil {
					if _, isH := e.(harnessErr); isH && attempt == 0 {
						*retried++
						return
					}
					panic(e)
				}
			}()
			r = runCase(s, c)
			return true
		}()
		if ok {
			return r
		}
	}
}

func runCase(s site, c Case) result {
	if c.Hist != "" {
		return runHistory(s, c)
	}
	t0 := epochS * 1e9
	security.VerifSetClock(t0)
	in := s.mk()
	defer in.close()
	tolS := int64(s.tol.Seconds())
	ttl := in.ttl()
	sender, tickers := senders(s.name)
	ticker := tickers[0]
	t1 := t0 + c.FirstS*1e9 + c.Phi1Ns
	s1 := t1 / 1e9
	ts := s1 + c.OffS
	t2 := t1 + c.DelayNs
	s2 := t2 / 1e9
	r := result{obs: Obs{Case: c, TolS: tolS, TTLNs: int64(ttl), OrigDrift: s1 - ts, ReplDrift: s2 - ts, ElapsedNs: c.DelayNs}}
	fmtRes := func(acc bool, why string) string {
		if acc {
			return "accepted"
		}
		return "rejected:" + why
	}
	security.VerifSetClock(t1)
	acc, why := in.deliver(sender, nonceUnderTest, ts, false)
	r.deliveries++
	r.obs.Orig = fmtRes(acc, why)
	if c.Ticks {
		for k := int64(1); t1+k*61e9 < t2; k++ {
			tk := t1 + k*61e9
			security.VerifSetClock(tk)
			a, _ := in.deliver(ticker, "tick-"+strconv.FormatInt(k, 10), tk/1e9, false)
			r.deliveries++
			r.obs.TicksSent++
			if a {
				r.obs.TicksTaken++
			} else {
				r.freshRej++
			}
		}
	}
	security.VerifSetClock(t2)
	acc, why = in.deliver(sender, nonceUnderTest, ts, false)
	r.deliveries++
	r.obs.Replay = fmtRes(acc, why)
	return r
}

// ---- grid -----------------------------------------------------------------------------------------

func uniq(v []int64) []int64 {
	sort.Slice(v, func(i, j int) bool { return v[i] < v[j] })
	out := v[:0]
	for i, x := range v {
		if i == 0 || x != v[i-1] {
			out = append(out, x)
		}
	}
	return out
}

func edgeOffsets(tol int64) []int64 {
	return uniq([]int64{-tol - 1, -tol, -tol + 1, -1, 0, 1, tol - 1, tol, tol + 1})
}

func edgeDelaysS(tolNs, ttlNs int64) []int64 { // whole-second part, in ns
	const s = int64(1e9)
	var v []int64
	for _, d := range []int64{0, s, ttlNs - s, ttlNs, ttlNs + s, tolNs, tolNs + s, 2*tolNs - s, 2 * tolNs, 2*tolNs + s, 2*tolNs + 2*s} {
		if d >= 0 {
			v = append(v, d)
		}
	}
	return uniq(v)
}

const subSecond = int64(999_999_999)

// enumerate calls f for every case of the site's EDGE grid (both tiers), in a fixed order, without
// duplicates, and returns the set it emitted (the dense grid skips those).
func enumerate(siteName string, tolNs, ttlNs int64, f func(Case)) (nOff, nDelay int, seen map[Case]bool) {
	tolS := tolNs / 1e9
	seen = map[Case]bool{}
	emit := func(c Case) {
		if !seen[c] {
			seen[c] = true
			f(c)
		}
	}
	offs, delays := edgeOffsets(tolS), edgeDelaysS(tolNs, ttlNs)
	nOff, nDelay = len(offs), len(delays)
	for _, ticks := range []bool{false, true} {
		for _, first := range []int64{0, 61} {
			for _, phi1 := range []int64{0, 5e8} {
				for _, d := range delays {
					for _, phi2 := range []int64{0, subSecond} {
						for _, off := range offs {
							emit(Case{Site: siteName, OffS: off, DelayNs: d + phi2, Phi1Ns: phi1, FirstS: first, Ticks: ticks})
						}
					}
				}
			}
		}
	}
	return
}

// dense grid (thorough): every whole second of offset in [-tol-2, tol+2] x every whole second of
// delay in [0, max(2tol, ttl)+3] x recv-phase {0, 0.5s} x delay sub-second {0, +0.999999999s}.
func denseMaxDelayS(tolNs, ttlNs int64) int64 {
	maxD := 2 * tolNs
	if ttlNs > maxD {
		maxD = ttlNs
	}
	return maxD/1e9 + 3
}

// enumerateDenseAt emits the dense-grid cases of one whole-second delay (minus the edge grid's).
func enumerateDenseAt(siteName string, tolNs int64, dS int64, skip map[Case]bool, f func(Case)) {
	tolS := tolNs / 1e9
	for _, phi1 := range []int64{0, 5e8} {
		for _, phi2 := range []int64{0, subSecond} {
			for off := -tolS - 2; off <= tolS+2; off++ {
				c := Case{Site: siteName, OffS: off, DelayNs: dS*1e9 + phi2, Phi1Ns: phi1}
				if !skip[c] {
					f(c)
				}
			}
		}
	}
}

// ---- histories ------------------------------------------------------------------------------------

// cacheIntervals: the nonce cache's own periods, read from the compiled package (accessor generated by
// the driver from nonce_cache.go's package-level declarations). Falls back to 60 s when none is found.
func cacheIntervals() (named map[string]int64, secs []int64, assumed bool) {
	named = map[string]int64{}
	for n, d := range security.VerifC26DurationConsts() {
		if d >= time.Second && d <= time.Hour {
			named[n] = int64(d)
			secs = append(secs, int64(d/time.Second))
		}
	}
	if len(secs) == 0 {
		return named, []int64{60}, true
	}
	return named, uniq(secs), false
}

// gapGrid: clock advances (whole seconds) around the sweep interval(s) I and the retention:
// 0, 1, I-1, I, I+1, ttl-I-1, ttl-I, ttl-I+1, ttl-1, ttl, ttl+1.
func gapGrid(ttlS int64, ivs []int64) []int64 {
	v := []int64{0, 1, ttlS - 1, ttlS, ttlS + 1}
	for _, i := range ivs {
		v = append(v, i-1, i, i+1, ttlS-i-1, ttlS-i, ttlS-i+1)
	}
	var out []int64
	for _, x := range v {
		if x >= 0 {
			out = append(out, x)
		}
	}
	return uniq(out)
}

var (
	histShapesQuick = []string{"MR", "MUR", "MVR", "UMR", "VMR", "MUUR", "MUVR", "MVUR", "MVVR"}
	histShapesExtra = []string{"UMUR", "UMVR", "VMUR", "VMVR", "UUMR", "UVMR", "VUMR", "VVMR"}
)

// enumerateHist calls f for every history case of the site, in a fixed order. Distinct by construction.
// extra=false: the quick set (both tiers run it first). extra=true: what thorough adds to it.
//
// The space (thorough = all of it): shapes histShapesQuick + histShapesExtra x replay connection
// {R on the keep-alive connection, Rf on a fresh connection (conn sites only)} x one clock advance per
// delivery: the advance before the first delivery (time since construction) from {0, I, I+1s} (0 only for
// the X-first 4-delivery shapes: their first X sets the sweep phase), every later advance from the gap grid
// (for the Rf variants of the histShapesExtra shapes: from the reduced grid {0, 1s, I+1s}),
// the advances between M and R summing to at most 2*tol+2s, x the 9 edge offsets.
// The quick set: shapes histShapesQuick; first advance {0, I+1s} for 2-3 deliveries and 0 for 4; for the
// Rf variants every later advance from the reduced grid {0, 1s, I+1s} (returned as freshQuick).
func enumerateHist(siteName string, tolNs, ttlNs int64, ivs []int64, conn, extra bool, f func(Case)) (gaps, freshQuick []int64) {
	tolS := tolNs / 1e9
	gaps = gapGrid(ttlNs/1e9, ivs)
	firstQ, firstAll, freshQuick := []int64{0}, []int64{0}, []int64{0, 1}
	for _, i := range ivs {
		firstQ = append(firstQ, i+1)
		firstAll = append(firstAll, i, i+1)
		freshQuick = append(freshQuick, i+1)
	}
	firstQ, firstAll, freshQuick = uniq(firstQ), uniq(firstAll), uniq(freshQuick)
	in := func(set []int64, x int64) bool {
		for _, y := range set {
			if x == y {
				return true
			}
		}
		return false
	}
	isQuickShape := func(shape string) bool {
		for _, x := range histShapesQuick {
			if x == shape {
				return true
			}
		}
		return false
	}
	inQuick := func(shape string, fresh bool, adv []int64) bool { // is the case part of the quick set?
		if !isQuickShape(shape) {
			return false
		}
		if len(shape) >= 4 {
			if adv[0] != 0 { // quick: 4-delivery histories start at construction time
				return false
			}
		} else if !in(firstQ, adv[0]) {
			return false
		}
		if fresh {
			for _, a := range adv[1:] {
				if !in(freshQuick, a) {
					return false
				}
			}
		}
		return true
	}
	bound := 2*tolS + 2 // M..R longer than this: R is outside the window whatever the offset
	offs := edgeOffsets(tolS)
	shapes := append(append([]string{}, histShapesQuick...), histShapesExtra...)
	for _, shape := range shapes {
		if !extra && !isQuickShape(shape) {
			continue
		}
		mIdx := strings.IndexByte(shape, 'M')
		for _, fresh := range []bool{false, true} {
			if fresh && !conn {
				continue
			}
			adv := make([]int64, len(shape))
			var rec func(i int, mToR int64)
			rec = func(i int, mToR int64) {
				if i == len(shape) {
					if inQuick(shape, fresh, adv) == extra {
						return
					}
					var b strings.Builder
					for k := range shape {
						if k > 0 {
							b.WriteByte(' ')
						}
						b.WriteString("+" + strconv.FormatInt(adv[k], 10) + " " + shape[k:k+1])
					}
					if fresh {
						b.WriteByte('f') // the last delivery is R
					}
					h := b.String()
					for _, off := range offs {
						f(Case{Site: siteName, OffS: off, Hist: h})
					}
					return
				}
				g := gaps
				if fresh && !isQuickShape(shape) {
					g = freshQuick // thorough-only shapes: the Rf variant over the reduced grid
				}
				if i == 0 {
					g = firstAll
				}
				for _, a := range g {
					if i == 0 && a != 0 && !isQuickShape(shape) {
						continue // X-first 4-delivery shapes start at construction time: their first X sets the sweep phase
					}
					m := mToR
					if i > mIdx {
						m += a
						if m > bound {
							continue
						}
					}
					adv[i] = a
					rec(i+1, m)
				}
			}
			rec(0, 0)
		}
	}
	return gaps, freshQuick
}

// ---- main -----------------------------------------------------------------------------------------

func main() {
	tier := flag.String("tier", "quick", "")
	shard := flag.Int("shard", 0, "")
	of := flag.Int("of", 1, "")
	scratch := flag.String("scratch", "", "")
	deadline := flag.Int64("deadline", 0, "")
	one := flag.String("case", "", "")
	_ = flag.Int("seed", 0, "")
	repeat := flag.Int("repeat", 1, "")
	// -upto N: sequence re-run. Run this shard's cases in enumeration order up to and including the case
	// with enumeration index N, no deadline, and report that case's observation as Target.
	upto := flag.Int("upto", 0, "")
	flag.Parse()
	out := &WorkerOut{Sites: map[string]SiteInfo{}, Outcomes: map[string]int{}, Exhaustive: true,
		GridOffsets: map[string]int{}, GridDelays: map[string]int{}, AcceptedOrigin: map[string]int{},
		HistByLen: map[string]int{}, HistGaps: map[string][]int64{}, UnrelatedSeen: map[string]int{},
		HistFreshGaps: map[string][]int64{}, ConnReused: map[string]int{}, ConnFresh: map[string]int{}, ConnReconnects: map[string]int{}}
	emit := func() {
		b, _ := json.Marshal(out)
		os.Stdout.Write(b)
	}
	defer func() {
		if r := recover(); r != nil {
			if he, ok := r.(harnessErr); ok {
				out.Errors = append(out.Errors, string(he))
				emit()
				return
			}
			panic(r)
		}
	}()
	if *scratch == "" || !strings.HasPrefix(*scratch, "/dev/shm/verif.c26.") {
		fail("worker needs -scratch under /dev/shm/verif.c26.<pid>/")
	}
	os.MkdirAll(*scratch, 0o755)
	defer os.RemoveAll(*scratch)

	tStart := time.Now()
	dbg := func(what string) {
		if os.Getenv("C26_DEBUG") != "" {
			fmt.Fprintf(os.Stderr, "c26worker %s at %v\n", what, time.Since(tStart))
		}
	}
	dbg("start")
	rig := newEdgeRig(*scratch)
	dbg("edge rig")
	sites := []site{coordSite("replicate-sync"), coordSite("forward-apply"), cacheInvSite(),
		edgeSite(rig, "edge-sync-file"), edgeSite(rig, "edge-sync-reconcile")}
	dbg("sites")
	classes := map[string]*Class{}
	nPlain, nHist := 0, 0
	ivNamed, ivSecs, ivAssumed := cacheIntervals()
	out.Intervals, out.IntervalsAssumed = ivNamed, ivAssumed
	curIdx := 0 // enumeration index of the case being recorded (0 in -case mode)
	record := func(s site, r result) {
		o := r.obs
		out.Cases++
		out.Deliveries += r.deliveries
		out.FreshRejected += r.freshRej
		origAcc, replAcc := o.Orig == "accepted", o.Replay == "accepted"
		origIn, replIn := abs(o.OrigDrift) <= o.TolS, abs(o.ReplDrift) <= o.TolS
		isHist := o.Case.Hist != ""
		if isHist {
			out.HistCases++
			shape, _, _ := histShape(o.Case.Hist)
			shape = strings.NewReplacer("U", "X", "V", "X").Replace(shape)
			if histFresh(o.Case.Hist) {
				shape += "f" // the replay came over a fresh connection
			}
			out.HistByLen[shape]++
			if origAcc && replIn {
				out.HistNonTrivial++
			}
			for k, v := range r.unrelated {
				out.UnrelatedSeen[s.name+":"+k] += v
			}
		}
		if origAcc {
			out.AcceptedOrigin[s.name]++
		}
		if origIn && !origAcc {
			out.FreshRejected++
		}
		if origAcc && replIn {
			out.NonTrivial++
		}
		win := func(in bool) string {
			if in {
				return "in"
			}
			return "out"
		}
		out.Outcomes[fmt.Sprintf("%s:orig[%s]=%s,replay[%s]=%s", s.name, win(origIn), o.Orig, win(replIn), o.Replay)]++
		add := func(kind, region string) {
			key := kind + "|" + s.name + "|" + region
			c, ok := classes[key]
			if !ok {
				c = &Class{Kind: kind, Site: s.name, Region: region, Min: o, MinOff: o.Case.OffS, MaxOff: o.Case.OffS}
				classes[key] = c
			}
			if !ok {
				c.MinIdx, c.MinShard = curIdx, *shard
			}
			c.Count++
			if caseLess(o.Case, c.Min.Case) {
				c.Min = o
				c.MinIdx, c.MinShard = curIdx, *shard
			}
			if o.ElapsedNs > c.MaxDelay {
				c.MaxDelay = o.ElapsedNs
			}
			if o.Case.OffS < c.MinOff {
				c.MinOff = o.Case.OffS
			}
			if o.Case.OffS > c.MaxOff {
				c.MaxOff = o.Case.OffS
			}
		}
		if origAcc && replAcc {
			region := "exact-timestamp"
			if o.Case.OffS > 0 {
				region = "future-dated"
			} else if o.Case.OffS < 0 {
				region = "past-dated"
			}
			// a replay that gets through while the cache should, by its own TTL, still remember the nonce
			// is a different defect from one that arrives after the configured retention ran out
			if o.ElapsedNs < o.TTLNs {
				region += ",within-ttl"
			} else {
				region += ",after-ttl"
			}
			add("replay-accepted", region)
		}
		side := func(drift int64) string {
			if drift > 0 {
				return "stale"
			}
			return "future"
		}
		if origAcc && !origIn {
			add("outside-window-accepted", "original-"+side(o.OrigDrift))
		}
		if replAcc && !replIn {
			add("outside-window-accepted", "replay-"+side(o.ReplDrift))
		}
		if !isHist && nPlain < 2 && origAcc && replIn && o.Case.DelayNs > 0 {
			nPlain++
			out.Samples = append(out.Samples, o)
		}
		if isHist && nHist < 1 && origAcc && replIn && o.TicksSent == 2 && o.ElapsedNs > o.TTLNs/2 {
			nHist++
			out.Samples = append(out.Samples, o)
		}
	}

	if *one != "" {
		// -case accepts one case object or a list; every case is run -repeat times, each on a fresh
		// handler + cache; Samples lists the observations in order.
		var cs []Case
		if strings.HasPrefix(strings.TrimSpace(*one), "[") {
			if err := json.Unmarshal([]byte(*one), &cs); err != nil {
				fail("bad -case: %v", err)
			}
		} else {
			var c Case
			if err := json.Unmarshal([]byte(*one), &c); err != nil {
				fail("bad -case: %v", err)
			}
			cs = []Case{c}
		}
		var all []Obs
		for _, c := range cs {
			found := false
			for _, s := range sites {
				if s.name != c.Site {
					continue
				}
				found = true
				for k := 0; k < *repeat; k++ {
					r := runCaseRetry(s, c, &out.Retried)
					record(s, r)
					all = append(all, r.obs)
				}
			}
			if !found {
				fail("unknown site %q", c.Site)
			}
		}
		out.Samples = all
	} else {
		// Phase 0 (both tiers, no time cap): per site the quick history set, then the edge time grid.
		// Phases 1-2 (thorough only, under the time cap; a cut sets exhaustive=false, never an error):
		// the extra histories of every site, then the dense time grid delay by delay ACROSS the sites,
		// so that a cut leaves every site covered to the same depth.
		idx, mine := 0, 0
		capped := false
		var cur site
		if *upto > 0 {
			*deadline = 0
			if *upto%*of != *shard {
				fail("-upto %d is not a case of shard %d/%d", *upto, *shard, *of)
			}
		}
		visit := func(c Case) {
			idx++
			if idx%*of != *shard {
				return
			}
			if *upto > 0 && idx > *upto {
				return
			}
			if capped && !out.Exhaustive {
				return
			}
			mine++
			if capped && *deadline > 0 && mine%128 == 0 && time.Now().Unix() > *deadline {
				out.Exhaustive = false
				return
			}
			curIdx = idx
			r := runCaseRetry(cur, c, &out.Retried)
			record(cur, r)
			if idx == *upto {
				o := r.obs
				out.Target = &o
			}
		}
		ttls := make([]time.Duration, len(sites))
		skips := make([]map[Case]bool, len(sites))
		for i, s := range sites {
			security.VerifSetClock(epochS * 1e9)
			ttl := s.mk().ttl()
			if s.tol < time.Second || ttl <= 0 {
				fail("site %s: tolerance %v / ttl %v not usable", s.name, s.tol, ttl)
			}
			ttls[i] = ttl
			out.Sites[s.name] = SiteInfo{TolNs: int64(s.tol), TTLNs: int64(ttl)}
			cur = s
			out.HistGaps[s.name], out.HistFreshGaps[s.name] = enumerateHist(s.name, int64(s.tol), int64(ttl), ivSecs, s.conn, false, visit)
			dbg("site " + s.name + " quick histories done, deliveries so far " + strconv.Itoa(out.Deliveries))
			out.GridOffsets[s.name], out.GridDelays[s.name], skips[i] = enumerate(s.name, int64(s.tol), int64(ttl), visit)
			dbg("site " + s.name + " edge grid done, deliveries so far " + strconv.Itoa(out.Deliveries))
		}
		if *tier == "thorough" {
			capped = true
			for i, s := range sites {
				cur = s
				enumerateHist(s.name, int64(s.tol), int64(ttls[i]), ivSecs, s.conn, true, visit)
				dbg("site " + s.name + " extra histories done, deliveries so far " + strconv.Itoa(out.Deliveries))
			}
			maxAll := int64(0)
			for i, s := range sites {
				m := denseMaxDelayS(int64(s.tol), int64(ttls[i]))
				out.GridOffsets[s.name], out.GridDelays[s.name] = int(2*(int64(s.tol)/1e9+2)+1), int(m+1)
				if m > maxAll {
					maxAll = m
				}
			}
			for d := int64(0); d <= maxAll && out.Exhaustive; d++ {
				for i, s := range sites {
					if d <= denseMaxDelayS(int64(s.tol), int64(ttls[i])) {
						cur = s
						enumerateDenseAt(s.name, int64(s.tol), d, skips[i], visit)
					}
				}
				if out.Exhaustive {
					out.DenseDelaysDone = int(d + 1)
				}
			}
			dbg("dense grid done, deliveries so far " + strconv.Itoa(out.Deliveries))
		}
	}
	keys := make([]string, 0, len(classes))
	for k := range classes {
		keys = append(keys, k)
	}
	sort.Strings(keys)
	for _, k := range keys {
		out.Classes = append(out.Classes, *classes[k])
	}
	out.ClockReads = security.VerifClockReads()
	for _, s := range sites {
		if s.st != nil {
			out.ConnReused[s.name], out.ConnFresh[s.name], out.ConnReconnects[s.name] = s.st.reused, s.st.fresh, s.st.reconnects
		}
	}
	dbg("done")
	_ = siteBindingsJSON
	emit()
}
