//go:build c26worker

// Worker of check C26: enumerates one shard of the time grid against the real handlers under the
// virtual clock. Built by the driver (main.go) with the overlay it generates from /repo.
// One case at a time per process: the virtual clock is a package global of the security package.
package main

import (
	"bytes"
	"crypto/sha256"
	"database/sql"
	"encoding/hex"
	"encoding/json"
	"flag"
	"fmt"
	"io"
	"net"
	"net/http"
	"net/http/httptest"
	"os"
	"path/filepath"
	"sort"
	"strconv"
	"strings"
	"time"

	"github.com/basekick-labs/arc/internal/api"
	"github.com/basekick-labs/arc/internal/cluster"
	"github.com/basekick-labs/arc/internal/cluster/protocol"
	"github.com/basekick-labs/arc/internal/cluster/security"
	"github.com/basekick-labs/arc/internal/edgesync"
	"github.com/basekick-labs/arc/internal/storage"
	"github.com/gofiber/fiber/v2"
	_ "github.com/mattn/go-sqlite3"
	"github.com/rs/zerolog"
)

// ---- result types (mirror of main.go) ----------------------------------------------------------

type Case struct {
	Site    string `json:"site"`
	OffS    int64  `json:"ts_offset_s"`
	DelayNs int64  `json:"replay_delay_ns"`
	Phi1Ns  int64  `json:"recv_phase_ns"`
	FirstS  int64  `json:"first_receipt_after_construction_s"`
	Ticks   bool   `json:"eviction_ticks"`
}

type Obs struct {
	Case       Case   `json:"case"`
	TolS       int64  `json:"tolerance_s"`
	TTLNs      int64  `json:"nonce_ttl_ns"`
	Orig       string `json:"original"`
	Replay     string `json:"replay"`
	OrigDrift  int64  `json:"original_drift_s"`
	ReplDrift  int64  `json:"replay_drift_s"`
	TicksSent  int    `json:"ticks_sent"`
	TicksTaken int    `json:"ticks_accepted"`
}

type Class struct {
	Kind     string `json:"kind"`
	Site     string `json:"site"`
	Region   string `json:"region"`
	Count    int    `json:"count"`
	Min      Obs    `json:"min"`
	MaxDelay int64  `json:"max_replay_delay_ns"`
	MinOff   int64  `json:"min_ts_offset_s"`
	MaxOff   int64  `json:"max_ts_offset_s"`
}

type SiteInfo struct {
	TolNs int64 `json:"tolerance_ns"`
	TTLNs int64 `json:"nonce_ttl_ns"`
}

type WorkerOut struct {
	Sites          map[string]SiteInfo `json:"sites"`
	Cases          int                 `json:"cases"`
	Deliveries     int                 `json:"deliveries"`
	NonTrivial     int                 `json:"nontrivial"`
	Outcomes       map[string]int      `json:"outcomes"`
	Classes        []Class             `json:"classes"`
	Samples        []Obs               `json:"samples"`
	ClockReads     int64               `json:"clock_reads"`
	FreshRejected  int                 `json:"fresh_rejected"`
	Exhaustive     bool                `json:"exhaustive"`
	Errors         []string            `json:"errors"`
	GridOffsets    map[string]int      `json:"grid_offsets"`
	GridDelays     map[string]int      `json:"grid_delays"`
	AcceptedOrigin map[string]int      `json:"accepted_originals"`
}

func caseLess(a, b Case) bool {
	k := func(c Case) [6]int64 {
		t, neg := int64(0), int64(0)
		if c.Ticks {
			t = 1
		}
		ab := c.OffS
		if ab < 0 {
			ab, neg = -ab, 1
		}
		return [6]int64{t, c.FirstS, c.Phi1Ns, c.DelayNs, ab, neg}
	}
	x, y := k(a), k(b)
	for i := range x {
		if x[i] != y[i] {
			return x[i] < y[i]
		}
	}
	return false
}

// ---- sites -----------------------------------------------------------------------------------

const (
	secret      = "c26-cluster-shared-secret"
	clusterName = "c26-cluster"
	localNodeID = "c26-local"
	hubID       = "c26-hub"
	epochS      = int64(1_000_000_000) // virtual T0 (2001-09-09): far from the wall clock on purpose
)

// harnessErr aborts the run as HARNESS-UNBOUND (reported by the driver), never as a violation.
type harnessErr string

func fail(format string, a ...any) { panic(harnessErr(fmt.Sprintf(format, a...))) }

type instance interface {
	ttl() time.Duration
	// deliver sends one signed message through the real handler; accepted = passed validate-then-Track.
	deliver(sender, nonce string, ts int64) (accepted bool, why string)
}

type site struct {
	name string
	tol  time.Duration
	mk   func() instance
}

func ttlOf(g any) time.Duration {
	t, ok := g.(interface{ VerifTTL() time.Duration })
	if !ok {
		fail("replay guard %T exposes no TTL (site no longer builds a *security.NonceCache)", g)
	}
	return t.VerifTTL()
}

// -- internal/cluster: handlePeerConnection over net.Pipe ----------------------------------------

type coordInst struct {
	c    *cluster.Coordinator
	kind string
}

func (i *coordInst) ttl() time.Duration { return ttlOf(i.c.VerifC26NonceCache()) }

func (i *coordInst) deliver(sender, nonce string, ts int64) (bool, string) {
	cli, srv := net.Pipe()
	done := make(chan struct{})
	go func() { i.c.VerifC26HandlePeer(srv); close(done) }()
	var msg *protocol.Message
	if i.kind == "forward-apply" {
		payload := []byte(`{"type":1,"payload":{}}`)
		msg = &protocol.Message{Type: protocol.MsgForwardApply, Payload: &protocol.ForwardApplyRequest{
			CommandJSON: payload, NodeID: sender, Nonce: nonce, Timestamp: ts,
			HMAC: security.ComputeForwardHMAC(secret, nonce, sender, clusterName, payload, ts),
		}}
	} else {
		msg = &protocol.Message{Type: protocol.MsgReplicateSync, Payload: &protocol.ReplicateSync{
			ReaderID: sender, LastKnownSequence: 7, Nonce: nonce, ClusterName: clusterName, Timestamp: ts,
			HMAC: security.ComputeReplicateSyncHMAC(secret, nonce, sender, clusterName, 7, ts),
		}}
	}
	if err := protocol.SendMessage(cli, msg, 10*time.Second); err != nil {
		fail("%s: send: %v", i.kind, err)
	}
	resp, err := protocol.ReceiveMessage(cli, 10*time.Second)
	if err != nil {
		fail("%s: no reply from handler: %v", i.kind, err)
	}
	cli.Close()
	<-done
	srv.Close()
	switch a := resp.Payload.(type) {
	case *protocol.ForwardApplyAck:
		switch {
		case a.Code == protocol.ForwardCodeAuth && a.Error == "nonce replay":
			return false, "replay"
		case a.Code == protocol.ForwardCodeAuth:
			return false, "auth"
		case a.Code == protocol.ForwardCodeRaftUnavailable:
			return true, ""
		}
		fail("forward-apply: unexpected ack %+v", *a)
	case *protocol.ReplicateSyncAck:
		switch {
		case a.Error == "authentication failed":
			return false, "auth"
		case strings.Contains(a.Error, "not configured as a writer"):
			return true, ""
		}
		fail("replicate-sync: unexpected ack %+v", *a)
	}
	fail("%s: unexpected reply type %T", i.kind, resp.Payload)
	return false, ""
}

func coordSite(kind string) site {
	probe := cluster.VerifC26Coordinator(secret, clusterName)
	tol := probe.VerifC26ForwardTolerance()
	if kind == "replicate-sync" {
		tol = probe.VerifC26ReplicateSyncTolerance()
	}
	return site{name: kind, tol: tol, mk: func() instance {
		return &coordInst{c: cluster.VerifC26Coordinator(secret, clusterName), kind: kind}
	}}
}

// -- internal/api: cache invalidate ---------------------------------------------------------------

type cacheInvInst struct {
	app   *fiber.App
	cache *security.NonceCache
	calls *int
}

func (i *cacheInvInst) ttl() time.Duration { return ttlOf(i.cache) }

func (i *cacheInvInst) deliver(sender, nonce string, ts int64) (bool, string) {
	req := httptest.NewRequest(http.MethodPost, api.CacheInvalidatePath, nil)
	req.Header.Set("X-Arc-Node-ID", sender)
	req.Header.Set("X-Arc-Cluster", clusterName)
	req.Header.Set("X-Arc-Nonce", nonce)
	req.Header.Set("X-Arc-Timestamp", strconv.FormatInt(ts, 10))
	req.Header.Set("X-Arc-HMAC", security.ComputeCacheInvalidateHMAC(secret, nonce, sender, clusterName, ts))
	before := *i.calls
	resp, err := i.app.Test(req, 10000)
	if err != nil {
		fail("cache-invalidate: request: %v", err)
	}
	io.Copy(io.Discard, resp.Body)
	resp.Body.Close()
	switch {
	case resp.StatusCode == fiber.StatusNoContent && *i.calls == before+1:
		return true, ""
	case resp.StatusCode == fiber.StatusForbidden && *i.calls == before:
		return false, "forbidden"
	}
	fail("cache-invalidate: status %d, onInvalidate calls %d->%d", resp.StatusCode, before, *i.calls)
	return false, ""
}

func cacheInvSite() site {
	return site{name: "cache-invalidate", tol: siteCacheInvalidateTolerance(), mk: func() instance {
		calls := new(int)
		cache := siteCacheInvalidateNonceCache()
		h := api.NewCacheInvalidateHandler(secret, clusterName, localNodeID, cache, siteCacheInvalidateTolerance(),
			func() { *calls++ }, zerolog.Nop())
		app := fiber.New(fiber.Config{DisableStartupMessage: true})
		h.Register(app)
		return &cacheInvInst{app: app, cache: cache, calls: calls}
	}}
}

// -- internal/api: edge sync -----------------------------------------------------------------------

type edgeRig struct {
	recv *edgesync.Receiver
	rec  *edgesync.Reconciler
	hdr  map[string]string
}

func newEdgeRig(scratch string) *edgeRig {
	dir := filepath.Join(scratch, "hub")
	if err := os.MkdirAll(dir, 0o755); err != nil {
		fail("scratch: %v", err)
	}
	backend, err := storage.NewLocalBackend(dir, zerolog.Nop())
	if err != nil {
		fail("edge-sync backend: %v", err)
	}
	db, err := sql.Open("sqlite3", filepath.Join(scratch, "hubindex.db"))
	if err != nil {
		fail("edge-sync sqlite: %v", err)
	}
	idx, err := edgesync.NewHubIndex(db, zerolog.Nop())
	if err != nil {
		fail("edge-sync hub index: %v", err)
	}
	recv, err := edgesync.NewReceiver(edgesync.ReceiverConfig{Backend: backend, Index: idx, Logger: zerolog.Nop()})
	if err != nil {
		fail("edge-sync receiver: %v", err)
	}
	rec, err := edgesync.NewReconciler(edgesync.ReconcilerConfig{Index: idx, Backend: backend, MaxEntries: 100})
	if err != nil {
		fail("edge-sync reconciler: %v", err)
	}
	return &edgeRig{recv: recv, rec: rec, hdr: api.VerifC26SyncHeaders()}
}

type edgeInst struct {
	rig   *edgeRig
	app   *fiber.App
	guard security.ReplayGuard
	kind  string
}

func (i *edgeInst) ttl() time.Duration { return ttlOf(i.guard) }

var edgeBody = []byte("c26 parquet payload")

const edgePath = "metrics/cpu/2026/08/07/14/cpu_c26.parquet"

func (i *edgeInst) deliver(sender, nonce string, ts int64) (bool, string) {
	h := i.rig.hdr
	var req *http.Request
	if i.kind == "edge-sync-file" {
		sum := sha256.Sum256(edgeBody)
		sha := hex.EncodeToString(sum[:])
		mac, err := security.ComputeSyncFileHMAC(secret, nonce, sender, hubID, edgePath, sha, ts)
		if err != nil {
			fail("edge-sync-file: sign: %v", err)
		}
		req = httptest.NewRequest(http.MethodPost, "/api/v1/sync/file", bytes.NewReader(edgeBody))
		req.Header.Set(h["path"], edgePath)
		req.Header.Set(h["sha256"], sha)
		req.Header.Set(h["size"], strconv.Itoa(len(edgeBody)))
		req.Header.Set(h["mac"], mac)
	} else {
		body := []byte(`{"entries":[]}`)
		mac, err := security.ComputeSyncReconcileHMAC(secret, nonce, sender, hubID, body, ts)
		if err != nil {
			fail("edge-sync-reconcile: sign: %v", err)
		}
		req = httptest.NewRequest(http.MethodPost, "/api/v1/sync/reconcile", bytes.NewReader(body))
		req.Header.Set("Content-Type", "application/json")
		req.Header.Set(h["mac"], mac)
	}
	req.Header.Set(h["spoke"], sender)
	req.Header.Set(h["hub"], hubID)
	req.Header.Set(h["nonce"], nonce)
	req.Header.Set(h["ts"], strconv.FormatInt(ts, 10))
	resp, err := i.app.Test(req, 10000)
	if err != nil {
		fail("%s: request: %v", i.kind, err)
	}
	raw, _ := io.ReadAll(resp.Body)
	resp.Body.Close()
	switch resp.StatusCode {
	case fiber.StatusOK:
		return true, ""
	case fiber.StatusUnauthorized:
		var m map[string]any
		json.Unmarshal(raw, &m)
		why, _ := m["reason"].(string)
		if why == "" {
			why = "auth"
		}
		return false, why
	}
	fail("%s: unexpected status %d body %.200s", i.kind, resp.StatusCode, raw)
	return false, ""
}

func edgeSite(rig *edgeRig, kind string) site {
	mk := func() *edgeInst {
		guard := siteEdgeSyncReplay()
		h, err := api.NewEdgeSyncHandler(api.EdgeSyncHandlerConfig{
			Receiver: rig.recv, Reconciler: rig.rec,
			SpokeSecrets: api.StaticSpokeSecrets(map[string]string{"spoke-a": secret, "spoke-ticker": secret}),
			Replay:       guard, HubID: hubID, MaxFileBytes: 1 << 20, Logger: zerolog.Nop(),
		})
		if err != nil {
			fail("edge-sync handler: %v", err)
		}
		app := fiber.New(fiber.Config{DisableStartupMessage: true})
		h.RegisterRoutes(app)
		return &edgeInst{rig: rig, app: app, guard: guard, kind: kind}
	}
	// tolerance: the handler method's own argument expression
	hh, err := api.NewEdgeSyncHandler(api.EdgeSyncHandlerConfig{Receiver: rig.recv, Reconciler: rig.rec,
		SpokeSecrets: api.StaticSpokeSecrets(map[string]string{"spoke-a": secret}), Replay: siteEdgeSyncReplay(),
		HubID: hubID, MaxFileBytes: 1 << 20, Logger: zerolog.Nop()})
	if err != nil {
		fail("edge-sync handler: %v", err)
	}
	tol := hh.VerifC26SyncFileTolerance()
	if kind == "edge-sync-reconcile" {
		tol = hh.VerifC26SyncReconcileTolerance()
	}
	return site{name: kind, tol: tol, mk: func() instance { return mk() }}
}

// ---- one case -------------------------------------------------------------------------------------

func senders(siteName string) (string, string) {
	if strings.HasPrefix(siteName, "edge-sync") {
		return "spoke-a", "spoke-ticker"
	}
	return "node-a", "node-ticker"
}

func abs(x int64) int64 {
	if x < 0 {
		return -x
	}
	return x
}

type result struct {
	obs        Obs
	deliveries int
	freshRej   int
}

func runCase(s site, c Case) result {
	t0 := epochS * 1e9
	security.VerifSetClock(t0)
	in := s.mk()
	tolS := int64(s.tol.Seconds())
	ttl := in.ttl()
	sender, ticker := senders(s.name)
	t1 := t0 + c.FirstS*1e9 + c.Phi1Ns
	s1 := t1 / 1e9
	ts := s1 + c.OffS
	t2 := t1 + c.DelayNs
	s2 := t2 / 1e9
	r := result{obs: Obs{Case: c, TolS: tolS, TTLNs: int64(ttl), OrigDrift: s1 - ts, ReplDrift: s2 - ts}}
	fmtRes := func(acc bool, why string) string {
		if acc {
			return "accepted"
		}
		return "rejected:" + why
	}
	security.VerifSetClock(t1)
	acc, why := in.deliver(sender, "nonce-under-test", ts)
	r.deliveries++
	r.obs.Orig = fmtRes(acc, why)
	if c.Ticks {
		for k := int64(1); t1+k*61e9 < t2; k++ {
			tk := t1 + k*61e9
			security.VerifSetClock(tk)
			a, _ := in.deliver(ticker, "tick-"+strconv.FormatInt(k, 10), tk/1e9)
			r.deliveries++
			r.obs.TicksSent++
			if a {
				r.obs.TicksTaken++
			} else {
				r.freshRej++
			}
		}
	}
	security.VerifSetClock(t2)
	acc, why = in.deliver(sender, "nonce-under-test", ts)
	r.deliveries++
	r.obs.Replay = fmtRes(acc, why)
	return r
}

// ---- grid -----------------------------------------------------------------------------------------

func uniq(v []int64) []int64 {
	sort.Slice(v, func(i, j int) bool { return v[i] < v[j] })
	out := v[:0]
	for i, x := range v {
		if i == 0 || x != v[i-1] {
			out = append(out, x)
		}
	}
	return out
}

func edgeOffsets(tol int64) []int64 {
	return uniq([]int64{-tol - 1, -tol, -tol + 1, -1, 0, 1, tol - 1, tol, tol + 1})
}

func edgeDelaysS(tolNs, ttlNs int64) []int64 { // whole-second part, in ns
	const s = int64(1e9)
	var v []int64
	for _, d := range []int64{0, s, ttlNs - s, ttlNs, ttlNs + s, tolNs, tolNs + s, 2*tolNs - s, 2 * tolNs, 2*tolNs + s, 2*tolNs + 2*s} {
		if d >= 0 {
			v = append(v, d)
		}
	}
	return uniq(v)
}

const subSecond = int64(999_999_999)

// enumerate calls f for every case of the site's grid, in a fixed order, without duplicates.
func enumerate(siteName string, tolNs, ttlNs int64, thorough bool, f func(Case)) (nOff, nDelay int) {
	tolS := tolNs / 1e9
	seen := map[Case]bool{}
	emit := func(c Case) {
		if !seen[c] {
			seen[c] = true
			f(c)
		}
	}
	offs, delays := edgeOffsets(tolS), edgeDelaysS(tolNs, ttlNs)
	nOff, nDelay = len(offs), len(delays)
	for _, ticks := range []bool{false, true} {
		for _, first := range []int64{0, 61} {
			for _, phi1 := range []int64{0, 5e8} {
				for _, d := range delays {
					for _, phi2 := range []int64{0, subSecond} {
						for _, off := range offs {
							emit(Case{Site: siteName, OffS: off, DelayNs: d + phi2, Phi1Ns: phi1, FirstS: first, Ticks: ticks})
						}
					}
				}
			}
		}
	}
	if thorough {
		maxD := 2 * tolNs
		if ttlNs > maxD {
			maxD = ttlNs
		}
		maxD = (maxD/1e9 + 3) * 1e9
		nOff, nDelay = int(2*(tolS+2)+1), int(maxD/1e9+1)
		for _, phi1 := range []int64{0, 5e8} {
			for d := int64(0); d <= maxD; d += 1e9 {
				for _, phi2 := range []int64{0, subSecond} {
					for off := -tolS - 2; off <= tolS+2; off++ {
						emit(Case{Site: siteName, OffS: off, DelayNs: d + phi2, Phi1Ns: phi1})
					}
				}
			}
		}
	}
	return
}

// ---- main -----------------------------------------------------------------------------------------

func main() {
	tier := flag.String("tier", "quick", "")
	shard := flag.Int("shard", 0, "")
	of := flag.Int("of", 1, "")
	scratch := flag.String("scratch", "", "")
	deadline := flag.Int64("deadline", 0, "")
	one := flag.String("case", "", "")
	_ = flag.Int("seed", 0, "")
	repeat := flag.Int("repeat", 1, "")
	flag.Parse()
	out := &WorkerOut{Sites: map[string]SiteInfo{}, Outcomes: map[string]int{}, Exhaustive: true,
		GridOffsets: map[string]int{}, GridDelays: map[string]int{}, AcceptedOrigin: map[string]int{}}
	emit := func() {
		b, _ := json.Marshal(out)
		os.Stdout.Write(b)
	}
	defer func() {
		if r := recover(); r != nil {
			if he, ok := r.(harnessErr); ok {
				out.Errors = append(out.Errors, string(he))
				emit()
				return
			}
			panic(r)
		}
	}()
	if *scratch == "" || !strings.HasPrefix(*scratch, "/dev/shm/verif.c26.") {
		fail("worker needs -scratch under /dev/shm/verif.c26.<pid>/")
	}
	os.MkdirAll(*scratch, 0o755)
	defer os.RemoveAll(*scratch)

	tStart := time.Now()
	dbg := func(what string) {
		if os.Getenv("C26_DEBUG") != "" {
			fmt.Fprintf(os.Stderr, "c26worker %s at %v\n", what, time.Since(tStart))
		}
	}
	dbg("start")
	rig := newEdgeRig(*scratch)
	dbg("edge rig")
	sites := []site{coordSite("replicate-sync"), coordSite("forward-apply"), cacheInvSite(),
		edgeSite(rig, "edge-sync-file"), edgeSite(rig, "edge-sync-reconcile")}
	dbg("sites")
	classes := map[string]*Class{}
	record := func(s site, r result) {
		o := r.obs
		out.Cases++
		out.Deliveries += r.deliveries
		out.FreshRejected += r.freshRej
		origAcc, replAcc := o.Orig == "accepted", o.Replay == "accepted"
		origIn, replIn := abs(o.OrigDrift) <= o.TolS, abs(o.ReplDrift) <= o.TolS
		if origAcc {
			out.AcceptedOrigin[s.name]++
		}
		if origIn && !origAcc {
			out.FreshRejected++
		}
		if origAcc && replIn {
			out.NonTrivial++
		}
		win := func(in bool) string {
			if in {
				return "in"
			}
			return "out"
		}
		out.Outcomes[fmt.Sprintf("%s:orig[%s]=%s,replay[%s]=%s", s.name, win(origIn), o.Orig, win(replIn), o.Replay)]++
		add := func(kind, region string) {
			key := kind + "|" + s.name + "|" + region
			c, ok := classes[key]
			if !ok {
				c = &Class{Kind: kind, Site: s.name, Region: region, Min: o, MinOff: o.Case.OffS, MaxOff: o.Case.OffS}
				classes[key] = c
			}
			c.Count++
			if caseLess(o.Case, c.Min.Case) {
				c.Min = o
			}
			if o.Case.DelayNs > c.MaxDelay {
				c.MaxDelay = o.Case.DelayNs
			}
			if o.Case.OffS < c.MinOff {
				c.MinOff = o.Case.OffS
			}
			if o.Case.OffS > c.MaxOff {
				c.MaxOff = o.Case.OffS
			}
		}
		if origAcc && replAcc {
			region := "exact-timestamp"
			if o.Case.OffS > 0 {
				region = "future-dated"
			} else if o.Case.OffS < 0 {
				region = "past-dated"
			}
			// a replay that gets through while the cache should, by its own TTL, still remember the nonce
			// is a different defect from one that arrives after the configured retention ran out
			if o.Case.DelayNs < o.TTLNs {
				region += ",within-ttl"
			} else {
				region += ",after-ttl"
			}
			add("replay-accepted", region)
		}
		side := func(drift int64) string {
			if drift > 0 {
				return "stale"
			}
			return "future"
		}
		if origAcc && !origIn {
			add("outside-window-accepted", "original-"+side(o.OrigDrift))
		}
		if replAcc && !replIn {
			add("outside-window-accepted", "replay-"+side(o.ReplDrift))
		}
		if len(out.Samples) < 2 && origAcc && replIn && o.Case.DelayNs > 0 {
			out.Samples = append(out.Samples, o)
		}
	}

	if *one != "" {
		// -case accepts one case object or a list; every case is run -repeat times, each on a fresh
		// handler + cache; Samples lists the observations in order.
		var cs []Case
		if strings.HasPrefix(strings.TrimSpace(*one), "[") {
			if err := json.Unmarshal([]byte(*one), &cs); err != nil {
				fail("bad -case: %v", err)
			}
		} else {
			var c Case
			if err := json.Unmarshal([]byte(*one), &c); err != nil {
				fail("bad -case: %v", err)
			}
			cs = []Case{c}
		}
		var all []Obs
		for _, c := range cs {
			found := false
			for _, s := range sites {
				if s.name != c.Site {
					continue
				}
				found = true
				for k := 0; k < *repeat; k++ {
					r := runCase(s, c)
					record(s, r)
					all = append(all, r.obs)
				}
			}
			if !found {
				fail("unknown site %q", c.Site)
			}
		}
		out.Samples = all
	} else {
		idx, mine := 0, 0
		for _, s := range sites {
			security.VerifSetClock(epochS * 1e9)
			ttl := s.mk().ttl()
			if s.tol < time.Second || ttl <= 0 {
				fail("site %s: tolerance %v / ttl %v not usable", s.name, s.tol, ttl)
			}
			out.Sites[s.name] = SiteInfo{TolNs: int64(s.tol), TTLNs: int64(ttl)}
			no, nd := enumerate(s.name, int64(s.tol), int64(ttl), *tier == "thorough", func(c Case) {
				idx++
				if idx%*of != *shard {
					return
				}
				if !out.Exhaustive {
					return
				}
				mine++
				if *deadline > 0 && mine%128 == 0 && time.Now().Unix() > *deadline {
					out.Exhaustive = false
					return
				}
				record(s, runCase(s, c))
			})
			out.GridOffsets[s.name], out.GridDelays[s.name] = no, nd
			dbg("site " + s.name + " deliveries so far " + strconv.Itoa(out.Deliveries))
		}
	}
	keys := make([]string, 0, len(classes))
	for k := range classes {
		keys = append(keys, k)
	}
	sort.Strings(keys)
	for _, k := range keys {
		out.Classes = append(out.Classes, *classes[k])
	}
	out.ClockReads = security.VerifClockReads()
	dbg("done")
	_ = siteBindingsJSON
	emit()
}
