//go:build c26worker

// Worker of check C26: enumerates one shard of the time grid against the real handlers under the
// virtual clock. Built by the driver (main.go) with the overlay it generates from /repo.
// One case at a time per process: the virtual clock is a package global of the security package.
package main

import (
	"bytes"
	"crypto/sha256"
	"database/sql"
	"encoding/hex"
	"encoding/json"
	"flag"
	"fmt"
	"io"
	"net"
	"net/http"
	"net/http/httptest"
	"os"
	"path/filepath"
	"sort"
	"strconv"
	"strings"
	"time"

	"github.com/basekick-labs/arc/internal/api"
	"github.com/basekick-labs/arc/internal/cluster"
	"github.com/basekick-labs/arc/internal/cluster/protocol"
	"github.com/basekick-labs/arc/internal/cluster/security"
	"github.com/basekick-labs/arc/internal/edgesync"
	"github.com/basekick-labs/arc/internal/storage"
	"github.com/gofiber/fiber/v2"
	_ "github.com/mattn/go-sqlite3"
	"github.com/rs/zerolog"
)

// ---- result types: shared.go ---------------------------------------------------------------------

// ---- sites -----------------------------------------------------------------------------------

const (
	secret      = "c26-cluster-shared-secret"
	clusterName = "c26-cluster"
	localNodeID = "c26-local"
	hubID       = "c26-hub"
	epochS      = int64(1_000_000_000) // virtual T0 (2001-09-09): far from the wall clock on purpose
)

// harnessErr aborts the run as HARNESS-UNBOUND (reported by the driver), never as a violation.
type harnessErr string

func fail(format string, a ...any) { panic(harnessErr(fmt.Sprintf(format, a...))) }

type instance interface {
	ttl() time.Duration
	// deliver sends one signed message through the real handler; accepted = passed validate-then-Track.
	deliver(sender, nonce string, ts int64) (accepted bool, why string)
}

type site struct {
	name string
	tol  time.Duration
	mk   func() instance
}

func ttlOf(g any) time.Duration {
	t, ok := g.(interface{ VerifTTL() time.Duration })
	if !ok {
		fail("replay guard %T exposes no TTL (site no longer builds a *security.NonceCache)", g)
	}
	return t.VerifTTL()
}

// -- internal/cluster: handlePeerConnection over net.Pipe ----------------------------------------

type coordInst struct {
	c    *cluster.Coordinator
	kind string
}

func (i *coordInst) ttl() time.Duration { return ttlOf(i.c.VerifC26NonceCache()) }

// noDeadlineConn: the handler (and the protocol codec) arm WALL-CLOCK read/write deadlines of 5-30 s on
// the connection; on an in-memory pipe they are not part of the property, and on a heavily loaded box
// they fire spuriously (a starved goroutine is enough). The harness side is guarded by handlerWatchdog.
type noDeadlineConn struct{ net.Conn }

func (noDeadlineConn) SetDeadline(time.Time) error      { return nil }
func (noDeadlineConn) SetReadDeadline(time.Time) error  { return nil }
func (noDeadlineConn) SetWriteDeadline(time.Time) error { return nil }

// handlerWatchdog: how long one delivery may take in wall time before the case is abandoned (and
// retried once on a fresh handler). Only a hung handler can reach it.
const handlerWatchdog = 5 * time.Minute

func (i *coordInst) deliver(sender, nonce string, ts int64) (bool, string) {
	rawCli, rawSrv := net.Pipe()
	cli, srv := noDeadlineConn{rawCli}, noDeadlineConn{rawSrv}
	done := make(chan struct{})
	go func() { i.c.VerifC26HandlePeer(srv); close(done) }()
	wd := time.AfterFunc(handlerWatchdog, func() { rawCli.Close(); rawSrv.Close() })
	defer wd.Stop()
	var msg *protocol.Message
	if i.kind == "forward-apply" {
		payload := []byte(`{"type":1,"payload":{}}`)
		msg = &protocol.Message{Type: protocol.MsgForwardApply, Payload: &protocol.ForwardApplyRequest{
			CommandJSON: payload, NodeID: sender, Nonce: nonce, Timestamp: ts,
			HMAC: security.ComputeForwardHMAC(secret, nonce, sender, clusterName, payload, ts),
		}}
	} else {
		msg = &protocol.Message{Type: protocol.MsgReplicateSync, Payload: &protocol.ReplicateSync{
			ReaderID: sender, LastKnownSequence: 7, Nonce: nonce, ClusterName: clusterName, Timestamp: ts,
			HMAC: security.ComputeReplicateSyncHMAC(secret, nonce, sender, clusterName, 7, ts),
		}}
	}
	if err := protocol.SendMessage(cli, msg, 0); err != nil {
		fail("%s: send: %v", i.kind, err)
	}
	resp, err := protocol.ReceiveMessage(cli, 0)
	if err != nil {
		fail("%s: no reply from handler: %v", i.kind, err)
	}
	cli.Close()
	<-done
	srv.Close()
	switch a := resp.Payload.(type) {
	case *protocol.ForwardApplyAck:
		switch {
		case a.Code == protocol.ForwardCodeAuth && a.Error == "nonce replay":
			return false, "replay"
		case a.Code == protocol.ForwardCodeAuth:
			return false, "auth"
		case a.Code == protocol.ForwardCodeRaftUnavailable:
			return true, ""
		}
		fail("forward-apply: unexpected ack %+v", *a)
	case *protocol.ReplicateSyncAck:
		switch {
		case a.Error == "authentication failed":
			return false, "auth"
		case strings.Contains(a.Error, "not configured as a writer"):
			return true, ""
		}
		fail("replicate-sync: unexpected ack %+v", *a)
	}
	fail("%s: unexpected reply type %T", i.kind, resp.Payload)
	return false, ""
}

func coordSite(kind string) site {
	probe := cluster.VerifC26Coordinator(secret, clusterName)
	tol := probe.VerifC26ForwardTolerance()
	if kind == "replicate-sync" {
		tol = probe.VerifC26ReplicateSyncTolerance()
	}
	return site{name: kind, tol: tol, mk: func() instance {
		return &coordInst{c: cluster.VerifC26Coordinator(secret, clusterName), kind: kind}
	}}
}

// -- internal/api: cache invalidate ---------------------------------------------------------------

type cacheInvInst struct {
	app   *fiber.App
	cache *security.NonceCache
	calls *int
}

func (i *cacheInvInst) ttl() time.Duration { return ttlOf(i.cache) }

func (i *cacheInvInst) deliver(sender, nonce string, ts int64) (bool, string) {
	req := httptest.NewRequest(http.MethodPost, api.CacheInvalidatePath, nil)
	req.Header.Set("X-Arc-Node-ID", sender)
	req.Header.Set("X-Arc-Cluster", clusterName)
	req.Header.Set("X-Arc-Nonce", nonce)
	req.Header.Set("X-Arc-Timestamp", strconv.FormatInt(ts, 10))
	req.Header.Set("X-Arc-HMAC", security.ComputeCacheInvalidateHMAC(secret, nonce, sender, clusterName, ts))
	before := *i.calls
	resp, err := i.app.Test(req, int(handlerWatchdog/time.Millisecond))
	if err != nil {
		fail("cache-invalidate: request: %v", err)
	}
	io.Copy(io.Discard, resp.Body)
	resp.Body.Close()
	switch {
	case resp.StatusCode == fiber.StatusNoContent && *i.calls == before+1:
		return true, ""
	case resp.StatusCode == fiber.StatusForbidden && *i.calls == before:
		return false, "forbidden"
	}
	fail("cache-invalidate: status %d, onInvalidate calls %d->%d", resp.StatusCode, before, *i.calls)
	return false, ""
}

func cacheInvSite() site {
	return site{name: "cache-invalidate", tol: siteCacheInvalidateTolerance(), mk: func() instance {
		calls := new(int)
		cache := siteCacheInvalidateNonceCache()
		h := api.NewCacheInvalidateHandler(secret, clusterName, localNodeID, cache, siteCacheInvalidateTolerance(),
			func() { *calls++ }, zerolog.Nop())
		app := fiber.New(fiber.Config{DisableStartupMessage: true})
		h.Register(app)
		return &cacheInvInst{app: app, cache: cache, calls: calls}
	}}
}

// -- internal/api: edge sync -----------------------------------------------------------------------

type edgeRig struct {
	recv *edgesync.Receiver
	rec  *edgesync.Reconciler
	hdr  map[string]string
}

func newEdgeRig(scratch string) *edgeRig {
	dir := filepath.Join(scratch, "hub")
	if err := os.MkdirAll(dir, 0o755); err != nil {
		fail("scratch: %v", err)
	}
	backend, err := storage.NewLocalBackend(dir, zerolog.Nop())
	if err != nil {
		fail("edge-sync backend: %v", err)
	}
	db, err := sql.Open("sqlite3", filepath.Join(scratch, "hubindex.db"))
	if err != nil {
		fail("edge-sync sqlite: %v", err)
	}
	idx, err := edgesync.NewHubIndex(db, zerolog.Nop())
	if err != nil {
		fail("edge-sync hub index: %v", err)
	}
	recv, err := edgesync.NewReceiver(edgesync.ReceiverConfig{Backend: backend, Index: idx, Logger: zerolog.Nop()})
	if err != nil {
		fail("edge-sync receiver: %v", err)
	}
	rec, err := edgesync.NewReconciler(edgesync.ReconcilerConfig{Index: idx, Backend: backend, MaxEntries: 100})
	if err != nil {
		fail("edge-sync reconciler: %v", err)
	}
	return &edgeRig{recv: recv, rec: rec, hdr: api.VerifC26SyncHeaders()}
}

type edgeInst struct {
	rig   *edgeRig
	app   *fiber.App
	guard security.ReplayGuard
	kind  string
}

func (i *edgeInst) ttl() time.Duration { return ttlOf(i.guard) }

var edgeBody = []byte("c26 parquet payload")

const edgePath = "metrics/cpu/2026/08/07/14/cpu_c26.parquet"

func (i *edgeInst) deliver(sender, nonce string, ts int64) (bool, string) {
	h := i.rig.hdr
	var req *http.Request
	if i.kind == "edge-sync-file" {
		sum := sha256.Sum256(edgeBody)
		sha := hex.EncodeToString(sum[:])
		mac, err := security.ComputeSyncFileHMAC(secret, nonce, sender, hubID, edgePath, sha, ts)
		if err != nil {
			fail("edge-sync-file: sign: %v", err)
		}
		req = httptest.NewRequest(http.MethodPost, "/api/v1/sync/file", bytes.NewReader(edgeBody))
		req.Header.Set(h["path"], edgePath)
		req.Header.Set(h["sha256"], sha)
		req.Header.Set(h["size"], strconv.Itoa(len(edgeBody)))
		req.Header.Set(h["mac"], mac)
	} else {
		body := []byte(`{"entries":[]}`)
		mac, err := security.ComputeSyncReconcileHMAC(secret, nonce, sender, hubID, body, ts)
		if err != nil {
			fail("edge-sync-reconcile: sign: %v", err)
		}
		req = httptest.NewRequest(http.MethodPost, "/api/v1/sync/reconcile", bytes.NewReader(body))
		req.Header.Set("Content-Type", "application/json")
		req.Header.Set(h["mac"], mac)
	}
	req.Header.Set(h["spoke"], sender)
	req.Header.Set(h["hub"], hubID)
	req.Header.Set(h["nonce"], nonce)
	req.Header.Set(h["ts"], strconv.FormatInt(ts, 10))
	resp, err := i.app.Test(req, int(handlerWatchdog/time.Millisecond))
	if err != nil {
		fail("%s: request: %v", i.kind, err)
	}
	raw, _ := io.ReadAll(resp.Body)
	resp.Body.Close()
	switch resp.StatusCode {
	case fiber.StatusOK:
		return true, ""
	case fiber.StatusUnauthorized:
		var m map[string]any
		json.Unmarshal(raw, &m)
		why, _ := m["reason"].(string)
		if why == "" {
			why = "auth"
		}
		return false, why
	}
	fail("%s: unexpected status %d body %.200s", i.kind, resp.StatusCode, raw)
	return false, ""
}

func edgeSite(rig *edgeRig, kind string) site {
	mk := func() *edgeInst {
		guard := siteEdgeSyncReplay()
		h, err := api.NewEdgeSyncHandler(api.EdgeSyncHandlerConfig{
			Receiver: rig.recv, Reconciler: rig.rec,
			SpokeSecrets: api.StaticSpokeSecrets(map[string]string{"spoke-a": secret, "spoke-ticker": secret, "spoke-ticker2": secret}),
			Replay:       guard, HubID: hubID, MaxFileBytes: 1 << 20, Logger: zerolog.Nop(),
		})
		if err != nil {
			fail("edge-sync handler: %v", err)
		}
		app := fiber.New(fiber.Config{DisableStartupMessage: true})
		h.RegisterRoutes(app)
		return &edgeInst{rig: rig, app: app, guard: guard, kind: kind}
	}
	// tolerance: the handler method's own argument expression
	hh, err := api.NewEdgeSyncHandler(api.EdgeSyncHandlerConfig{Receiver: rig.recv, Reconciler: rig.rec,
		SpokeSecrets: api.StaticSpokeSecrets(map[string]string{"spoke-a": secret}), Replay: siteEdgeSyncReplay(),
		HubID: hubID, MaxFileBytes: 1 << 20, Logger: zerolog.Nop()})
	if err != nil {
		fail("edge-sync handler: %v", err)
	}
	tol := hh.VerifC26SyncFileTolerance()
	if kind == "edge-sync-reconcile" {
		tol = hh.VerifC26SyncReconcileTolerance()
	}
	return site{name: kind, tol: tol, mk: func() instance { return mk() }}
}

// ---- one case -------------------------------------------------------------------------------------

func senders(siteName string) (string, string) {
	if strings.HasPrefix(siteName, "edge-sync") {
		return "spoke-a", "spoke-ticker"
	}
	return "node-a", "node-ticker"
}

func abs(x int64) int64 {
	if x < 0 {
		return -x
	}
	return x
}

type result struct {
	obs        Obs
	deliveries int
	freshRej   int
	unrelated  map[string]int // "U=accepted" ... (history cases)
}

const nonceUnderTest = "nonce-under-test"

// runHistory executes a history case (see Case in shared.go) on one fresh handler + nonce cache.
func runHistory(s site, c Case) result {
	t0 := epochS * 1e9
	security.VerifSetClock(t0)
	in := s.mk()
	tolS := int64(s.tol.Seconds())
	ttl := in.ttl()
	sender, ticker := senders(s.name)
	r := result{obs: Obs{Case: c, TolS: tolS, TTLNs: int64(ttl)}, unrelated: map[string]int{}}
	fmtRes := func(acc bool, why string) string {
		if acc {
			return "accepted"
		}
		return "rejected:" + why
	}
	now := t0
	var ts, tM int64
	nU, nV := 0, 0
	var evs []string
	for _, tok := range strings.Fields(c.Hist) {
		if tok[0] == '+' {
			n, err := strconv.ParseInt(tok[1:], 10, 64)
			if err != nil || n < 0 {
				fail("bad history token %q in %q", tok, c.Hist)
			}
			now += n * 1e9
			continue
		}
		security.VerifSetClock(now)
		var res string
		switch tok {
		case "M":
			if r.obs.Orig != "" {
				fail("history %q delivers M twice", c.Hist)
			}
			tM, ts = now, now/1e9+c.OffS
			res = fmtRes(in.deliver(sender, nonceUnderTest, ts))
			r.obs.Orig, r.obs.OrigDrift = res, now/1e9-ts
		case "R":
			if r.obs.Orig == "" || r.obs.Replay != "" {
				fail("history %q: R must come once, after M", c.Hist)
			}
			res = fmtRes(in.deliver(sender, nonceUnderTest, ts))
			r.obs.Replay, r.obs.ReplDrift, r.obs.ElapsedNs = res, now/1e9-ts, now-tM
		case "U", "V":
			var acc bool
			var why string
			if tok == "U" { // same sender, a nonce of its own
				nU++
				acc, why = in.deliver(sender, "unrelated-"+strconv.Itoa(nU), now/1e9)
			} else { // another node id, the nonce under test
				nV++
				id := ticker
				if nV > 1 {
					id += strconv.Itoa(nV)
				}
				acc, why = in.deliver(id, nonceUnderTest, now/1e9)
			}
			res = fmtRes(acc, why)
			r.obs.TicksSent++
			if acc {
				r.obs.TicksTaken++
			} else {
				r.freshRej++
			}
			r.unrelated[tok+"="+res]++
		default:
			fail("bad history token %q in %q", tok, c.Hist)
		}
		r.deliveries++
		evs = append(evs, fmt.Sprintf("%s@+%ds=%s", tok, (now-t0)/1e9, res))
	}
	if r.obs.Orig == "" || r.obs.Replay == "" {
		fail("history %q lacks M or R", c.Hist)
	}
	r.obs.Events = strings.Join(evs, " ")
	return r
}

// runCaseRetry: a case whose handler could not be driven (harnessErr: watchdog, broken pipe, ...) is
// run once more on a fresh handler + cache before the worker gives up with HARNESS-UNBOUND.
func runCaseRetry(s site, c Case, retried *int) (r result) {
	for attempt := 0; ; attempt++ {
		ok := func() (ok bool) {
			defer func() {
				if e := recover(); e != nil {
					if _, isH := e.(harnessErr); isH && attempt == 0 {
						*retried++
						return
					}
					panic(e)
				}
			}()
			r = runCase(s, c)
			return true
		}()
		if ok {
			return r
		}
	}
}

func runCase(s site, c Case) result {
	if c.Hist != "" {
		return runHistory(s, c)
	}
	t0 := epochS * 1e9
	security.VerifSetClock(t0)
	in := s.mk()
	tolS := int64(s.tol.Seconds())
	ttl := in.ttl()
	sender, ticker := senders(s.name)
	t1 := t0 + c.FirstS*1e9 + c.Phi1Ns
	s1 := t1 / 1e9
	ts := s1 + c.OffS
	t2 := t1 + c.DelayNs
	s2 := t2 / 1e9
	r := result{obs: Obs{Case: c, TolS: tolS, TTLNs: int64(ttl), OrigDrift: s1 - ts, ReplDrift: s2 - ts, ElapsedNs: c.DelayNs}}
	fmtRes := func(acc bool, why string) string {
		if acc {
			return "accepted"
		}
		return "rejected:" + why
	}
	security.VerifSetClock(t1)
	acc, why := in.deliver(sender, nonceUnderTest, ts)
	r.deliveries++
	r.obs.Orig = fmtRes(acc, why)
	if c.Ticks {
		for k := int64(1); t1+k*61e9 < t2; k++ {
			tk := t1 + k*61e9
			security.VerifSetClock(tk)
			a, _ := in.deliver(ticker, "tick-"+strconv.FormatInt(k, 10), tk/1e9)
			r.deliveries++
			r.obs.TicksSent++
			if a {
				r.obs.TicksTaken++
			} else {
				r.freshRej++
			}
		}
	}
	security.VerifSetClock(t2)
	acc, why = in.deliver(sender, nonceUnderTest, ts)
	r.deliveries++
	r.obs.Replay = fmtRes(acc, why)
	return r
}

// ---- grid -----------------------------------------------------------------------------------------

func uniq(v []int64) []int64 {
	sort.Slice(v, func(i, j int) bool { return v[i] < v[j] })
	out := v[:0]
	for i, x := range v {
		if i == 0 || x != v[i-1] {
			out = append(out, x)
		}
	}
	return out
}

func edgeOffsets(tol int64) []int64 {
	return uniq([]int64{-tol - 1, -tol, -tol + 1, -1, 0, 1, tol - 1, tol, tol + 1})
}

func edgeDelaysS(tolNs, ttlNs int64) []int64 { // whole-second part, in ns
	const s = int64(1e9)
	var v []int64
	for _, d := range []int64{0, s, ttlNs - s, ttlNs, ttlNs + s, tolNs, tolNs + s, 2*tolNs - s, 2 * tolNs, 2*tolNs + s, 2*tolNs + 2*s} {
		if d >= 0 {
			v = append(v, d)
		}
	}
	return uniq(v)
}

const subSecond = int64(999_999_999)

// enumerate calls f for every case of the site's EDGE grid (both tiers), in a fixed order, without
// duplicates, and returns the set it emitted (the dense grid skips those).
func enumerate(siteName string, tolNs, ttlNs int64, f func(Case)) (nOff, nDelay int, seen map[Case]bool) {
	tolS := tolNs / 1e9
	seen = map[Case]bool{}
	emit := func(c Case) {
		if !seen[c] {
			seen[c] = true
			f(c)
		}
	}
	offs, delays := edgeOffsets(tolS), edgeDelaysS(tolNs, ttlNs)
	nOff, nDelay = len(offs), len(delays)
	for _, ticks := range []bool{false, true} {
		for _, first := range []int64{0, 61} {
			for _, phi1 := range []int64{0, 5e8} {
				for _, d := range delays {
					for _, phi2 := range []int64{0, subSecond} {
						for _, off := range offs {
							emit(Case{Site: siteName, OffS: off, DelayNs: d + phi2, Phi1Ns: phi1, FirstS: first, Ticks: ticks})
						}
					}
				}
			}
		}
	}
	return
}

// dense grid (thorough): every whole second of offset in [-tol-2, tol+2] x every whole second of
// delay in [0, max(2tol, ttl)+3] x recv-phase {0, 0.5s} x delay sub-second {0, +0.999999999s}.
func denseMaxDelayS(tolNs, ttlNs int64) int64 {
	maxD := 2 * tolNs
	if ttlNs > maxD {
		maxD = ttlNs
	}
	return maxD/1e9 + 3
}

// enumerateDenseAt emits the dense-grid cases of one whole-second delay (minus the edge grid's).
func enumerateDenseAt(siteName string, tolNs int64, dS int64, skip map[Case]bool, f func(Case)) {
	tolS := tolNs / 1e9
	for _, phi1 := range []int64{0, 5e8} {
		for _, phi2 := range []int64{0, subSecond} {
			for off := -tolS - 2; off <= tolS+2; off++ {
				c := Case{Site: siteName, OffS: off, DelayNs: dS*1e9 + phi2, Phi1Ns: phi1}
				if !skip[c] {
					f(c)
				}
			}
		}
	}
}

// ---- histories ------------------------------------------------------------------------------------

// cacheIntervals: the nonce cache's own periods, read from the compiled package (accessor generated by
// the driver from nonce_cache.go's package-level declarations). Falls back to 60 s when none is found.
func cacheIntervals() (named map[string]int64, secs []int64, assumed bool) {
	named = map[string]int64{}
	for n, d := range security.VerifC26DurationConsts() {
		if d >= time.Second && d <= time.Hour {
			named[n] = int64(d)
			secs = append(secs, int64(d/time.Second))
		}
	}
	if len(secs) == 0 {
		return named, []int64{60}, true
	}
	return named, uniq(secs), false
}

// gapGrid: clock advances (whole seconds) around the sweep interval(s) I and the retention:
// 0, 1, I-1, I, I+1, ttl-I-1, ttl-I, ttl-I+1, ttl-1, ttl, ttl+1.
func gapGrid(ttlS int64, ivs []int64) []int64 {
	v := []int64{0, 1, ttlS - 1, ttlS, ttlS + 1}
	for _, i := range ivs {
		v = append(v, i-1, i, i+1, ttlS-i-1, ttlS-i, ttlS-i+1)
	}
	var out []int64
	for _, x := range v {
		if x >= 0 {
			out = append(out, x)
		}
	}
	return uniq(out)
}

var (
	histShapesQuick = []string{"MR", "MUR", "MVR", "UMR", "VMR", "MUUR", "MUVR", "MVUR", "MVVR"}
	histShapesExtra = []string{"UMUR", "UMVR", "VMUR", "VMVR", "UUMR", "UVMR", "VUMR", "VVMR"}
)

// enumerateHist calls f for every history case of the site, in a fixed order. Distinct by construction.
// extra=false: the quick set (both tiers run it first). extra=true: what thorough adds to it (for the
// quick shapes the construction gaps the quick set leaves out; the X-first 4-delivery shapes, starting
// at construction time).
func enumerateHist(siteName string, tolNs, ttlNs int64, ivs []int64, extra bool, f func(Case)) (gaps []int64) {
	tolS := tolNs / 1e9
	gaps = gapGrid(ttlNs/1e9, ivs)
	firstQ, firstAll := []int64{0}, []int64{0}
	for _, i := range ivs {
		firstQ = append(firstQ, i+1)
		firstAll = append(firstAll, i, i+1)
	}
	firstQ, firstAll = uniq(firstQ), uniq(firstAll)
	isQuickShape := func(shape string) bool {
		for _, x := range histShapesQuick {
			if x == shape {
				return true
			}
		}
		return false
	}
	inQuick := func(shape string, a0 int64) bool { // is (shape, construction gap) part of the quick set?
		if !isQuickShape(shape) {
			return false
		}
		if len(shape) >= 4 {
			return a0 == 0 // quick: 4-delivery histories start at construction time
		}
		for _, x := range firstQ {
			if x == a0 {
				return true
			}
		}
		return false
	}
	bound := 2*tolS + 2 // M..R longer than this: R is outside the window whatever the offset
	offs := edgeOffsets(tolS)
	shapes := histShapesQuick
	if extra {
		shapes = append(append([]string{}, histShapesQuick...), histShapesExtra...)
	}
	for _, shape := range shapes {
		mIdx := strings.IndexByte(shape, 'M')
		adv := make([]int64, len(shape))
		var rec func(i int, mToR int64)
		rec = func(i int, mToR int64) {
			if i == len(shape) {
				var b strings.Builder
				for k := range shape {
					if k > 0 {
						b.WriteByte(' ')
					}
					b.WriteString("+" + strconv.FormatInt(adv[k], 10) + " " + shape[k:k+1])
				}
				h := b.String()
				for _, off := range offs {
					f(Case{Site: siteName, OffS: off, Hist: h})
				}
				return
			}
			g := gaps
			if i == 0 {
				g = firstAll
			}
			for _, a := range g {
				if i == 0 && (inQuick(shape, a) == extra || (a != 0 && !isQuickShape(shape))) {
					continue // X-first 4-delivery shapes start at construction time: their first X sets the sweep phase
				}
				m := mToR
				if i > mIdx {
					m += a
					if m > bound {
						continue
					}
				}
				adv[i] = a
				rec(i+1, m)
			}
		}
		rec(0, 0)
	}
	return gaps
}

// ---- main -----------------------------------------------------------------------------------------

func main() {
	tier := flag.String("tier", "quick", "")
	shard := flag.Int("shard", 0, "")
	of := flag.Int("of", 1, "")
	scratch := flag.String("scratch", "", "")
	deadline := flag.Int64("deadline", 0, "")
	one := flag.String("case", "", "")
	_ = flag.Int("seed", 0, "")
	repeat := flag.Int("repeat", 1, "")
	flag.Parse()
	out := &WorkerOut{Sites: map[string]SiteInfo{}, Outcomes: map[string]int{}, Exhaustive: true,
		GridOffsets: map[string]int{}, GridDelays: map[string]int{}, AcceptedOrigin: map[string]int{},
		HistByLen: map[string]int{}, HistGaps: map[string][]int64{}, UnrelatedSeen: map[string]int{}}
	emit := func() {
		b, _ := json.Marshal(out)
		os.Stdout.Write(b)
	}
	defer func() {
		if r := recover(); r != nil {
			if he, ok := r.(harnessErr); ok {
				out.Errors = append(out.Errors, string(he))
				emit()
				return
			}
			panic(r)
		}
	}()
	if *scratch == "" || !strings.HasPrefix(*scratch, "/dev/shm/verif.c26.") {
		fail("worker needs -scratch under /dev/shm/verif.c26.<pid>/")
	}
	os.MkdirAll(*scratch, 0o755)
	defer os.RemoveAll(*scratch)

	tStart := time.Now()
	dbg := func(what string) {
		if os.Getenv("C26_DEBUG") != "" {
			fmt.Fprintf(os.Stderr, "c26worker %s at %v\n", what, time.Since(tStart))
		}
	}
	dbg("start")
	rig := newEdgeRig(*scratch)
	dbg("edge rig")
	sites := []site{coordSite("replicate-sync"), coordSite("forward-apply"), cacheInvSite(),
		edgeSite(rig, "edge-sync-file"), edgeSite(rig, "edge-sync-reconcile")}
	dbg("sites")
	classes := map[string]*Class{}
	nPlain, nHist := 0, 0
	ivNamed, ivSecs, ivAssumed := cacheIntervals()
	out.Intervals, out.IntervalsAssumed = ivNamed, ivAssumed
	record := func(s site, r result) {
		o := r.obs
		out.Cases++
		out.Deliveries += r.deliveries
		out.FreshRejected += r.freshRej
		origAcc, replAcc := o.Orig == "accepted", o.Replay == "accepted"
		origIn, replIn := abs(o.OrigDrift) <= o.TolS, abs(o.ReplDrift) <= o.TolS
		isHist := o.Case.Hist != ""
		if isHist {
			out.HistCases++
			shape, _, _ := histShape(o.Case.Hist)
			out.HistByLen[strings.NewReplacer("U", "X", "V", "X").Replace(shape)]++
			if origAcc && replIn {
				out.HistNonTrivial++
			}
			for k, v := range r.unrelated {
				out.UnrelatedSeen[s.name+":"+k] += v
			}
		}
		if origAcc {
			out.AcceptedOrigin[s.name]++
		}
		if origIn && !origAcc {
			out.FreshRejected++
		}
		if origAcc && replIn {
			out.NonTrivial++
		}
		win := func(in bool) string {
			if in {
				return "in"
			}
			return "out"
		}
		out.Outcomes[fmt.Sprintf("%s:orig[%s]=%s,replay[%s]=%s", s.name, win(origIn), o.Orig, win(replIn), o.Replay)]++
		add := func(kind, region string) {
			key := kind + "|" + s.name + "|" + region
			c, ok := classes[key]
			if !ok {
				c = &Class{Kind: kind, Site: s.name, Region: region, Min: o, MinOff: o.Case.OffS, MaxOff: o.Case.OffS}
				classes[key] = c
			}
			c.Count++
			if caseLess(o.Case, c.Min.Case) {
				c.Min = o
			}
			if o.ElapsedNs > c.MaxDelay {
				c.MaxDelay = o.ElapsedNs
			}
			if o.Case.OffS < c.MinOff {
				c.MinOff = o.Case.OffS
			}
			if o.Case.OffS > c.MaxOff {
				c.MaxOff = o.Case.OffS
			}
		}
		if origAcc && replAcc {
			region := "exact-timestamp"
			if o.Case.OffS > 0 {
				region = "future-dated"
			} else if o.Case.OffS < 0 {
				region = "past-dated"
			}
			// a replay that gets through while the cache should, by its own TTL, still remember the nonce
			// is a different defect from one that arrives after the configured retention ran out
			if o.ElapsedNs < o.TTLNs {
				region += ",within-ttl"
			} else {
				region += ",after-ttl"
			}
			add("replay-accepted", region)
		}
		side := func(drift int64) string {
			if drift > 0 {
				return "stale"
			}
			return "future"
		}
		if origAcc && !origIn {
			add("outside-window-accepted", "original-"+side(o.OrigDrift))
		}
		if replAcc && !replIn {
			add("outside-window-accepted", "replay-"+side(o.ReplDrift))
		}
		if !isHist && nPlain < 2 && origAcc && replIn && o.Case.DelayNs > 0 {
			nPlain++
			out.Samples = append(out.Samples, o)
		}
		if isHist && nHist < 1 && origAcc && replIn && o.TicksSent == 2 && o.ElapsedNs > o.TTLNs/2 {
			nHist++
			out.Samples = append(out.Samples, o)
		}
	}

	if *one != "" {
		// -case accepts one case object or a list; every case is run -repeat times, each on a fresh
		// handler + cache; Samples lists the observations in order.
		var cs []Case
		if strings.HasPrefix(strings.TrimSpace(*one), "[") {
			if err := json.Unmarshal([]byte(*one), &cs); err != nil {
				fail("bad -case: %v", err)
			}
		} else {
			var c Case
			if err := json.Unmarshal([]byte(*one), &c); err != nil {
				fail("bad -case: %v", err)
			}
			cs = []Case{c}
		}
		var all []Obs
		for _, c := range cs {
			found := false
			for _, s := range sites {
				if s.name != c.Site {
					continue
				}
				found = true
				for k := 0; k < *repeat; k++ {
					r := runCaseRetry(s, c, &out.Retried)
					record(s, r)
					all = append(all, r.obs)
				}
			}
			if !found {
				fail("unknown site %q", c.Site)
			}
		}
		out.Samples = all
	} else {
		// Phase 0 (both tiers, no time cap): per site the quick history set, then the edge time grid.
		// Phases 1-2 (thorough only, under the time cap; a cut sets exhaustive=false, never an error):
		// the extra histories of every site, then the dense time grid delay by delay ACROSS the sites,
		// so that a cut leaves every site covered to the same depth.
		idx, mine := 0, 0
		capped := false
		var cur site
		visit := func(c Case) {
			idx++
			if idx%*of != *shard {
				return
			}
			if capped && !out.Exhaustive {
				return
			}
			mine++
			if capped && *deadline > 0 && mine%128 == 0 && time.Now().Unix() > *deadline {
				out.Exhaustive = false
				return
			}
			record(cur, runCaseRetry(cur, c, &out.Retried))
		}
		ttls := make([]time.Duration, len(sites))
		skips := make([]map[Case]bool, len(sites))
		for i, s := range sites {
			security.VerifSetClock(epochS * 1e9)
			ttl := s.mk().ttl()
			if s.tol < time.Second || ttl <= 0 {
				fail("site %s: tolerance %v / ttl %v not usable", s.name, s.tol, ttl)
			}
			ttls[i] = ttl
			out.Sites[s.name] = SiteInfo{TolNs: int64(s.tol), TTLNs: int64(ttl)}
			cur = s
			out.HistGaps[s.name] = enumerateHist(s.name, int64(s.tol), int64(ttl), ivSecs, false, visit)
			dbg("site " + s.name + " quick histories done, deliveries so far " + strconv.Itoa(out.Deliveries))
			out.GridOffsets[s.name], out.GridDelays[s.name], skips[i] = enumerate(s.name, int64(s.tol), int64(ttl), visit)
			dbg("site " + s.name + " edge grid done, deliveries so far " + strconv.Itoa(out.Deliveries))
		}
		if *tier == "thorough" {
			capped = true
			for i, s := range sites {
				cur = s
				enumerateHist(s.name, int64(s.tol), int64(ttls[i]), ivSecs, true, visit)
				dbg("site " + s.name + " extra histories done, deliveries so far " + strconv.Itoa(out.Deliveries))
			}
			maxAll := int64(0)
			for i, s := range sites {
				m := denseMaxDelayS(int64(s.tol), int64(ttls[i]))
				out.GridOffsets[s.name], out.GridDelays[s.name] = int(2*(int64(s.tol)/1e9+2)+1), int(m+1)
				if m > maxAll {
					maxAll = m
				}
			}
			for d := int64(0); d <= maxAll && out.Exhaustive; d++ {
				for i, s := range sites {
					if d <= denseMaxDelayS(int64(s.tol), int64(ttls[i])) {
						cur = s
						enumerateDenseAt(s.name, int64(s.tol), d, skips[i], visit)
					}
				}
				if out.Exhaustive {
					out.DenseDelaysDone = int(d + 1)
				}
			}
			dbg("dense grid done, deliveries so far " + strconv.Itoa(out.Deliveries))
		}
	}
	keys := make([]string, 0, len(classes))
	for k := range classes {
		keys = append(keys, k)
	}
	sort.Strings(keys)
	for _, k := range keys {
		out.Classes = append(out.Classes, *classes[k])
	}
	out.ClockReads = security.VerifClockReads()
	dbg("done")
	_ = siteBindingsJSON
	emit()
}
