// C15 — SQL normalisation agrees with DuckDB's lexer and is reversible.
//
// Bounded-exhaustive enumeration of every token string up to a length over a 20-token alphabet rich in
// quotes, backslashes, dollar tags, E prefixes, comment markers, newlines, unicode and placeholder
// look-alikes. Each lexically complete string is pushed through the REAL sql.MaskStringLiterals /
// UnmaskStringLiterals / IdentifierNames / MaskFromKeywordsInFunctionBodies (internal/sql/mask.go) and the
// REAL scanSQLFeatures / stripSQLComments / normalizeSQLForShow (internal/api/query.go, via an in-package
// overlay accessor) and compared with a reference lexer written from the PostgreSQL/DuckDB lexical rules
// (scan.l). The reference itself is validated against a real in-process DuckDB on every string that has a
// shape DuckDB can execute (SELECT <literal> [alias]) and, up to a smaller length, on every string for
// "unterminated ..." agreement. A reference/DuckDB disagreement is a harness error (exit 2), never a VIOLATION.
//
// Second input space (multi.go): statement templates with 2-4 slots (select-list aliases, FROM, db.table,
// GROUP BY / ORDER BY, CTE name, JOIN ... USING, adjacent tokens, tokens inside comments) filled with every
// combination of complete quoted tokens chosen for how they relate to EACH OTHER: byte-equal repeats, case
// variants, prefix/suffix variants, identifier vs literal with the same content, empty and escaped-quote
// forms. Same oracles, all evaluated on every statement.
package main

import (
	"context"
	"database/sql"
	"encoding/json"
	"fmt"
	"os"
	"runtime/debug"
	"runtime/pprof"
	"sort"
	"strconv"
	"strings"
	"sync"
	"sync/atomic"
	"time"

	"github.com/basekick-labs/arc/internal/api"
	sqlutil "github.com/basekick-labs/arc/internal/sql"
	"github.com/basekick-labs/arc/zzverif/engine/ev"
	_ "github.com/duckdb/duckdb-go/v2"
)

// ---- alphabet ----------------------------------------------------------------------------------

var alphabet = []string{"'", "\"", "\\", "$$", "$t$", "E", "e", "--", "/*", "*/", "\n", "a", " ", ";",
	"__STR_0__", "__IDENT_0__", "ä", "(", ")", "FROM"}

// simplicity order used only by the minimiser (a token may be replaced by a strictly simpler one)
var simplicity = []string{"a", " ", ";", "(", ")", "\n", "ä", "e", "E", "FROM", "'", "\"", "\\", "--", "/*", "*/",
	"$$", "$t$", "__STR_0__", "__IDENT_0__"}

var rank [20]int     // alphabet index -> simplicity rank
var byRank [20]uint8 // simplicity rank -> alphabet index
var interesting [20]bool

func init() {
	for r, t := range simplicity {
		found := false
		for i, a := range alphabet {
			if a == t {
				rank[i], byRank[r], found = r, uint8(i), true
			}
		}
		if !found {
			panic("simplicity order does not cover the alphabet")
		}
	}
	for i, a := range alphabet {
		for j, b := range alphabet {
			if i != j && strings.HasPrefix(b, a) {
				panic("alphabet is not a prefix code: distinct token sequences could render the same string")
			}
		}
		switch a {
		case "'", "\"", "\\", "$$", "$t$", "--", "/*", "*/":
			interesting[i] = true
		}
	}
}

func render(toks []uint8) string {
	var b strings.Builder
	for _, t := range toks {
		b.WriteString(alphabet[t])
	}
	return b.String()
}

// human-readable, unambiguous token list used in signatures
func showToks(toks []uint8) string {
	parts := make([]string, len(toks))
	for i, t := range toks {
		switch alphabet[t] {
		case "\n":
			parts[i] = "\\n"
		case " ":
			parts[i] = "␠"
		default:
			parts[i] = alphabet[t]
		}
	}
	return strings.Join(parts, " ")
}

// ---- reference lexer (PostgreSQL/DuckDB scan.l rules) -------------------------------------------

type kind uint8

const (
	kWS kind = iota
	kLine
	kBlock
	kStr    // '...' segment (standard-conforming: backslash is an ordinary character)
	kEStr   // E'...' segment (backslash escapes)
	kDollar // $tag$...$tag$
	kQIdent // "..."
	kWord
	kNum
	kParam
	kPunct
	kOp
	kOther
)

var kindName = map[kind]string{kStr: "plain", kEStr: "estring", kDollar: "dollar", kQIdent: "ident",
	kLine: "line-comment", kBlock: "block-comment", kWord: "word", kWS: "whitespace", kNum: "number",
	kParam: "param", kPunct: "punct", kOp: "operator", kOther: "other"}

type rtok struct {
	k    kind
	s, e int
	cont bool // string segment continuing the previous literal ('a'<newline>'b')
}

type lexed struct {
	toks       []rtok
	incomplete string // "" or what is unterminated, in DuckDB's words
}

func isSpace(c byte) bool { return c == ' ' || c == '\t' || c == '\n' || c == '\r' || c == '\f' }
func isDigit(c byte) bool { return c >= '0' && c <= '9' }
func isNL(c byte) bool    { return c == '\n' || c == '\r' }
func isIdentStart(c byte) bool {
	return (c >= 'a' && c <= 'z') || (c >= 'A' && c <= 'Z') || c == '_' || c >= 0x80
}
func isIdentCont(c byte) bool            { return isIdentStart(c) || isDigit(c) || c == '$' }
func isOpChar(c byte) bool               { return strings.IndexByte("~!@#^&|`?+-*/%<>=", c) >= 0 }
func isSelf(c byte) bool                 { return strings.IndexByte(",()[].;:", c) >= 0 }
func has(s string, i int, p string) bool { return strings.HasPrefix(s[i:], p) }

// dolqDelim: \$({dolq_start}{dolq_cont}*)?\$ at s[i]; returns the index just past the delimiter.
func dolqDelim(s string, i int) (int, bool) {
	j := i + 1
	if j < len(s) && s[j] == '$' {
		return j + 1, true
	}
	if j < len(s) && isIdentStart(s[j]) {
		j++
		for j < len(s) && (isIdentStart(s[j]) || isDigit(s[j])) {
			j++
		}
		if j < len(s) && s[j] == '$' {
			return j + 1, true
		}
	}
	return 0, false
}

func refLex(s string) lexed {
	var L lexed
	n := len(s)
	add := func(k kind, a, b int, cont bool) { L.toks = append(L.toks, rtok{k, a, b, cont}) }
	wsAndLineComments := func(a, b int) { // region known to hold only whitespace and -- comments
		for a < b {
			if isSpace(s[a]) {
				j := a
				for j < b && isSpace(s[j]) {
					j++
				}
				add(kWS, a, j, false)
				a = j
			} else {
				j := a
				for j < b && !isNL(s[j]) {
					j++
				}
				add(kLine, a, j, false)
				a = j
			}
		}
	}
	// lexString scans a '...' literal whose token starts at tokStart and whose opening quote is at q,
	// including quotecontinue ('a' <ws-with-newline> 'b' is ONE literal). Returns the next index or -1.
	lexString := func(tokStart, q int, emode bool) int {
		k := kStr
		if emode {
			k = kEStr
		}
		segStart, cont := tokStart, false
		for {
			j := q + 1
			for {
				if j >= n {
					L.incomplete = "quoted string"
					return -1
				}
				if emode && s[j] == '\\' {
					j += 2
					continue
				}
				if s[j] == '\'' {
					if j+1 < n && s[j+1] == '\'' {
						j += 2
						continue
					}
					break
				}
				j++
			}
			add(k, segStart, j+1, cont)
			// quotecontinue = ' {horiz_whitespace}* {newline} {special_whitespace}* '
			p := j + 1
			for p < n {
				if s[p] == ' ' || s[p] == '\t' || s[p] == '\f' {
					p++
				} else if has(s, p, "--") {
					for p < n && !isNL(s[p]) {
						p++
					}
				} else {
					break
				}
			}
			if !(p < n && isNL(s[p])) {
				return j + 1
			}
			p++
			ok := true
			for p < n && ok {
				if isSpace(s[p]) {
					p++
				} else if has(s, p, "--") {
					e := p
					for e < n && !isNL(s[e]) {
						e++
					}
					if e >= n {
						ok = false
					} else {
						p = e + 1
					}
				} else {
					break
				}
			}
			if !ok || !(p < n && s[p] == '\'') {
				return j + 1
			}
			wsAndLineComments(j+1, p)
			segStart, q, cont = p, p, true
		}
	}
	i := 0
	for i < n {
		c := s[i]
		switch {
		case isSpace(c):
			j := i
			for j < n && isSpace(s[j]) {
				j++
			}
			add(kWS, i, j, false)
			i = j
		case c == '-' && has(s, i, "--"):
			j := i
			for j < n && !isNL(s[j]) {
				j++
			}
			add(kLine, i, j, false)
			i = j
		case c == '/' && has(s, i, "/*"):
			depth, j := 1, i+2
			for j < n && depth > 0 {
				if has(s, j, "/*") {
					depth++
					j += 2
				} else if has(s, j, "*/") {
					depth--
					j += 2
				} else {
					j++
				}
			}
			if depth > 0 {
				L.incomplete = "/* comment"
				return L
			}
			add(kBlock, i, j, false)
			i = j
		case c == '\'':
			if i = lexString(i, i, false); i < 0 {
				return L
			}
		case (c == 'E' || c == 'e') && i+1 < n && s[i+1] == '\'':
			if i = lexString(i, i+1, true); i < 0 {
				return L
			}
		case c == '"':
			j := i + 1
			for {
				if j >= n {
					L.incomplete = "quoted identifier"
					return L
				}
				if s[j] == '"' {
					if j+1 < n && s[j+1] == '"' {
						j += 2
						continue
					}
					break
				}
				j++
			}
			add(kQIdent, i, j+1, false)
			i = j + 1
		case c == '$':
			if te, ok := dolqDelim(s, i); ok {
				tag := s[i:te]
				idx := strings.Index(s[te:], tag)
				if idx < 0 {
					L.incomplete = "dollar-quoted string"
					return L
				}
				end := te + idx + len(tag)
				add(kDollar, i, end, false)
				i = end
			} else if i+1 < n && isDigit(s[i+1]) {
				j := i + 1
				for j < n && isDigit(s[j]) {
					j++
				}
				add(kParam, i, j, false)
				i = j
			} else {
				add(kOther, i, i+1, false)
				i++
			}
		case isIdentStart(c):
			j := i + 1
			for j < n && isIdentCont(s[j]) {
				j++
			}
			add(kWord, i, j, false)
			i = j
		case isDigit(c):
			j := i
			for j < n && isDigit(s[j]) {
				j++
			}
			add(kNum, i, j, false)
			i = j
		case isOpChar(c):
			j := i
			for j < n && isOpChar(s[j]) {
				if j > i && (has(s, j, "--") || has(s, j, "/*")) {
					break
				}
				j++
			}
			add(kOp, i, j, false)
			i = j
		case isSelf(c):
			add(kPunct, i, i+1, false)
			i++
		default:
			add(kOther, i, i+1, false)
			i++
		}
	}
	return L
}

// decoding of values (what DuckDB must return)
func decodeSeg(s string, t rtok) string {
	switch t.k {
	case kStr:
		return strings.ReplaceAll(s[t.s+1:t.e-1], "''", "'")
	case kEStr:
		body := s[t.s:t.e]
		if !t.cont {
			body = body[1:] // E prefix
		}
		body = body[1 : len(body)-1]
		var b strings.Builder
		for i := 0; i < len(body); i++ {
			switch {
			case body[i] == '\\' && i+1 < len(body):
				i++
				b.WriteByte(body[i]) // alphabet never forms \b \f \n \r \t \x \u or an octal digit
			case body[i] == '\'':
				i++
				b.WriteByte('\'')
			default:
				b.WriteByte(body[i])
			}
		}
		return b.String()
	case kDollar:
		te, _ := dolqDelim(s, t.s)
		tl := te - t.s
		return s[te : t.e-tl]
	case kQIdent:
		return strings.ReplaceAll(s[t.s+1:t.e-1], `""`, `"`)
	}
	return s[t.s:t.e]
}

func isSpanKind(k kind) bool { return k == kStr || k == kEStr || k == kDollar || k == kQIdent }

// refStrip: the documented result of comment stripping: "--" comment removed (its newline kept),
// block comment replaced by one space, every other byte unchanged.
func refStrip(s string, L lexed) string {
	var b strings.Builder
	for _, t := range L.toks {
		switch t.k {
		case kLine:
		case kBlock:
			b.WriteByte(' ')
		default:
			b.WriteString(s[t.s:t.e])
		}
	}
	return b.String()
}

// ---- the real code ------------------------------------------------------------------------------

type span struct {
	s, e  int
	ident bool
	ph    string
}

// arcMask runs the real feature scan + masker and recovers, by aligning input and masked output,
// which byte ranges of the input were replaced by which placeholder.
//
// A placeholder normally stands for its mask's Original, which must then be the text at the site. When it
// is not, or when the placeholder was already met (deduplicated identifier placeholder: Original is the
// text of its FIRST site and may be a mere prefix of what stands here), the site's extent is taken from
// the reference token starting there, so that the per-site name oracle and the round-trip oracle — not an
// unspecific alignment failure — report what is wrong with that site.
func arcMask(s string, L *lexed) (m string, masks []sqlutil.StringMask, spans []span, dash, block bool, aligned bool) {
	hq, dash, block := api.VerifSQLFeatures(s)
	m, masks = sqlutil.MaskStringLiterals(s, hq)
	byPH := make(map[string]int, len(masks))
	for i, mk := range masks {
		byPH[mk.Placeholder] = i
	}
	i, j := 0, 0
	for j < len(m) {
		if i < len(s) && s[i] == m[j] {
			i++
			j++
			continue
		}
		// originals never start with '_' so a placeholder here must stand for a masked range
		ph := placeholderAt(m, j)
		k, ok := byPH[ph]
		if ph == "" || !ok || masks[k].Original == "" {
			return m, masks, spans, dash, block, false
		}
		e := i + len(masks[k].Original)
		again := false // a later site of a placeholder already met: Original is the FIRST site's text
		for _, sp := range spans {
			if sp.ph == ph {
				again = true
			}
		}
		if again || !strings.HasPrefix(s[i:], masks[k].Original) {
			re := -1
			if L != nil {
				for _, t := range L.toks {
					if t.s == i && isSpanKind(t.k) {
						re = t.e
					}
				}
			}
			switch {
			case re >= 0:
				e = re
			case !strings.HasPrefix(s[i:], masks[k].Original):
				return m, masks, spans, dash, block, false
			}
		}
		spans = append(spans, span{i, e, masks[k].Identifier, ph})
		i = e
		j += len(ph)
	}
	return m, masks, spans, dash, block, i == len(s)
}

func placeholderAt(m string, j int) string {
	for _, p := range []string{"__STR_", "__IDENT_"} {
		if has(m, j, p) {
			k := j + len(p)
			d := k
			for d < len(m) && isDigit(m[d]) {
				d++
			}
			if d > k && has(m, d, "__") {
				return m[j : d+2]
			}
		}
	}
	return ""
}

type verdict struct {
	kind       string // "" = all oracles hold; "skip" = lexically incomplete (not judged)
	detail     string
	nontrivial bool
	fromMasks  int
	sharedPH   bool // one identifier placeholder stands for two or more sites
}

func ctxAt(L lexed, pos int) string {
	for _, t := range L.toks {
		if pos >= t.s && pos < t.e {
			if pos == t.s && t.k != kLine && t.k != kBlock {
				return "boundary"
			}
			return kindName[t.k]
		}
	}
	return "end"
}

// judge evaluates the oracles in a fixed order and returns the first that fails.
func judge(s string) verdict { return judgeL(s, refLex(s)) }

func judgeL(s string, L lexed) verdict {
	v, fails := judgeAll(s, L)
	if len(fails) > 0 {
		v.kind, v.detail = fails[0].kind, fails[0].detail
	}
	return v
}

type failure struct{ kind, detail string }

// judgeAll evaluates every oracle that can still be evaluated and returns all failures in the fixed
// oracle order (a span disagreement ends the evaluation: the later oracles are stated per agreed span;
// the composed pipeline is not reported next to a round-trip failure it merely repeats).
func judgeAll(s string, L lexed) (v verdict, fails []failure) {
	if L.incomplete != "" {
		return verdict{kind: "skip", detail: L.incomplete}, nil
	}
	var ref []rtok
	nontrivial := false
	for _, t := range L.toks {
		if isSpanKind(t.k) {
			ref = append(ref, t)
			nontrivial = true
		} else if t.k == kLine || t.k == kBlock {
			nontrivial = true
		}
	}
	v = verdict{nontrivial: nontrivial}
	fail := func(kind, detail string) { fails = append(fails, failure{kind, detail}) }
	m, masks, spans, dash, block, aligned := arcMask(s, &L)
	if !aligned {
		fail("mask-align", fmt.Sprintf("masked output %q cannot be aligned with the input", m))
		return
	}
	// (1) masked ranges == reference literal / quoted-identifier ranges
	for k := 0; k < len(spans) || k < len(ref); k++ {
		var a *span
		var r *rtok
		if k < len(spans) {
			a = &spans[k]
		}
		if k < len(ref) {
			r = &ref[k]
		}
		switch {
		case a != nil && r != nil && a.s == r.s && a.e == r.e && a.ident == (r.k == kQIdent):
			continue
		case a != nil && (r == nil || a.s < r.s):
			fail("mask-extra@"+ctxAt(L, a.s), fmt.Sprintf("Arc masks bytes [%d,%d) %q where DuckDB's lexer has no literal/quoted identifier starting (reference context: %s)", a.s, a.e, s[a.s:a.e], ctxAt(L, a.s)))
		case r != nil && (a == nil || r.s < a.s):
			fail("mask-missed@"+kindName[r.k], fmt.Sprintf("the %s %q at [%d,%d) is not masked", kindName[r.k], s[r.s:r.e], r.s, r.e))
		case a.e > r.e:
			fail("mask-overrun@"+kindName[r.k], fmt.Sprintf("the %s %q ends at %d for DuckDB but Arc masks up to %d (%q)", kindName[r.k], s[r.s:r.e], r.e, a.e, s[a.s:a.e]))
		case a.e < r.e:
			fail("mask-underrun@"+kindName[r.k], fmt.Sprintf("the %s %q ends at %d for DuckDB but Arc's mask stops at %d (%q)", kindName[r.k], s[r.s:r.e], r.e, a.e, s[a.s:a.e]))
		default:
			fail("mask-class@"+kindName[r.k], fmt.Sprintf("%q is a %s for DuckDB but Arc classifies it identifier=%v", s[r.s:r.e], kindName[r.k], a.ident))
		}
		return
	}
	for i, a := range spans {
		for _, b := range spans[:i] {
			if a.ident && a.ph == b.ph {
				v.sharedPH = true
			}
		}
	}
	// sites per placeholder, and whether one placeholder stands for sites that read differently
	siteCount := func(ph string) (n int, differ bool) {
		first := ""
		for _, a := range spans {
			if a.ph == ph {
				if n == 0 {
					first = s[a.s:a.e]
				} else if s[a.s:a.e] != first {
					differ = true
				}
				n++
			}
		}
		return
	}
	// (1b) at every site, the identifier placeholder resolves to the unquoted name DuckDB sees there
	names := sqlutil.IdentifierNames(masks)
	for k, a := range spans {
		if a.ident {
			if want := decodeSeg(s, ref[k]); names[a.ph] != want {
				kind := "ident-name"
				n, differ := siteCount(a.ph)
				if differ {
					kind = "ident-name@shared-placeholder"
				}
				fail(kind, fmt.Sprintf("IdentifierNames gives %q for the site %q (placeholder %s, used at %d sites), DuckDB's name there is %q", names[a.ph], s[a.s:a.e], a.ph, n, want))
				break
			}
		}
	}
	// (2) unmask(mask(s)) == s
	roundtripOK := true
	if back := sqlutil.UnmaskStringLiterals(m, masks); back != s {
		roundtripOK = false
		which := "other"
		for _, a := range spans { // one identifier placeholder standing for sites that read differently
			if _, differ := siteCount(a.ph); a.ident && differ {
				which = "ident-repeat"
				break
			}
		}
		for _, mk := range masks { // placeholder look-alikes typed by the user take precedence (known class)
			if strings.Contains(s, mk.Placeholder) {
				which = "ident-lookalike"
				if !mk.Identifier {
					which = "str-lookalike"
				}
				break
			}
		}
		fail("roundtrip@"+which, fmt.Sprintf("mask gives %q, unmask gives %q instead of the input", m, back))
	}
	// (3) comment stripping of the masked text (the order every call site uses) removes exactly the comments
	var exp strings.Builder
	k := 0
	for _, t := range L.toks {
		switch {
		case isSpanKind(t.k):
			exp.WriteString(spans[k].ph)
			k++
		case t.k == kLine:
		case t.k == kBlock:
			exp.WriteByte(' ')
		default:
			exp.WriteString(s[t.s:t.e])
		}
	}
	if got := api.VerifStripSQLComments(m, dash || block); got != exp.String() {
		fail("strip@"+stripDiag(s, L), fmt.Sprintf("stripSQLComments(%q) = %q, want %q (comments replaced by their separator, every other byte kept)", m, got, exp.String()))
	}
	// (4) FROM-in-function-body masking is reversible (precondition: literals already masked)
	x := "trim(" + m + ")"
	fm, fmasks := sqlutil.MaskFromKeywordsInFunctionBodies(x)
	v.fromMasks = len(fmasks)
	if back := sqlutil.UnmaskFromKeywordsInFunctionBodies(fm, fmasks); back != x {
		fail("from-roundtrip", fmt.Sprintf("MaskFromKeywordsInFunctionBodies(%q) = %q, unmask gives %q", x, fm, back))
	}
	// (5) the composed pipeline as query.go runs it (normalizeSQLForShow = mask, strip, unmask, TrimSpace)
	if roundtripOK {
		if got, want := api.VerifNormalizeSQLForShow(s), strings.TrimSpace(refStrip(s, L)); got != want {
			fail("pipeline", fmt.Sprintf("normalizeSQLForShow = %q, want %q", got, want))
		}
	}
	return
}

// stripDiag names the structural feature of the reference comment that stripping got wrong.
func stripDiag(s string, L lexed) string {
	for _, t := range L.toks {
		if t.k == kBlock && strings.Contains(s[t.s+2:t.e-2], "/*") {
			return "nested-block-comment"
		}
	}
	for i, t := range L.toks {
		if t.k == kBlock && i+1 < len(L.toks) {
			return "after-block-comment"
		}
	}
	return "other"
}

// ---- minimisation ---------------------------------------------------------------------------------

var memoMin sync.Map // kind + "\x00" + string(toks) -> []uint8 (1-minimal form)

func failsAs(toks []uint8, kind string) bool { return judge(render(toks)).kind == kind }

// minimise: drop any contiguous range, replace any range of >=2 tokens by "a", replace one token by a
// strictly simpler one — while the SAME oracle kind keeps failing. Deterministic; memoised.
func minimise(toks []uint8, kind string) []uint8 {
	key := kind + "\x00" + string(toks)
	if v, ok := memoMin.Load(key); ok {
		return v.([]uint8)
	}
	res := toks
	next := firstShrink(toks, kind)
	if next != nil {
		res = minimise(next, kind)
	}
	memoMin.Store(key, res)
	return res
}

func firstShrink(toks []uint8, kind string) []uint8 {
	n := len(toks)
	aTok := byRank[0]
	for l := n - 1; l >= 1; l-- { // delete a range, longest first
		for i := 0; i+l <= n; i++ {
			c := append(append(make([]uint8, 0, n-l), toks[:i]...), toks[i+l:]...)
			if failsAs(c, kind) {
				return c
			}
		}
	}
	for l := n; l >= 2; l-- { // collapse a range into "a"
		for i := 0; i+l <= n; i++ {
			c := append(append(append(make([]uint8, 0, n-l+1), toks[:i]...), aTok), toks[i+l:]...)
			if failsAs(c, kind) {
				return c
			}
		}
	}
	for i := 0; i < n; i++ { // simplify one token
		for r := 0; r < rank[toks[i]]; r++ {
			c := append([]uint8{}, toks...)
			c[i] = byRank[r]
			if failsAs(c, kind) {
				return c
			}
		}
	}
	return nil
}

// ---- DuckDB validation of the reference ----------------------------------------------------------

type duck struct {
	conn    *sql.Conn
	pending []*vplan
	st      vstats
	mis     []refMismatch
}

var duckCalls, duckNanos int64

// run executes q and returns the column names and the values of the single result row as strings.
func (d *duck) run(q string) (cols []string, vals []string, err error) {
	t0 := time.Now()
	defer func() { atomic.AddInt64(&duckCalls, 1); atomic.AddInt64(&duckNanos, int64(time.Since(t0))) }()
	rows, err := d.conn.QueryContext(context.Background(), q)
	if err != nil {
		return nil, nil, err
	}
	defer rows.Close()
	cols, err = rows.Columns()
	if err != nil {
		return nil, nil, err
	}
	n := 0
	for rows.Next() {
		raw := make([]any, len(cols))
		ptr := make([]any, len(cols))
		for i := range raw {
			ptr[i] = &raw[i]
		}
		if err := rows.Scan(ptr...); err != nil {
			return cols, nil, err
		}
		vals = make([]string, len(cols))
		for i, x := range raw {
			switch t := x.(type) {
			case string:
				vals[i] = t
			case []byte:
				vals[i] = string(t)
			default:
				vals[i] = fmt.Sprint(t)
			}
		}
		n++
	}
	if err := rows.Err(); err != nil {
		return cols, nil, err
	}
	if n != 1 {
		return cols, nil, fmt.Errorf("verif: %d rows", n)
	}
	return cols, vals, nil
}

type refMismatch struct {
	Input, Query, Reference, DuckDB string
}

// validation outcome counters
type vstats struct {
	shape, incomplete, noUnterminated, inconclusive int64
}

// vplan: what DuckDB must answer for one generated string if the reference read it correctly.
type vplan struct {
	s       string
	item    string // select-list item: executed as "SELECT "+item (items of value plans can share one SELECT)
	wantVal string
	wantCol string // "" = not compared (DuckDB invents a name)
	wantErr string // non-empty: the statement must fail with an error containing this
	mode    int    // 0 executable shape, 1 reference says unterminated <what>, 2 complete: no "unterminated" error allowed
	what    string
}

// plan derives the DuckDB experiment for s. full = also the one-sided "unterminated" experiments
// (every string); otherwise only executable shapes.
func plan(s string, L lexed, full bool) *vplan {
	if L.incomplete != "" {
		if !full {
			return nil
		}
		return &vplan{s: s, item: s, mode: 1, what: L.incomplete}
	}
	// significant tokens, continuation segments merged into one literal
	type sig struct {
		k   kind
		val string
	}
	var T []sig
	mbEscape := false
	for _, t := range L.toks {
		if t.k == kEStr {
			for i := t.s; i+1 < t.e; i++ {
				if s[i] == '\\' {
					if s[i+1] >= 0x80 {
						mbEscape = true
					}
					i++
				}
			}
		}
		switch t.k {
		case kWS, kLine, kBlock:
		case kStr, kEStr:
			if t.cont {
				T[len(T)-1].val += decodeSeg(s, t)
			} else {
				T = append(T, sig{kStr, decodeSeg(s, t)})
			}
		case kDollar:
			T = append(T, sig{kStr, decodeSeg(s, t)})
		case kQIdent:
			T = append(T, sig{kQIdent, decodeSeg(s, t)})
		default:
			T = append(T, sig{t.k, s[t.s:t.e]})
		}
	}
	isAlias := func(x sig) bool {
		return (x.k == kQIdent && x.val != "") || (x.k == kWord && !strings.EqualFold(x.val, "FROM"))
	}
	var p *vplan
	switch {
	case len(T) == 0:
		p = &vplan{s: s, item: "7 AS x " + s + "\n", wantVal: "7", wantCol: "x"}
	case len(T) == 1 && isAlias(T[0]):
		p = &vplan{s: s, item: "7 AS " + s + "\n", wantVal: "7", wantCol: T[0].val}
	case len(T) == 2 && T[0].k == kWord && !strings.EqualFold(T[0].val, "FROM") && T[1].k == kStr:
		// <word> <literal> is a typed literal: DuckDB's error names the type, i.e. where the word ends
		p = &vplan{s: s, item: s + "\n", wantErr: "Type with name " + T[0].val + " does not exist"}
	default:
		// (^k S )^k [alias]
		k := 0
		for k < len(T) && T[k].k == kPunct && T[k].val == "(" {
			k++
		}
		if k < len(T) && T[k].k == kStr {
			j := k + 1
			c := 0
			for j < len(T) && c < k && T[j].k == kPunct && T[j].val == ")" {
				j++
				c++
			}
			if c == k && (j == len(T) || (j == len(T)-1 && isAlias(T[j]))) {
				p = &vplan{s: s, item: s + "\n", wantVal: T[k].val}
				if j < len(T) {
					p.wantCol = T[j].val
				}
			}
		}
	}
	if p == nil {
		if !full {
			return nil
		}
		return &vplan{s: s, item: s + "\n", mode: 2}
	}
	if mbEscape {
		// DuckDB's scanner refuses an E'' escape of a non-ASCII byte ("pg_verifymbstr NOT IMPLEMENTED");
		// it is raised while scanning the literal the reference delimited.
		p.wantErr = "pg_verifymbstr"
	}
	return p
}

func (d *duck) mismatch(m refMismatch) {
	if len(d.mis) < 5 {
		d.mis = append(d.mis, m)
	}
}

// single runs one plan as its own statement.
func (d *duck) single(p *vplan) {
	q := "SELECT " + p.item
	cols, vals, err := d.run(q)
	switch {
	case p.mode == 1:
		if err == nil {
			d.mismatch(refMismatch{p.s, q, "unterminated " + p.what, "executed without error"})
		} else if msg := err.Error(); strings.Contains(msg, "unterminated") {
			if !strings.Contains(msg, "unterminated "+p.what) {
				d.mismatch(refMismatch{p.s, q, "unterminated " + p.what, firstLine(msg)})
			} else {
				d.st.incomplete++
			}
		} else {
			d.st.inconclusive++
		}
	case p.mode == 2:
		if err != nil && strings.Contains(err.Error(), "unterminated") {
			d.mismatch(refMismatch{p.s, q, "lexically complete", firstLine(err.Error())})
		} else {
			d.st.noUnterminated++
		}
	case p.wantErr != "":
		if err == nil || !strings.Contains(err.Error(), p.wantErr) {
			d.mismatch(refMismatch{p.s, q, "error: " + p.wantErr, fmt.Sprintf("%v %q %v", cols, vals, errLine(err))})
		} else {
			d.st.shape++
		}
	default:
		if err != nil {
			d.mismatch(refMismatch{p.s, q, fmt.Sprintf("value %q column %q", p.wantVal, p.wantCol), firstLine(err.Error())})
		} else if len(vals) != 1 || vals[0] != p.wantVal || (p.wantCol != "" && cols[0] != p.wantCol) {
			d.mismatch(refMismatch{p.s, q, fmt.Sprintf("value %q column %q", p.wantVal, p.wantCol), fmt.Sprintf("values %q columns %q", vals, cols)})
		} else {
			d.st.shape++
		}
	}
}

const batchSize = 16

// submit queues a value plan (they share one SELECT list: every item ends in a newline, so a trailing
// "--" comment cannot swallow the separating comma) or runs any other plan at once.
func (d *duck) submit(p *vplan) {
	if p == nil {
		return
	}
	if p.mode != 0 || p.wantErr != "" {
		d.single(p)
		return
	}
	d.pending = append(d.pending, p)
	if len(d.pending) >= batchSize {
		d.flush()
	}
}

func (d *duck) flush() {
	if len(d.pending) == 0 {
		return
	}
	items := make([]string, len(d.pending))
	for i, p := range d.pending {
		items[i] = p.item
	}
	cols, vals, err := d.run("SELECT " + strings.Join(items, ","))
	ok := err == nil && len(vals) == len(d.pending)
	if ok {
		for i, p := range d.pending {
			if vals[i] != p.wantVal || (p.wantCol != "" && cols[i] != p.wantCol) {
				ok = false
			}
		}
	}
	if ok {
		d.st.shape += int64(len(d.pending))
	} else {
		for _, p := range d.pending { // pinpoint (or clear) by running each alone
			d.single(p)
		}
	}
	d.pending = d.pending[:0]
}

func firstLine(s string) string {
	if i := strings.IndexByte(s, '\n'); i >= 0 {
		return s[:i]
	}
	return s
}
func errLine(err error) string {
	if err == nil {
		return "<nil>"
	}
	return firstLine(err.Error())
}

// ---- driver ---------------------------------------------------------------------------------------

func pow(b, e int) int64 {
	r := int64(1)
	for ; e > 0; e-- {
		r *= int64(b)
	}
	return r
}

func decode(idx int64, l int, buf []uint8) []uint8 {
	buf = buf[:l]
	for p := l - 1; p >= 0; p-- {
		buf[p] = uint8(idx % int64(len(alphabet)))
		idx /= int64(len(alphabet))
	}
	return buf
}

func replay(run *ev.Run) {
	b, err := os.ReadFile(run.Replay)
	if err != nil {
		ev.Unbound("cannot read replay file: " + err.Error())
	}
	var f struct {
		Replay struct {
			Input string `json:"input"`
		} `json:"replay"`
	}
	if err := json.Unmarshal(b, &f); err != nil {
		ev.Unbound("bad replay file: " + err.Error())
	}
	v := judge(f.Replay.Input)
	fmt.Printf("replay input=%q -> kind=%q %s\n", f.Replay.Input, v.kind, v.detail)
	if v.kind != "" && v.kind != "skip" {
		// tokenise greedily (the alphabet is a prefix code) to show the class this input minimises to
		var toks []uint8
		rest := f.Replay.Input
		for rest != "" {
			hit := false
			for i, a := range alphabet {
				if strings.HasPrefix(rest, a) {
					toks, rest, hit = append(toks, uint8(i)), rest[len(a):], true
					break
				}
			}
			if !hit {
				toks = nil
				break
			}
		}
		if toks != nil {
			fmt.Printf("replay class=%q\n", v.kind+"|"+showToks(minimise(toks, v.kind)))
		}
		os.Exit(1)
	}
	os.Exit(0)
}

func main() {
	run := ev.Start("C15", "exploration")
	if pf := os.Getenv("VERIF_C15_PROF"); pf != "" { // manual experiments only
		f, _ := os.Create(pf)
		pprof.StartCPUProfile(f)
	}
	debug.SetGCPercent(800) // millions of short-lived strings, tiny live heap: trade memory for GC time
	if run.Replay != "" {
		replay(run)
	}
	maxLen, fullValLen := 5, 4
	if !run.Quick() {
		maxLen, fullValLen = 6, 5
	}
	if s := os.Getenv("VERIF_C15_MAXLEN"); s != "" { // manual experiments only
		if n, err := strconv.Atoi(s); err == nil {
			maxLen = n
		}
	}
	db, err := sql.Open("duckdb", "")
	if err != nil {
		ev.Unbound("cannot open DuckDB: " + err.Error())
	}
	defer db.Close()
	const workers = 16
	var duckVersion string
	if err := db.QueryRow("SELECT version()").Scan(&duckVersion); err != nil {
		ev.Unbound("DuckDB does not answer: " + err.Error())
	}

	var enumerated, judged, skipped, nontrivial, fromMasked, failing int64
	var vs vstats
	var complete int32 = 1
	outcomes := map[string]int64{}
	var omu sync.Mutex
	minimal := map[string][]uint8{} // signature -> minimal tokens
	minKind := map[string]string{}
	minCount := map[string]int64{}
	var mismatches []refMismatch
	samples := ev.NewSamples(10)

	// one single-threaded DuckDB instance per worker (no shared scheduler or catalog locks), opened once
	// and used for every length and for the multi-token statements: opening an instance costs far more
	// than the queries of a short length
	pool := make([]*sql.Conn, workers)
	{
		var wg sync.WaitGroup
		for w := range pool {
			wg.Add(1)
			go func(w int) {
				defer wg.Done()
				wdb, err := sql.Open("duckdb", "?threads=1")
				if err != nil {
					ev.Unbound("DuckDB open: " + err.Error())
				}
				if pool[w], err = wdb.Conn(context.Background()); err != nil {
					ev.Unbound("DuckDB connection: " + err.Error())
				}
			}(w)
		}
		wg.Wait()
	}

	nA := len(alphabet)
	t0 := time.Now()
	for l := 0; l <= maxLen && atomic.LoadInt32(&complete) == 1; l++ { // simplest first
		total := pow(nA, l)
		const chunk = 2048
		var next int64
		var wg sync.WaitGroup
		for w := 0; w < workers; w++ {
			wg.Add(1)
			go func(w int) {
				defer wg.Done()
				d := &duck{conn: pool[w]}
				buf := make([]uint8, 16)
				var lEnum, lJudged, lSkipped, lNontriv, lFrom, lFail int64
				lOut := map[string]int64{}
				type mrec struct {
					toks  []uint8
					kind  string
					count int64
				}
				lMin := map[string]*mrec{}
				for {
					start := atomic.AddInt64(&next, chunk) - chunk
					if start >= total {
						break
					}
					if run.TimeUp() {
						atomic.StoreInt32(&complete, 0)
						break
					}
					end := start + chunk
					if end > total {
						end = total
					}
					for idx := start; idx < end; idx++ {
						toks := decode(idx, l, buf)
						s := render(toks)
						lEnum++
						L := refLex(s)
						v := judgeL(s, L)
						// reference validation against DuckDB
						hasInteresting := false
						for _, t := range toks {
							if interesting[t] {
								hasInteresting = true
							}
						}
						if hasInteresting || l <= fullValLen {
							d.submit(plan(s, L, l <= fullValLen))
						}
						if v.kind == "skip" {
							lSkipped++
							lOut["skipped: unterminated "+v.detail]++
							continue
						}
						lJudged++
						if v.nontrivial {
							lNontriv++
						}
						if v.fromMasks > 0 {
							lFrom++
						}
						if v.kind == "" {
							lOut["ok"]++
							if v.nontrivial && idx%7919 == 0 {
								samples.Add(map[string]any{"input": s, "masked": firstOf(sqlutil.MaskStringLiterals(s, true)), "verdict": "ok"})
							}
							continue
						}
						lFail++
						lOut[v.kind]++
						mt := minimise(append([]uint8{}, toks...), v.kind)
						sig := v.kind + "|" + showToks(mt)
						if r, ok := lMin[sig]; ok {
							r.count++
						} else {
							lMin[sig] = &mrec{mt, v.kind, 1}
						}
					}
				}
				d.flush()
				lvs, lMis := d.st, d.mis
				atomic.AddInt64(&enumerated, lEnum)
				atomic.AddInt64(&judged, lJudged)
				atomic.AddInt64(&skipped, lSkipped)
				atomic.AddInt64(&nontrivial, lNontriv)
				atomic.AddInt64(&fromMasked, lFrom)
				atomic.AddInt64(&failing, lFail)
				atomic.AddInt64(&vs.shape, lvs.shape)
				atomic.AddInt64(&vs.incomplete, lvs.incomplete)
				atomic.AddInt64(&vs.noUnterminated, lvs.noUnterminated)
				atomic.AddInt64(&vs.inconclusive, lvs.inconclusive)
				omu.Lock()
				for k, n := range lOut {
					outcomes[k] += n
				}
				for sig, r := range lMin {
					minimal[sig], minKind[sig] = r.toks, r.kind
					minCount[sig] += r.count
				}
				mismatches = append(mismatches, lMis...)
				omu.Unlock()
			}(w)
		}
		wg.Wait()
	}

	// second input space: several quoted tokens per statement (multi.go)
	t1 := time.Now()
	p2 := runMulti(run, pool, samples)
	fmt.Printf("C15 wall: token strings %.1fs, multi-token statements %.1fs\n", t1.Sub(t0).Seconds(), time.Since(t1).Seconds())
	mismatches = append(mismatches, p2.mismatches...)
	if !p2.complete {
		complete = 0
	}

	if len(mismatches) > 0 {
		sort.Slice(mismatches, func(i, j int) bool {
			if len(mismatches[i].Input) != len(mismatches[j].Input) {
				return len(mismatches[i].Input) < len(mismatches[j].Input)
			}
			return mismatches[i].Input < mismatches[j].Input
		})
		for i, m := range mismatches {
			if i < 10 {
				fmt.Printf("reference-vs-DuckDB mismatch: input=%q query=%q reference says %s; DuckDB: %s\n", m.Input, m.Query, m.Reference, m.DuckDB)
			}
		}
		ev.Unbound(fmt.Sprintf("the reference lexer disagrees with DuckDB %s on %d+ strings (harness error, nothing judged)", duckVersion, len(mismatches)))
	}

	sigs := make([]string, 0, len(minimal))
	for s := range minimal {
		sigs = append(sigs, s)
	}
	sort.Strings(sigs)
	for _, sig := range sigs {
		in := render(minimal[sig])
		v := judge(in)
		for i := 0; i < 2; i++ { // replay twice: identical observations or it is the harness
			if w := judge(in); w.kind != v.kind || w.detail != v.detail {
				ev.Nondeterminism("judge(" + strconv.Quote(in) + ") differs between runs")
			}
		}
		m, masks := sqlutil.MaskStringLiterals(in, true)
		run.Violate(sig, v.detail, map[string]any{"input": in, "tokens": showToks(minimal[sig]), "oracle": minKind[sig],
			"arc_masked": m, "arc_masks": masks, "raw_inputs_in_class": minCount[sig]})
		samples.Add(map[string]any{"input": in, "verdict": sig})
	}

	for _, c := range p2.classes {
		s0, L0 := c.input, refLex(c.input)
		_, f0 := judgeAll(s0, L0)
		detail := ""
		for _, f := range f0 {
			if f.kind == c.kind {
				detail = f.detail
			}
		}
		for i := 0; i < 2; i++ { // replay twice: identical observations or it is the harness
			_, f1 := judgeAll(s0, L0)
			if fmt.Sprint(f1) != fmt.Sprint(f0) {
				ev.Nondeterminism("judgeAll(" + strconv.Quote(s0) + ") differs between runs")
			}
		}
		if detail == "" {
			ev.Nondeterminism("the minimal input " + strconv.Quote(s0) + " no longer fails as " + c.kind)
		}
		m, masks := sqlutil.MaskStringLiterals(s0, true)
		run.Violate(c.sig, detail, map[string]any{"input": s0, "oracle": c.kind, "space": "multi-token templates",
			"arc_masked": m, "arc_masks": masks, "raw_inputs_in_class": c.count})
		samples.Add(map[string]any{"input": s0, "verdict": c.sig})
	}
	for k, n := range p2.outcomes {
		outcomes["multi: "+k] += n
	}

	okeys := make([]string, 0, len(outcomes))
	for k := range outcomes {
		okeys = append(okeys, k)
	}
	sort.Strings(okeys)
	var olist []string
	for _, k := range okeys {
		olist = append(olist, fmt.Sprintf("%s=%d", k, outcomes[k]))
	}
	fmt.Printf("C15 token strings: enumerated=%d judged=%d skipped_incomplete=%d nontrivial=%d failing=%d classes=%d from_masked=%d\n",
		enumerated, judged, skipped, nontrivial, failing, len(sigs), fromMasked)
	fmt.Printf("C15 reference vs DuckDB %s: shapes_validated=%d unterminated_agreed=%d complete_no_unterminated=%d inconclusive=%d\n",
		duckVersion, vs.shape, vs.incomplete, vs.noUnterminated, vs.inconclusive)
	fmt.Printf("C15 duckdb calls=%d mean=%.0fus (summed over workers %.1fs)\n", duckCalls, float64(duckNanos)/1e3/float64(max(duckCalls, 1)), float64(duckNanos)/1e9)
	fmt.Printf("C15 outcomes: %s\n", strings.Join(olist, " "))
	for _, sig := range sigs {
		fmt.Printf("C15 class %-60q raw=%d\n", sig, minCount[sig])
	}
	fmt.Printf("C15 multi-token: templates=%d tokens=%d cases=%d judged=%d skipped_incomplete=%d failing=%d classes=%d generator_truth_checked=%d shared_placeholder=%d casefold_equal_not_byte_equal=%d ident_equals_literal_content=%d from_masked=%d\n",
		p2.nTemplates, len(p2.alpha), p2.cases, p2.judged, p2.skipped, p2.failing, len(p2.classes), p2.truthChecked, p2.sharedPH, p2.foldPairs, p2.identEqLiteral, p2.fromMasked)
	fmt.Printf("C15 multi-token vs DuckDB: alias_statements_executed_names_equal=%d zero_length_identifier_refused=%d parse_trees_confirmed=%d not_parseable=%d not_submitted_in_this_tier=%d\n",
		p2.execOK, p2.execZeroLen, p2.jsonOK, p2.jsonUnpr, p2.notParsed)
	for _, c := range p2.classes {
		fmt.Printf("C15 class %-60q raw=%d\n", c.sig, c.count)
	}
	if len(outcomes) < 2 {
		fmt.Println("C15 WARNING: a single outcome over all cases (vacuous?)")
	}

	run.Coverage["evaluations"] = judged + p2.judged
	run.Coverage["enumerated"] = enumerated + p2.cases
	run.Coverage["skipped_lexically_incomplete"] = skipped + p2.skipped
	run.Coverage["distinct_nontrivial"] = nontrivial + p2.nontrivial
	run.Coverage["rule"] = fmt.Sprintf("(1) every token sequence of length 0..%d over the %d-token alphabet (no token is a prefix of another (checked at start), so distinct sequences are distinct strings; enumerated shortest first); (2) every one of %d statement templates with 2..%d slots filled with every combination of the %d complete tokens of multi_token.tokens (distinct fillings are distinct statements); judged = the reference lexer finds no unterminated literal/identifier/dollar quote/comment; non-trivial = the reference finds at least one string literal, quoted identifier or comment to delimit", maxLen, nA, p2.nTemplates, p2.maxSlots, len(p2.alpha))
	tnames := make([]string, 0, len(p2.perTemplate))
	for _, t := range templates {
		if n, ok := p2.perTemplate[t.name]; ok {
			tnames = append(tnames, fmt.Sprintf("%s [%s] = %d", t.name, visible(strings.Join(t.fixed, "§")), n))
		}
	}
	run.Coverage["token_strings"] = map[string]any{"enumerated": enumerated, "judged": judged, "skipped_lexically_incomplete": skipped, "nontrivial": nontrivial}
	run.Coverage["multi_token"] = map[string]any{
		"tokens": p2.alpha, "templates": tnames, "cases": p2.cases, "judged": p2.judged, "skipped_lexically_incomplete": p2.skipped,
		"generator_ground_truth_equal_to_reference":                    p2.truthChecked,
		"cases_with_one_placeholder_at_several_sites":                  p2.sharedPH,
		"cases_with_identifiers_equal_under_case_folding_not_bytewise": p2.foldPairs,
		"cases_with_identifier_spelled_like_a_literal_content":         p2.identEqLiteral,
		"duckdb_alias_statements_executed_names_equal":                 p2.execOK,
		"duckdb_zero_length_identifier_refused":                        p2.execZeroLen,
		"duckdb_parse_trees_holding_every_name_and_value":              p2.jsonOK,
		"duckdb_not_parseable_nothing_compared":                        p2.jsonUnpr,
		"duckdb_not_submitted_in_this_tier":                            p2.notParsed,
		"failing_inputs_before_minimisation":                           p2.failing,
	}
	run.Coverage["alphabet"] = alphabet
	run.Coverage["max_len"] = maxLen
	run.Coverage["exhaustive"] = complete == 1
	run.Coverage["outcomes"] = olist
	run.Coverage["failing_inputs_before_minimisation"] = failing
	run.Coverage["from_keyword_masked_inputs"] = fromMasked
	run.Coverage["reference_validated"] = vs.shape + vs.incomplete + p2.execOK + p2.execZeroLen + p2.jsonOK
	run.Coverage["reference_validated_detail"] = map[string]any{
		"duckdb_version": duckVersion, "executed_shapes_value_and_name_equal": vs.shape, "unterminated_kind_agreed": vs.incomplete,
		"complete_strings_without_unterminated_error": vs.noUnterminated, "inconclusive_other_error_first": vs.inconclusive,
		"all_strings_up_to_len": fullValLen}
	run.Coverage["samples"] = samples.List()
	run.Assume("inputs are limited to the stated alphabet and length; U&'..', B'..', X'..' prefixes, \\r, \\f, backticks and numeric-start dollar contexts are outside it")
	run.Assume("the unit of comparison for literals is the quoted segment: DuckDB joins 'a'<newline>'b' into one constant; Arc masking the two segments separately is accepted")
	run.Assume("strings with an unterminated literal, quoted identifier, dollar quote or block comment (per the reference, agreed by DuckDB's error where it reaches the lexer error) are not judged")
	run.Assume("comment stripping is judged on the masked text, the order every call site in query.go uses, with the has-comment flags of the real scanSQLFeatures; the documented separators are: line comment -> nothing (newline kept), block comment -> one space")
	run.Assume("multi-token statements: two to four slots per template and the listed tokens only; in templates whose slots are separated by SQL text the generator's token boundaries are the ground truth and the reference lexer must reproduce them; DuckDB confirms by executed column names (alias-only statements) or by json_serialize_sql holding every decoded name/value (statements its grammar accepts); the other statements are judged against the reference alone")
	run.Assume("the reference lexer is trusted only as far as DuckDB confirmed it: executable shapes SELECT [(]*<literal>[)]* [alias], SELECT 7 AS <name>, <word> <literal> (type-name error) and comment-only strings, plus unterminated-error agreement")
	pprof.StopCPUProfile()
	run.Finish()
}

func firstOf(a string, _ []sqlutil.StringMask) string { return a }
