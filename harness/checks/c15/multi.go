// C15, second input space: SEVERAL quoted tokens per statement.
//
// The token-string enumeration of main.go reaches at most one or two quoted tokens per string and its only
// letters are a/e/E, so anything that depends on how two or three quoted identifiers / literals of ONE
// statement relate to each other (byte-equal repeats, case variants, prefix/suffix variants, an identifier
// spelled like a literal's content, empty and escaped-quote forms) is outside it. Here every statement
// template with 2 or 3 (thorough: also 4) slots is filled with EVERY combination of tokens from a small
// alphabet of complete quoted tokens built around exactly those relations, and each statement goes through
// the same oracles as in main.go — all of them evaluated, not only the first failing one:
// span agreement with the reference lexer, the per-site identifier name, unmask(mask(q)) == q byte for
// byte, comment stripping, FROM-in-function masking, the composed normalizeSQLForShow pipeline.
//
// Ground truth: for templates whose slots are separated by SQL text the generator knows where every token
// starts and ends and which class it has; the reference lexer must reproduce that (else harness error).
// DuckDB confirms the reading wherever it can: alias-only statements are executed and their result column
// names compared one by one; every other statement is parsed by DuckDB's json_serialize_sql and each
// decoded name/value the reference found must occur in the parse tree (with multiplicity).
package main

import (
	"context"
	"database/sql"
	"encoding/json"
	"fmt"
	"sort"
	"strings"
	"sync"
	"sync/atomic"

	sqlutil "github.com/basekick-labs/arc/internal/sql"
	"github.com/basekick-labs/arc/zzverif/engine/ev"
)

// ---- token alphabet (simplicity order: index = rank used by the minimiser) ----------------------------

var qQuick = []string{
	"a",                 // bareword: nothing to mask at this slot
	`"a"`, `'a'`, `"A"`, // byte-equal repeats; identifier vs literal with the same content; case variant
	`"x"`, `'x'`,
	`"aa"`, `"a "`, `'a '`, // prefix / suffix variants
	`"cpu"`, `"CPU"`, `"Cpu"`, // case variants
	`""`, `''`, `""""`, `''''`, `"a""a"`, `'a''a'`, // empty and escaped-quote forms
	`"ä"`, `"Ä"`, // non-ASCII case variants
	`E'x'`, `$$x$$`, // the other literal syntaxes with the content x
}

var qThoroughExtra = []string{`'A'`, `" a"`, `"a"""`, `'cpu'`, `'CPU'`, `"CPu"`, `e'a'`, `$t$a$t$`}

type qclass uint8

const (
	qBare qclass = iota
	qIdent
	qStr
	qEStr
	qDollar
)

func classOf(tok string) qclass {
	switch {
	case tok[0] == '"':
		return qIdent
	case tok[0] == '\'':
		return qStr
	case (tok[0] == 'E' || tok[0] == 'e') && len(tok) > 1 && tok[1] == '\'':
		return qEStr
	case tok[0] == '$':
		return qDollar
	}
	return qBare
}

func (c qclass) kind() kind {
	switch c {
	case qIdent:
		return kQIdent
	case qStr:
		return kStr
	case qEStr:
		return kEStr
	case qDollar:
		return kDollar
	}
	return kWord
}

// ---- templates -----------------------------------------------------------------------------------------

type tmpl struct {
	name  string
	fixed []string // len = slots+1
	// truth: the slots that are tokens of the statement by construction (separated from everything else by
	// SQL text). nil = adjacency template: the tokens may fuse ("a""a" is ONE identifier), only the reference
	// lexer (validated by DuckDB) knows the boundaries.
	truth []int
	exec  bool // alias-only statement: executed, result column names compared
	tier  int  // 0 = quick and thorough, 1 = thorough only
	// duckTier: from which tier on DuckDB parses every statement of the template (9 = never). Two-slot,
	// adjacency and executed templates: always. Separated three-slot templates: thorough (their token
	// boundaries are generator ground truth, and the same placements are parsed in the two-slot templates).
	duckTier int
}

func mk(name, text string, tier int, opts ...string) tmpl {
	t := tmpl{name: name, fixed: strings.Split(text, "§"), tier: tier}
	n := len(t.fixed) - 1
	mode := "all"
	if len(opts) > 0 {
		mode = opts[0]
	}
	switch mode {
	case "all", "exec":
		for i := 0; i < n; i++ {
			t.truth = append(t.truth, i)
		}
		t.exec = mode == "exec"
	case "adjacent":
	case "first": // later slots sit inside a comment
		t.truth = []int{0}
	case "first-last":
		t.truth = []int{0, n - 1}
	}
	switch {
	case n <= 2 || t.truth == nil || t.exec:
		t.duckTier = 0
	case n == 3:
		t.duckTier = 1
	default:
		t.duckTier = 9
	}
	return t
}

var templates = []tmpl{
	// two slots
	mk("alias2", "SELECT u AS §, i AS § FROM m", 0),
	mk("alias2-exec", "SELECT 1 AS §, 2 AS §", 0, "exec"),
	mk("col-groupby", "SELECT §, count(*) FROM t GROUP BY §", 0),
	mk("cte-from", "WITH § AS (SELECT 1 AS k) SELECT k FROM §", 0),
	mk("db.table", "SELECT * FROM §.§", 0),
	mk("where-eq", "SELECT * FROM m WHERE § = §", 0),
	mk("col-orderby", "SELECT § FROM m ORDER BY §", 0),
	mk("trim-from", "SELECT trim(§ FROM §) FROM m", 0),
	mk("adj2", "SELECT §§", 0, "adjacent"),
	mk("adj2-space", "SELECT § §", 0),
	mk("adj2-comma", "SELECT §,§", 0),
	mk("adj2-newline", "SELECT §\n§", 0, "adjacent"), // 'a'<newline>'x' is one constant for DuckDB
	mk("line-comment2", "SELECT § -- §\n", 0, "first"),
	mk("block-comment2", "SELECT § /* § */", 0, "first"),
	// three slots
	mk("alias3", "SELECT u AS §, i AS §, s AS § FROM m", 0),
	mk("alias3-exec", "SELECT 1 AS §, 2 AS §, 3 AS §", 0, "exec"),
	mk("cte-alias-from", "WITH § AS (SELECT 1 AS k) SELECT k AS § FROM §", 0),
	mk("col-from-groupby", "SELECT §, count(*) FROM § GROUP BY §", 0),
	mk("col-from-where", "SELECT § FROM § WHERE h = §", 0),
	mk("cat.db.table", "SELECT * FROM §.§.§", 0),
	mk("join-using", "SELECT * FROM § JOIN § USING (§)", 0),
	mk("in-list", "SELECT * FROM m WHERE § IN (§, §)", 0),
	mk("adj3", "SELECT §§§", 0, "adjacent"),
	mk("adj3-space", "SELECT § § §", 0),
	mk("line-comment3", "SELECT § -- §\n, §", 0, "first-last"),
	mk("block-comment3", "SELECT § /* § */ §", 0, "first-last"),
	// four slots (thorough)
	mk("alias4", "SELECT u AS §, i AS §, s AS §, n AS § FROM m", 1),
	mk("cte-col-from-groupby", "WITH § AS (SELECT 1 AS k) SELECT § FROM § GROUP BY §", 1),
	mk("join-on", "SELECT * FROM § JOIN § ON §.k = §.k", 1),
}

func renderCase(fixed []string, q []int, alpha []string) string {
	var b strings.Builder
	for i, f := range fixed {
		b.WriteString(f)
		if i < len(q) {
			b.WriteString(alpha[q[i]])
		}
	}
	return b.String()
}

func visible(s string) string { return strings.ReplaceAll(s, "\n", `\n`) }

// ---- minimisation of a failing statement -----------------------------------------------------------------

type mcase struct {
	fixed []string
	q     []int
}

func (c mcase) key() string {
	var b strings.Builder
	for _, f := range c.fixed {
		b.WriteString(f)
		b.WriteByte(0)
	}
	b.WriteByte(1)
	for _, x := range c.q {
		b.WriteByte(byte(x))
	}
	return b.String()
}

type multiMin struct {
	alpha []string
	memo  sync.Map // kind + "\x02" + key -> mcase
}

func (mm *multiMin) failsAs(c mcase, kind string) bool {
	s := renderCase(c.fixed, c.q, mm.alpha)
	_, fails := judgeAll(s, refLex(s))
	for _, f := range fails {
		if f.kind == kind {
			return true
		}
	}
	return false
}

func blank(interior bool) string {
	if interior {
		return " "
	}
	return ""
}

// minimise: all fixed text -> blanks, drop a slot, blank one fixed piece, then the lexicographically
// smallest (by token rank) filling — while the SAME oracle kind keeps failing. Deterministic; memoised.
func (mm *multiMin) minimise(c mcase, kind string) mcase {
	key := kind + "\x02" + c.key()
	if v, ok := mm.memo.Load(key); ok {
		return v.(mcase)
	}
	res := c
	if next, ok := mm.firstShrink(c, kind); ok {
		res = mm.minimise(next, kind)
	}
	mm.memo.Store(key, res)
	return res
}

func (mm *multiMin) firstShrink(c mcase, kind string) (mcase, bool) {
	k := len(c.q)
	try := func(n mcase) bool { return n.key() != c.key() && mm.failsAs(n, kind) }
	// all fixed text -> blanks
	bare := make([]string, k+1)
	for i := range bare {
		bare[i] = blank(i > 0 && i < k)
	}
	if n := (mcase{bare, c.q}); try(n) {
		return n, true
	}
	// drop one slot (its two neighbouring fixed pieces are joined)
	if k > 1 {
		for i := 0; i < k; i++ {
			joined := c.fixed[i] + c.fixed[i+1]
			if strings.TrimSpace(joined) == "" {
				joined = blank(i > 0 && i+1 < k)
			}
			f := append(append(append([]string{}, c.fixed[:i]...), joined), c.fixed[i+2:]...)
			q := append(append([]int{}, c.q[:i]...), c.q[i+1:]...)
			if n := (mcase{f, q}); try(n) {
				return n, true
			}
		}
	}
	// blank one fixed piece
	for i := range c.fixed {
		if b := blank(i > 0 && i < k); c.fixed[i] != b {
			f := append([]string{}, c.fixed...)
			f[i] = b
			if n := (mcase{f, c.q}); try(n) {
				return n, true
			}
		}
	}
	// a smaller filling: up to two slots changed at once, candidates in lexicographic rank order
	nq := len(mm.alpha)
	less := func(a, b []int) bool {
		for i := range a {
			if a[i] != b[i] {
				return a[i] < b[i]
			}
		}
		return false
	}
	for i := 0; i < k; i++ {
		for j := i; j < k; j++ {
			for x := 0; x < nq; x++ {
				for y := 0; y < nq; y++ {
					if i == j && y > 0 {
						break
					}
					q := append([]int{}, c.q...)
					q[i] = x
					if j != i {
						q[j] = y
					}
					if !less(q, c.q) {
						continue
					}
					if n := (mcase{c.fixed, q}); try(n) {
						return n, true
					}
				}
			}
		}
	}
	return c, false
}

// ---- DuckDB confirmation -----------------------------------------------------------------------------------

const jbatch = 32

type jplan struct {
	s          string
	want       []string // decoded, non-empty names/values the reference lexer found, in source order
	emptyIdent bool     // the statement holds a "" token: DuckDB must refuse it as zero-length identifier
}

type duck2 struct {
	d                                     *duck
	st1, stN                              *sql.Stmt
	pend                                  []*jplan
	execOK, execZeroLen, jsonOK, jsonUnpr int64
	mis                                   []refMismatch
}

func (d *duck2) mismatch(m refMismatch) {
	if len(d.mis) < 5 {
		d.mis = append(d.mis, m)
	}
}

// wantOf: what DuckDB must have read if the reference delimited the tokens correctly.
func wantOf(s string, L lexed) (want []string, emptyIdent bool) {
	for _, t := range L.toks {
		if !isSpanKind(t.k) {
			continue
		}
		v := decodeSeg(s, t)
		if t.cont && len(want) > 0 && t.k != kQIdent {
			want[len(want)-1] += v // 'a'<newline>'b' is one constant
			continue
		}
		if t.k == kQIdent && v == "" {
			emptyIdent = true
		}
		want = append(want, v)
	}
	return
}

func nonEmpty(in []string) []string {
	var out []string
	for _, x := range in {
		if x != "" {
			out = append(out, x)
		}
	}
	return out
}

// execAliases runs SELECT 1 AS <t1>, 2 AS <t2>...: the result column names are the tokens as DuckDB read them.
func (d *duck2) execAliases(s string, names []string) {
	zero := false
	for _, n := range names {
		if n == `""` {
			zero = true
		}
	}
	cols, _, err := d.d.run(s)
	switch {
	case zero:
		if err == nil || !strings.Contains(err.Error(), "zero-length delimited identifier") {
			d.mismatch(refMismatch{s, s, "zero-length delimited identifier", fmt.Sprintf("%q %v", cols, errLine(err))})
		} else {
			d.execZeroLen++
		}
	case err != nil:
		d.mismatch(refMismatch{s, s, fmt.Sprintf("columns %q", names), firstLine(err.Error())})
	default:
		ok := len(cols) == len(names)
		for i := 0; ok && i < len(names); i++ {
			tok := names[i]
			var want string
			switch classOf(tok) {
			case qBare:
				want = tok
			default:
				L := refLex(tok)
				want = decodeSeg(tok, L.toks[0])
			}
			if want != "" && cols[i] != want { // an empty literal alias is ignored by DuckDB (it invents a name)
				ok = false
			}
		}
		if !ok {
			d.mismatch(refMismatch{s, s, fmt.Sprintf("column names of the tokens %q", names), fmt.Sprintf("columns %q", cols)})
		} else {
			d.execOK++
		}
	}
}

func (d *duck2) submit(p *jplan) {
	d.pend = append(d.pend, p)
	if len(d.pend) >= jbatch {
		d.flush()
	}
}

func (d *duck2) flush() {
	if len(d.pend) == 0 {
		return
	}
	ctx := context.Background()
	if len(d.pend) == jbatch {
		args := make([]any, jbatch)
		outs := make([]string, jbatch)
		ptrs := make([]any, jbatch)
		for i, p := range d.pend {
			args[i], ptrs[i] = p.s, &outs[i]
		}
		if err := d.stN.QueryRowContext(ctx, args...).Scan(ptrs...); err == nil {
			for i, p := range d.pend {
				d.check(p, outs[i])
			}
			d.pend = d.pend[:0]
			return
		}
	}
	for _, p := range d.pend {
		var out string
		if err := d.st1.QueryRowContext(ctx, p.s).Scan(&out); err != nil {
			d.mismatch(refMismatch{p.s, "json_serialize_sql", "a parse tree or a parser error", firstLine(err.Error())})
			continue
		}
		d.check(p, out)
	}
	d.pend = d.pend[:0]
}

func collectStrings(v any, into map[string]int) {
	switch t := v.(type) {
	case string:
		into[t]++
	case []any:
		for _, x := range t {
			collectStrings(x, into)
		}
	case map[string]any:
		for _, x := range t {
			collectStrings(x, into)
		}
	}
}

func (d *duck2) check(p *jplan, out string) {
	var tree map[string]any
	if err := json.Unmarshal([]byte(out), &tree); err != nil {
		d.mismatch(refMismatch{p.s, "json_serialize_sql", "JSON", "undecodable: " + err.Error()})
		return
	}
	if e, _ := tree["error"].(bool); e {
		msg, _ := tree["error_message"].(string)
		switch {
		case strings.Contains(msg, "unterminated"):
			d.mismatch(refMismatch{p.s, "json_serialize_sql", "lexically complete", msg})
		case strings.Contains(msg, "zero-length delimited identifier") && !p.emptyIdent:
			d.mismatch(refMismatch{p.s, "json_serialize_sql", "no empty quoted identifier", msg})
		default:
			d.jsonUnpr++ // DuckDB's grammar does not take this token class at this place: nothing to compare
		}
		return
	}
	have := map[string]int{}
	collectStrings(tree["statements"], have)
	for _, w := range nonEmpty(p.want) {
		have[w]--
		if have[w] < 0 {
			d.mismatch(refMismatch{p.s, "json_serialize_sql", fmt.Sprintf("names/values %q each present in the parse tree", nonEmpty(p.want)), fmt.Sprintf("%q is missing (or present fewer times): %s", w, out)})
			return
		}
	}
	d.jsonOK++
}

// ---- driver ---------------------------------------------------------------------------------------------------

type multiClass struct {
	sig, kind, input, detail string
	count                    int64
}

type multiResult struct {
	alpha                                             []string
	perTemplate                                       map[string]int64
	cases, judged, skipped, nontrivial, failing       int64
	truthChecked, sharedPH, foldPairs, identEqLiteral int64
	execOK, execZeroLen, jsonOK, jsonUnpr, fromMasked int64
	notParsed                                         int64
	outcomes                                          map[string]int64
	classes                                           []multiClass
	mismatches                                        []refMismatch
	complete                                          bool
	maxSlots                                          int
	nTemplates                                        int
}

// relations between the quoted tokens the reference found (vacuity counters)
func relations(s string, L lexed) (fold, identEqLit bool) {
	var ids, lits []string
	for _, t := range L.toks {
		switch {
		case t.k == kQIdent:
			ids = append(ids, s[t.s:t.e])
		case isSpanKind(t.k):
			lits = append(lits, decodeSeg(s, t))
		}
	}
	for i := range ids {
		for j := i + 1; j < len(ids); j++ {
			if ids[i] != ids[j] && strings.ToLower(ids[i]) == strings.ToLower(ids[j]) {
				fold = true
			}
		}
		name := strings.ReplaceAll(ids[i][1:len(ids[i])-1], `""`, `"`)
		for _, l := range lits {
			if l == name {
				identEqLit = true
			}
		}
	}
	return
}

func runMulti(run *ev.Run, pool []*sql.Conn, samples *ev.Samples) *multiResult {
	res := &multiResult{perTemplate: map[string]int64{}, outcomes: map[string]int64{}, complete: true}
	alpha := append([]string{}, qQuick...)
	tier := 0
	if !run.Quick() {
		alpha = append(alpha, qThoroughExtra...)
		tier = 1
	}
	for i, a := range alpha {
		for j, b := range alpha {
			if i != j && a == b {
				panic("duplicate token in the multi-token alphabet")
			}
		}
	}
	res.alpha = alpha
	nq := int64(len(alpha))
	type job struct {
		t     *tmpl
		base  int64 // first global index
		total int64
	}
	var jobs []job
	var grand int64
	for i := range templates {
		t := &templates[i]
		if t.tier > tier {
			continue
		}
		n := int64(1)
		for k := 0; k < len(t.fixed)-1; k++ {
			n *= nq
		}
		jobs = append(jobs, job{t, grand, n})
		grand += n
		res.perTemplate[t.name] = n
		res.nTemplates++
		if len(t.fixed)-1 > res.maxSlots {
			res.maxSlots = len(t.fixed) - 1
		}
	}
	mm := &multiMin{alpha: alpha}
	var mu sync.Mutex
	classes := map[string]*multiClass{}
	var next int64
	var incomplete int32
	const chunk = 512
	var wg sync.WaitGroup
	params := strings.TrimSuffix(strings.Repeat("json_serialize_sql(?::VARCHAR)::VARCHAR,", jbatch), ",")
	for w := range pool {
		wg.Add(1)
		go func(w int) {
			defer wg.Done()
			conn := pool[w]
			st1, err := conn.PrepareContext(context.Background(), "SELECT json_serialize_sql(?::VARCHAR)::VARCHAR")
			if err != nil {
				ev.Unbound("DuckDB json_serialize_sql is not available: " + err.Error())
			}
			defer st1.Close()
			stN, err := conn.PrepareContext(context.Background(), "SELECT "+params)
			if err != nil {
				ev.Unbound("DuckDB json_serialize_sql is not available: " + err.Error())
			}
			defer stN.Close()
			d := &duck2{d: &duck{conn: conn}, st1: st1, stN: stN}
			var l multiResult
			l.outcomes = map[string]int64{}
			lClasses := map[string]*multiClass{}
			q := make([]int, 8)
			for {
				start := atomic.AddInt64(&next, chunk) - chunk
				if start >= grand {
					break
				}
				if run.TimeUp() {
					atomic.StoreInt32(&incomplete, 1)
					break
				}
				end := start + chunk
				if end > grand {
					end = grand
				}
				ji := sort.Search(len(jobs), func(i int) bool { return jobs[i].base+jobs[i].total > start })
				for idx := start; idx < end; idx++ {
					for idx >= jobs[ji].base+jobs[ji].total {
						ji++
					}
					t := jobs[ji].t
					k := len(t.fixed) - 1
					q = q[:k]
					rem := idx - jobs[ji].base
					for p := k - 1; p >= 0; p-- {
						q[p] = int(rem % nq)
						rem /= nq
					}
					s := renderCase(t.fixed, q, alpha)
					l.cases++
					L := refLex(s)
					if L.incomplete != "" {
						if t.truth != nil && len(t.truth) == k {
							d.mismatch(refMismatch{s, "generator", "complete tokens only", "reference lexer: unterminated " + L.incomplete})
						}
						l.skipped++
						l.outcomes["skipped: unterminated "+L.incomplete]++
						continue
					}
					// generator ground truth vs reference lexer
					if t.truth != nil {
						type gt struct {
							s, e int
							k    kind
						}
						var want []gt
						off := 0
						ti := 0
						for i := 0; i <= k; i++ {
							off += len(t.fixed[i])
							if i == k {
								break
							}
							tok := alpha[q[i]]
							if ti < len(t.truth) && t.truth[ti] == i {
								ti++
								if c := classOf(tok); c != qBare {
									want = append(want, gt{off, off + len(tok), c.kind()})
								}
							}
							off += len(tok)
						}
						n := 0
						okTruth := true
						for _, rt := range L.toks {
							if isSpanKind(rt.k) {
								if n >= len(want) || want[n].s != rt.s || want[n].e != rt.e || want[n].k != rt.k {
									okTruth = false
									break
								}
								n++
							}
						}
						if !okTruth || n != len(want) {
							d.mismatch(refMismatch{s, "generator", fmt.Sprintf("tokens at %v", want), "the reference lexer delimits other tokens"})
							continue
						}
						l.truthChecked++
					}
					// DuckDB
					if t.exec {
						names := make([]string, k)
						for i := range names {
							names[i] = alpha[q[i]]
						}
						d.execAliases(s, names)
					} else if t.duckTier <= tier {
						want, emptyIdent := wantOf(s, L)
						d.submit(&jplan{s: s, want: want, emptyIdent: emptyIdent})
					} else {
						l.notParsed++
					}
					// the oracles, all of them
					v, fails := judgeAll(s, L)
					l.judged++
					if v.nontrivial {
						l.nontrivial++
					}
					if v.fromMasks > 0 {
						l.fromMasked++
					}
					fold, eqLit := relations(s, L)
					if fold {
						l.foldPairs++
					}
					if eqLit {
						l.identEqLiteral++
					}
					if v.sharedPH {
						l.sharedPH++
					}
					if len(fails) == 0 {
						l.outcomes["ok"]++
						if idx%9973 == 0 {
							samples.Add(map[string]any{"template": t.name, "input": s, "masked": firstOf(sqlutil.MaskStringLiterals(s, true)), "verdict": "ok"})
						}
						continue
					}
					l.failing++
					for _, f := range fails {
						l.outcomes[f.kind]++
						mc := mm.minimise(mcase{append([]string{}, t.fixed...), append([]int{}, q...)}, f.kind)
						in := renderCase(mc.fixed, mc.q, alpha)
						sig := f.kind + "|" + visible(in)
						if c, ok := lClasses[sig]; ok {
							c.count++
						} else {
							lClasses[sig] = &multiClass{sig: sig, kind: f.kind, input: in, count: 1}
						}
					}
				}
			}
			d.flush()
			mu.Lock()
			res.cases += l.cases
			res.judged += l.judged
			res.skipped += l.skipped
			res.nontrivial += l.nontrivial
			res.failing += l.failing
			res.truthChecked += l.truthChecked
			res.sharedPH += l.sharedPH
			res.foldPairs += l.foldPairs
			res.identEqLiteral += l.identEqLiteral
			res.fromMasked += l.fromMasked
			res.notParsed += l.notParsed
			res.execOK += d.execOK
			res.execZeroLen += d.execZeroLen
			res.jsonOK += d.jsonOK
			res.jsonUnpr += d.jsonUnpr
			for k, n := range l.outcomes {
				res.outcomes[k] += n
			}
			for sig, c := range lClasses {
				if g, ok := classes[sig]; ok {
					g.count += c.count
				} else {
					classes[sig] = c
				}
			}
			res.mismatches = append(res.mismatches, d.mis...)
			mu.Unlock()
		}(w)
	}
	wg.Wait()
	res.complete = incomplete == 0
	sigs := make([]string, 0, len(classes))
	for s := range classes {
		sigs = append(sigs, s)
	}
	sort.Strings(sigs)
	for _, s := range sigs {
		res.classes = append(res.classes, *classes[s])
	}
	return res
}
