// C10 — Row-level delete removes exactly the rows the predicate selects.
//
// Every predicate of a small boolean grammar (depth <= 2 over nine atoms with NOT/AND/OR, plus 1=1)
// is sent to the REAL api.DeleteHandler (fiber app, real storage.LocalBackend on /dev/shm, real
// database.DuckDB with Arc's configuration and sandbox) against a two-file Parquet measurement whose
// rows are the full product of nullable column values. Each case is a dry run followed by a confirmed
// delete on a freshly materialised copy of the dataset (fresh paths, so no cache can carry over).
//
// Oracle (never Arc's code): an independent plain DuckDB connection evaluates the predicate as a
// BOOLEAN select-list value per row of the generator's ground-truth table (TRUE selects; FALSE and
// NULL do not); a from-the-standard Kleene evaluator in Go must agree with it on every row of every
// predicate (else the harness stops with exit 2). Judged: the dry run changes nothing and reports
// |selected|; after the confirmed delete the measurement is before minus selected (multiset of
// complete rows); deleted_count equals the number of rows that disappeared.
//
// thorough: all expressions of depth <= 2 up to commutativity of AND/OR (11 889) + 1=1; with
// VERIF_C10_ORDERED=1 all 64 989 ordered expressions (about 45 min of CPU-bound work on a busy box). quick: all of depth <= 1 plus one representative of every
// semantically distinct depth-2 selection (see quickSubset). Cases are sharded over 16 worker
// processes (re-exec of this binary; VERIF_C10_WORKERS overrides, VERIF_C10_DEBUG=1 prints timings).
// Failures are minimised (sub-expression replacement, layout, then delta debugging on the rows) and
// reported per class as `<violated oracle>|<minimal predicate>[|layout=B]`.
//
// File-layout sweep (second dimension, same oracle): the measurement's files are every subset of size
// 1..3 of a seven-path alphabet of partition paths whose base names are equal (other hour, same hour
// of another day, day-level next to hour-level), suffixes or prefixes of each other; for a predicate
// and every achievable status vector in {none, partial, full}^K the rows are placed so that the file
// at each position of the storage listing order is not matched, partially matched (rewrite branch) or
// fully matched (whole-file removal branch). See sweepRule for the per-tier bound. Failures are
// minimised over (files, predicate, file layout, status vector, rows) and reported per class as
// `layout:<violated oracle>|<predicate>|<path>=<status>,...`.
package main

import (
	"bufio"
	"bytes"
	"context"
	"database/sql"
	"encoding/json"
	"fmt"
	"io"
	"math/rand"
	"net/http/httptest"
	"os"
	"os/exec"
	"os/signal"
	"path/filepath"
	"regexp"
	"sort"
	"strconv"
	"strings"
	"sync"
	"sync/atomic"
	"syscall"
	"time"

	"github.com/basekick-labs/arc/internal/api"
	"github.com/basekick-labs/arc/internal/config"
	"github.com/basekick-labs/arc/internal/database"
	"github.com/basekick-labs/arc/internal/storage"
	"github.com/basekick-labs/arc/zzverif/engine/ev"
	_ "github.com/duckdb/duckdb-go/v2"
	"github.com/gofiber/fiber/v2"
	"github.com/rs/zerolog"
)

// ---- predicate grammar --------------------------------------------------------

type expr struct {
	Op   string // "atom" | "not" | "and" | "or"
	Atom int
	A, B *expr
}

var atoms = []string{"x = 0", "x > 0", "x <> 1", "x IN (0, 1)", "x IS NULL", "s = 'a'", "s LIKE 'a%'", "b", "x = x"}

const atomB = 7 // index of the atom that references column b
const fullTable = -1

func (e *expr) sub() string { return "(" + e.render() + ")" }

// render: the top level is NOT parenthesised (the handler must do its own wrapping); every operand is.
func (e *expr) render() string {
	switch e.Op {
	case "atom":
		if e.Atom == fullTable {
			return "1=1"
		}
		return atoms[e.Atom]
	case "not":
		return "NOT " + e.A.sub()
	case "and":
		return e.A.sub() + " AND " + e.B.sub()
	default:
		return e.A.sub() + " OR " + e.B.sub()
	}
}

func (e *expr) depth() int {
	switch e.Op {
	case "atom":
		return 0
	case "not":
		return 1 + e.A.depth()
	}
	return 1 + max(e.A.depth(), e.B.depth())
}

func (e *expr) size() int {
	switch e.Op {
	case "atom":
		return 1
	case "not":
		return 1 + e.A.size()
	}
	return 1 + e.A.size() + e.B.size()
}

func (e *expr) refsB() bool {
	switch e.Op {
	case "atom":
		return e.Atom == atomB
	case "not":
		return e.A.refsB()
	}
	return e.A.refsB() || e.B.refsB()
}

// enumerate returns the expressions of depth <= 2, simplest first, then 1=1.
// ordered=true: every expression, AND/OR operands ordered, repetitions included (64 989).
// ordered=false (the default bound): every expression of depth <= 1 with ordered operands, and every
// depth-2 expression up to commutativity of AND/OR — operands are taken from the depth<=1 expressions
// with one representative per commutative pair, and a op b is generated once per unordered pair
// (a op a included). Commutative variants have identical per-row values, so no selection is lost.
func enumerate(ordered bool) []*expr {
	var e0 []*expr
	for i := range atoms {
		e0 = append(e0, &expr{Op: "atom", Atom: i})
	}
	grow := func(lower []*expr, all []*expr, unorderedPairs bool) []*expr {
		// lower: expressions of depth <= d-2; all: expressions of depth <= d-1; returns depth == d
		isLower := map[*expr]bool{}
		for _, e := range lower {
			isLower[e] = true
		}
		var out []*expr
		for _, a := range all {
			if !isLower[a] {
				out = append(out, &expr{Op: "not", A: a})
			}
		}
		for _, op := range []string{"and", "or"} {
			for i, a := range all {
				for j, b := range all {
					if isLower[a] && isLower[b] {
						continue
					}
					if unorderedPairs && j < i {
						continue
					}
					out = append(out, &expr{Op: op, A: a, B: b})
				}
			}
		}
		return out
	}
	d1 := grow(nil, e0, false)
	e1 := append(append([]*expr{}, e0...), d1...)
	var d2 []*expr
	if ordered {
		d2 = grow(e0, e1, false)
	} else {
		c1 := append(append([]*expr{}, e0...), grow(nil, e0, true)...)
		d2 = grow(e0, c1, true)
	}
	out := append(append([]*expr{}, e1...), d2...)
	out = append(out, &expr{Op: "atom", Atom: fullTable})
	return out
}

// quickSubset keeps every predicate of depth <= 1 and, of the depth-2 predicates, the first one (in
// enumeration order) for every per-row TRUE/FALSE/NULL vector over the rows of all layouts that no
// earlier predicate produced: every semantically distinct selection of the depth-2 space runs once.
// The vectors used for this choice come from the reference evaluator (which is cross-checked against
// DuckDB on everything that is executed); a wrong choice could only lose coverage.
func quickSubset(all []*expr, layouts []*layout) []*expr {
	seen := map[string]bool{}
	var out []*expr
	for _, e := range all {
		var key []byte
		for _, l := range layouts {
			for _, r := range l.Rows {
				key = append(key, "FTN"[e.eval(r)])
			}
		}
		if e.depth() <= 1 || !seen[string(key)] {
			out = append(out, e)
		}
		seen[string(key)] = true
	}
	return out
}

// subs: every proper sub-expression of e.
func subs(e *expr) []*expr {
	switch e.Op {
	case "atom":
		return nil
	case "not":
		return append([]*expr{e.A}, subs(e.A)...)
	}
	return append(append([]*expr{e.A, e.B}, subs(e.A)...), subs(e.B)...)
}

// shrinks: every expression obtained by replacing one node with one of its proper sub-expressions.
func shrinks(e *expr) []*expr {
	var out []*expr
	switch e.Op {
	case "atom":
		return nil
	case "not":
		out = append(out, subs(e)...)
		for _, s := range shrinks(e.A) {
			out = append(out, &expr{Op: "not", A: s})
		}
	default:
		out = append(out, subs(e)...)
		for _, s := range shrinks(e.A) {
			out = append(out, &expr{Op: e.Op, A: s, B: e.B})
		}
		for _, s := range shrinks(e.B) {
			out = append(out, &expr{Op: e.Op, A: e.A, B: s})
		}
	}
	sort.SliceStable(out, func(i, j int) bool {
		if out[i].size() != out[j].size() {
			return out[i].size() < out[j].size()
		}
		return out[i].render() < out[j].render()
	})
	return out
}

// ---- three-valued reference evaluator (SQL semantics from the standard, not from Arc) ---------

const (
	tvF = 0
	tvT = 1
	tvN = 2
)

func tvOf(b bool) int {
	if b {
		return tvT
	}
	return tvF
}

func (e *expr) eval(r *row) int {
	switch e.Op {
	case "atom":
		switch e.Atom {
		case fullTable:
			return tvT
		case 0:
			if r.X == nil {
				return tvN
			}
			return tvOf(*r.X == 0)
		case 1:
			if r.X == nil {
				return tvN
			}
			return tvOf(*r.X > 0)
		case 2:
			if r.X == nil {
				return tvN
			}
			return tvOf(*r.X != 1)
		case 3:
			if r.X == nil {
				return tvN
			}
			return tvOf(*r.X == 0 || *r.X == 1)
		case 4:
			return tvOf(r.X == nil)
		case 5:
			if r.S == nil {
				return tvN
			}
			return tvOf(*r.S == "a")
		case 6:
			if r.S == nil {
				return tvN
			}
			return tvOf(strings.HasPrefix(*r.S, "a"))
		case 7:
			if r.B == nil {
				return tvN
			}
			return tvOf(*r.B)
		case 8:
			if r.X == nil {
				return tvN
			}
			return tvT
		}
		panic("atom")
	case "not":
		switch e.A.eval(r) {
		case tvT:
			return tvF
		case tvF:
			return tvT
		}
		return tvN
	case "and":
		a, b := e.A.eval(r), e.B.eval(r)
		if a == tvF || b == tvF {
			return tvF
		}
		if a == tvT && b == tvT {
			return tvT
		}
		return tvN
	default:
		a, b := e.A.eval(r), e.B.eval(r)
		if a == tvT || b == tvT {
			return tvT
		}
		if a == tvF && b == tvF {
			return tvF
		}
		return tvN
	}
}

// ---- datasets -----------------------------------------------------------------

type row struct {
	ID   int      `json:"id"`
	File int      `json:"file"`
	X    *int64   `json:"x"`
	S    *string  `json:"s"`
	B    *bool    `json:"b"` // nil also when the file has no column b
	F    *float64 `json:"f"`
	T    int64    `json:"time_us"`
}

func pstr(v any) string {
	switch p := v.(type) {
	case *int64:
		if p == nil {
			return "NULL"
		}
		return fmt.Sprint(*p)
	case *string:
		if p == nil {
			return "NULL"
		}
		return "'" + *p + "'"
	case *bool:
		if p == nil {
			return "NULL"
		}
		return fmt.Sprint(*p)
	case *float64:
		if p == nil {
			return "NULL"
		}
		return fmt.Sprint(*p)
	}
	return "?"
}

// canonical row text: what the measurement must still contain, column by column
func (r *row) canon() string {
	s := "NULL"
	if r.S != nil {
		s = *r.S
	}
	return fmt.Sprintf("id=%d time=%d x=%s s=%s b=%s f=%s", r.ID, r.T, pstr(r.X), s, pstr(r.B), pstr(r.F))
}

func (r *row) short() string {
	return fmt.Sprintf("{file%d id=%d x=%s s=%s b=%s}", r.File, r.ID, pstr(r.X), pstr(r.S), pstr(r.B))
}

var fileRel = map[int]string{1: "m/2024/01/01/00/f1.parquet", 2: "m/2024/01/01/01/f2.parquet"}

type layout struct {
	Name      string
	Rows      []*row // ground truth, by ascending id
	File2HasB bool
	NFiles    int
	AllB      bool // every file has column b (the file-layout sweep)
}

const baseTimeUS = int64(1704067200000000) // 2024-01-01T00:00:00Z

func buildLayout(name string, file2HasB bool) *layout {
	l := &layout{Name: name, File2HasB: file2HasB, NFiles: 2}
	xs := []*int64{nil, new(int64), new(int64)}
	*xs[2] = 1
	a, ab := "a", "ab"
	ss := []*string{nil, &a, &ab}
	tr := true
	bs := []*bool{nil, &tr}
	id := 0
	for file := 1; file <= 2; file++ {
		for _, x := range xs {
			for _, s := range ss {
				for _, b := range bs {
					id++
					r := &row{ID: id, File: file, X: x, S: s, T: baseTimeUS + int64(file-1)*3600_000_000 + int64(id)*1_000_000}
					if file == 1 || file2HasB {
						r.B = b
					}
					if id%3 != 0 {
						f := float64(id) * 0.5
						r.F = &f
					}
					l.Rows = append(l.Rows, r)
				}
			}
		}
	}
	return l
}

func (l *layout) table() string { return "before_" + l.Name }

func (l *layout) hasB(file int) bool { return l.AllB || file == 1 || l.File2HasB }

// ---- the file-layout sweep ------------------------------------------------------
//
// Layout S: sweepMaxFiles copies of the value universe x in {NULL,0,1} x s in {NULL,'a','ab'} x
// b in {NULL,true} (18 rows each, every file has column b), copy k = the rows that may be placed in
// the file at position k of the storage listing order (ids k*100+1 .. k*100+18).
//
// A file layout is a non-empty subset of sweepAlphabet (paths relative to the measurement
// directory); its files are numbered in LISTING order (the order LocalBackend.List returns them:
// component-wise lexical, verified against the real List at start-up). For a predicate and a status
// vector in {none, partial, full}^K the file at position k holds, of copy k: only the rows on which
// the predicate is not TRUE (none: the file must be left alone), all 18 rows (partial: the rewrite
// branch) or only the rows on which it is TRUE (full: the whole-file removal branch). A combination
// is achievable when no file would be empty and a partial file has both kinds of rows.
const sweepMaxFiles = 3

var sweepAlphabet = []string{
	"2024/01/01/00/f.parquet",         // reference
	"2024/01/01/01/f.parquet",         // equal base name, other hour of the same day
	"2024/01/02/00/f.parquet",         // equal base name, same hour of another day
	"2024/01/01/f.parquet",            // equal base name, day-level file next to the hour directories
	"2024/01/01/00/xf.parquet",        // "f.parquet" is a proper suffix of the base name
	"2024/01/01/00/fx.parquet",        // stem "f" is a proper prefix of the stem
	"2024/01/01/01/f.parquet.parquet", // "f.parquet" is a proper prefix of the base name
}

const (
	stNone    = 0
	stPartial = 1
	stFull    = 2
)

var stName = []string{"none", "partial", "full"}

func buildSweepLayout() *layout {
	l := &layout{Name: "S", NFiles: sweepMaxFiles, AllB: true}
	xs := []*int64{nil, new(int64), new(int64)}
	*xs[2] = 1
	a, ab := "a", "ab"
	ss := []*string{nil, &a, &ab}
	tr := true
	bs := []*bool{nil, &tr}
	for file := 1; file <= sweepMaxFiles; file++ {
		k := 0
		for _, x := range xs {
			for _, s := range ss {
				for _, b := range bs {
					k++
					id := file*100 + k
					r := &row{ID: id, File: file, X: x, S: s, B: b, T: baseTimeUS + int64(id)*1_000_000}
					if id%3 != 0 {
						f := float64(id) * 0.5
						r.F = &f
					}
					l.Rows = append(l.Rows, r)
				}
			}
		}
	}
	return l
}

// listingLess: the order in which a recursive, name-sorted directory walk visits two relative paths.
func listingLess(a, b string) bool {
	as, bs := strings.Split(a, "/"), strings.Split(b, "/")
	for i := 0; i < len(as) && i < len(bs); i++ {
		if as[i] != bs[i] {
			return as[i] < bs[i]
		}
	}
	return len(as) < len(bs)
}

type fileLayout struct {
	Idx   []int    // indices into sweepAlphabet, ascending (canonical order of layouts: by size, then by this)
	Paths []string // the same files in listing order: Paths[k-1] is file k
}

func (f *fileLayout) name() string { return strings.Join(f.Paths, ",") }

// buildFileLayouts: every subset of sweepAlphabet of size 1..sweepMaxFiles, smallest and earliest first.
func buildFileLayouts() []*fileLayout {
	var out []*fileLayout
	n := len(sweepAlphabet)
	for k := 1; k <= sweepMaxFiles; k++ {
		var rec func(from int, cur []int)
		rec = func(from int, cur []int) {
			if len(cur) == k {
				f := &fileLayout{Idx: append([]int{}, cur...)}
				for _, i := range cur {
					f.Paths = append(f.Paths, sweepAlphabet[i])
				}
				sort.SliceStable(f.Paths, func(i, j int) bool { return listingLess(f.Paths[i], f.Paths[j]) })
				out = append(out, f)
				return
			}
			for i := from; i < n; i++ {
				rec(i+1, append(cur, i))
			}
		}
		rec(0, nil)
	}
	return out
}

func (f *fileLayout) pathMap() map[int]string {
	m := map[int]string{}
	for i, p := range f.Paths {
		m[i+1] = "m/" + p
	}
	return m
}

// sweepPreds: the predicates of the file-layout sweep, simplest first: the nine atoms, 1=1, NOT atom.
func sweepPreds() []*expr {
	var out []*expr
	for i := range atoms {
		out = append(out, &expr{Op: "atom", Atom: i})
	}
	out = append(out, &expr{Op: "atom", Atom: fullTable})
	for i := range atoms {
		out = append(out, &expr{Op: "not", A: &expr{Op: "atom", Atom: i}})
	}
	return out
}

// sweepPredsSmall: of the depth-0 predicates, the first for every distinct SET of truth values the
// predicate takes over the value universe ({T,F,N}, {T,F}, {T,N}, {T}): what a file can be made of.
func sweepPredsSmall(S *layout) []*expr {
	seen := map[string]bool{}
	var out []*expr
	for _, e := range sweepPreds() {
		if e.depth() > 0 {
			continue
		}
		var has [3]bool
		for _, r := range S.Rows {
			has[e.eval(r)] = true
		}
		k := fmt.Sprint(has)
		if !seen[k] {
			seen[k] = true
			out = append(out, e)
		}
	}
	return out
}

// sweepRows: the rows of layout S placed in the K files for (predicate, status vector); nil when the
// combination is not achievable. Placement uses the reference evaluator; every executed case is
// judged with DuckDB's own per-row values, which must agree with it on every row.
func sweepRows(S *layout, e *expr, st []int) []*row {
	var out []*row
	for k, want := range st {
		nT, nO := 0, 0
		for _, r := range S.Rows {
			if r.File != k+1 {
				continue
			}
			isT := e.eval(r) == tvT
			if (want == stFull && !isT) || (want == stNone && isT) {
				continue
			}
			if isT {
				nT++
			} else {
				nO++
			}
			out = append(out, r)
		}
		switch want {
		case stFull:
			if nT == 0 {
				return nil
			}
		case stNone:
			if nO == 0 {
				return nil
			}
		default:
			if nT == 0 || nO == 0 {
				return nil
			}
		}
	}
	return out
}

func stText(st []int) string {
	var s []string
	for _, v := range st {
		s = append(s, stName[v])
	}
	return strings.Join(s, ",")
}

// statusVectors: {none, partial, full}^k, none first.
func statusVectors(k int) [][]int {
	out := [][]int{{}}
	for i := 0; i < k; i++ {
		var next [][]int
		for _, p := range out {
			for v := 0; v < 3; v++ {
				next = append(next, append(append([]int{}, p...), v))
			}
		}
		out = next
	}
	return out
}

// ---- one worker: its own Arc DuckDB, backend, fiber app and oracle connection ------------------

type worker struct {
	id      int
	root    string
	app     *fiber.App
	arcdb   *database.DuckDB
	oracle  *sql.DB
	be      *storage.LocalBackend
	caseSeq int
	fixture map[string][]byte // parquet bytes of a fixture file, by layout/file/ids
}

func must(err error, what string) {
	if err != nil {
		cleanup()
		ev.Unbound(what + ": " + err.Error())
	}
}

var scratch string   // removed on exit by the process that created it (the parent)
var childRoot string // where this process puts its worker directory

const sweepRule = "files of one measurement = every subset of size 1..3 of a 7-path alphabet {2024/01/01/00/f.parquet; 2024/01/01/01/f.parquet (equal base name, other hour); 2024/01/02/00/f.parquet (equal base name, same hour of another day); 2024/01/01/f.parquet (equal base name, day-level file); 2024/01/01/00/xf.parquet (base name has f.parquet as suffix); 2024/01/01/00/fx.parquet (stem has f as prefix); 2024/01/01/01/f.parquet.parquet (base name has f.parquet as prefix)}, files numbered in the backend's listing order; for a predicate and a status vector in {none, partial, full}^K the file at position k holds of its own copy of the 18-row value universe (x,s,b product, every file has b) only the rows where the predicate is not TRUE (none), all rows (partial: rewrite branch) or only the rows where it is TRUE (full: whole-file removal branch); every achievable status vector (no empty file, a partial file has both kinds of rows) of every (file layout, predicate) pair of the tier is executed: quick = all 1- and 2-file layouts x the small predicate set (of the depth-0 predicates, in atom order, the first per distinct SET of truth values taken over the universe - {T,F,N}, {T,N}, {T,F}, {T} - listed in layout_sweep.small_predicate_set) and the four 3-file layouts of equal base names x the first of them; thorough = all 1- and 2-file layouts x 19 predicates (9 atoms, 1=1, NOT atom) and all 35 3-file layouts x the small predicate set."

const quickBound = "every expression of depth<=1 (ordered operands, repetitions) and, of the depth-2 expressions enumerated simplest-first, the first representative of every per-row TRUE/FALSE/NULL vector not produced by an earlier expression (each semantically distinct selection of the depth-2 space is executed once; thorough executes every expression up to commutativity)"

func cleanup() {
	if scratch != "" {
		os.RemoveAll(scratch)
	}
}

func sqlLit(l *layout, r *row) string {
	b := pstr(r.B)
	return fmt.Sprintf("(%d, %d, make_timestamp(%d), %s, %s, %s, %s)", r.File, r.ID, r.T, pstr(r.X), pstr(r.S), b, pstr(r.F))
}

func loadOracle(db *sql.DB, layouts []*layout) error {
	db.Exec("SET threads=1")
	db.Exec("SET enable_external_file_cache=false")
	for _, l := range layouts {
		if _, err := db.Exec("CREATE TABLE " + l.table() + "(file INTEGER, id BIGINT, time TIMESTAMP, x BIGINT, s VARCHAR, b BOOLEAN, f DOUBLE)"); err != nil {
			return err
		}
		var vals []string
		for _, r := range l.Rows {
			vals = append(vals, sqlLit(l, r))
		}
		if _, err := db.Exec("INSERT INTO " + l.table() + " VALUES " + strings.Join(vals, ",")); err != nil {
			return err
		}
	}
	return nil
}

func newWorker(id int, layouts []*layout) *worker {
	w := &worker{id: id, root: filepath.Join(childRoot, fmt.Sprintf("w%03d", id))}
	store := filepath.Join(w.root, "store")
	tmp := filepath.Join(w.root, "tmp")
	must(os.MkdirAll(store, 0o755), "mkdir")
	must(os.MkdirAll(tmp, 0o755), "mkdir")
	lg := zerolog.Nop()
	be, err := storage.NewLocalBackend(store, lg)
	must(err, "storage.NewLocalBackend")
	db, err := database.New(&database.Config{
		MaxConnections:   4,
		MemoryLimit:      "512MB",
		ThreadCount:      1,
		TempDirectory:    filepath.Join(tmp, "spill"),
		UploadDir:        filepath.Join(tmp, "upload"),
		LocalStorageRoot: be.GetBasePath(),
	}, lg)
	must(err, "database.New")
	w.arcdb = db
	w.be = be
	w.fixture = map[string][]byte{}
	h := api.NewDeleteHandler(db, be, &config.DeleteConfig{Enabled: true, ConfirmationThreshold: 10000, MaxRowsPerDelete: 1000000}, nil, filepath.Join(tmp, "upload"), lg)
	w.app = fiber.New(fiber.Config{DisableStartupMessage: true})
	h.RegisterRoutes(w.app)
	w.oracle, err = sql.Open("duckdb", "")
	must(err, "oracle duckdb")
	w.oracle.SetMaxOpenConns(1)
	must(w.oracle.Ping(), "oracle ping")
	must(loadOracle(w.oracle, layouts), "oracle load")
	return w
}

func (w *worker) storeDir() string { return filepath.Join(w.root, "store") }

// ---- dataset instances ------------------------------------------------------------

// dataset = a layout restricted to a set of row ids, with the Parquet bytes of each file.
type dataset struct {
	L     *layout
	Rows  []*row
	Files map[int][]byte // file number -> parquet bytes (absent when the file has no rows)
	Paths map[int]string // file number -> path relative to the database directory
}

func idList(rows []*row) string {
	var s []string
	for _, r := range rows {
		s = append(s, fmt.Sprint(r.ID))
	}
	return strings.Join(s, ",")
}

// makeDataset writes the fixture files with the ORACLE DuckDB's COPY (never Arc's code) and reads them back.
func (w *worker) makeDataset(l *layout, rows []*row) *dataset {
	return w.makeDatasetAt(l, rows, fileRel)
}

func (w *worker) makeDatasetAt(l *layout, rows []*row, paths map[int]string) *dataset {
	ds := &dataset{L: l, Rows: rows, Files: map[int][]byte{}, Paths: paths}
	for file := 1; file <= l.NFiles; file++ {
		var sub []*row
		for _, r := range rows {
			if r.File == file {
				sub = append(sub, r)
			}
		}
		if len(sub) == 0 {
			continue
		}
		if _, ok := paths[file]; !ok {
			must(fmt.Errorf("file %d has rows but no path", file), "dataset")
		}
		ckey := fmt.Sprintf("%s/%d/%s", l.Name, file, idList(sub))
		if b, ok := w.fixture[ckey]; ok {
			ds.Files[file] = b
			continue
		}
		cols := "id, time, x, s, b, f"
		if !l.hasB(file) {
			cols = "id, time, x, s, f"
		}
		w.caseSeq++
		p := filepath.Join(w.root, fmt.Sprintf("fixture_%d.parquet", w.caseSeq))
		q := fmt.Sprintf("COPY (SELECT %s FROM %s WHERE file=%d AND id IN (%s) ORDER BY id) TO '%s' (FORMAT PARQUET)", cols, l.table(), file, idList(sub), p)
		_, err := w.oracle.Exec(q)
		must(err, "fixture COPY")
		b, err := os.ReadFile(p)
		must(err, "fixture read")
		os.Remove(p)
		ds.Files[file] = b
		if len(w.fixture) < 4096 {
			w.fixture[ckey] = b
		}
	}
	return ds
}

// materialise puts the dataset under a fresh database directory and returns the database name.
func (w *worker) materialise(ds *dataset) string {
	w.caseSeq++
	dbname := fmt.Sprintf("d%d", w.caseSeq)
	for file, b := range ds.Files {
		p := filepath.Join(w.storeDir(), dbname, ds.Paths[file])
		must(os.MkdirAll(filepath.Dir(p), 0o755), "mkdir")
		must(os.WriteFile(p, b, 0o644), "write fixture")
	}
	return dbname
}

// readMeasurement returns the canonical text of every row currently stored, via the oracle connection.
func (w *worker) readMeasurement(dbname string) ([]string, error) {
	var files []string
	base := filepath.Join(w.storeDir(), dbname, "m")
	filepath.WalkDir(base, func(p string, d os.DirEntry, err error) error {
		if err == nil && !d.IsDir() && strings.HasSuffix(p, ".parquet") {
			files = append(files, "'"+p+"'")
		}
		return nil
	})
	sort.Strings(files)
	if len(files) == 0 {
		return nil, nil
	}
	rows, err := w.oracle.Query("SELECT * FROM read_parquet([" + strings.Join(files, ",") + "], union_by_name=true)")
	if err != nil {
		return nil, err
	}
	defer rows.Close()
	cols, _ := rows.Columns()
	var out []string
	for rows.Next() {
		vals := make([]any, len(cols))
		ptrs := make([]any, len(cols))
		for i := range vals {
			ptrs[i] = &vals[i]
		}
		if err := rows.Scan(ptrs...); err != nil {
			return nil, err
		}
		m := map[string]string{"id": "NULL", "time": "NULL", "x": "NULL", "s": "NULL", "b": "NULL", "f": "NULL"}
		extra := ""
		for i, c := range cols {
			txt := "NULL"
			switch v := vals[i].(type) {
			case nil:
			case time.Time:
				txt = fmt.Sprint(v.UTC().UnixMicro())
			case []byte:
				txt = string(v)
			default:
				txt = fmt.Sprint(v)
			}
			if _, ok := m[c]; ok {
				m[c] = txt
			} else {
				extra += " " + c + "=" + txt
			}
		}
		out = append(out, fmt.Sprintf("id=%s time=%s x=%s s=%s b=%s f=%s%s", m["id"], m["time"], m["x"], m["s"], m["b"], m["f"], extra))
	}
	sort.Strings(out)
	return out, rows.Err()
}

var volatile = regexp.MustCompile(`"execution_time_ms":[0-9.eE+-]+,?`)

type deleteResp struct {
	Success        bool     `json:"success"`
	DeletedCount   int64    `json:"deleted_count"`
	AffectedFiles  int      `json:"affected_files"`
	RewrittenFiles int      `json:"rewritten_files"`
	DryRun         bool     `json:"dry_run"`
	FailedFiles    []string `json:"failed_files"`
	Error          string   `json:"error"`
}

func (w *worker) post(dbname, where string, dry bool) (int, *deleteResp, string) {
	body, _ := json.Marshal(map[string]any{"database": dbname, "measurement": "m", "where": where, "dry_run": dry, "confirm": true})
	req := httptest.NewRequest("POST", "/api/v1/delete", bytes.NewReader(body))
	req.Header.Set("Content-Type", "application/json")
	resp, err := w.app.Test(req, -1)
	if err != nil {
		return 0, nil, err.Error()
	}
	defer resp.Body.Close()
	raw, _ := io.ReadAll(resp.Body)
	raw = volatile.ReplaceAll(raw, nil) // wall-clock noise must not reach descriptions
	var r deleteResp
	if err := json.Unmarshal(raw, &r); err != nil {
		return resp.StatusCode, nil, string(raw)
	}
	return resp.StatusCode, &r, string(raw)
}

// ---- judging one case ---------------------------------------------------------------

type outcome struct {
	Truth      string            `json:"truth"`                // one of T/F/N per dataset row, ascending id
	Kinds      map[string]string `json:"kinds,omitempty"`      // violated oracle kind -> detail
	NonTrivial bool              `json:"nontrivial,omitempty"` // some file holds both a selected row and a NULL-valued row
	Tolerated  bool              `json:"tolerated,omitempty"`  // a file lacking a referenced column failed and was excused
	DryCount   int64             `json:"dry"`
	DelCount   int64             `json:"del"`
	Status     int               `json:"http"`
	FileStatus []int             `json:"fstatus,omitempty"` // measured per file position: none/partial/full (from DuckDB's per-row values)
	FileFate   string            `json:"ffate,omitempty"`   // measured per file position after the delete: u(ntouched) w(rewritten) r(emoved)
}

func multisetDiff(a, b []string) (onlyA, onlyB []string) {
	cnt := map[string]int{}
	for _, s := range a {
		cnt[s]++
	}
	for _, s := range b {
		if cnt[s] > 0 {
			cnt[s]--
		} else {
			onlyB = append(onlyB, s)
		}
	}
	for _, s := range a {
		if cnt[s] > 0 {
			cnt[s]--
			onlyA = append(onlyA, s)
		}
	}
	return
}

// truths asks the oracle DuckDB for the per-row value (T/F/N) of every predicate, many per query.
func (w *worker) truths(L *layout, rows []*row, es []*expr) [][]byte {
	out := make([][]byte, len(es))
	const chunk = 32
	for lo := 0; lo < len(es); lo += chunk {
		hi := min(lo+chunk, len(es))
		var cols []string
		for _, e := range es[lo:hi] {
			cols = append(cols, "("+e.render()+")")
		}
		q := fmt.Sprintf("SELECT id, %s FROM %s WHERE id IN (%s) ORDER BY id", strings.Join(cols, ", "), L.table(), idList(rows))
		rs, err := w.oracle.Query(q)
		must(err, "oracle query")
		n := 0
		for rs.Next() {
			var id int
			vals := make([]sql.NullBool, hi-lo)
			ptrs := []any{&id}
			for i := range vals {
				ptrs = append(ptrs, &vals[i])
			}
			must(rs.Scan(ptrs...), "oracle scan")
			if n >= len(rows) || rows[n].ID != id {
				must(fmt.Errorf("unexpected id %d", id), "oracle rows")
			}
			for i, v := range vals {
				c := byte('N') // the predicate's value on this row: TRUE, FALSE or NULL
				if v.Valid && v.Bool {
					c = 'T'
				} else if v.Valid {
					c = 'F'
				}
				out[lo+i] = append(out[lo+i], c)
			}
			n++
		}
		must(rs.Err(), "oracle rows")
		rs.Close()
		if n != len(rows) {
			must(fmt.Errorf("%d rows, want %d", n, len(rows)), "oracle rows")
		}
	}
	// the reference evaluator must agree with DuckDB on every row of every predicate
	for i, e := range es {
		for j, r := range rows {
			if ref := "FTN"[e.eval(r)]; ref != out[i][j] {
				cleanup()
				ev.Unbound(fmt.Sprintf("oracle disagreement: DuckDB says %c, reference evaluator says %c for %q on %s", out[i][j], ref, e.render(), r.short()))
			}
		}
	}
	return out
}

var phase = map[string]time.Duration{} // VERIF_C10_DEBUG: where a worker's time goes
var phaseT time.Time

func lap(name string) {
	now := time.Now()
	phase[name] += now.Sub(phaseT)
	phaseT = now
}

func (w *worker) judge(ds *dataset, e *expr, tv []byte) *outcome {
	where := e.render()
	phaseT = time.Now()
	o := &outcome{Kinds: map[string]string{}}
	if tv == nil {
		tv = w.truths(ds.L, ds.Rows, []*expr{e})[0]
	}
	nT := int64(0)
	perFile := map[int]map[byte]int{}
	for f := 1; f <= ds.L.NFiles; f++ {
		perFile[f] = map[byte]int{}
	}
	for i, r := range ds.Rows {
		if tv[i] == 'T' {
			nT++
		}
		perFile[r.File][tv[i]]++
	}
	o.Truth = string(tv)
	for f := 1; f <= ds.L.NFiles; f++ {
		if perFile[f]['T'] > 0 && perFile[f]['N'] > 0 {
			o.NonTrivial = true
		}
		if _, ok := ds.Files[f]; ok {
			switch t, rest := perFile[f]['T'], perFile[f]['F']+perFile[f]['N']; {
			case t == 0:
				o.FileStatus = append(o.FileStatus, stNone)
			case rest == 0:
				o.FileStatus = append(o.FileStatus, stFull)
			default:
				o.FileStatus = append(o.FileStatus, stPartial)
			}
		}
	}
	var before []string
	for _, r := range ds.Rows {
		before = append(before, r.canon())
	}
	sort.Strings(before)

	dbname := w.materialise(ds)
	defer func() { os.RemoveAll(filepath.Join(w.storeDir(), dbname)); lap("cleanup") }()
	lap("materialise")

	// dry run
	st, dr, raw := w.post(dbname, where, true)
	lap("dryrun")
	if st != 200 || dr == nil || !dr.Success || !dr.DryRun {
		o.Kinds["dryrun-failed"] = fmt.Sprintf("dry run answered HTTP %d %s", st, raw)
	} else {
		o.DryCount = dr.DeletedCount
		if dr.DeletedCount != nT {
			o.Kinds["dryrun-count"] = fmt.Sprintf("dry run reported deleted_count=%d, the predicate is true on %d rows", dr.DeletedCount, nT)
		}
	}
	unchanged := true
	for file, b := range ds.Files {
		cur, err := os.ReadFile(filepath.Join(w.storeDir(), dbname, ds.Paths[file]))
		if err != nil || !bytes.Equal(cur, b) {
			unchanged = false
		}
	}
	if !unchanged {
		got, err := w.readMeasurement(dbname)
		lost, extra := multisetDiff(before, got)
		if err != nil || len(lost) > 0 || len(extra) > 0 {
			o.Kinds["dryrun-changed"] = fmt.Sprintf("dry run changed the measurement: lost %v, new %v, read error %v", lost, extra, err)
			// restore, so that the confirmed delete below is judged on the stated dataset
			os.RemoveAll(filepath.Join(w.storeDir(), dbname))
			dbname = w.materialise(ds)
		}
	}

	lap("dryrun-compare")
	// confirmed delete
	st, del, raw := w.post(dbname, where, false)
	lap("delete")
	o.Status = st
	failed := map[int]bool{}
	whole := false // the request failed as a whole
	if del == nil || (st != 200 && st != 207) {
		whole = true
		o.Kinds["delete-failed"] = fmt.Sprintf("confirmed delete answered HTTP %d %s", st, raw)
	} else {
		o.DelCount = del.DeletedCount
		for _, fn := range del.FailedFiles {
			// failed_files carries base names only: every file of that name counts as reported failed
			file, excused := 0, true
			for k := 1; k <= ds.L.NFiles; k++ {
				if rel, ok := ds.Paths[k]; ok && filepath.Base(rel) == fn {
					file = k
					failed[k] = true
					if ds.L.hasB(k) {
						excused = false
					}
				}
			}
			if file == 0 {
				failed[0] = true
			}
			// excused only when the predicate references a column this file does not have (schema
			// evolution is outside the property's quantifier); anything else is a failed delete
			if file != 0 && e.refsB() && excused {
				o.Tolerated = true
			} else {
				o.Kinds["delete-failed"] = fmt.Sprintf("confirmed delete failed on %s: HTTP %d %s", fn, st, raw)
			}
		}
		if len(del.FailedFiles) == 0 && (!del.Success || st != 200 || del.DryRun) {
			o.Kinds["delete-failed"] = fmt.Sprintf("confirmed delete answered HTTP %d %s", st, raw)
		}
	}
	// what happened to each file (coverage only: which branch of the handler the case drove)
	for f := 1; f <= ds.L.NFiles; f++ {
		if b, ok := ds.Files[f]; ok {
			cur, err := os.ReadFile(filepath.Join(w.storeDir(), dbname, ds.Paths[f]))
			switch {
			case err != nil:
				o.FileFate += "r"
			case bytes.Equal(cur, b):
				o.FileFate += "u"
			default:
				o.FileFate += "w"
			}
		}
	}
	// the measurement afterwards
	after, err := w.readMeasurement(dbname)
	lap("read-after")
	if err != nil {
		o.Kinds["unreadable-after"] = "measurement unreadable after delete: " + err.Error()
		return o
	}
	var expect []string
	byCanon := map[string]*row{}
	tOf := map[string]byte{}
	for i, r := range ds.Rows {
		c := r.canon()
		byCanon[c] = r
		tOf[c] = tv[i]
		if tv[i] != 'T' || whole || failed[r.File] {
			expect = append(expect, c)
		}
	}
	lost, extra := multisetDiff(expect, after)
	for _, c := range lost {
		r := byCanon[c]
		switch tOf[c] {
		case 'N':
			addDetail(o, "deleted-null-row", "removed "+r.short()+" on which the predicate is NULL")
		case 'F':
			addDetail(o, "deleted-false-row", "removed "+r.short()+" on which the predicate is FALSE")
		default:
			addDetail(o, "deleted-row-of-failed-file", "removed "+r.short()+" although the delete was reported failed for it")
		}
	}
	for _, c := range extra {
		if r, ok := byCanon[c]; ok && tOf[c] == 'T' {
			addDetail(o, "kept-true-row", "kept "+r.short()+" on which the predicate is TRUE")
		} else {
			addDetail(o, "foreign-row", "measurement now holds a row it never had: "+c)
		}
	}
	if del != nil && !whole {
		if gone := int64(len(before) - len(after)); del.DeletedCount != gone {
			o.Kinds["count-mismatch"] = fmt.Sprintf("deleted_count=%d but %d rows disappeared", del.DeletedCount, gone)
		}
	}
	return o
}

func addDetail(o *outcome, kind, d string) {
	if cur, ok := o.Kinds[kind]; ok {
		if strings.Count(cur, ";") < 2 {
			o.Kinds[kind] = cur + "; " + d
		}
		return
	}
	o.Kinds[kind] = d
}

// ---- task list, worker processes ---------------------------------------------------------

type task struct {
	e  *expr
	l  int   // index into layouts: 0 = A, 1 = B, 2 = S (file-layout sweep)
	fl int   // file-layout sweep: index into the file layouts; -1 in the predicate sweep
	st []int // file-layout sweep: status per file position
}

const layoutS = 2

// sweepKey identifies one case of the file-layout sweep (memo and replay).
func sweepKey(fl int, st []int, e *expr) string {
	return fmt.Sprintf("S|%d|%s|%s", fl, stText(st), e.render())
}

// sameBaseTriple: a three-file layout whose files all carry the reference base name.
func sameBaseTriple(f *fileLayout) bool {
	if len(f.Paths) != 3 {
		return false
	}
	for _, p := range f.Paths {
		if filepath.Base(p) != filepath.Base(sweepAlphabet[0]) {
			return false
		}
	}
	return true
}

// sweepPlan: which (file layout, predicate) pairs a tier runs; every achievable status vector of each.
//
//	quick:    every 1- and 2-file layout x sweepPredsSmall; the 3-file layouts of equal base names x the first predicate
//	thorough: every 1- and 2-file layout x sweepPreds (19); every 3-file layout x sweepPredsSmall
func sweepPlan(quick bool, S *layout, fls []*fileLayout) []task {
	small, all := sweepPredsSmall(S), sweepPreds()
	var out []task
	for i, f := range fls {
		var preds []*expr
		switch {
		case len(f.Paths) <= 2 && quick:
			preds = small
		case len(f.Paths) <= 2:
			preds = all
		case !quick:
			preds = small
		case sameBaseTriple(f):
			preds = small[:1]
		}
		for _, e := range preds {
			for _, st := range statusVectors(len(f.Paths)) {
				if sweepRows(S, e, st) != nil {
					out = append(out, task{e: e, l: layoutS, fl: i, st: st})
				}
			}
		}
	}
	return out
}

func buildTasks(run *ev.Run, layouts []*layout) ([]*expr, []task) {
	exprs := enumerate(!run.Quick() && os.Getenv("VERIF_C10_ORDERED") != "")
	if run.Quick() {
		exprs = quickSubset(exprs, layouts[:layoutS])
	}
	var tasks []task
	for _, e := range exprs {
		tasks = append(tasks, task{e: e, l: 0, fl: -1})
		if e.refsB() {
			tasks = append(tasks, task{e: e, l: 1, fl: -1}) // second layout: file 2 has column b as well
		}
	}
	// the file-layout sweep, interleaved so that every worker process gets its share of both
	sw := sweepPlan(run.Quick(), layouts[layoutS], buildFileLayouts())
	// debugging knob: VERIF_C10_ONLY=layout|predicate runs one of the two sweeps (evidence says exhaustive=false)
	switch os.Getenv("VERIF_C10_ONLY") {
	case "layout":
		tasks = nil
	case "predicate":
		sw = nil
	}
	if len(tasks) == 0 {
		tasks, sw = sw, nil
	}
	if len(sw) > 0 {
		var mixed []task
		step := float64(len(tasks)) / float64(len(sw))
		j := 0
		for i, t := range tasks {
			mixed = append(mixed, t)
			for j < len(sw) && float64(j)*step <= float64(i) {
				mixed = append(mixed, sw[j])
				j++
			}
		}
		tasks = append(mixed, sw[j:]...)
	}
	if run.Seed != 0 { // VERIF_SEED only permutes the order
		rand.New(rand.NewSource(int64(run.Seed))).Shuffle(len(tasks), func(i, j int) { tasks[i], tasks[j] = tasks[j], tasks[i] })
	}
	return exprs, tasks
}

// sweepCase builds the dataset of one file-layout-sweep case and DuckDB's per-row values for it.
func (w *worker) sweepCase(S *layout, f *fileLayout, e *expr, st []int, tvAll map[string][]byte) (*dataset, []byte) {
	rows := sweepRows(S, e, st)
	if rows == nil {
		return nil, nil
	}
	all, ok := tvAll[e.render()]
	if !ok {
		all = w.truths(S, S.Rows, []*expr{e})[0]
		tvAll[e.render()] = all
	}
	pos := map[int]int{}
	for i, r := range S.Rows {
		pos[r.ID] = i
	}
	tv := make([]byte, len(rows))
	for i, r := range rows {
		tv[i] = all[pos[r.ID]]
	}
	return w.makeDatasetAt(S, rows, f.pathMap()), tv
}

type result struct {
	I int      `json:"i"`
	O *outcome `json:"o"`
}

// child: judge the tasks of one shard and print one JSON line per case.
func childMain(run *ev.Run, spec string, layouts []*layout) {
	var k, n int
	var deadline int64
	fmt.Sscanf(spec, "%d/%d/%d", &k, &n, &deadline)
	t0 := time.Now()
	dbg := func(what string) {
		if os.Getenv("VERIF_C10_DEBUG") != "" {
			fmt.Fprintf(os.Stderr, "child %d: %s at %.2fs\n", k, what, time.Since(t0).Seconds())
		}
	}
	w := newWorker(k, layouts)
	dbg("worker ready")
	full := []*dataset{w.makeDataset(layouts[0], layouts[0].Rows), w.makeDataset(layouts[1], layouts[1].Rows)}
	dbg("datasets ready")
	_, tasks := buildTasks(run, layouts)
	dbg("tasks ready")
	var mine []int
	for i := range tasks {
		if i%n == k {
			mine = append(mine, i)
		}
	}
	tvs := map[int][]byte{}
	fls := buildFileLayouts()
	tvS := map[string][]byte{}
	for l := range layouts[:layoutS] {
		var es []*expr
		var ix []int
		for _, i := range mine {
			if tasks[i].l == l && tasks[i].fl < 0 {
				es = append(es, tasks[i].e)
				ix = append(ix, i)
			}
		}
		for j, tv := range w.truths(layouts[l], layouts[l].Rows, es) {
			tvs[ix[j]] = tv
		}
	}
	dbg("truth vectors ready")
	out := bufio.NewWriter(os.Stdout)
	enc := json.NewEncoder(out)
	for _, i := range mine {
		if time.Now().Unix() >= deadline {
			break
		}
		var o *outcome
		if t := tasks[i]; t.fl >= 0 {
			ds, tv := w.sweepCase(layouts[layoutS], fls[t.fl], t.e, t.st, tvS)
			o = w.judge(ds, t.e, tv)
		} else {
			o = w.judge(full[t.l], t.e, tvs[i])
		}
		enc.Encode(result{i, o})
	}
	out.Flush()
	dbg(fmt.Sprintf("cases done (%d) phases %v", len(mine), phase))
	w.arcdb.Close()
	w.oracle.Close()
	os.Exit(0)
}

// ---- main ---------------------------------------------------------------------------

func main() {
	run := ev.Start("C10", "exploration")
	tStart := time.Now()
	layouts := []*layout{buildLayout("A", false), buildLayout("B", true), buildSweepLayout()}
	if spec := os.Getenv("VERIF_C10_CHILD"); spec != "" {
		scratch = "" // the parent owns and removes the scratch tree
		childRoot = os.Getenv("VERIF_C10_SCRATCH")
		childMain(run, spec, layouts)
		return
	}
	scratch = fmt.Sprintf("/dev/shm/verif.c10.%d", os.Getpid())
	childRoot = scratch
	os.RemoveAll(scratch)
	must(os.MkdirAll(scratch, 0o755), "scratch")
	var procs []*exec.Cmd
	var procMu sync.Mutex
	killAll := func() {
		procMu.Lock()
		for _, c := range procs {
			if c.Process != nil {
				c.Process.Kill()
			}
		}
		procMu.Unlock()
	}
	sigc := make(chan os.Signal, 1)
	signal.Notify(sigc, syscall.SIGINT, syscall.SIGTERM)
	go func() { <-sigc; killAll(); cleanup(); os.Exit(2) }()

	// in-process worker: validates the fixtures, minimises, replays
	w0 := newWorker(999, layouts)
	fls := buildFileLayouts()
	full := make([]*dataset, len(layouts))
	for i, l := range layouts {
		if i == layoutS {
			full[i] = w0.makeDatasetAt(l, l.Rows, fls[len(fls)-1].pathMap())
		} else {
			full[i] = w0.makeDataset(l, l.Rows)
		}
		db := w0.materialise(full[i])
		got, err := w0.readMeasurement(db)
		must(err, "fixture read-back")
		var want []string
		for _, r := range l.Rows {
			want = append(want, r.canon())
		}
		sort.Strings(want)
		if a, b := multisetDiff(want, got); len(a)+len(b) > 0 {
			must(fmt.Errorf("missing %v extra %v", a, b), "fixture files differ from generator ground truth")
		}
		os.RemoveAll(filepath.Join(w0.storeDir(), db))
	}
	// the file positions of the sweep are meant in the order the REAL backend lists them
	{
		all := &fileLayout{Paths: append([]string{}, sweepAlphabet...)}
		sort.SliceStable(all.Paths, func(i, j int) bool { return listingLess(all.Paths[i], all.Paths[j]) })
		w0.caseSeq++
		db := fmt.Sprintf("d%d", w0.caseSeq)
		var want []string
		for _, p := range all.Paths {
			fp := filepath.Join(w0.storeDir(), db, "m", p)
			must(os.MkdirAll(filepath.Dir(fp), 0o755), "mkdir")
			must(os.WriteFile(fp, []byte("x"), 0o644), "write")
			want = append(want, db+"/m/"+p)
		}
		got, err := w0.be.List(context.Background(), db+"/m/")
		must(err, "storage List")
		if strings.Join(got, "\n") != strings.Join(want, "\n") {
			must(fmt.Errorf("backend lists %v, harness assumed %v", got, want), "listing order")
		}
		os.RemoveAll(filepath.Join(w0.storeDir(), db))
	}
	if run.Replay != "" {
		replay(run, w0, layouts)
		return
	}

	exprs, tasks := buildTasks(run, layouts)
	nProcs := 16
	if n, err := strconv.Atoi(os.Getenv("VERIF_C10_WORKERS")); err == nil && n > 0 {
		nProcs = n
	}
	self, err := os.Executable()
	must(err, "os.Executable")
	results := make([]*outcome, len(tasks))
	var wg sync.WaitGroup
	var childErr atomic.Value
	for k := 0; k < nProcs; k++ {
		cmd := exec.Command(self, run.Tier)
		cmd.Env = append(os.Environ(), fmt.Sprintf("VERIF_C10_CHILD=%d/%d/%d", k, nProcs, run.Deadline.Unix()), "VERIF_C10_SCRATCH="+scratch,
			fmt.Sprintf("VERIF_SEED=%d", run.Seed))
		cmd.SysProcAttr = &syscall.SysProcAttr{Pdeathsig: syscall.SIGKILL}
		var stderr bytes.Buffer
		cmd.Stderr = &stderr
		pipe, err := cmd.StdoutPipe()
		must(err, "pipe")
		must(cmd.Start(), "start worker process")
		procMu.Lock()
		procs = append(procs, cmd)
		procMu.Unlock()
		wg.Add(1)
		go func() {
			defer wg.Done()
			sc := bufio.NewScanner(pipe)
			sc.Buffer(make([]byte, 1<<20), 1<<24)
			for sc.Scan() {
				line := sc.Bytes()
				var r result
				if json.Unmarshal(line, &r) != nil || r.O == nil || r.I < 0 || r.I >= len(tasks) {
					childErr.Store("worker process said: " + string(line))
					continue
				}
				results[r.I] = r.O
			}
			if os.Getenv("VERIF_C10_DEBUG") != "" {
				defer func() { os.Stderr.Write(stderr.Bytes()) }()
			}
			if err := cmd.Wait(); err != nil {
				childErr.Store(fmt.Sprintf("worker process failed: %v %s", err, stderr.String()))
			}
		}()
	}
	wg.Wait()
	if e := childErr.Load(); e != nil {
		cleanup()
		msg := e.(string)
		if i := strings.Index(msg, "HARNESS-UNBOUND: "); i >= 0 {
			msg = msg[i+len("HARNESS-UNBOUND: "):]
		}
		ev.Unbound(strings.TrimSpace(msg))
	}
	tEnum := time.Since(tStart)

	var evals, nontriv, tolerated, okResponses int
	truthAll := map[string]bool{}
	truthNT := map[string]bool{}
	kindHist := map[string]int{}
	samples := ev.NewSamples(12)
	complete := true
	type rawFail struct {
		t    task
		kind string
	}
	var fails, sweepFails []rawFail
	memo := map[string]*outcome{}
	S := layouts[layoutS]
	var sweepEvals, sweepAffected int
	sweepByK := map[string]int{}
	posStatus := map[string]int{}     // "<K> files, file <k>: <status>" -> cases
	fateHist := map[string]int{}      // "<status> -> untouched|rewritten|removed" -> files
	sweepVectors := map[string]bool{} // distinct (file layout, status vector)
	sweepPredSet := map[string]bool{}
	for i, o := range results {
		if o == nil {
			complete = false
			continue
		}
		t := tasks[i]
		evals++
		if t.fl >= 0 {
			f := fls[t.fl]
			sweepEvals++
			memo[sweepKey(t.fl, t.st, t.e)] = o
			if fmt.Sprint(o.FileStatus) != fmt.Sprint(t.st) || len(o.FileFate) != len(t.st) {
				cleanup()
				ev.Unbound(fmt.Sprintf("file-layout sweep: placement for %q wanted %s, DuckDB's per-row values give %v", t.e.render(), stText(t.st), o.FileStatus))
			}
			key := "S:" + f.name() + ":" + stText(o.FileStatus) + ":" + o.Truth
			truthAll[key] = true
			sweepVectors[f.name()+":"+stText(o.FileStatus)] = true
			sweepPredSet[t.e.render()] = true
			sweepByK[fmt.Sprintf("%d files", len(f.Paths))]++
			affected := false
			for k, v := range o.FileStatus {
				posStatus[fmt.Sprintf("%d files, file %d: %s", len(f.Paths), k+1, stName[v])]++
				fateHist[stName[v]+" -> "+map[byte]string{'u': "untouched", 'w': "rewritten", 'r': "removed"}[o.FileFate[k]]]++
				if v != stNone {
					affected = true
				}
			}
			if affected {
				sweepAffected++
				nontriv++
				truthNT[key] = true
			}
			if o.Status == 200 {
				okResponses++
			}
			kinds := make([]string, 0, len(o.Kinds))
			for k := range o.Kinds {
				kinds = append(kinds, k)
			}
			sort.Strings(kinds)
			for _, k := range kinds {
				kindHist["layout:"+k]++
				sweepFails = append(sweepFails, rawFail{t, k})
			}
			if run.Seed == 0 && sweepEvals%(len(tasks)/8+1) == 1 {
				samples.Add(map[string]any{"where": t.e.render(), "layout": "S", "files": f.Paths, "file_status": stText(o.FileStatus), "file_fate": o.FileFate,
					"truth_per_row": o.Truth, "dry_run_count": o.DryCount, "deleted_count": o.DelCount, "http": o.Status})
			}
			continue
		}
		memo[layouts[t.l].Name+"|"+t.e.render()] = o
		key := layouts[t.l].Name + ":" + o.Truth
		truthAll[key] = true
		if o.NonTrivial {
			nontriv++
			truthNT[key] = true
		}
		if o.Tolerated {
			tolerated++
		}
		if o.Status == 200 {
			okResponses++
		}
		kinds := make([]string, 0, len(o.Kinds))
		for k := range o.Kinds {
			kinds = append(kinds, k)
		}
		sort.Strings(kinds)
		for _, k := range kinds {
			kindHist[k]++
			fails = append(fails, rawFail{t, k})
		}
		if run.Seed == 0 && (i%(len(tasks)/6+1) == 0 || (o.NonTrivial && i%1499 == 0)) {
			samples.Add(map[string]any{"where": t.e.render(), "layout": layouts[t.l].Name, "truth_per_row": o.Truth,
				"dry_run_count": o.DryCount, "deleted_count": o.DelCount, "http": o.Status, "file_excused": o.Tolerated})
		}
	}
	if run.Seed != 0 {
		for i := 0; i < len(results) && i < 8; i++ {
			if o := results[i]; o != nil {
				samples.Add(map[string]any{"where": tasks[i].e.render(), "layout": layouts[tasks[i].l].Name, "truth_per_row": o.Truth,
					"dry_run_count": o.DryCount, "deleted_count": o.DelCount, "http": o.Status, "file_excused": o.Tolerated})
			}
		}
	}

	// ---- minimise every failure (predicate first, then layout, then dataset rows) and classify.
	// Sub-expressions of an enumerated predicate are themselves enumerated, so the verdicts of the
	// exhaustive pass serve as the memo; anything missing is executed now.
	minimRuns := 0
	jm := func(l int, e *expr) *outcome {
		k := layouts[l].Name + "|" + e.render()
		if o, ok := memo[k]; ok {
			return o
		}
		minimRuns++
		o := w0.judge(full[l], e, nil)
		memo[k] = o
		return o
	}
	sort.SliceStable(fails, func(i, j int) bool {
		a, b := fails[i], fails[j]
		if a.kind != b.kind {
			return a.kind < b.kind
		}
		if a.t.e.size() != b.t.e.size() {
			return a.t.e.size() < b.t.e.size()
		}
		if ra, rb := a.t.e.render(), b.t.e.render(); ra != rb {
			return ra < rb
		}
		return a.t.l < b.t.l
	})
	type minimal struct {
		e     *expr
		l     int
		kind  string
		count int
	}
	classes := map[string]*minimal{}
	for _, f := range fails {
		cur, l := f.t.e, f.t.l
		for changed := true; changed; {
			changed = false
			if l != 0 {
				if _, ok := jm(0, cur).Kinds[f.kind]; ok {
					l, changed = 0, true
					continue
				}
			}
			for _, s := range shrinks(cur) {
				if _, ok := jm(l, s).Kinds[f.kind]; ok {
					cur, changed = s, true
					break
				}
			}
		}
		sig := f.kind + "|" + cur.render()
		if l != 0 {
			sig += "|layout=" + layouts[l].Name
		}
		if c, ok := classes[sig]; ok {
			c.count++
		} else {
			classes[sig] = &minimal{cur, l, f.kind, 1}
		}
	}
	sigs := make([]string, 0, len(classes))
	for s := range classes {
		sigs = append(sigs, s)
	}
	sort.Strings(sigs)
	for _, s := range sigs {
		c := classes[s]
		L := layouts[c.l]
		pick := func(ix []int) []*row {
			var rows []*row
			for _, i := range ix {
				rows = append(rows, L.Rows[i])
			}
			return rows
		}
		failsOn := func(ix []int) bool {
			if len(ix) == 0 {
				return false
			}
			minimRuns++
			_, ok := w0.judge(w0.makeDataset(L, pick(ix)), c.e, nil).Kinds[c.kind]
			return ok
		}
		// replay on the full dataset in this process (the verdict came from a worker process), then
		// shrink the dataset: first to the rows of one file, then 1-minimal delta debugging on rows
		var idx, f1, f2 []int
		for i, r := range L.Rows {
			idx = append(idx, i)
			if r.File == 1 {
				f1 = append(f1, i)
			} else {
				f2 = append(f2, i)
			}
		}
		if !failsOn(idx) {
			cleanup()
			ev.Nondeterminism(fmt.Sprintf("%s on %q (layout %s) did not reproduce", c.kind, c.e.render(), L.Name))
		}
		if failsOn(f2) {
			idx = f2
		} else if failsOn(f1) {
			idx = f1
		}
		rows := pick(ev.Minimize(idx, failsOn))
		o := w0.judge(w0.makeDataset(L, rows), c.e, nil)
		o2 := w0.judge(w0.makeDataset(L, rows), c.e, nil)
		if _, ok := o.Kinds[c.kind]; !ok || o.Kinds[c.kind] != o2.Kinds[c.kind] || o.Truth != o2.Truth || o.DryCount != o2.DryCount || o.DelCount != o2.DelCount {
			cleanup()
			ev.Nondeterminism("minimal case for " + s + " did not reproduce identically")
		}
		var rtxt []string
		for _, r := range rows {
			rtxt = append(rtxt, r.short())
		}
		desc := fmt.Sprintf("confirmed delete WHERE %s on rows %s: %s (dry run reported %d, delete reported %d)", c.e.render(), strings.Join(rtxt, " "), o.Kinds[c.kind], o.DryCount, o.DelCount)
		rep := map[string]any{"where": c.e.render(), "layout": L.Name, "rows": rows, "truth_per_row": o.Truth, "kind": c.kind}
		for i := 0; i < c.count; i++ {
			run.Violate(s, desc, rep)
		}
	}

	// ---- the file-layout sweep: minimise every failure over (number of files, predicate, file layout,
	// status vector), each towards the simplest/earliest that still violates the same oracle, then the
	// rows; signature family `layout:<oracle>|<predicate>|<path>=<status>,...`.
	spreds := sweepPreds()
	predIdx := map[string]int{}
	for i, e := range spreds {
		predIdx[e.render()] = i
	}
	flIdx := map[string]int{}
	for i, f := range fls {
		flIdx[f.name()] = i
	}
	tvS0 := map[string][]byte{}
	jmS := func(fl int, st []int, e *expr) *outcome {
		k := sweepKey(fl, st, e)
		if o, ok := memo[k]; ok {
			return o
		}
		ds, tv := w0.sweepCase(S, fls[fl], e, st, tvS0)
		if ds == nil {
			memo[k] = nil
			return nil
		}
		minimRuns++
		o := w0.judge(ds, e, tv)
		memo[k] = o
		return o
	}
	hasKind := func(o *outcome, kind string) bool {
		if o == nil {
			return false
		}
		_, ok := o.Kinds[kind]
		return ok
	}
	type sstate struct {
		fl int
		st []int
		pi int
	}
	step := func(kind string, c sstate) (sstate, bool) {
		f := fls[c.fl]
		// 1. fewer files
		if len(f.Paths) > 1 {
			for k := range f.Paths {
				var ps []string
				var st []int
				for j := range f.Paths {
					if j != k {
						ps = append(ps, f.Paths[j])
						st = append(st, c.st[j])
					}
				}
				n := sstate{flIdx[strings.Join(ps, ",")], st, c.pi}
				if hasKind(jmS(n.fl, n.st, spreds[n.pi]), kind) {
					return n, true
				}
			}
		}
		// 2. an earlier (simpler) predicate
		for pj := 0; pj < c.pi; pj++ {
			if hasKind(jmS(c.fl, c.st, spreds[pj]), kind) {
				return sstate{c.fl, c.st, pj}, true
			}
		}
		// 3. an earlier file layout with the same number of files
		for fj := 0; fj < c.fl; fj++ {
			if len(fls[fj].Paths) == len(f.Paths) && hasKind(jmS(fj, c.st, spreds[c.pi]), kind) {
				return sstate{fj, c.st, c.pi}, true
			}
		}
		// 4. a simpler status at one position (none < partial < full)
		for k := range c.st {
			for v := 0; v < c.st[k]; v++ {
				st := append([]int{}, c.st...)
				st[k] = v
				if hasKind(jmS(c.fl, st, spreds[c.pi]), kind) {
					return sstate{c.fl, st, c.pi}, true
				}
			}
		}
		return c, false
	}
	sort.SliceStable(sweepFails, func(i, j int) bool {
		a, b := sweepFails[i], sweepFails[j]
		if a.kind != b.kind {
			return a.kind < b.kind
		}
		if a.t.fl != b.t.fl {
			return a.t.fl < b.t.fl
		}
		if pa, pb := predIdx[a.t.e.render()], predIdx[b.t.e.render()]; pa != pb {
			return pa < pb
		}
		return stText(a.t.st) < stText(b.t.st)
	})
	type sminimal struct {
		c      sstate
		kind   string
		count  int
		others map[string]bool // other file layouts whose failures collapsed into this class
	}
	sclasses := map[string]*sminimal{}
	minOf := map[string]sstate{}
	for _, f := range sweepFails {
		cur := sstate{f.t.fl, f.t.st, predIdx[f.t.e.render()]}
		var visited []string
		for {
			k := f.kind + "|" + sweepKey(cur.fl, cur.st, spreds[cur.pi])
			if m, ok := minOf[k]; ok {
				cur = m
				break
			}
			visited = append(visited, k)
			n, changed := step(f.kind, cur)
			if !changed {
				break
			}
			cur = n
		}
		for _, k := range visited {
			minOf[k] = cur
		}
		var parts []string
		for k, p := range fls[cur.fl].Paths {
			parts = append(parts, p+"="+stName[cur.st[k]])
		}
		sig := "layout:" + f.kind + "|" + spreds[cur.pi].render() + "|" + strings.Join(parts, ",")
		c, ok := sclasses[sig]
		if !ok {
			c = &sminimal{cur, f.kind, 0, map[string]bool{}}
			sclasses[sig] = c
		}
		c.count++
		if f.t.fl != cur.fl {
			c.others[fls[f.t.fl].name()] = true
		}
	}
	ssigs := make([]string, 0, len(sclasses))
	for s := range sclasses {
		ssigs = append(ssigs, s)
	}
	sort.Strings(ssigs)
	for _, s := range ssigs {
		c := sclasses[s]
		e := spreds[c.c.pi]
		paths := fls[c.c.fl].pathMap()
		base := sweepRows(S, e, c.c.st)
		pick := func(ix []int) []*row {
			var rows []*row
			for _, i := range ix {
				rows = append(rows, base[i])
			}
			return rows
		}
		failsOn := func(ix []int) bool {
			if len(ix) == 0 {
				return false
			}
			minimRuns++
			_, ok := w0.judge(w0.makeDatasetAt(S, pick(ix), paths), e, nil).Kinds[c.kind]
			return ok
		}
		var idx []int
		for i := range base {
			idx = append(idx, i)
		}
		if !failsOn(idx) {
			cleanup()
			ev.Nondeterminism(fmt.Sprintf("%s did not reproduce", s))
		}
		rows := pick(ev.Minimize(idx, failsOn))
		o := w0.judge(w0.makeDatasetAt(S, rows, paths), e, nil)
		o2 := w0.judge(w0.makeDatasetAt(S, rows, paths), e, nil)
		if _, ok := o.Kinds[c.kind]; !ok || o.Kinds[c.kind] != o2.Kinds[c.kind] || o.Truth != o2.Truth || o.DryCount != o2.DryCount || o.DelCount != o2.DelCount {
			cleanup()
			ev.Nondeterminism("minimal case for " + s + " did not reproduce identically")
		}
		var rtxt []string
		for _, r := range rows {
			rtxt = append(rtxt, fmt.Sprintf("%s in %s", r.short(), strings.TrimPrefix(paths[r.File], "m/")))
		}
		others := make([]string, 0, len(c.others))
		for k := range c.others {
			others = append(others, "["+k+"]")
		}
		sort.Strings(others)
		also := ""
		if len(others) > 0 {
			also = fmt.Sprintf("; the same oracle is also violated on %d other file layouts, e.g. %s", len(others), strings.Join(others[:min(3, len(others))], " "))
		}
		desc := fmt.Sprintf("confirmed delete WHERE %s on rows %s: %s (dry run reported %d, delete reported %d)%s", e.render(), strings.Join(rtxt, " "), o.Kinds[c.kind], o.DryCount, o.DelCount, also)
		rep := map[string]any{"where": e.render(), "layout": "S", "paths": fls[c.c.fl].Paths, "rows": rows, "truth_per_row": o.Truth, "kind": c.kind, "file_status": stText(c.c.st)}
		for i := 0; i < c.count; i++ {
			run.Violate(s, desc, rep)
		}
	}

	depthHist := map[string]int{}
	for _, e := range exprs {
		depthHist[fmt.Sprint("depth", e.depth())]++
	}
	bound := "every expression of depth<=1 with ordered operands and repetitions, and every depth-2 expression up to commutativity of AND/OR (operands drawn from one representative per commutative depth-1 pair, each unordered operand pair once, a op a included)"
	if os.Getenv("VERIF_C10_ORDERED") != "" {
		bound = "every expression of depth<=2 with ordered operands and repetitions"
	}
	if run.Quick() {
		bound = quickBound
	}
	run.Coverage["evaluations"] = evals
	run.Coverage["distinct_nontrivial"] = len(truthNT)
	run.Coverage["nontrivial_cases"] = nontriv
	run.Coverage["distinct_truth_vectors"] = len(truthAll)
	run.Coverage["rule"] = "predicates over atoms {" + strings.Join(atoms, "; ") + "} with NOT/AND/OR: " + bound + ", plus 1=1 [PREDICATE SWEEP]; each predicate is run (dry run, then confirmed delete, through the real handler) on layout A = 2 files x 18 rows, the product x in {NULL,0,1} x s in {NULL,'a','ab'} x b in {NULL,true} in file 1 and the (x,s) product twice in file 2 which has no column b; predicates that mention b also run on layout B where file 2 has b. A case is non-trivial when some file holds both a row on which the predicate is TRUE and a row on which it is NULL (three-valued logic decides the rewrite of an affected file); distinct = distinct per-row TRUE/FALSE/NULL vectors (per layout) among non-trivial cases. [FILE-LAYOUT SWEEP] " + sweepRule + " A sweep case is non-trivial when at least one file is partially or fully matched; distinct = distinct (file layout, status vector, per-row truth vector)"
	var small []string
	for _, e := range sweepPredsSmall(S) {
		small = append(small, e.render())
	}
	run.Coverage["layout_sweep"] = map[string]any{
		"cases":                                 sweepEvals,
		"cases_by_file_count":                   sweepByK,
		"cases_with_an_affected_file":           sweepAffected,
		"path_alphabet_listing_order_verified":  sweepAlphabet,
		"predicates_run":                        len(sweepPredSet),
		"small_predicate_set":                   small,
		"distinct_file_layout_x_status_vectors": len(sweepVectors),
		"cases_by_position_and_status":          posStatus,
		"files_by_status_and_fate":              fateHist,
		"classes":                               len(sclasses),
		"failing_cases_before_minimisation":     len(sweepFails),
		"tier_plan":                             map[bool]string{true: "quick", false: "thorough"}[run.Quick()],
	}
	run.Coverage["predicates"] = len(exprs)
	run.Coverage["predicates_by_depth"] = depthHist
	run.Coverage["cases"] = len(tasks)
	run.Coverage["delete_http_200"] = okResponses
	run.Coverage["file_failures_excused_missing_column"] = tolerated
	run.Coverage["violated_oracles_before_minimisation"] = kindHist
	run.Coverage["failing_cases_before_minimisation"] = len(fails) + len(sweepFails)
	run.Coverage["minimisation_runs"] = minimRuns
	run.Coverage["reference_validated"] = true
	run.Coverage["samples"] = samples.List()
	run.Coverage["exhaustive"] = complete && os.Getenv("VERIF_C10_ONLY") == ""
	if only := os.Getenv("VERIF_C10_ONLY"); only != "" {
		run.Coverage["restricted_to"] = only + " sweep (VERIF_C10_ONLY)"
	}
	run.Coverage["worker_processes"] = nProcs
	run.Coverage["enumeration_s"] = tEnum.Seconds()
	run.Assume("the oracle is DuckDB's own three-valued value of the predicate (selected iff TRUE) on the generator's table, cross-checked on every row of every predicate against a from-the-standard Kleene evaluator in the harness; a disagreement stops the check (exit 2)")
	run.Assume("when the predicate mentions column b and file 2 has no such column (layout A) the handler reports that file in failed_files with HTTP 207; a missing column is outside the property's quantifier (nullable columns), so such a file is only required to be left untouched and the other file is judged in full; " + fmt.Sprint(tolerated) + " cases")
	run.Assume("file-layout sweep: the files of a measurement are at most 3, drawn from the 7-path alphabet; every file has all columns; LocalBackend listing order (verified against the real List at start-up)")
	run.Assume("LocalBackend only (the S3/Azure rewrite path issues the same SQL but is not driven); both requests carry confirm=true; dataset values beyond {NULL,0,1}/{NULL,'a','ab'}/{NULL,true} and predicates deeper than 2 are outside the bound")
	fmt.Printf("C10 predicates=%d cases=%d judged=%d nontrivial=%d distinct_truth_vectors=%d (nontrivial %d) http200=%d excused=%d failing=%d classes=%d enumeration=%.1fs\n",
		len(exprs), len(tasks), evals, nontriv, len(truthAll), len(truthNT), okResponses, tolerated, len(fails)+len(sweepFails), len(classes)+len(sclasses), tEnum.Seconds())
	fmt.Printf("C10 file-layout sweep: cases=%d (by file count %v) layout x status vectors=%d predicates=%d affected=%d files by status -> fate %v failing=%d classes=%d\n",
		sweepEvals, sweepByK, len(sweepVectors), len(sweepPredSet), sweepAffected, fateHist, len(sweepFails), len(sclasses))
	if len(truthAll) < 2 {
		fmt.Println("C10 VACUITY WARNING: fewer than two distinct truth vectors were produced")
	}
	w0.arcdb.Close()
	w0.oracle.Close()
	cleanup()
	run.Finish()
}

// replay runs one recorded case (the "replay" object of a replay file) and prints the verdict.
func replay(run *ev.Run, w *worker, layouts []*layout) {
	b, err := os.ReadFile(run.Replay)
	must(err, "replay file")
	var f struct {
		Replay struct {
			Where  string   `json:"where"`
			Layout string   `json:"layout"`
			Rows   []row    `json:"rows"`
			Paths  []string `json:"paths"`
			Status string   `json:"file_status"`
		} `json:"replay"`
	}
	must(json.Unmarshal(b, &f), "replay json")
	var L *layout
	for _, l := range layouts {
		if l.Name == f.Replay.Layout {
			L = l
		}
	}
	if L == nil {
		must(fmt.Errorf("layout %q", f.Replay.Layout), "replay")
	}
	var e *expr
	for _, c := range enumerate(true) {
		if c.render() == f.Replay.Where {
			e = c
		}
	}
	if e == nil {
		must(fmt.Errorf("predicate %q is not in the grammar", f.Replay.Where), "replay")
	}
	var rows []*row
	for _, r := range L.Rows {
		for _, q := range f.Replay.Rows {
			if q.ID == r.ID {
				rows = append(rows, r)
			}
		}
	}
	paths := fileRel
	if L.Name == "S" {
		paths = (&fileLayout{Paths: f.Replay.Paths}).pathMap()
	}
	ds := w.makeDatasetAt(L, rows, paths)
	o := w.judge(ds, e, nil)
	kinds := make([]string, 0, len(o.Kinds))
	for k := range o.Kinds {
		kinds = append(kinds, k)
	}
	sort.Strings(kinds)
	for _, k := range kinds {
		sig := k + "|" + e.render()
		if L.Name == "S" {
			// the class signature names the status vector of the minimal case before its rows were reduced
			var parts []string
			sts := strings.Split(f.Replay.Status, ",")
			for i, p := range f.Replay.Paths {
				if i < len(sts) {
					parts = append(parts, p+"="+sts[i])
				}
			}
			sig = "layout:" + sig + "|" + strings.Join(parts, ",")
		} else if L.Name != "A" {
			sig += "|layout=" + L.Name
		}
		run.Violate(sig, o.Kinds[k], f.Replay)
	}
	fmt.Printf("C10 replay where=%q truth=%s dry=%d deleted=%d http=%d violated=%v\n", e.render(), o.Truth, o.DryCount, o.DelCount, o.Status, kinds)
	w.arcdb.Close()
	cleanup()
	run.Finish()
}
