// C10 — Row-level delete removes exactly the rows the predicate selects.
//
// Every predicate of a small boolean grammar (depth <= 2 over nine atoms with NOT/AND/OR, plus 1=1)
// is sent to the REAL api.DeleteHandler (fiber app, real storage.LocalBackend on /dev/shm, real
// database.DuckDB with Arc's configuration and sandbox) against a two-file Parquet measurement whose
// rows are the full product of nullable column values. Each case is a dry run followed by a confirmed
// delete on a freshly materialised copy of the dataset (fresh paths, so no cache can carry over).
//
// Oracle (never Arc's code): an independent plain DuckDB connection evaluates the predicate as a
// BOOLEAN select-list value per row of the generator's ground-truth table (TRUE selects; FALSE and
// NULL do not); a from-the-standard Kleene evaluator in Go must agree with it on every row of every
// predicate (else the harness stops with exit 2). Judged: the dry run changes nothing and reports
// |selected|; after the confirmed delete the measurement is before minus selected (multiset of
// complete rows); deleted_count equals the number of rows that disappeared.
//
// thorough: all expressions of depth <= 2 up to commutativity of AND/OR (11 889) + 1=1; with
// VERIF_C10_ORDERED=1 all 64 989 ordered expressions (about 45 min of CPU-bound work on a busy box). quick: all of depth <= 1 plus one representative of every
// semantically distinct depth-2 selection (see quickSubset). Cases are sharded over 16 worker
// processes (re-exec of this binary; VERIF_C10_WORKERS overrides, VERIF_C10_DEBUG=1 prints timings).
// Failures are minimised (sub-expression replacement, layout, then delta debugging on the rows) and
// reported per class as `<violated oracle>|<minimal predicate>[|layout=B]`.
package main

import (
	"bufio"
	"bytes"
	"database/sql"
	"encoding/json"
	"fmt"
	"io"
	"math/rand"
	"net/http/httptest"
	"os"
	"os/exec"
	"os/signal"
	"path/filepath"
	"regexp"
	"sort"
	"strconv"
	"strings"
	"sync"
	"sync/atomic"
	"syscall"
	"time"

	"github.com/basekick-labs/arc/internal/api"
	"github.com/basekick-labs/arc/internal/config"
	"github.com/basekick-labs/arc/internal/database"
	"github.com/basekick-labs/arc/internal/storage"
	"github.com/basekick-labs/arc/zzverif/engine/ev"
	_ "github.com/duckdb/duckdb-go/v2"
	"github.com/gofiber/fiber/v2"
	"github.com/rs/zerolog"
)

// ---- predicate grammar --------------------------------------------------------

type expr struct {
	Op   string // "atom" | "not" | "and" | "or"
	Atom int
	A, B *expr
}

var atoms = []string{"x = 0", "x > 0", "x <> 1", "x IN (0, 1)", "x IS NULL", "s = 'a'", "s LIKE 'a%'", "b", "x = x"}

const atomB = 7 // index of the atom that references column b
const fullTable = -1

func (e *expr) sub() string { return "(" + e.render() + ")" }

// render: the top level is NOT parenthesised (the handler must do its own wrapping); every operand is.
func (e *expr) render() string {
	switch e.Op {
	case "atom":
		if e.Atom == fullTable {
			return "1=1"
		}
		return atoms[e.Atom]
	case "not":
		return "NOT " + e.A.sub()
	case "and":
		return e.A.sub() + " AND " + e.B.sub()
	default:
		return e.A.sub() + " OR " + e.B.sub()
	}
}

func (e *expr) depth() int {
	switch e.Op {
	case "atom":
		return 0
	case "not":
		return 1 + e.A.depth()
	}
	return 1 + max(e.A.depth(), e.B.depth())
}

func (e *expr) size() int {
	switch e.Op {
	case "atom":
		return 1
	case "not":
		return 1 + e.A.size()
	}
	return 1 + e.A.size() + e.B.size()
}

func (e *expr) refsB() bool {
	switch e.Op {
	case "atom":
		return e.Atom == atomB
	case "not":
		return e.A.refsB()
	}
	return e.A.refsB() || e.B.refsB()
}

// enumerate returns the expressions of depth <= 2, simplest first, then 1=1.
// ordered=true: every expression, AND/OR operands ordered, repetitions included (64 989).
// ordered=false (the default bound): every expression of depth <= 1 with ordered operands, and every
// depth-2 expression up to commutativity of AND/OR — operands are taken from the depth<=1 expressions
// with one representative per commutative pair, and a op b is generated once per unordered pair
// (a op a included). Commutative variants have identical per-row values, so no selection is lost.
func enumerate(ordered bool) []*expr {
	var e0 []*expr
	for i := range atoms {
		e0 = append(e0, &expr{Op: "atom", Atom: i})
	}
	grow := func(lower []*expr, all []*expr, unorderedPairs bool) []*expr {
		// lower: expressions of depth <= d-2; all: expressions of depth <= d-1; returns depth == d
		isLower := map[*expr]bool{}
		for _, e := range lower {
			isLower[e] = true
		}
		var out []*expr
		for _, a := range all {
			if !isLower[a] {
				out = append(out, &expr{Op: "not", A: a})
			}
		}
		for _, op := range []string{"and", "or"} {
			for i, a := range all {
				for j, b := range all {
					if isLower[a] && isLower[b] {
						continue
					}
					if unorderedPairs && j < i {
						continue
					}
					out = append(out, &expr{Op: op, A: a, B: b})
				}
			}
		}
		return out
	}
	d1 := grow(nil, e0, false)
	e1 := append(append([]*expr{}, e0...), d1...)
	var d2 []*expr
	if ordered {
		d2 = grow(e0, e1, false)
	} else {
		c1 := append(append([]*expr{}, e0...), grow(nil, e0, true)...)
		d2 = grow(e0, c1, true)
	}
	out := append(append([]*expr{}, e1...), d2...)
	out = append(out, &expr{Op: "atom", Atom: fullTable})
	return out
}

// quickSubset keeps every predicate of depth <= 1 and, of the depth-2 predicates, the first one (in
// enumeration order) for every per-row TRUE/FALSE/NULL vector over the rows of all layouts that no
// earlier predicate produced: every semantically distinct selection of the depth-2 space runs once.
// The vectors used for this choice come from the reference evaluator (which is cross-checked against
// DuckDB on everything that is executed); a wrong choice could only lose coverage.
func quickSubset(all []*expr, layouts []*layout) []*expr {
	seen := map[string]bool{}
	var out []*expr
	for _, e := range all {
		var key []byte
		for _, l := range layouts {
			for _, r := range l.Rows {
				key = append(key, "FTN"[e.eval(r)])
			}
		}
		if e.depth() <= 1 || !seen[string(key)] {
			out = append(out, e)
		}
		seen[string(key)] = true
	}
	return out
}

// subs: every proper sub-expression of e.
func subs(e *expr) []*expr {
	switch e.Op {
	case "atom":
		return nil
	case "not":
		return append([]*expr{e.A}, subs(e.A)...)
	}
	return append(append([]*expr{e.A, e.B}, subs(e.A)...), subs(e.B)...)
}

// shrinks: every expression obtained by replacing one node with one of its proper sub-expressions.
func shrinks(e *expr) []*expr {
	var out []*expr
	switch e.Op {
	case "atom":
		return nil
	case "not":
		out = append(out, subs(e)...)
		for _, s := range shrinks(e.A) {
			out = append(out, &expr{Op: "not", A: s})
		}
	default:
		out = append(out, subs(e)...)
		for _, s := range shrinks(e.A) {
			out = append(out, &expr{Op: e.Op, A: s, B: e.B})
		}
		for _, s := range shrinks(e.B) {
			out = append(out, &expr{Op: e.Op, A: e.A, B: s})
		}
	}
	sort.SliceStable(out, func(i, j int) bool {
		if out[i].size() != out[j].size() {
			return out[i].size() < out[j].size()
		}
		return out[i].render() < out[j].render()
	})
	return out
}

// ---- three-valued reference evaluator (SQL semantics from the standard, not from Arc) ---------

const (
	tvF = 0
	tvT = 1
	tvN = 2
)

func tvOf(b bool) int {
	if b {
		return tvT
	}
	return tvF
}

func (e *expr) eval(r *row) int {
	switch e.Op {
	case "atom":
		switch e.Atom {
		case fullTable:
			return tvT
		case 0:
			if r.X == nil {
				return tvN
			}
			return tvOf(*r.X == 0)
		case 1:
			if r.X == nil {
				return tvN
			}
			return tvOf(*r.X > 0)
		case 2:
			if r.X == nil {
				return tvN
			}
			return tvOf(*r.X != 1)
		case 3:
			if r.X == nil {
				return tvN
			}
			return tvOf(*r.X == 0 || *r.X == 1)
		case 4:
			return tvOf(r.X == nil)
		case 5:
			if r.S == nil {
				return tvN
			}
			return tvOf(*r.S == "a")
		case 6:
			if r.S == nil {
				return tvN
			}
			return tvOf(strings.HasPrefix(*r.S, "a"))
		case 7:
			if r.B == nil {
				return tvN
			}
			return tvOf(*r.B)
		case 8:
			if r.X == nil {
				return tvN
			}
			return tvT
		}
		panic("atom")
	case "not":
		switch e.A.eval(r) {
		case tvT:
			return tvF
		case tvF:
			return tvT
		}
		return tvN
	case "and":
		a, b := e.A.eval(r), e.B.eval(r)
		if a == tvF || b == tvF {
			return tvF
		}
		if a == tvT && b == tvT {
			return tvT
		}
		return tvN
	default:
		a, b := e.A.eval(r), e.B.eval(r)
		if a == tvT || b == tvT {
			return tvT
		}
		if a == tvF && b == tvF {
			return tvF
		}
		return tvN
	}
}

// ---- datasets -----------------------------------------------------------------

type row struct {
	ID   int      `json:"id"`
	File int      `json:"file"`
	X    *int64   `json:"x"`
	S    *string  `json:"s"`
	B    *bool    `json:"b"` // nil also when the file has no column b
	F    *float64 `json:"f"`
	T    int64    `json:"time_us"`
}

func pstr(v any) string {
	switch p := v.(type) {
	case *int64:
		if p == nil {
			return "NULL"
		}
		return fmt.Sprint(*p)
	case *string:
		if p == nil {
			return "NULL"
		}
		return "'" + *p + "'"
	case *bool:
		if p == nil {
			return "NULL"
		}
		return fmt.Sprint(*p)
	case *float64:
		if p == nil {
			return "NULL"
		}
		return fmt.Sprint(*p)
	}
	return "?"
}

// canonical row text: what the measurement must still contain, column by column
func (r *row) canon() string {
	s := "NULL"
	if r.S != nil {
		s = *r.S
	}
	return fmt.Sprintf("id=%d time=%d x=%s s=%s b=%s f=%s", r.ID, r.T, pstr(r.X), s, pstr(r.B), pstr(r.F))
}

func (r *row) short() string {
	return fmt.Sprintf("{file%d id=%d x=%s s=%s b=%s}", r.File, r.ID, pstr(r.X), pstr(r.S), pstr(r.B))
}

var fileRel = map[int]string{1: "m/2024/01/01/00/f1.parquet", 2: "m/2024/01/01/01/f2.parquet"}

type layout struct {
	Name      string
	Rows      []*row // ground truth, by ascending id
	File2HasB bool
}

const baseTimeUS = int64(1704067200000000) // 2024-01-01T00:00:00Z

func buildLayout(name string, file2HasB bool) *layout {
	l := &layout{Name: name, File2HasB: file2HasB}
	xs := []*int64{nil, new(int64), new(int64)}
	*xs[2] = 1
	a, ab := "a", "ab"
	ss := []*string{nil, &a, &ab}
	tr := true
	bs := []*bool{nil, &tr}
	id := 0
	for file := 1; file <= 2; file++ {
		for _, x := range xs {
			for _, s := range ss {
				for _, b := range bs {
					id++
					r := &row{ID: id, File: file, X: x, S: s, T: baseTimeUS + int64(file-1)*3600_000_000 + int64(id)*1_000_000}
					if file == 1 || file2HasB {
						r.B = b
					}
					if id%3 != 0 {
						f := float64(id) * 0.5
						r.F = &f
					}
					l.Rows = append(l.Rows, r)
				}
			}
		}
	}
	return l
}

func (l *layout) table() string { return "before_" + l.Name }

func (l *layout) hasB(file int) bool { return file == 1 || l.File2HasB }

// ---- one worker: its own Arc DuckDB, backend, fiber app and oracle connection ------------------

type worker struct {
	id      int
	root    string
	app     *fiber.App
	arcdb   *database.DuckDB
	oracle  *sql.DB
	caseSeq int
}

func must(err error, what string) {
	if err != nil {
		cleanup()
		ev.Unbound(what + ": " + err.Error())
	}
}

var scratch string   // removed on exit by the process that created it (the parent)
var childRoot string // where this process puts its worker directory

const quickBound = "every expression of depth<=1 (ordered operands, repetitions) and, of the depth-2 expressions enumerated simplest-first, the first representative of every per-row TRUE/FALSE/NULL vector not produced by an earlier expression (each semantically distinct selection of the depth-2 space is executed once; thorough executes every expression up to commutativity)"

func cleanup() {
	if scratch != "" {
		os.RemoveAll(scratch)
	}
}

func sqlLit(l *layout, r *row) string {
	b := pstr(r.B)
	return fmt.Sprintf("(%d, %d, make_timestamp(%d), %s, %s, %s, %s)", r.File, r.ID, r.T, pstr(r.X), pstr(r.S), b, pstr(r.F))
}

func loadOracle(db *sql.DB, layouts []*layout) error {
	db.Exec("SET threads=1")
	db.Exec("SET enable_external_file_cache=false")
	for _, l := range layouts {
		if _, err := db.Exec("CREATE TABLE " + l.table() + "(file INTEGER, id BIGINT, time TIMESTAMP, x BIGINT, s VARCHAR, b BOOLEAN, f DOUBLE)"); err != nil {
			return err
		}
		var vals []string
		for _, r := range l.Rows {
			vals = append(vals, sqlLit(l, r))
		}
		if _, err := db.Exec("INSERT INTO " + l.table() + " VALUES " + strings.Join(vals, ",")); err != nil {
			return err
		}
	}
	return nil
}

func newWorker(id int, layouts []*layout) *worker {
	w := &worker{id: id, root: filepath.Join(childRoot, fmt.Sprintf("w%03d", id))}
	store := filepath.Join(w.root, "store")
	tmp := filepath.Join(w.root, "tmp")
	must(os.MkdirAll(store, 0o755), "mkdir")
	must(os.MkdirAll(tmp, 0o755), "mkdir")
	lg := zerolog.Nop()
	be, err := storage.NewLocalBackend(store, lg)
	must(err, "storage.NewLocalBackend")
	db, err := database.New(&database.Config{
		MaxConnections:   4,
		MemoryLimit:      "512MB",
		ThreadCount:      1,
		TempDirectory:    filepath.Join(tmp, "spill"),
		UploadDir:        filepath.Join(tmp, "upload"),
		LocalStorageRoot: be.GetBasePath(),
	}, lg)
	must(err, "database.New")
	w.arcdb = db
	h := api.NewDeleteHandler(db, be, &config.DeleteConfig{Enabled: true, ConfirmationThreshold: 10000, MaxRowsPerDelete: 1000000}, nil, filepath.Join(tmp, "upload"), lg)
	w.app = fiber.New(fiber.Config{DisableStartupMessage: true})
	h.RegisterRoutes(w.app)
	w.oracle, err = sql.Open("duckdb", "")
	must(err, "oracle duckdb")
	w.oracle.SetMaxOpenConns(1)
	must(w.oracle.Ping(), "oracle ping")
	must(loadOracle(w.oracle, layouts), "oracle load")
	return w
}

func (w *worker) storeDir() string { return filepath.Join(w.root, "store") }

// ---- dataset instances ------------------------------------------------------------

// dataset = a layout restricted to a set of row ids, with the Parquet bytes of each file.
type dataset struct {
	L     *layout
	Rows  []*row
	Files map[int][]byte // file number -> parquet bytes (absent when the file has no rows)
}

func idList(rows []*row) string {
	var s []string
	for _, r := range rows {
		s = append(s, fmt.Sprint(r.ID))
	}
	return strings.Join(s, ",")
}

// makeDataset writes the fixture files with the ORACLE DuckDB's COPY (never Arc's code) and reads them back.
func (w *worker) makeDataset(l *layout, rows []*row) *dataset {
	ds := &dataset{L: l, Rows: rows, Files: map[int][]byte{}}
	for file := 1; file <= 2; file++ {
		var sub []*row
		for _, r := range rows {
			if r.File == file {
				sub = append(sub, r)
			}
		}
		if len(sub) == 0 {
			continue
		}
		cols := "id, time, x, s, b, f"
		if !l.hasB(file) {
			cols = "id, time, x, s, f"
		}
		w.caseSeq++
		p := filepath.Join(w.root, fmt.Sprintf("fixture_%d.parquet", w.caseSeq))
		q := fmt.Sprintf("COPY (SELECT %s FROM %s WHERE file=%d AND id IN (%s) ORDER BY id) TO '%s' (FORMAT PARQUET)", cols, l.table(), file, idList(sub), p)
		_, err := w.oracle.Exec(q)
		must(err, "fixture COPY")
		b, err := os.ReadFile(p)
		must(err, "fixture read")
		os.Remove(p)
		ds.Files[file] = b
	}
	return ds
}

// materialise puts the dataset under a fresh database directory and returns the database name.
func (w *worker) materialise(ds *dataset) string {
	w.caseSeq++
	dbname := fmt.Sprintf("d%d", w.caseSeq)
	for file, b := range ds.Files {
		p := filepath.Join(w.storeDir(), dbname, fileRel[file])
		must(os.MkdirAll(filepath.Dir(p), 0o755), "mkdir")
		must(os.WriteFile(p, b, 0o644), "write fixture")
	}
	return dbname
}

// readMeasurement returns the canonical text of every row currently stored, via the oracle connection.
func (w *worker) readMeasurement(dbname string) ([]string, error) {
	var files []string
	base := filepath.Join(w.storeDir(), dbname, "m")
	filepath.WalkDir(base, func(p string, d os.DirEntry, err error) error {
		if err == nil && !d.IsDir() && strings.HasSuffix(p, ".parquet") {
			files = append(files, "'"+p+"'")
		}
		return nil
	})
	sort.Strings(files)
	if len(files) == 0 {
		return nil, nil
	}
	rows, err := w.oracle.Query("SELECT * FROM read_parquet([" + strings.Join(files, ",") + "], union_by_name=true)")
	if err != nil {
		return nil, err
	}
	defer rows.Close()
	cols, _ := rows.Columns()
	var out []string
	for rows.Next() {
		vals := make([]any, len(cols))
		ptrs := make([]any, len(cols))
		for i := range vals {
			ptrs[i] = &vals[i]
		}
		if err := rows.Scan(ptrs...); err != nil {
			return nil, err
		}
		m := map[string]string{"id": "NULL", "time": "NULL", "x": "NULL", "s": "NULL", "b": "NULL", "f": "NULL"}
		extra := ""
		for i, c := range cols {
			txt := "NULL"
			switch v := vals[i].(type) {
			case nil:
			case time.Time:
				txt = fmt.Sprint(v.UTC().UnixMicro())
			case []byte:
				txt = string(v)
			default:
				txt = fmt.Sprint(v)
			}
			if _, ok := m[c]; ok {
				m[c] = txt
			} else {
				extra += " " + c + "=" + txt
			}
		}
		out = append(out, fmt.Sprintf("id=%s time=%s x=%s s=%s b=%s f=%s%s", m["id"], m["time"], m["x"], m["s"], m["b"], m["f"], extra))
	}
	sort.Strings(out)
	return out, rows.Err()
}

var volatile = regexp.MustCompile(`"execution_time_ms":[0-9.eE+-]+,?`)

type deleteResp struct {
	Success        bool     `json:"success"`
	DeletedCount   int64    `json:"deleted_count"`
	AffectedFiles  int      `json:"affected_files"`
	RewrittenFiles int      `json:"rewritten_files"`
	DryRun         bool     `json:"dry_run"`
	FailedFiles    []string `json:"failed_files"`
	Error          string   `json:"error"`
}

func (w *worker) post(dbname, where string, dry bool) (int, *deleteResp, string) {
	body, _ := json.Marshal(map[string]any{"database": dbname, "measurement": "m", "where": where, "dry_run": dry, "confirm": true})
	req := httptest.NewRequest("POST", "/api/v1/delete", bytes.NewReader(body))
	req.Header.Set("Content-Type", "application/json")
	resp, err := w.app.Test(req, -1)
	if err != nil {
		return 0, nil, err.Error()
	}
	defer resp.Body.Close()
	raw, _ := io.ReadAll(resp.Body)
	raw = volatile.ReplaceAll(raw, nil) // wall-clock noise must not reach descriptions
	var r deleteResp
	if err := json.Unmarshal(raw, &r); err != nil {
		return resp.StatusCode, nil, string(raw)
	}
	return resp.StatusCode, &r, string(raw)
}

// ---- judging one case ---------------------------------------------------------------

type outcome struct {
	Truth      string            `json:"truth"`                // one of T/F/N per dataset row, ascending id
	Kinds      map[string]string `json:"kinds,omitempty"`      // violated oracle kind -> detail
	NonTrivial bool              `json:"nontrivial,omitempty"` // some file holds both a selected row and a NULL-valued row
	Tolerated  bool              `json:"tolerated,omitempty"`  // a file lacking a referenced column failed and was excused
	DryCount   int64             `json:"dry"`
	DelCount   int64             `json:"del"`
	Status     int               `json:"http"`
}

func multisetDiff(a, b []string) (onlyA, onlyB []string) {
	cnt := map[string]int{}
	for _, s := range a {
		cnt[s]++
	}
	for _, s := range b {
		if cnt[s] > 0 {
			cnt[s]--
		} else {
			onlyB = append(onlyB, s)
		}
	}
	for _, s := range a {
		if cnt[s] > 0 {
			cnt[s]--
			onlyA = append(onlyA, s)
		}
	}
	return
}

// truths asks the oracle DuckDB for the per-row value (T/F/N) of every predicate, many per query.
func (w *worker) truths(L *layout, rows []*row, es []*expr) [][]byte {
	out := make([][]byte, len(es))
	const chunk = 32
	for lo := 0; lo < len(es); lo += chunk {
		hi := min(lo+chunk, len(es))
		var cols []string
		for _, e := range es[lo:hi] {
			cols = append(cols, "("+e.render()+")")
		}
		q := fmt.Sprintf("SELECT id, %s FROM %s WHERE id IN (%s) ORDER BY id", strings.Join(cols, ", "), L.table(), idList(rows))
		rs, err := w.oracle.Query(q)
		must(err, "oracle query")
		n := 0
		for rs.Next() {
			var id int
			vals := make([]sql.NullBool, hi-lo)
			ptrs := []any{&id}
			for i := range vals {
				ptrs = append(ptrs, &vals[i])
			}
			must(rs.Scan(ptrs...), "oracle scan")
			if n >= len(rows) || rows[n].ID != id {
				must(fmt.Errorf("unexpected id %d", id), "oracle rows")
			}
			for i, v := range vals {
				c := byte('N') // the predicate's value on this row: TRUE, FALSE or NULL
				if v.Valid && v.Bool {
					c = 'T'
				} else if v.Valid {
					c = 'F'
				}
				out[lo+i] = append(out[lo+i], c)
			}
			n++
		}
		must(rs.Err(), "oracle rows")
		rs.Close()
		if n != len(rows) {
			must(fmt.Errorf("%d rows, want %d", n, len(rows)), "oracle rows")
		}
	}
	// the reference evaluator must agree with DuckDB on every row of every predicate
	for i, e := range es {
		for j, r := range rows {
			if ref := "FTN"[e.eval(r)]; ref != out[i][j] {
				cleanup()
				ev.Unbound(fmt.Sprintf("oracle disagreement: DuckDB says %c, reference evaluator says %c for %q on %s", out[i][j], ref, e.render(), r.short()))
			}
		}
	}
	return out
}

func (w *worker) judge(ds *dataset, e *expr, tv []byte) *outcome {
	where := e.render()
	o := &outcome{Kinds: map[string]string{}}
	if tv == nil {
		tv = w.truths(ds.L, ds.Rows, []*expr{e})[0]
	}
	nT := int64(0)
	perFile := map[int]map[byte]int{1: {}, 2: {}}
	for i, r := range ds.Rows {
		if tv[i] == 'T' {
			nT++
		}
		perFile[r.File][tv[i]]++
	}
	o.Truth = string(tv)
	for f := 1; f <= 2; f++ {
		if perFile[f]['T'] > 0 && perFile[f]['N'] > 0 {
			o.NonTrivial = true
		}
	}
	var before []string
	for _, r := range ds.Rows {
		before = append(before, r.canon())
	}
	sort.Strings(before)

	dbname := w.materialise(ds)
	defer func() { os.RemoveAll(filepath.Join(w.storeDir(), dbname)) }()

	// dry run
	st, dr, raw := w.post(dbname, where, true)
	if st != 200 || dr == nil || !dr.Success || !dr.DryRun {
		o.Kinds["dryrun-failed"] = fmt.Sprintf("dry run answered HTTP %d %s", st, raw)
	} else {
		o.DryCount = dr.DeletedCount
		if dr.DeletedCount != nT {
			o.Kinds["dryrun-count"] = fmt.Sprintf("dry run reported deleted_count=%d, the predicate is true on %d rows", dr.DeletedCount, nT)
		}
	}
	unchanged := true
	for file, b := range ds.Files {
		cur, err := os.ReadFile(filepath.Join(w.storeDir(), dbname, fileRel[file]))
		if err != nil || !bytes.Equal(cur, b) {
			unchanged = false
		}
	}
	if !unchanged {
		got, err := w.readMeasurement(dbname)
		lost, extra := multisetDiff(before, got)
		if err != nil || len(lost) > 0 || len(extra) > 0 {
			o.Kinds["dryrun-changed"] = fmt.Sprintf("dry run changed the measurement: lost %v, new %v, read error %v", lost, extra, err)
			// restore, so that the confirmed delete below is judged on the stated dataset
			os.RemoveAll(filepath.Join(w.storeDir(), dbname))
			dbname = w.materialise(ds)
		}
	}

	// confirmed delete
	st, del, raw := w.post(dbname, where, false)
	o.Status = st
	failed := map[int]bool{}
	whole := false // the request failed as a whole
	if del == nil || (st != 200 && st != 207) {
		whole = true
		o.Kinds["delete-failed"] = fmt.Sprintf("confirmed delete answered HTTP %d %s", st, raw)
	} else {
		o.DelCount = del.DeletedCount
		for _, fn := range del.FailedFiles {
			file := 0
			for k, rel := range fileRel {
				if filepath.Base(rel) == fn {
					file = k
				}
			}
			failed[file] = true
			// excused only when the predicate references a column this file does not have (schema
			// evolution is outside the property's quantifier); anything else is a failed delete
			if file != 0 && e.refsB() && !ds.L.hasB(file) {
				o.Tolerated = true
			} else {
				o.Kinds["delete-failed"] = fmt.Sprintf("confirmed delete failed on %s: HTTP %d %s", fn, st, raw)
			}
		}
		if len(del.FailedFiles) == 0 && (!del.Success || st != 200 || del.DryRun) {
			o.Kinds["delete-failed"] = fmt.Sprintf("confirmed delete answered HTTP %d %s", st, raw)
		}
	}
	// the measurement afterwards
	after, err := w.readMeasurement(dbname)
	if err != nil {
		o.Kinds["unreadable-after"] = "measurement unreadable after delete: " + err.Error()
		return o
	}
	var expect []string
	byCanon := map[string]*row{}
	tOf := map[string]byte{}
	for i, r := range ds.Rows {
		c := r.canon()
		byCanon[c] = r
		tOf[c] = tv[i]
		if tv[i] != 'T' || whole || failed[r.File] {
			expect = append(expect, c)
		}
	}
	lost, extra := multisetDiff(expect, after)
	for _, c := range lost {
		r := byCanon[c]
		switch tOf[c] {
		case 'N':
			addDetail(o, "deleted-null-row", "removed "+r.short()+" on which the predicate is NULL")
		case 'F':
			addDetail(o, "deleted-false-row", "removed "+r.short()+" on which the predicate is FALSE")
		default:
			addDetail(o, "deleted-row-of-failed-file", "removed "+r.short()+" although the delete was reported failed for it")
		}
	}
	for _, c := range extra {
		if r, ok := byCanon[c]; ok && tOf[c] == 'T' {
			addDetail(o, "kept-true-row", "kept "+r.short()+" on which the predicate is TRUE")
		} else {
			addDetail(o, "foreign-row", "measurement now holds a row it never had: "+c)
		}
	}
	if del != nil && !whole {
		if gone := int64(len(before) - len(after)); del.DeletedCount != gone {
			o.Kinds["count-mismatch"] = fmt.Sprintf("deleted_count=%d but %d rows disappeared", del.DeletedCount, gone)
		}
	}
	return o
}

func addDetail(o *outcome, kind, d string) {
	if cur, ok := o.Kinds[kind]; ok {
		if strings.Count(cur, ";") < 2 {
			o.Kinds[kind] = cur + "; " + d
		}
		return
	}
	o.Kinds[kind] = d
}

// ---- task list, worker processes ---------------------------------------------------------

type task struct {
	e *expr
	l int
}

func buildTasks(run *ev.Run, layouts []*layout) ([]*expr, []task) {
	exprs := enumerate(!run.Quick() && os.Getenv("VERIF_C10_ORDERED") != "")
	if run.Quick() {
		exprs = quickSubset(exprs, layouts)
	}
	var tasks []task
	for _, e := range exprs {
		tasks = append(tasks, task{e, 0})
		if e.refsB() {
			tasks = append(tasks, task{e, 1}) // second layout: file 2 has column b as well
		}
	}
	if run.Seed != 0 { // VERIF_SEED only permutes the order
		rand.New(rand.NewSource(int64(run.Seed))).Shuffle(len(tasks), func(i, j int) { tasks[i], tasks[j] = tasks[j], tasks[i] })
	}
	return exprs, tasks
}

type result struct {
	I int      `json:"i"`
	O *outcome `json:"o"`
}

// child: judge the tasks of one shard and print one JSON line per case.
func childMain(run *ev.Run, spec string, layouts []*layout) {
	var k, n int
	var deadline int64
	fmt.Sscanf(spec, "%d/%d/%d", &k, &n, &deadline)
	t0 := time.Now()
	dbg := func(what string) {
		if os.Getenv("VERIF_C10_DEBUG") != "" {
			fmt.Fprintf(os.Stderr, "child %d: %s at %.2fs\n", k, what, time.Since(t0).Seconds())
		}
	}
	w := newWorker(k, layouts)
	dbg("worker ready")
	full := []*dataset{w.makeDataset(layouts[0], layouts[0].Rows), w.makeDataset(layouts[1], layouts[1].Rows)}
	dbg("datasets ready")
	_, tasks := buildTasks(run, layouts)
	dbg("tasks ready")
	var mine []int
	for i := range tasks {
		if i%n == k {
			mine = append(mine, i)
		}
	}
	tvs := map[int][]byte{}
	for l := range layouts {
		var es []*expr
		var ix []int
		for _, i := range mine {
			if tasks[i].l == l {
				es = append(es, tasks[i].e)
				ix = append(ix, i)
			}
		}
		for j, tv := range w.truths(layouts[l], layouts[l].Rows, es) {
			tvs[ix[j]] = tv
		}
	}
	dbg("truth vectors ready")
	out := bufio.NewWriter(os.Stdout)
	enc := json.NewEncoder(out)
	for _, i := range mine {
		if time.Now().Unix() >= deadline {
			break
		}
		o := w.judge(full[tasks[i].l], tasks[i].e, tvs[i])
		enc.Encode(result{i, o})
	}
	out.Flush()
	dbg("cases done")
	w.arcdb.Close()
	w.oracle.Close()
	os.Exit(0)
}

// ---- main ---------------------------------------------------------------------------

func main() {
	run := ev.Start("C10", "exploration")
	tStart := time.Now()
	layouts := []*layout{buildLayout("A", false), buildLayout("B", true)}
	if spec := os.Getenv("VERIF_C10_CHILD"); spec != "" {
		scratch = "" // the parent owns and removes the scratch tree
		childRoot = os.Getenv("VERIF_C10_SCRATCH")
		childMain(run, spec, layouts)
		return
	}
	scratch = fmt.Sprintf("/dev/shm/verif.c10.%d", os.Getpid())
	childRoot = scratch
	os.RemoveAll(scratch)
	must(os.MkdirAll(scratch, 0o755), "scratch")
	var procs []*exec.Cmd
	var procMu sync.Mutex
	killAll := func() {
		procMu.Lock()
		for _, c := range procs {
			if c.Process != nil {
				c.Process.Kill()
			}
		}
		procMu.Unlock()
	}
	sigc := make(chan os.Signal, 1)
	signal.Notify(sigc, syscall.SIGINT, syscall.SIGTERM)
	go func() { <-sigc; killAll(); cleanup(); os.Exit(2) }()

	// in-process worker: validates the fixtures, minimises, replays
	w0 := newWorker(999, layouts)
	full := make([]*dataset, len(layouts))
	for i, l := range layouts {
		full[i] = w0.makeDataset(l, l.Rows)
		db := w0.materialise(full[i])
		got, err := w0.readMeasurement(db)
		must(err, "fixture read-back")
		var want []string
		for _, r := range l.Rows {
			want = append(want, r.canon())
		}
		sort.Strings(want)
		if a, b := multisetDiff(want, got); len(a)+len(b) > 0 {
			must(fmt.Errorf("missing %v extra %v", a, b), "fixture files differ from generator ground truth")
		}
		os.RemoveAll(filepath.Join(w0.storeDir(), db))
	}
	if run.Replay != "" {
		replay(run, w0, layouts)
		return
	}

	exprs, tasks := buildTasks(run, layouts)
	nProcs := 16
	if n, err := strconv.Atoi(os.Getenv("VERIF_C10_WORKERS")); err == nil && n > 0 {
		nProcs = n
	}
	self, err := os.Executable()
	must(err, "os.Executable")
	results := make([]*outcome, len(tasks))
	var wg sync.WaitGroup
	var childErr atomic.Value
	for k := 0; k < nProcs; k++ {
		cmd := exec.Command(self, run.Tier)
		cmd.Env = append(os.Environ(), fmt.Sprintf("VERIF_C10_CHILD=%d/%d/%d", k, nProcs, run.Deadline.Unix()), "VERIF_C10_SCRATCH="+scratch,
			fmt.Sprintf("VERIF_SEED=%d", run.Seed))
		cmd.SysProcAttr = &syscall.SysProcAttr{Pdeathsig: syscall.SIGKILL}
		var stderr bytes.Buffer
		cmd.Stderr = &stderr
		pipe, err := cmd.StdoutPipe()
		must(err, "pipe")
		must(cmd.Start(), "start worker process")
		procMu.Lock()
		procs = append(procs, cmd)
		procMu.Unlock()
		wg.Add(1)
		go func() {
			defer wg.Done()
			sc := bufio.NewScanner(pipe)
			sc.Buffer(make([]byte, 1<<20), 1<<24)
			for sc.Scan() {
				line := sc.Bytes()
				var r result
				if json.Unmarshal(line, &r) != nil || r.O == nil || r.I < 0 || r.I >= len(tasks) {
					childErr.Store("worker process said: " + string(line))
					continue
				}
				results[r.I] = r.O
			}
			if os.Getenv("VERIF_C10_DEBUG") != "" {
				defer func() { os.Stderr.Write(stderr.Bytes()) }()
			}
			if err := cmd.Wait(); err != nil {
				childErr.Store(fmt.Sprintf("worker process failed: %v %s", err, stderr.String()))
			}
		}()
	}
	wg.Wait()
	if e := childErr.Load(); e != nil {
		cleanup()
		msg := e.(string)
		if i := strings.Index(msg, "HARNESS-UNBOUND: "); i >= 0 {
			msg = msg[i+len("HARNESS-UNBOUND: "):]
		}
		ev.Unbound(strings.TrimSpace(msg))
	}
	tEnum := time.Since(tStart)

	var evals, nontriv, tolerated, okResponses int
	truthAll := map[string]bool{}
	truthNT := map[string]bool{}
	kindHist := map[string]int{}
	samples := ev.NewSamples(8)
	complete := true
	type rawFail struct {
		t    task
		kind string
	}
	var fails []rawFail
	memo := map[string]*outcome{}
	for i, o := range results {
		if o == nil {
			complete = false
			continue
		}
		t := tasks[i]
		evals++
		memo[layouts[t.l].Name+"|"+t.e.render()] = o
		key := layouts[t.l].Name + ":" + o.Truth
		truthAll[key] = true
		if o.NonTrivial {
			nontriv++
			truthNT[key] = true
		}
		if o.Tolerated {
			tolerated++
		}
		if o.Status == 200 {
			okResponses++
		}
		kinds := make([]string, 0, len(o.Kinds))
		for k := range o.Kinds {
			kinds = append(kinds, k)
		}
		sort.Strings(kinds)
		for _, k := range kinds {
			kindHist[k]++
			fails = append(fails, rawFail{t, k})
		}
		if run.Seed == 0 && (i%(len(tasks)/6+1) == 0 || (o.NonTrivial && i%1499 == 0)) {
			samples.Add(map[string]any{"where": t.e.render(), "layout": layouts[t.l].Name, "truth_per_row": o.Truth,
				"dry_run_count": o.DryCount, "deleted_count": o.DelCount, "http": o.Status, "file_excused": o.Tolerated})
		}
	}
	if run.Seed != 0 {
		for i := 0; i < len(results) && i < 8; i++ {
			if o := results[i]; o != nil {
				samples.Add(map[string]any{"where": tasks[i].e.render(), "layout": layouts[tasks[i].l].Name, "truth_per_row": o.Truth,
					"dry_run_count": o.DryCount, "deleted_count": o.DelCount, "http": o.Status, "file_excused": o.Tolerated})
			}
		}
	}

	// ---- minimise every failure (predicate first, then layout, then dataset rows) and classify.
	// Sub-expressions of an enumerated predicate are themselves enumerated, so the verdicts of the
	// exhaustive pass serve as the memo; anything missing is executed now.
	minimRuns := 0
	jm := func(l int, e *expr) *outcome {
		k := layouts[l].Name + "|" + e.render()
		if o, ok := memo[k]; ok {
			return o
		}
		minimRuns++
		o := w0.judge(full[l], e, nil)
		memo[k] = o
		return o
	}
	sort.SliceStable(fails, func(i, j int) bool {
		a, b := fails[i], fails[j]
		if a.kind != b.kind {
			return a.kind < b.kind
		}
		if a.t.e.size() != b.t.e.size() {
			return a.t.e.size() < b.t.e.size()
		}
		if ra, rb := a.t.e.render(), b.t.e.render(); ra != rb {
			return ra < rb
		}
		return a.t.l < b.t.l
	})
	type minimal struct {
		e     *expr
		l     int
		kind  string
		count int
	}
	classes := map[string]*minimal{}
	for _, f := range fails {
		cur, l := f.t.e, f.t.l
		for changed := true; changed; {
			changed = false
			if l != 0 {
				if _, ok := jm(0, cur).Kinds[f.kind]; ok {
					l, changed = 0, true
					continue
				}
			}
			for _, s := range shrinks(cur) {
				if _, ok := jm(l, s).Kinds[f.kind]; ok {
					cur, changed = s, true
					break
				}
			}
		}
		sig := f.kind + "|" + cur.render()
		if l != 0 {
			sig += "|layout=" + layouts[l].Name
		}
		if c, ok := classes[sig]; ok {
			c.count++
		} else {
			classes[sig] = &minimal{cur, l, f.kind, 1}
		}
	}
	sigs := make([]string, 0, len(classes))
	for s := range classes {
		sigs = append(sigs, s)
	}
	sort.Strings(sigs)
	for _, s := range sigs {
		c := classes[s]
		L := layouts[c.l]
		pick := func(ix []int) []*row {
			var rows []*row
			for _, i := range ix {
				rows = append(rows, L.Rows[i])
			}
			return rows
		}
		failsOn := func(ix []int) bool {
			if len(ix) == 0 {
				return false
			}
			minimRuns++
			_, ok := w0.judge(w0.makeDataset(L, pick(ix)), c.e, nil).Kinds[c.kind]
			return ok
		}
		// replay on the full dataset in this process (the verdict came from a worker process), then
		// shrink the dataset: first to the rows of one file, then 1-minimal delta debugging on rows
		var idx, f1, f2 []int
		for i, r := range L.Rows {
			idx = append(idx, i)
			if r.File == 1 {
				f1 = append(f1, i)
			} else {
				f2 = append(f2, i)
			}
		}
		if !failsOn(idx) {
			cleanup()
			ev.Nondeterminism(fmt.Sprintf("%s on %q (layout %s) did not reproduce", c.kind, c.e.render(), L.Name))
		}
		if failsOn(f2) {
			idx = f2
		} else if failsOn(f1) {
			idx = f1
		}
		rows := pick(ev.Minimize(idx, failsOn))
		o := w0.judge(w0.makeDataset(L, rows), c.e, nil)
		o2 := w0.judge(w0.makeDataset(L, rows), c.e, nil)
		if _, ok := o.Kinds[c.kind]; !ok || o.Kinds[c.kind] != o2.Kinds[c.kind] || o.Truth != o2.Truth || o.DryCount != o2.DryCount || o.DelCount != o2.DelCount {
			cleanup()
			ev.Nondeterminism("minimal case for " + s + " did not reproduce identically")
		}
		var rtxt []string
		for _, r := range rows {
			rtxt = append(rtxt, r.short())
		}
		desc := fmt.Sprintf("confirmed delete WHERE %s on rows %s: %s (dry run reported %d, delete reported %d)", c.e.render(), strings.Join(rtxt, " "), o.Kinds[c.kind], o.DryCount, o.DelCount)
		rep := map[string]any{"where": c.e.render(), "layout": L.Name, "rows": rows, "truth_per_row": o.Truth, "kind": c.kind}
		for i := 0; i < c.count; i++ {
			run.Violate(s, desc, rep)
		}
	}

	depthHist := map[string]int{}
	for _, e := range exprs {
		depthHist[fmt.Sprint("depth", e.depth())]++
	}
	bound := "every expression of depth<=1 with ordered operands and repetitions, and every depth-2 expression up to commutativity of AND/OR (operands drawn from one representative per commutative depth-1 pair, each unordered operand pair once, a op a included)"
	if os.Getenv("VERIF_C10_ORDERED") != "" {
		bound = "every expression of depth<=2 with ordered operands and repetitions"
	}
	if run.Quick() {
		bound = quickBound
	}
	run.Coverage["evaluations"] = evals
	run.Coverage["distinct_nontrivial"] = len(truthNT)
	run.Coverage["nontrivial_cases"] = nontriv
	run.Coverage["distinct_truth_vectors"] = len(truthAll)
	run.Coverage["rule"] = "predicates over atoms {" + strings.Join(atoms, "; ") + "} with NOT/AND/OR: " + bound + ", plus 1=1; each predicate is run (dry run, then confirmed delete, through the real handler) on layout A = 2 files x 18 rows, the product x in {NULL,0,1} x s in {NULL,'a','ab'} x b in {NULL,true} in file 1 and the (x,s) product twice in file 2 which has no column b; predicates that mention b also run on layout B where file 2 has b. A case is non-trivial when some file holds both a row on which the predicate is TRUE and a row on which it is NULL (three-valued logic decides the rewrite of an affected file); distinct = distinct per-row TRUE/FALSE/NULL vectors (per layout) among non-trivial cases"
	run.Coverage["predicates"] = len(exprs)
	run.Coverage["predicates_by_depth"] = depthHist
	run.Coverage["cases"] = len(tasks)
	run.Coverage["delete_http_200"] = okResponses
	run.Coverage["file_failures_excused_missing_column"] = tolerated
	run.Coverage["violated_oracles_before_minimisation"] = kindHist
	run.Coverage["failing_cases_before_minimisation"] = len(fails)
	run.Coverage["minimisation_runs"] = minimRuns
	run.Coverage["reference_validated"] = true
	run.Coverage["samples"] = samples.List()
	run.Coverage["exhaustive"] = complete
	run.Coverage["worker_processes"] = nProcs
	run.Coverage["enumeration_s"] = tEnum.Seconds()
	run.Assume("the oracle is DuckDB's own three-valued value of the predicate (selected iff TRUE) on the generator's table, cross-checked on every row of every predicate against a from-the-standard Kleene evaluator in the harness; a disagreement stops the check (exit 2)")
	run.Assume("when the predicate mentions column b and file 2 has no such column (layout A) the handler reports that file in failed_files with HTTP 207; a missing column is outside the property's quantifier (nullable columns), so such a file is only required to be left untouched and the other file is judged in full; " + fmt.Sprint(tolerated) + " cases")
	run.Assume("LocalBackend only (the S3/Azure rewrite path issues the same SQL but is not driven); both requests carry confirm=true; dataset values beyond {NULL,0,1}/{NULL,'a','ab'}/{NULL,true} and predicates deeper than 2 are outside the bound")
	fmt.Printf("C10 predicates=%d cases=%d judged=%d nontrivial=%d distinct_truth_vectors=%d (nontrivial %d) http200=%d excused=%d failing=%d classes=%d enumeration=%.1fs\n",
		len(exprs), len(tasks), evals, nontriv, len(truthAll), len(truthNT), okResponses, tolerated, len(fails), len(classes), tEnum.Seconds())
	if len(truthAll) < 2 {
		fmt.Println("C10 VACUITY WARNING: fewer than two distinct truth vectors were produced")
	}
	w0.arcdb.Close()
	w0.oracle.Close()
	cleanup()
	run.Finish()
}

// replay runs one recorded case (the "replay" object of a replay file) and prints the verdict.
func replay(run *ev.Run, w *worker, layouts []*layout) {
	b, err := os.ReadFile(run.Replay)
	must(err, "replay file")
	var f struct {
		Replay struct {
			Where  string `json:"where"`
			Layout string `json:"layout"`
			Rows   []row  `json:"rows"`
		} `json:"replay"`
	}
	must(json.Unmarshal(b, &f), "replay json")
	var L *layout
	for _, l := range layouts {
		if l.Name == f.Replay.Layout {
			L = l
		}
	}
	if L == nil {
		must(fmt.Errorf("layout %q", f.Replay.Layout), "replay")
	}
	var e *expr
	for _, c := range enumerate(true) {
		if c.render() == f.Replay.Where {
			e = c
		}
	}
	if e == nil {
		must(fmt.Errorf("predicate %q is not in the grammar", f.Replay.Where), "replay")
	}
	var rows []*row
	for _, r := range L.Rows {
		for _, q := range f.Replay.Rows {
			if q.ID == r.ID {
				rows = append(rows, r)
			}
		}
	}
	o := w.judge(w.makeDataset(L, rows), e, nil)
	kinds := make([]string, 0, len(o.Kinds))
	for k := range o.Kinds {
		kinds = append(kinds, k)
	}
	sort.Strings(kinds)
	for _, k := range kinds {
		sig := k + "|" + e.render()
		if L.Name != "A" {
			sig += "|layout=" + L.Name
		}
		run.Violate(sig, o.Kinds[k], f.Replay)
	}
	fmt.Printf("C10 replay where=%q truth=%s dry=%d deleted=%d http=%d violated=%v\n", e.render(), o.Truth, o.DryCount, o.DelCount, o.Status, kinds)
	w.arcdb.Close()
	cleanup()
	run.Finish()
}
