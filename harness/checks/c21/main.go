// C21 — Revoked, deleted or rotated token values stop authenticating immediately.
// Stateless model checking of the real AuthManager: one token mutation racing 1-2 verifications of
// the same token (cache warm or cold), every schedule up to a deviation bound; scheduling points are
// the cache lock operations, every database operation (through a visible model of the 1-connection
// pool), channel operations of the last-used writer, goroutine starts and exits.
package main

import (
	"context"
	"encoding/json"
	"fmt"
	"os"
	"path/filepath"
	"strings"
	"sync/atomic"
	"time"

	"github.com/basekick-labs/arc/internal/auth"
	"github.com/basekick-labs/arc/zzverif/engine/ev"
	"github.com/basekick-labs/arc/zzverif/engine/sched"
	"github.com/basekick-labs/arc/zzverif/shim/vclock"
	"github.com/basekick-labs/arc/zzverif/shim/vsched"
	"github.com/basekick-labs/arc/zzverif/shim/vsync"
	_ "github.com/mattn/go-sqlite3"
	"github.com/rs/zerolog"
)

type spec struct {
	mut       string // revoke | delete | rotate | expire
	cluster   bool
	warm      bool
	verifiers int
}

func (s spec) name() string {
	mode := "direct"
	if s.cluster {
		mode = "cluster-apply"
	}
	c := "cold"
	if s.warm {
		c = "warm"
	}
	return fmt.Sprintf("%s/%s/cache-%s/%d verifier(s)", s.mut, mode, c, s.verifiers)
}

func specs() []spec {
	var out []spec
	for _, mut := range []string{"revoke", "delete", "rotate", "expire"} {
		for _, cl := range []bool{false, true} {
			if mut == "expire" && cl {
				continue
			}
			for _, warm := range []bool{false, true} {
				out = append(out, spec{mut, cl, warm, 1})
			}
			out = append(out, spec{mut, cl, false, 2})
		}
	}
	return out
}

func (p proposer) IsLeader() bool { return true }

// proposer applies the command synchronously on the same node, as the FSM apply callback does.
type proposer struct{ am *auth.AuthManager }

func (p proposer) Propose(ctx context.Context, ct uint8, payload []byte, _ time.Duration) error {
	var pl struct {
		ID        int64  `json:"id"`
		NewHash   string `json:"new_hash"`
		NewPrefix string `json:"new_prefix"`
	}
	if err := json.Unmarshal(payload, &pl); err != nil {
		return err
	}
	switch ct {
	case auth.ProposalCommandRevokeToken:
		return p.am.ApplyRevokeToken(pl.ID)
	case auth.ProposalCommandDeleteToken:
		return p.am.ApplyDeleteToken(pl.ID)
	case auth.ProposalCommandRotateToken:
		return p.am.ApplyRotateToken(pl.ID, pl.NewHash, pl.NewPrefix)
	}
	return fmt.Errorf("unsupported command %d", ct)
}

var seq atomic.Int64
var root = fmt.Sprintf("/dev/shm/verif.c21.%d", os.Getpid())

func scenarios() []sched.Scenario {
	var out []sched.Scenario
	for _, sp := range specs() {
		sp := sp
		out = append(out, sched.Scenario{Name: sp.name(), Setup: func() (func(), func() sched.Outcome, func()) {
			os.MkdirAll(root, 0o700)
			dbPath := filepath.Join(root, fmt.Sprintf("a%d.db", seq.Add(1)))
			vclock.Install(time.Unix(1_700_000_500, 0))
			var (
				setupErr   string
				mutErr     error
				mutRan     bool
				finalOK    bool
				concurrent []bool
			)
			body := func() {
				am, err := auth.NewAuthManager(dbPath, time.Hour, 100, zerolog.Nop())
				if err != nil {
					setupErr = err.Error()
					return
				}
				defer am.Close()
				tok, err := am.CreateToken(context.Background(), "t", "", "read,write", nil)
				if err != nil {
					setupErr = "create: " + err.Error()
					return
				}
				info := am.VerifyToken(tok)
				if info == nil {
					setupErr = "fresh token does not verify"
					return
				}
				id := info.ID
				if !sp.warm {
					am.InvalidateCache()
				}
				if sp.cluster {
					am.SetRaftProposer(proposer{am})
				}
				var wg vsync.WaitGroup
				wg.Add(1)
				vsched.Go("mutator", func() {
					defer wg.Done()
					switch sp.mut {
					case "revoke":
						mutErr = am.RevokeToken(context.Background(), id)
					case "delete":
						mutErr = am.DeleteToken(context.Background(), id)
					case "rotate":
						_, mutErr = am.RotateToken(context.Background(), id)
					case "expire":
						past := vclock.Now().Add(-time.Hour)
						mutErr = am.UpdateToken(context.Background(), id, nil, nil, nil, &past)
					}
					mutRan = true
				})
				concurrent = make([]bool, sp.verifiers)
				for i := 0; i < sp.verifiers; i++ {
					i := i
					wg.Add(1)
					vsched.Go(fmt.Sprintf("verifier%d", i), func() {
						defer wg.Done()
						concurrent[i] = am.VerifyToken(tok) != nil
					})
				}
				wg.Wait()
				finalOK = am.VerifyToken(tok) != nil
			}
			check := func() sched.Outcome {
				if setupErr != "" {
					return sched.Outcome{Key: "setup-error", Violation: "", Detail: setupErr}
				}
				key := fmt.Sprintf("mutErr=%v concurrent=%v final=%v", mutErr != nil, concurrent, finalOK)
				if mutRan && mutErr == nil && finalOK {
					return sched.Outcome{Key: key, Violation: "old-token-authenticates-after-" + sp.mut + "-returned", Detail: key}
				}
				return sched.Outcome{Key: key}
			}
			teardown := func() {
				os.Remove(dbPath)
				os.Remove(dbPath + "-wal")
				os.Remove(dbPath + "-shm")
			}
			return body, check, teardown
		}})
	}
	return out
}

func main() {
	sched.Main(scenarios)
	run := ev.Start("C21", "model_checking")
	defer os.RemoveAll(root)
	scs := scenarios()
	names := make([]string, len(scs))
	var jobs []sched.Job
	bound := 2
	if !run.Quick() {
		bound = 3
	}
	for i, s := range scs {
		names[i] = s.Name
		jobs = append(jobs, sched.Job{Scenario: i, Bound: bound, FreeCost: 1})
	}
	res, err := sched.RunSharded(names, jobs, 2, 16, run.Deadline, 5*time.Second)
	if err != nil {
		fmt.Println("HARNESS-UNBOUND:", err)
		os.RemoveAll(root)
		os.Exit(2)
	}
	var execs, stuck int
	var points int64
	outcomes := map[string]bool{}
	complete := true
	var per []map[string]any
	var samples []any
	setupErrs := 0
	for _, r := range res {
		execs += r.Execs
		points += r.Points
		stuck += r.Stuck
		complete = complete && r.Complete
		for k, n := range r.Outcomes {
			outcomes[r.Scenario+"|"+k] = true
			if k == "setup-error" {
				setupErrs += n
			}
		}
		if len(r.Nondet) > 0 {
			ev.Nondeterminism(strings.Join(r.Nondet, "; "))
		}
		for _, cl := range sched.SortedKeys(r.Violations) {
			v := r.Violations[cl]
			run.Violate(cl+"|"+r.Scenario, fmt.Sprintf("schedule with %d preemption(s): the old token value still authenticates after the mutation returned (%d schedules)", v.Preemptions, v.Count),
				map[string]any{"scenario": r.Scenario, "choices": v.Choices, "trace": v.Trace, "detail": v.Detail})
		}
		per = append(per, map[string]any{"scenario": r.Scenario, "bound": r.Bound, "schedules": r.Execs, "points": r.Points, "max_points": r.MaxPoints,
			"outcomes": r.Outcomes, "deadlocks": r.Deadlocks, "stuck": r.Stuck, "diverged": r.Diverged, "foreign_calls": r.Foreign, "complete": r.Complete})
		if len(r.Sample) > 0 && len(samples) < 2 {
			samples = append(samples, map[string]any{"scenario": r.Scenario, "longest_schedule": r.Sample})
		}
		fmt.Printf("scenario %q: bound=%d schedules=%d points=%d outcomes=%d stuck=%d diverged=%d foreign=%d complete=%v\n", r.Scenario, r.Bound, r.Execs, r.Points, len(r.Outcomes), r.Stuck, r.Diverged, r.Foreign, r.Complete)
		for _, d := range r.DivSamples {
			fmt.Println("  diverged:", d)
		}
	}
	if setupErrs > 0 {
		fmt.Printf("HARNESS-UNBOUND: %d executions could not set up the AuthManager\n", setupErrs)
		os.RemoveAll(root)
		os.Exit(2)
	}
	run.Coverage["states"] = len(outcomes)
	run.Coverage["transitions"] = points
	run.Coverage["traces_validated_against_impl"] = execs
	run.Coverage["schedules"] = execs
	run.Coverage["deviation_bound_completed"] = bound
	run.Coverage["blocked_infeasible"] = stuck
	run.Coverage["samples"] = samples
	run.Coverage["exhaustive"] = complete
	run.Coverage["scenarios"] = per
	run.Coverage["explanation"] = "states = distinct (scenario, observable outcome) pairs; transitions = scheduling points executed; each schedule is a run of the real AuthManager on a fresh SQLite file"
	run.Assume("PBKDF2 iteration count overridden to 1 at build time (test-time parameter only; the hash format and verify path are unchanged)")
	run.Assume("database/sql pool modelled as a counting semaphore with the limit the code sets (SetMaxOpenConns); SQLite itself runs for real")
	run.Assume("cluster-apply mode: the proposer applies synchronously on the proposing node, as the local FSM apply callback does")
	run.Finish()
}
