// C01 — Line-protocol points are stored exactly as written.
// Bounded-exhaustive enumeration of structured points; each is rendered to line protocol by the
// InfluxDB escaping rules (the generator IS the ground truth: the structure it rendered is what the
// line denotes) and pushed through the real parser and the real row-to-column grouping.
package main

import (
	"context"
	"fmt"
	"github.com/basekick-labs/arc/internal/config"
	"github.com/basekick-labs/arc/zzverif/hx"
	"github.com/rs/zerolog"
	"math"
	"reflect"
	"sort"
	"strings"
	"sync"
	"sync/atomic"

	"github.com/basekick-labs/arc/internal/ingest"
	"github.com/basekick-labs/arc/pkg/models"
	"github.com/basekick-labs/arc/zzverif/engine/ev"
)

// ---- structured point -------------------------------------------------------

type kv struct {
	K string
	V any // tag: string; field: float64|int64|uint64|string|bool
	// for non-string fields the literal spelling used on the wire
	Lit string
}

type point struct {
	M      string
	Tags   []kv
	Fields []kv
	TS     string // "" = absent
	Prec   string
}

func escName(s string, set string) string {
	var b strings.Builder
	for i := 0; i < len(s); i++ {
		if strings.IndexByte(set, s[i]) >= 0 {
			b.WriteByte('\\')
		}
		b.WriteByte(s[i])
	}
	return b.String()
}

func (p point) line() string {
	var b strings.Builder
	b.WriteString(escName(p.M, ", "))
	for _, t := range p.Tags {
		b.WriteByte(',')
		b.WriteString(escName(t.K, ",= "))
		b.WriteByte('=')
		b.WriteString(escName(t.V.(string), ",= "))
	}
	b.WriteByte(' ')
	for i, f := range p.Fields {
		if i > 0 {
			b.WriteByte(',')
		}
		b.WriteString(escName(f.K, ",= "))
		b.WriteByte('=')
		if s, ok := f.V.(string); ok && f.Lit == "" {
			b.WriteByte('"')
			b.WriteString(escName(s, "\"\\"))
			b.WriteByte('"')
		} else {
			b.WriteString(f.Lit)
		}
	}
	if p.TS != "" {
		b.WriteByte(' ')
		b.WriteString(p.TS)
	}
	return b.String()
}

// names: every atom sequence up to n over the alphabet; a raw backslash is only generated where
// line protocol can denote it unambiguously (followed by an ordinary character).
var nameAtoms = []string{"a", "ä", ",", " ", "=", "\"", "\\"}

func names(n int) []string {
	var out []string
	var rec func(cur []string)
	rec = func(cur []string) {
		if len(cur) > 0 {
			ok := true
			for i, a := range cur {
				if a == "\\" && (i+1 >= len(cur) || (cur[i+1] != "a" && cur[i+1] != "ä")) {
					ok = false
				}
			}
			if ok {
				out = append(out, strings.Join(cur, ""))
			}
		}
		if len(cur) == n {
			return
		}
		for _, a := range nameAtoms {
			rec(append(cur, a))
		}
	}
	rec(nil)
	return out
}

// string field values: any atom sequence (quotes and backslashes are escapable inside a string)
func strValues(n int) []string {
	var out []string
	var rec func(cur []string)
	rec = func(cur []string) {
		out = append(out, strings.Join(cur, ""))
		if len(cur) == n {
			return
		}
		for _, a := range nameAtoms {
			rec(append(cur, a))
		}
	}
	rec(nil)
	return out
}

type lit struct {
	s string
	v any
}

var literals = []lit{
	{"1", 1.0}, {"-1.5", -1.5}, {"1e3", 1000.0}, {"0.0", 0.0},
	{"1i", int64(1)}, {"-9223372036854775808i", int64(math.MinInt64)}, {"9223372036854775807i", int64(math.MaxInt64)},
	{"0u", uint64(0)}, {"18446744073709551615u", uint64(math.MaxUint64)},
	{"t", true}, {"T", true}, {"true", true}, {"TRUE", true}, {"True", true},
	{"f", false}, {"F", false}, {"false", false}, {"FALSE", false}, {"False", false},
}

var tsValues = []string{"", "0", "1", "-1", "999", "-999", "1000", "-1000", "1001", "-1001", "1700000000000000000", "-1700000000000000000",
	"9223372036854775807", "-9223372036854775808", "9223372036854775", "9223372036854776", "-9223372036854776", "9223372036855", "-9223372036855"}
var precs = []string{"ns", "us", "ms", "s", ""}

// expectedTS returns the set of acceptable microsecond values (nil = any, e.g. server time)
func expectedTS(ts, prec string) []int64 {
	if ts == "" {
		return nil
	}
	var raw int64
	fmt.Sscan(ts, &raw)
	switch prec {
	case "us":
		return []int64{raw}
	case "ms":
		if raw > math.MaxInt64/1000 || raw < math.MinInt64/1000 {
			return nil
		}
		return []int64{raw * 1000}
	case "s":
		if raw > math.MaxInt64/1_000_000 || raw < math.MinInt64/1_000_000 {
			return nil
		}
		return []int64{raw * 1_000_000}
	default:
		t := raw / 1000
		fl := t
		if raw%1000 != 0 && raw < 0 {
			fl = t - 1
		}
		if fl == t {
			return []int64{t}
		}
		return []int64{t, fl} // sub-microsecond negative remainder: truncation and floor both acceptable
	}
}

// ---- oracle -----------------------------------------------------------------

func check(p point, r *models.Record) string {
	if r.Measurement != p.M {
		return "wrong-measurement"
	}
	wantT := map[string]string{}
	for _, t := range p.Tags {
		wantT[t.K] = t.V.(string)
	}
	gotT := r.Tags
	if gotT == nil {
		gotT = map[string]string{}
	}
	if !reflect.DeepEqual(wantT, gotT) {
		return "wrong-tags"
	}
	wantF := map[string]any{}
	for _, f := range p.Fields {
		wantF[f.K] = f.V
	}
	if !reflect.DeepEqual(wantF, map[string]any(r.Fields)) {
		return "wrong-fields"
	}
	if exp := expectedTS(p.TS, p.Prec); exp != nil {
		ok := false
		for _, e := range exp {
			if e == r.Timestamp {
				ok = true
			}
		}
		if !ok {
			return "wrong-timestamp"
		}
	}
	return ""
}

var simple = point{M: "m", Tags: []kv{{K: "t", V: "v"}}, Fields: []kv{{K: "f", V: 1.0, Lit: "1"}}, TS: "5000", Prec: "ns"}
var other = point{M: "zz", Tags: []kv{{K: "h", V: "x"}}, Fields: []kv{{K: "g", V: int64(2), Lit: "2i"}}, TS: "7000", Prec: "ns"}

var parser = ingest.NewLineProtocolParser()

// judge parses a batch made of the point (optionally with the fixed neighbour before/after) and
// returns "" or the failure class.
func judge(p point, neighbour int) string {
	pts := []point{p}
	switch neighbour {
	case 1:
		pts = []point{p, other}
	case 2:
		pts = []point{other, p}
	}
	var lines []string
	for _, q := range pts {
		q.Prec = p.Prec
		lines = append(lines, q.line())
	}
	recs := parser.ParseBatchWithPrecision([]byte(strings.Join(lines, "\n")), p.Prec)
	if len(recs) < len(pts) {
		return "point-dropped"
	}
	if len(recs) > len(pts) {
		return "extra-point"
	}
	for i, q := range pts {
		q.Prec = p.Prec
		if c := check(q, recs[i]); c != "" {
			return c
		}
	}
	// row-to-column grouping: every point must be one row of its measurement with its columns
	col := ingest.BatchToColumnar(recs)
	for _, q := range pts {
		cr := col[q.M]
		if cr == nil {
			return "columnar-measurement-missing"
		}
		n := len(cr.Columns["time"])
		found := false
		for row := 0; row < n && !found; row++ {
			ok := true
			for _, t := range q.Tags {
				if c, has := cr.Columns[t.K]; !has || !reflect.DeepEqual(c[row], t.V) {
					ok = false
				}
			}
			for _, f := range q.Fields {
				if c, has := cr.Columns[f.K]; !has || !reflect.DeepEqual(c[row], f.V) {
					ok = false
				}
			}
			found = ok
		}
		if !found {
			return "columnar-row-missing"
		}
	}
	return ""
}

// ---- storage stage ------------------------------------------------------------
// The property says "stored": a sequence of accepted requests goes parser -> BatchToColumnar ->
// ArrowBuffer.WriteColumnarRecord (as the line-protocol handler does) into ONE buffer, is flushed once
// (so the batches of all requests are merged), and the stored Parquet files are read back with an
// independent reader. Every point must be exactly one stored row of its measurement with exactly its
// tags, fields and timestamp (absent columns NULL).
func storeJudge(reqs [][]point) string {
	mem := hx.NewMemBackend()
	cfg := &config.IngestConfig{MaxBufferSize: 1 << 20, MaxBufferAgeMS: 3_600_000, Compression: "snappy", FlushWorkers: 1,
		FlushQueueSize: 4, ShardCount: 1, FlushTimeoutSeconds: 3600, WriteStatistics: true}
	buf := ingest.NewArrowBuffer(cfg, mem, zerolog.Nop())
	var want []hx.Row
	for _, pts := range reqs {
		var lines []string
		for _, q := range pts {
			lines = append(lines, q.line())
			exp := expectedTS(q.TS, q.Prec)
			if len(exp) != 1 {
				return "harness:storage-stage-needs-unambiguous-timestamps"
			}
			r := hx.Row{"time": exp[0]}
			for _, t := range q.Tags {
				r[t.K] = t.V
			}
			for _, f := range q.Fields {
				r[f.K] = f.V
			}
			want = append(want, r)
		}
		recs := parser.ParseBatchWithPrecision([]byte(strings.Join(lines, "\n")), pts[0].Prec)
		if len(recs) != len(pts) {
			buf.Close()
			return "point-dropped"
		}
		col := ingest.BatchToColumnar(recs)
		ms := make([]string, 0, len(col))
		for m := range col {
			ms = append(ms, m)
		}
		sort.Strings(ms)
		for _, m := range ms {
			if err := buf.WriteColumnarRecord(context.Background(), "db", col[m]); err != nil {
				buf.Close()
				return "write-rejected"
			}
		}
	}
	buf.FlushAll(context.Background())
	buf.Close()
	paths, files := mem.Snapshot()
	var got []hx.Row
	for _, p := range paths {
		rows, _, _, err := hx.ReadParquet(files[p])
		if err != nil {
			return "stored-file-unreadable"
		}
		for _, r := range rows {
			for c, v := range r {
				if v == nil {
					delete(r, c)
				}
			}
			got = append(got, r)
		}
	}
	if len(got) < len(want) {
		return "stored-row-missing"
	}
	if len(got) > len(want) {
		return "stored-row-extra"
	}
	if d := hx.DiffMultiset(hx.Multiset(want), hx.Multiset(got)); d != "" {
		return "stored-row-differs"
	}
	return ""
}

// storeCases: request sequences for the storage stage. Points of one measurement "m" with distinct
// timestamps; a point may omit a field or tag that other points carry (sparse columns -> validity
// bitmaps), in every position of up to 3 requests of up to 2 points.
func storeCases(quick bool) [][][]point {
	mk := func(i int, shape int) point {
		p := point{M: "m", TS: fmt.Sprint(int64(i+1) * 1000), Prec: "ns"}
		// shape bits: 1 = tag t, 2 = float field f, 4 = int field g, 8 = string field s (at least one field)
		if shape&1 != 0 {
			p.Tags = append(p.Tags, kv{K: "t", V: fmt.Sprintf("v%d", i)})
		}
		if shape&2 != 0 {
			p.Fields = append(p.Fields, kv{K: "f", V: float64(i) + 0.5, Lit: fmt.Sprintf("%d.5", i)})
		}
		if shape&4 != 0 {
			p.Fields = append(p.Fields, kv{K: "g", V: int64(i + 10), Lit: fmt.Sprintf("%di", i+10)})
		}
		if shape&8 != 0 {
			p.Fields = append(p.Fields, kv{K: "s", V: fmt.Sprintf("x%d", i)})
		}
		return p
	}
	shapes := []int{2, 3, 6, 7, 10, 4}
	if !quick {
		shapes = []int{2, 3, 4, 5, 6, 7, 8, 10, 14, 15}
	}
	var out [][][]point
	// two requests of two points each: every assignment of shapes to the 4 points
	for _, a := range shapes {
		for _, b := range shapes {
			for _, c := range shapes {
				for _, d := range shapes {
					out = append(out, [][]point{{mk(0, a), mk(1, b)}, {mk(2, c), mk(3, d)}})
				}
			}
		}
	}
	// three requests of one point each
	for _, a := range shapes {
		for _, b := range shapes {
			for _, c := range shapes {
				out = append(out, [][]point{{mk(0, a)}, {mk(1, b)}, {mk(2, c)}})
			}
		}
	}
	return out
}

// shrink candidates: strictly simpler points
func shrinks(p point) []point {
	var out []point
	simplify := func(s string) []string {
		var o []string
		if s != "a" {
			o = append(o, "a")
		}
		r := []rune(s)
		if len(r) > 1 {
			for i := range r {
				o = append(o, string(r[:i])+string(r[i+1:]))
			}
		}
		return o
	}
	for _, s := range simplify(p.M) {
		q := clone(p)
		q.M = s
		out = append(out, q)
	}
	for i := range p.Tags {
		q := clone(p)
		q.Tags = append(q.Tags[:i:i], q.Tags[i+1:]...)
		out = append(out, q)
		for _, s := range simplify(p.Tags[i].K) {
			q := clone(p)
			q.Tags[i].K = s
			out = append(out, q)
		}
		for _, s := range simplify(p.Tags[i].V.(string)) {
			q := clone(p)
			q.Tags[i].V = s
			out = append(out, q)
		}
	}
	for i := range p.Fields {
		if len(p.Fields) > 1 {
			q := clone(p)
			q.Fields = append(q.Fields[:i:i], q.Fields[i+1:]...)
			out = append(out, q)
		}
		for _, s := range simplify(p.Fields[i].K) {
			q := clone(p)
			q.Fields[i].K = s
			out = append(out, q)
		}
		if sv, ok := p.Fields[i].V.(string); ok && p.Fields[i].Lit == "" {
			for _, s := range simplify(sv) {
				q := clone(p)
				q.Fields[i].V = s
				out = append(out, q)
			}
			if sv != "a" {
				q := clone(p)
				q.Fields[i].V = ""
				out = append(out, q)
			}
		} else if p.Fields[i].Lit != "1" {
			q := clone(p)
			q.Fields[i] = kv{K: p.Fields[i].K, V: 1.0, Lit: "1"}
			out = append(out, q)
		}
	}
	if p.TS != "5000" {
		q := clone(p)
		q.TS, q.Prec = "5000", "ns"
		out = append(out, q)
	}
	return valid(out)
}

func clone(p point) point {
	q := p
	q.Tags = append([]kv{}, p.Tags...)
	q.Fields = append([]kv{}, p.Fields...)
	return q
}

// valid filters points the quantifier excludes (reserved/duplicate/empty names)
func valid(ps []point) []point {
	var out []point
	for _, p := range ps {
		if okPoint(p) {
			out = append(out, p)
		}
	}
	return out
}

func okPoint(p point) bool {
	if p.M == "" || strings.HasPrefix(p.M, "#") || len(p.Fields) == 0 {
		return false
	}
	seen := map[string]bool{"time": true, "measurement": true}
	for _, t := range p.Tags {
		if t.K == "" || t.V.(string) == "" || seen[t.K] {
			return false
		}
		seen[t.K] = true
	}
	for _, f := range p.Fields {
		if f.K == "" || seen[f.K] || seen[strings.TrimSuffix(f.K, "_value")] {
			return false
		}
		seen[f.K] = true
	}
	return true
}

func features(p point) bool {
	s := p.M
	for _, t := range p.Tags {
		s += t.K + t.V.(string)
	}
	for _, f := range p.Fields {
		s += f.K
		if sv, ok := f.V.(string); ok {
			s += sv
		}
	}
	return strings.ContainsAny(s, ", =\"\\")
}

func main() {
	run := ev.Start("C01", "exploration")
	n1, n2 := 3, 2
	if !run.Quick() {
		n1, n2 = 4, 3
	}
	nm1, nm2 := names(n1), names(n2)
	sv1, sv2 := strValues(n1), strValues(n2)
	var pts []point
	add := func(p point) {
		if okPoint(p) {
			pts = append(pts, p)
		}
	}
	// (1) one element varied at a time, long names
	for _, s := range nm1 {
		p := clone(simple)
		p.M = s
		add(p)
		p = clone(simple)
		p.Tags[0].K = s
		add(p)
		p = clone(simple)
		p.Tags[0].V = s
		add(p)
		p = clone(simple)
		p.Fields[0].K = s
		add(p)
		// second tag / second field positions
		p = clone(simple)
		p.Tags = append(p.Tags, kv{K: s, V: "w"})
		add(p)
		p = clone(simple)
		p.Tags = append(p.Tags, kv{K: "u", V: s})
		add(p)
		p = clone(simple)
		p.Fields = append(p.Fields, kv{K: s, V: int64(3), Lit: "3i"})
		add(p)
		p = clone(simple)
		p.Tags = nil
		p.M = s
		add(p)
	}
	for _, s := range sv1 {
		p := clone(simple)
		p.Fields[0] = kv{K: "f", V: s}
		add(p)
		p = clone(simple)
		p.Fields = []kv{{K: "s", V: s}, {K: "f", V: 1.0, Lit: "1"}}
		add(p)
		p = clone(simple)
		p.Fields = []kv{{K: "f", V: 1.0, Lit: "1"}, {K: "s", V: s}}
		p.TS = ""
		add(p)
	}
	// (2) every pair of elements varied together, shorter names
	for _, a := range nm2 {
		for _, b := range nm2 {
			p := clone(simple)
			p.M, p.Tags[0].K = a, b
			add(p)
			p = clone(simple)
			p.M, p.Tags[0].V = a, b
			add(p)
			p = clone(simple)
			p.M, p.Fields[0].K = a, b
			add(p)
			p = clone(simple)
			p.Tags[0].K, p.Tags[0].V = a, b
			add(p)
			p = clone(simple)
			p.Tags[0].K, p.Fields[0].K = a, b
			add(p)
			p = clone(simple)
			p.Tags[0].V, p.Fields[0].K = a, b
			add(p)
		}
		for _, b := range sv2 {
			p := clone(simple)
			p.M = a
			p.Fields[0] = kv{K: "f", V: b}
			add(p)
			p = clone(simple)
			p.Tags[0].V = a
			p.Fields[0] = kv{K: "f", V: b}
			add(p)
			p = clone(simple)
			p.Fields[0] = kv{K: a, V: b}
			add(p)
		}
	}
	// (3) field literal x timestamp x precision grid
	for _, l := range literals {
		for _, ts := range tsValues {
			for _, pr := range precs {
				p := clone(simple)
				p.Fields[0] = kv{K: "f", V: l.v, Lit: l.s}
				p.TS, p.Prec = ts, pr
				add(p)
			}
		}
	}
	var evals, nontriv int64
	distinct := sync.Map{}
	samples := ev.NewSamples(8)
	type fail struct {
		p     point
		nb    int
		class string
	}
	var fmu sync.Mutex
	var fails []fail
	var next int64 = -1
	var wg sync.WaitGroup
	complete := int32(1)
	for w := 0; w < 16; w++ {
		wg.Add(1)
		go func() {
			defer wg.Done()
			for {
				i := int(atomic.AddInt64(&next, 1))
				if i >= len(pts) {
					return
				}
				if i%4096 == 0 && run.TimeUp() {
					atomic.StoreInt32(&complete, 0)
					return
				}
				p := pts[i]
				ln := p.line()
				if _, dup := distinct.LoadOrStore(ln+"|"+p.Prec, true); dup {
					continue
				}
				if features(p) {
					atomic.AddInt64(&nontriv, 1)
				}
				if i%9973 == 0 {
					samples.Add(ln)
				}
				for nb := 0; nb < 3; nb++ {
					atomic.AddInt64(&evals, 1)
					if c := judge(p, nb); c != "" {
						fmu.Lock()
						fails = append(fails, fail{p, nb, c})
						fmu.Unlock()
						break
					}
				}
			}
		}()
	}
	wg.Wait()
	// (4) storage stage: every escaped-name point alone, and every sparse-column request sequence
	var storeEvals int64
	storeFail := map[string]any{}
	var smu sync.Mutex
	{
		var cases [][][]point
		for _, p := range pts {
			if exp := expectedTS(p.TS, p.Prec); len(exp) == 1 && p.Prec == "ns" && p.TS == simple.TS {
				cases = append(cases, [][]point{{p}}, [][]point{{other}, {p}})
			}
		}
		cases = append(cases, storeCases(run.Quick())...)
		var nx int64 = -1
		var swg sync.WaitGroup
		for w := 0; w < 16; w++ {
			swg.Add(1)
			go func() {
				defer swg.Done()
				for {
					i := int(atomic.AddInt64(&nx, 1))
					if i >= len(cases) {
						return
					}
					if i%512 == 0 && run.TimeUp() {
						atomic.StoreInt32(&complete, 0)
						return
					}
					atomic.AddInt64(&storeEvals, 1)
					if c := storeJudge(cases[i]); c != "" {
						// minimise: drop requests, then points, while the same class remains
						cur := cases[i]
						for changed := true; changed; {
							changed = false
							for r := 0; r < len(cur) && !changed; r++ {
								if len(cur) > 1 {
									x := append(append([][]point{}, cur[:r]...), cur[r+1:]...)
									if storeJudge(x) == c {
										cur, changed = x, true
										break
									}
								}
								for k := 0; k < len(cur[r]) && len(cur[r]) > 1; k++ {
									x := append([][]point{}, cur...)
									x[r] = append(append([]point{}, cur[r][:k]...), cur[r][k+1:]...)
									if storeJudge(x) == c {
										cur, changed = x, true
										break
									}
								}
							}
						}
						var desc []string
						for _, r := range cur {
							var ls []string
							for _, q := range r {
								ls = append(ls, q.line())
							}
							desc = append(desc, strings.Join(ls, " \\n "))
						}
						sig := c + "|" + strings.Join(desc, " ; ")
						smu.Lock()
						if _, ok := storeFail[sig]; !ok {
							storeFail[sig] = map[string]any{"requests": desc}
						}
						smu.Unlock()
					}
				}
			}()
		}
		swg.Wait()
	}
	{
		ks := make([]string, 0, len(storeFail))
		for k := range storeFail {
			ks = append(ks, k)
		}
		sort.Strings(ks)
		for _, k := range ks {
			run.Violate(k, "request sequence written through the real ArrowBuffer and flushed once: the stored Parquet rows are not the points that were written", storeFail[k])
		}
	}
	run.Coverage["storage_stage_sequences"] = storeEvals
	// minimise each failure greedily, then classify by (class, minimal line)
	minimal := map[string]fail{}
	memo := map[string]string{}
	jm := func(p point, nb int) string {
		k := fmt.Sprintf("%d|%s|%s", nb, p.Prec, p.line())
		if c, ok := memo[k]; ok {
			return c
		}
		c := judge(p, nb)
		memo[k] = c
		return c
	}
	for _, f := range fails {
		cur := f
		for changed := true; changed; {
			changed = false
			if cur.nb != 0 {
				if c := jm(cur.p, 0); c != "" {
					cur.nb, cur.class = 0, c
					changed = true
					continue
				}
			}
			for _, q := range shrinks(cur.p) {
				if c := jm(q, cur.nb); c != "" {
					cur.p, cur.class = q, c
					changed = true
					break
				}
			}
		}
		sig := cur.class + "|" + cur.p.line()
		if cur.nb != 0 {
			sig += fmt.Sprintf("|neighbour=%d", cur.nb)
		}
		if cur.p.Prec != "ns" {
			sig += "|precision=" + cur.p.Prec
		}
		if _, ok := minimal[sig]; !ok {
			minimal[sig] = cur
		}
	}
	sigs := make([]string, 0, len(minimal))
	for s := range minimal {
		sigs = append(sigs, s)
	}
	sort.Strings(sigs)
	for _, s := range sigs {
		f := minimal[s]
		run.Violate(s, "the parser does not return the point this line denotes ("+f.class+")", map[string]any{"line": f.p.line(), "precision": f.p.Prec, "denotes": f.p, "neighbour": f.nb})
	}
	run.Coverage["evaluations"] = evals
	run.Coverage["distinct_nontrivial"] = nontriv
	run.Coverage["rule"] = fmt.Sprintf("points rendered from structures: each of measurement/tag key/tag value/field key over every atom sequence of length<=%d of {a,ä,',',' ','=','\"','\\\\'} (one element at a time, in first and second positions), every pair of elements over length<=%d, string field values likewise, and the full grid of %d field literals x %d timestamps x %d precisions; each point parsed alone, before and after a fixed neighbour line; storage stage: every ns-precision point alone and after a request for another measurement, and every sequence of 2 requests x 2 points / 3 requests x 1 point of one measurement over point shapes that carry or omit a tag and float/int/string fields, written through the real ArrowBuffer, flushed once (batches merged) and read back from Parquet; non-trivial = the point contains at least one escapable character; distinct by rendered line+precision", n1, n2, len(literals), len(tsValues), len(precs))
	run.Coverage["samples"] = samples.List()
	run.Coverage["failing_inputs_before_minimisation"] = len(fails)
	run.Coverage["exhaustive"] = complete == 1
	run.Assume("a raw backslash in a name is generated only where line protocol denotes it unambiguously (followed by an ordinary character); reserved names (time, measurement, a field named like a tag) excluded as the property's quantifier says")
	run.Assume("out-of-range ms/s timestamps and absent timestamps take server time and are not compared; negative sub-microsecond ns remainders accept truncation or floor")
	run.Finish()
}
