// C27: worker processes.
//
// One history = one fresh world (two SQLite files, two directory trees, a real Agent) — inside ONE process the histories
// of 16 goroutines serialise on SQLite's process-wide mutexes and (measured) run slower than on a single goroutine. So the
// parent process only searches (generates children, matches states, books results) and hands every history to one of N
// single-threaded worker processes (this binary with VERIF_C27_WORKER=1) over a JSON-lines pipe. A history's result is a
// pure function of the history (and, for the chain universe, of the frozen set of already-extended states that the parent
// broadcasts between levels), so which worker runs it does not matter.
package main

import (
	"bufio"
	"encoding/json"
	"fmt"
	"io"
	"os"
	"os/exec"
	"strings"
	"sync"
	"time"

	"github.com/basekick-labs/arc/zzverif/engine/ev"
)

type wireReq struct {
	Op     string         `json:"op"` // "run" | "seen"
	H      history        `json:"h"`
	WantEv bool           `json:"want_ev,omitempty"`
	Root   int            `json:"root"` // chain root whose extended-state set applies; -1 = none
	B      bounds         `json:"b"`
	End    map[string]int `json:"end,omitempty"` // "seen": states extended at the end of a run (state -> earliest run)
	Ev     map[string]int `json:"ev,omitempty"`  // "seen": states extended right after a gap event
}

type wireResult struct {
	H            history        `json:"h"`
	Points       []pointInfo    `json:"points"`
	Viols        []rawViol      `json:"viols"`
	Inapplicable string         `json:"inapplicable"`
	Trace        []string       `json:"trace"`
	Canons       []string       `json:"canons"`
	Steps        int            `json:"steps"`
	TransSeen    map[string]int `json:"trans"`
	OutcomeSeen  map[string]int `json:"outcomes"`
	ClosingRuns  int            `json:"closing"`
	AgentErrs    int            `json:"agent_errs"`
	Final        string         `json:"final"`
	Key          string         `json:"key"`
	KeyRun       int            `json:"key_run"`
	KeyAfterEv   bool           `json:"key_after_ev"`
	Cut          bool           `json:"cut"`
	CkSeen       map[string]int `json:"ck"`
	LaterSame    bool           `json:"later_same"`
	HubSeen      map[string]int `json:"hub_seen"`
	HubFailed    map[string]int `json:"hub_failed"`
	HubFired     []pert         `json:"hub_fired"`
}

func toWire(r *result) *wireResult {
	return &wireResult{r.h, r.points, r.viols, r.inapplicable, r.trace, r.canons, r.steps, r.transSeen, r.outcomeSeen, r.closingRuns, r.agentErrs,
		r.final, r.key, r.keyRun, r.keyAfterEv, r.cut, r.ckSeen, r.laterSame, r.hubSeen, r.hubFailed, r.hubFired}
}

func fromWire(x *wireResult) *result {
	return &result{x.H, x.Points, x.Viols, x.Inapplicable, x.Trace, x.Canons, x.Steps, x.TransSeen, x.OutcomeSeen, x.ClosingRuns, x.AgentErrs,
		x.Final, x.Key, x.KeyRun, x.KeyAfterEv, x.Cut, x.CkSeen, x.LaterSame, x.HubSeen, x.HubFailed, x.HubFired}
}

func covered(m map[string]int, k string, r int) bool { at, ok := m[k]; return ok && at <= r }

func stateKey(h history, b bounds, state string) string { return budgetKey(h, b) + "|" + state }

// workerMain serves requests until stdin closes.
func workerMain() {
	in := bufio.NewReaderSize(os.Stdin, 1<<20)
	out := bufio.NewWriterSize(os.Stdout, 1<<20)
	seenEnd, seenEv := map[int]map[string]int{}, map[int]map[string]int{}
	for {
		line, err := in.ReadBytes('\n')
		if err != nil {
			return // parent closed the pipe (or died)
		}
		var req wireReq
		if err := json.Unmarshal(line, &req); err != nil {
			ev.Unbound("worker: bad request: " + err.Error())
		}
		var reply any = struct{}{}
		switch req.Op {
		case "seen":
			if seenEnd[req.Root] == nil {
				seenEnd[req.Root], seenEv[req.Root] = map[string]int{}, map[string]int{}
			}
			for k, v := range req.End {
				seenEnd[req.Root][k] = v
			}
			for k, v := range req.Ev {
				seenEv[req.Root][k] = v
			}
		case "run":
			var cov func(string, int, bool) bool
			if req.Root >= 0 {
				se, sv := seenEnd[req.Root], seenEv[req.Root]
				cov = func(state string, r int, afterEv bool) bool {
					k := stateKey(req.H, req.B, state)
					return covered(se, k, r) || (afterEv && covered(sv, k, r))
				}
			}
			okF, okC, okE, okH := room(req.H, req.B)
			reply = toWire(runHistoryCut(req.H, req.WantEv, !okF && !okC && !okE && !okH, cov))
		default:
			ev.Unbound("worker: unknown op " + req.Op)
		}
		b, err := json.Marshal(reply)
		if err != nil {
			ev.Unbound("worker: marshal: " + err.Error())
		}
		out.Write(b)
		out.WriteByte('\n')
		if err := out.Flush(); err != nil {
			return
		}
	}
}

type poolWorker struct {
	cmd   *exec.Cmd
	stdin io.WriteCloser
	out   *bufio.Reader
}

type pool struct {
	idle chan *poolWorker
	all  []*poolWorker
	once sync.Once
	cpu  time.Duration // after close: CPU time the workers used
}

func startPool(n int) *pool {
	exe, err := os.Executable()
	must(err, "executable")
	p := &pool{idle: make(chan *poolWorker, n)}
	for i := 0; i < n; i++ {
		cmd := exec.Command(exe, os.Args[1:]...)
		cmd.Env = append(os.Environ(), "VERIF_C27_WORKER=1", "GOMAXPROCS=1")
		cmd.Stderr = os.Stderr
		stdin, err := cmd.StdinPipe()
		must(err, "worker stdin")
		stdout, err := cmd.StdoutPipe()
		must(err, "worker stdout")
		must(cmd.Start(), "start worker")
		w := &poolWorker{cmd: cmd, stdin: stdin, out: bufio.NewReaderSize(stdout, 1<<20)}
		p.all = append(p.all, w)
		p.idle <- w
	}
	return p
}

func (p *pool) fail(what string) {
	p.close()
	if scratch != "" {
		os.RemoveAll(scratch)
	}
	if strings.HasPrefix(what, "HARNESS-") {
		fmt.Println(what)
		os.Exit(2)
	}
	ev.Unbound(what)
}

// call sends one request to one worker and reads its one-line answer.
func (p *pool) call(w *poolWorker, req *wireReq, into any) {
	b, err := json.Marshal(req)
	must(err, "marshal request")
	if _, err := w.stdin.Write(append(b, '\n')); err != nil {
		p.fail("worker pipe: " + err.Error())
	}
	line, err := w.out.ReadBytes('\n')
	if err != nil {
		p.fail(fmt.Sprintf("worker died while running %s: %v %s", req.H.String(), err, strings.TrimSpace(string(line))))
	}
	if strings.HasPrefix(string(line), "HARNESS-") {
		p.fail(strings.TrimSpace(string(line)))
	}
	if err := json.Unmarshal(line, into); err != nil {
		p.fail("worker answer: " + err.Error())
	}
}

// run executes one history on an idle worker.
func (p *pool) run(h history, wantEv bool, root int, b bounds) *result {
	w := <-p.idle
	var x wireResult
	p.call(w, &wireReq{Op: "run", H: h, WantEv: wantEv, Root: root, B: b}, &x)
	p.idle <- w
	return fromWire(&x)
}

// broadcastSeen tells every worker which states were extended (call only while no history is running).
func (p *pool) broadcastSeen(root int, end, evs map[string]int) {
	req := &wireReq{Op: "seen", Root: root, End: end, Ev: evs}
	var wg sync.WaitGroup
	for range p.all {
		w := <-p.idle
		wg.Add(1)
		go func() {
			defer wg.Done()
			var ack struct{}
			p.call(w, req, &ack)
		}()
		defer func() { p.idle <- w }()
	}
	wg.Wait()
}

func (p *pool) close() {
	p.once.Do(func() {
		for _, w := range p.all {
			w.stdin.Close()
		}
		for _, w := range p.all {
			w.cmd.Wait()
			if ps := w.cmd.ProcessState; ps != nil {
				p.cpu += ps.UserTime() + ps.SystemTime()
			}
		}
	})
}
