// C27 — Edge sync delivers each file exactly once with verified content.
//
// The REAL spoke side (edgesync.Agent.Run -> reconcileAndSend -> sendAll -> sendOne, edgesync.Ledger on a
// SQLite file, edgesync.Discoverer, the compaction gate) talks to the REAL hub side (edgesync.Receiver,
// edgesync.Reconciler, edgesync.HubIndex on a second SQLite file, storage.LocalBackend on both sides)
// through faultTransport (below): a SyncTransport that does what HTTPTransport + the hub's HTTP handler
// do (buffer the body, call Reconciler.Reconcile / Receiver.Receive, hand the answer back) and can
// perturb every single call.
//
// Enumerated space (explicit, exhaustive inside the stated bound; see coverage.rule):
//
//	a history = 3 agent runs ("main runs") + fault-free closing runs until the ledger is quiescent;
//	perturbations are attached to *points* of the execution — every transport call (k-th call of a run)
//	and every gap after a main run:
//	  fault  on a call : drop-before-commit | drop-after-commit | short-body | short-body+lost-ack |
//	                     corrupted-byte | short+corrupted | backpressure | conflict      (PutFile)
//	                     drop-before | drop-after | conflict                                 (Reconcile)
//	  crash  on a call : the spoke dies before the request leaves / after the hub processed it
//	                     (context cancelled, nothing of the ledger is written any more, next run is a fresh
//	                     Agent + fresh Ledger + re-opened SQLite handle -> RecoverInFlight)
//	  event  before a call or in a gap : spoke file vanishes (retention), spoke compaction (through the
//	                     real delivery gate + compacted-output observer), hub file vanishes, hub compaction
//	                     consumes a received file (HubIndex.MarkCompacted + delete), hub sweeps staging.
//	Every placement of <=F faults, <=C crashes, <=E events is executed (children are generated from the
//	parent's executed trace, so "the k-th call gets outcome o" is enumerated for every reachable k).
//
// Hub-fault dimension (hubfault.go): while the real hub serves a transport call, every statement its index sends to
// SQLite (SELECT / UPSERT / DELETE / UPDATE) and every storage call of Receiver / Reconciler (Exists / StatFile /
// WriteReader / AppendReader / ReadTo / Delete) is recorded and can be failed, `once` or `persistent`; one hub fault is
// placed at every hub operation of every transport call of the main runs, alone and combined with <=1 call fault or
// spoke crash and <=1 storage event in every order (quick: in a 2-run configuration, thorough: 3 runs).
//
// Execution (pool.go): the parent process searches, N single-threaded worker processes execute the histories.
//
// Second universe (chain.go): ONE file, R main runs, no bound on the number of perturbations — every transfer
// attempt takes every outcome of {pass, body cut at grid position 0 / 1 / half / all-but-one with the answer
// delivered | lost | spoke crash before the ledger write, complete body with the answer lost | crash before
// MarkSynced, corrupted, short+corrupted (thorough: + request lost / crash before the request)} and every gap
// every applicable staging event {staging swept, staging file shortened to grid position 0 / 1 / half /
// all-but-one}; explored level by level with state matching. It makes the class "spoke checkpoint and hub
// staged length disagree, in either direction, across >= 3 attempts on one file" reachable in the quick tier.
//
// Oracle (exactly the property statement):
//
//	O1 the hub never exposes (final path / receipt index) bytes that differ from the spoke's file;
//	O2 the hub never stores the same spoke file twice (a second copy next to a compacted one, a copy at
//	   any path other than <spoke>/<path>, a second commit while a copy is live);
//	O3 a ledger row becomes `synced` only while the hub holds that file with identical content;
//	O4 once perturbations stop, fault-free runs end with every ledger row synced, skipped or failed;
//	O5 every ledger state change (captured by SQLite triggers installed by the harness on its own scratch
//	   database — the code under test is not touched) is one of the transitions the ledger documents.
package main

import (
	"bytes"
	"context"
	"crypto/sha256"
	"database/sql"
	"encoding/hex"
	"encoding/json"
	"errors"
	"fmt"
	"io"
	"io/fs"
	"os"
	"os/signal"
	"path/filepath"
	"runtime"
	"runtime/debug"
	"sort"
	"strings"
	"sync"
	"sync/atomic"
	"syscall"
	"time"

	"github.com/basekick-labs/arc/internal/edgesync"
	"github.com/basekick-labs/arc/internal/storage"
	"github.com/basekick-labs/arc/zzverif/engine/ev"
	_ "github.com/mattn/go-sqlite3"
	"github.com/rs/zerolog"
)

// ---------------------------------------------------------------- universe

const (
	spokeID = "edge-01"
	hubID   = edgesync.DefaultHubID
	pF1     = "db/cpu/2026/01/02/10/cpu_1.parquet"
	pF2     = "db/cpu/2026/01/02/10/cpu_2.parquet"
	// name shape of a compaction output: {meas}_{YYYYMMDD_HHMMSS}_{unixnano}_b{batch}_{tier}.parquet
	pC       = "db/cpu/2026/01/02/10/cpu_20260102_110000_1767351600000000000_b0_compacted.parquet"
	mainRuns = 3
	maxClose = 8
)

var (
	gateEpoch = time.Date(2026, 1, 1, 0, 0, 0, 0, time.UTC) // delivery gate active since; pC's nanos are later
	contentOf = map[string][]byte{
		pF1: []byte("PAR1-file-one-0123456789abcdef-PAR1"),
		pF2: []byte("PAR1-file-two-zyxwvutsrqponmlkjihgfedcba-PAR1"),
	}
	shortName = map[string]string{pF1: "f1", pF2: "f2", pC: "c"}
	fakeSHA   = strings.Repeat("0", 64)
)

func init() { contentOf[pC] = append(append([]byte{}, contentOf[pF1]...), contentOf[pF2]...) }

func shaHex(b []byte) string { s := sha256.Sum256(b); return hex.EncodeToString(s[:]) }

// hashState: state keys travel between processes and are only ever compared.
func hashState(s string) string { return shaHex([]byte(s))[:32] }

func nameOf(p string) string {
	if n, ok := shortName[p]; ok {
		return n
	}
	return "?" + p
}

// fault / crash outcomes of one transport call
const (
	oPass          = "pass"
	oDropB         = "drop-before-commit"
	oDropA         = "drop-after-commit"
	oShort         = "short-body"
	oShortDrop     = "short-body+lost-ack"
	oCorrupt       = "corrupted-byte"
	oShortCorrupt  = "short+corrupted"
	oBackpressure  = "backpressure"
	oConflict      = "conflict"
	oCrashB        = "crash-before-send"
	oCrashA        = "crash-after-hub-commit"
	evSpokeVanish1 = "spoke-vanish(f1)"
	evSpokeVanish2 = "spoke-vanish(f2)"
	evSpokeCompact = "spoke-compact(f1+f2->c)"
	evHubVanish1   = "hub-vanish(f1)"
	evHubVanish2   = "hub-vanish(f2)"
	evHubCompact1  = "hub-compact(f1)"
	evHubCompact2  = "hub-compact(f2)"
	evHubSweep     = "hub-sweep-staging"
)

var (
	putFaults  = []string{oDropB, oDropA, oShort, oShortDrop, oCorrupt, oShortCorrupt, oBackpressure, oConflict}
	recFaults  = []string{oDropB, oDropA, oConflict}
	crashKinds = []string{oCrashB, oCrashA}
	allEvents  = []string{evSpokeVanish1, evSpokeVanish2, evSpokeCompact, evHubVanish1, evHubVanish2, evHubCompact1, evHubCompact2, evHubSweep}
)

// pert is one perturbation, addressed semantically so that a history stays meaningful when other
// perturbations are dropped by the minimiser.
type pert struct {
	Run  int    `json:"run"`  // 1..3
	At   string `json:"at"`   // "reconcile" | "put(f1)" | "put(f2)" | "put(c)" | "gap"
	Occ  int    `json:"occ"`  // n-th such call within the run (1-based; 1 for gap)
	Kind string `json:"kind"` // "event" | "fault" | "crash" | "hub" (hubfault.go: What = "<hub operation>#<n>:<once|persistent>")
	What string `json:"what"`
}

func (p pert) String() string {
	at := p.At
	if p.Occ > 1 {
		at = fmt.Sprintf("%s#%d", at, p.Occ)
	}
	if p.At == "gap" {
		return fmt.Sprintf("after-run%d:%s", p.Run, p.What)
	}
	if p.Kind == "event" {
		return fmt.Sprintf("r%d:before-%s:%s", p.Run, at, p.What)
	}
	if p.Kind == kindHub {
		return fmt.Sprintf("r%d:%s:hub-fault(%s)", p.Run, at, p.What)
	}
	return fmt.Sprintf("r%d:%s=%s", p.Run, at, p.What)
}

type addr struct {
	Run int
	At  string
	Occ int
}

type history struct {
	Cfg         string `json:"cfg,omitempty"`  // "" = the 2-file universe; cfgChain = single-file attempt chain (chain.go)
	Runs        int    `json:"runs,omitempty"` // main (perturbable) runs; 0 = mainRuns
	MaxAttempts int    `json:"max_attempts"`   // 0 = edgesync.DefaultMaxAttempts
	Perts       []pert `json:"perturbations"`
	// twinOK (search bookkeeping, not part of the history): the history has a `once` hub fault and the execution of its
	// parent showed no later hub operation of that kind in the main runs (or the hub fault is its last perturbation), so
	// up to its last perturbed point the persistent form runs identically and is a valid history
	twinOK bool
}

// with returns the same universe / run count / retry cap with another perturbation list.
func (h history) with(perts []pert) history {
	return history{Cfg: h.Cfg, Runs: h.Runs, MaxAttempts: h.MaxAttempts, Perts: perts}
}

func (h history) nRuns() int {
	if h.Runs > 0 {
		return h.Runs
	}
	return mainRuns
}

func (h history) String() string {
	s := make([]string, len(h.Perts))
	for i, p := range h.Perts {
		s[i] = p.String()
	}
	out := strings.Join(s, ";")
	if out == "" {
		out = "no-perturbation"
	}
	if h.MaxAttempts != 0 {
		out = fmt.Sprintf("max_attempts=%d|%s", h.MaxAttempts, out)
	}
	if h.Cfg != "" {
		out = fmt.Sprintf("%s/%druns|%s", h.Cfg, h.nRuns(), out)
	}
	return out
}

// ---------------------------------------------------------------- world

type pointInfo struct {
	A        addr
	IsCall   bool
	IsPut    bool
	BodyOK   bool     // put: the body could be read (the request can reach the hub at all)
	BodyLen  int      // put: bytes the spoke transmits (file size - checkpoint)
	Events   []string // events applicable at this point (measured on the real state)
	HasEvent bool
	HasFault bool
	HubOps   []string `json:",omitempty"` // call: hub operations the real hub performed while serving it (sorted)
}

type rawViol struct {
	Kind   string
	Detail string
}

type world struct {
	dir      string
	h        history
	plan     map[addr][]pert
	spokeBE  *storage.LocalBackend
	hubBE    *storage.LocalBackend
	ledgerDB *sql.DB // the agent's handle (re-opened after a crash)
	obsDB    *sql.DB // harness handle on the ledger file: transition log reads, gate + observer ledger
	hubDB    *sql.DB
	hub      *hubState // hubfault.go
	leaf     bool      // no perturbation can be added to this history under its bounds: nobody needs the points after quiescence
	calls    int       // transport calls of the current run
	evCount  int       // storage events applied so far
	curAddr  addr      // the transport call being served
	toolLed  *edgesync.Ledger
	agentLed *edgesync.Ledger
	wantEv   bool // compute the applicable-event set at each point (only when a child may add an event)
	index    *edgesync.HubIndex
	recv     *edgesync.Receiver
	recon    *edgesync.Reconciler
	gate     func(ctx context.Context, paths []string) (map[string]bool, error)
	observer func(storageKey string)

	run          int
	cancel       context.CancelFunc
	crashed      bool
	occ          map[string]int
	logPos       int64
	hubCompacted map[string]bool
	points       []pointInfo
	trace        []string
	viols        []rawViol
	violSeen     map[string]bool
	inapplicable string
	steps        int
	canons       []string
	transSeen    map[string]int
	outcomeSeen  map[string]int
	closingRuns  int
	agentErrs    int
	// observe() re-reads the hub directory tree / the receipt index only after something that can change them
	// (a Receive call, a Reconcile call — it may forget stale receipts —, a storage event); in between the last
	// reading is still exact because nothing but the harness-driven calls touches the hub
	storDirty, idxDirty     bool
	cExposed, cStaged, cIdx []string
	keyPending              bool   // the last perturbation was a call fault: take the dedup key at the end of that run
	key                     string // chain.go: full state right after the last perturbation took effect:
	covered                 func(key string, run int, afterEvent bool) bool
	cut                     bool
	keyRun                  int            // at the end of run keyRun (before its gap event), or
	keyAfterEvent           bool           // right after the gap event that follows run keyRun
	ckSeen                  map[string]int // chain.go: spoke checkpoint vs hub staged length, measured at every PutFile
}

func must(err error, what string) {
	if err != nil {
		if scratch != "" {
			os.RemoveAll(scratch)
		}
		ev.Unbound(what + ": " + err.Error())
	}
}

func openSQLite(p string) *sql.DB {
	db, err := sql.Open("sqlite3", "file:"+p+"?_busy_timeout=10000&_synchronous=0&_journal_mode=MEMORY")
	must(err, "open sqlite")
	db.SetMaxOpenConns(1) // as cmd/arc's sharedSQLiteHandle does
	return db
}

const triggerSQL = `
CREATE TABLE IF NOT EXISTS zz_verif_log(id INTEGER PRIMARY KEY AUTOINCREMENT, op TEXT, path TEXT, old TEXT, new TEXT);
CREATE TRIGGER IF NOT EXISTS zz_verif_ins AFTER INSERT ON sync_ledger BEGIN
  INSERT INTO zz_verif_log(op,path,old,new) VALUES('I',NEW.path,NULL,NEW.state); END;
CREATE TRIGGER IF NOT EXISTS zz_verif_upd AFTER UPDATE ON sync_ledger WHEN OLD.state IS NOT NEW.state BEGIN
  INSERT INTO zz_verif_log(op,path,old,new) VALUES('U',NEW.path,OLD.state,NEW.state); END;
CREATE TRIGGER IF NOT EXISTS zz_verif_del AFTER DELETE ON sync_ledger BEGIN
  INSERT INTO zz_verif_log(op,path,old,new) VALUES('D',OLD.path,OLD.state,NULL); END;
`

func newWorld(dir string, h history) *world {
	w := &world{dir: dir, h: h, plan: map[addr][]pert{}, occ: map[string]int{}, hubCompacted: map[string]bool{},
		violSeen: map[string]bool{}, transSeen: map[string]int{}, outcomeSeen: map[string]int{}, ckSeen: map[string]int{}, storDirty: true, idxDirty: true, hub: newHubState()}
	for _, p := range h.Perts {
		a := addr{p.Run, p.At, p.Occ}
		w.plan[a] = append(w.plan[a], p)
	}
	must(os.MkdirAll(dir, 0o755), "mkdir")
	var err error
	w.spokeBE, err = storage.NewLocalBackend(filepath.Join(dir, "spoke"), zerolog.Nop())
	must(err, "spoke backend")
	w.hubBE, err = storage.NewLocalBackend(filepath.Join(dir, "hub"), zerolog.Nop())
	must(err, "hub backend")
	ctx := context.Background()
	for _, p := range universe(h) {
		must(w.spokeBE.Write(ctx, p, contentOf[p]), "write spoke file")
	}
	// both SQLite files start as copies of templates that the real constructors (NewLedger + the harness's
	// transition-log triggers, NewHubIndex) produced once at start-up: same bytes as running the DDL here, at a
	// fraction of the cost; the constructors still run on every handle the code under test uses
	must(os.WriteFile(filepath.Join(dir, "ledger.db"), tplLedger, 0o644), "ledger template")
	must(os.WriteFile(filepath.Join(dir, "hub.db"), tplHub, 0o644), "hub index template")
	w.obsDB = openSQLite(filepath.Join(dir, "ledger.db"))
	// the hub's index handle and the backend handed to Receiver / Reconciler are wrapped (hubfault.go): every statement and
	// every storage call the hub makes while serving a transport call is recorded and can be failed
	w.hubDB = openHubSQLite(filepath.Join(dir, "hub.db"), w)
	w.index, err = edgesync.NewHubIndex(w.hubDB, zerolog.Nop())
	must(err, "hub index")
	w.recv, err = edgesync.NewReceiver(edgesync.ReceiverConfig{Backend: &hubBackend{w.hubBE, w}, Index: w.index, Logger: zerolog.Nop()})
	must(err, "receiver")
	w.recon, err = edgesync.NewReconciler(edgesync.ReconcilerConfig{Index: w.index, Backend: &hubBackend{w.hubBE, w}})
	must(err, "reconciler")
	return w
}

// tools: the spoke's compaction gate and compacted-output observer (2-file universe only), built on first use — most
// histories never ask whether spoke compaction is applicable.
func (w *world) tools() {
	if w.toolLed != nil {
		return
	}
	var err error
	w.toolLed, err = edgesync.NewLedger(w.obsDB, zerolog.Nop())
	must(err, "tool ledger")
	w.gate = edgesync.NewCompactionEligibility(w.toolLed, hubID, gateEpoch, zerolog.Nop())
	w.observer = edgesync.NewCompactedOutputObserver(w.toolLed, hubID, gateEpoch, zerolog.Nop())
}

var tplLedger, tplHub []byte

func buildTemplates() {
	dir := filepath.Join(scratch, "tpl")
	must(os.MkdirAll(dir, 0o755), "mkdir templates")
	db := openSQLite(filepath.Join(dir, "ledger.db"))
	_, err := edgesync.NewLedger(db, zerolog.Nop())
	must(err, "ledger schema")
	_, err = db.Exec(triggerSQL)
	must(err, "install transition-log triggers")
	must(db.Close(), "close ledger template")
	hub := openSQLite(filepath.Join(dir, "hub.db"))
	_, err = edgesync.NewHubIndex(hub, zerolog.Nop())
	must(err, "hub index schema")
	must(hub.Close(), "close hub template")
	tplLedger, err = os.ReadFile(filepath.Join(dir, "ledger.db"))
	must(err, "read ledger template")
	tplHub, err = os.ReadFile(filepath.Join(dir, "hub.db"))
	must(err, "read hub template")
	os.RemoveAll(dir)
}

func (w *world) close() {
	if w.ledgerDB != nil {
		w.ledgerDB.Close()
	}
	w.obsDB.Close()
	w.hubDB.Close()
	w.spokeBE.Close()
	w.hubBE.Close()
	os.RemoveAll(w.dir)
}

func (w *world) violate(kind, detail string) {
	if w.violSeen[kind] {
		return
	}
	w.violSeen[kind] = true
	w.viols = append(w.viols, rawViol{kind, detail})
	w.trace = append(w.trace, "    !! "+kind+": "+detail)
}

func (w *world) hubFinal(p string) string {
	return filepath.Join(w.dir, "hub", filepath.FromSlash(edgesync.NamespacedPath(spokeID, p)))
}
func (w *world) spokeFile(p string) string {
	return filepath.Join(w.dir, "spoke", filepath.FromSlash(p))
}

func exists(p string) bool { _, err := os.Stat(p); return err == nil }

// hubHolds: the hub holds spoke file p with identical content — at its final path, or (after the hub's
// own compaction consumed a verified-identical copy) inside a compacted output.
func (w *world) hubHolds(p string) bool {
	if b, err := os.ReadFile(w.hubFinal(p)); err == nil && bytes.Equal(b, contentOf[p]) {
		return true
	}
	return w.hubCompacted[p]
}

var allowedTransition = map[string]bool{
	// Track / TrackBatch (discovery) and TrackCompactedOutput
	"I:->pending": true, "I:->skipped": true,
	// MarkInFlight
	"U:pending->in_flight": true,
	// MarkFailed below the cap, RecoverInFlight
	"U:in_flight->pending": true,
	// MarkFailed at the cap (and the cap-1 conflict path of sendOne)
	"U:in_flight->failed": true,
	// MarkConflicted (reconcile-time conflict)
	"U:pending->failed": true,
	// MarkSynced: from a transfer, or from reconcile's `present` (lost-ack path)
	"U:in_flight->synced": true, "U:pending->synced": true,
	// MarkSkipped: source vanished, found at export pre-check or mid-transfer
	"U:pending->skipped": true, "U:in_flight->skipped": true,
	// Not in this universe, therefore NOT allowed here: pending<->exported, exported->synced (air-gap
	// bundles), failed->pending / failed->skipped / skipped->pending (operator requeue / dismiss),
	// row deletion (PruneSynced / PruneSkipped / SweepSkippedRows).
}

// observe evaluates the safety oracles on the current state. It is called at every step boundary, always
// BEFORE the harness changes anything on the hub, so a `synced` mark is judged against the hub state that
// existed when the agent made it.
func (w *world) observe() {
	// ---- O5 + O3: ledger state changes since the last observation
	rows, err := w.obsDB.Query(`SELECT id, op, path, COALESCE(old,''), COALESCE(new,'') FROM zz_verif_log WHERE id > ? ORDER BY id`, w.logPos)
	must(err, "read transition log")
	type tr struct{ op, path, old, new string }
	var trs []tr
	for rows.Next() {
		var id int64
		var t tr
		must(rows.Scan(&id, &t.op, &t.path, &t.old, &t.new), "scan transition log")
		w.logPos = id
		trs = append(trs, t)
	}
	must(rows.Err(), "transition log rows")
	rows.Close()
	for _, t := range trs {
		key := t.op + ":" + t.old + "->" + t.new
		w.transSeen[key]++
		w.trace = append(w.trace, fmt.Sprintf("    ledger %s %s", nameOf(t.path), key))
		if !allowedTransition[key] {
			w.violate("undocumented-transition("+key+")", fmt.Sprintf("ledger row %s changed %s, which no documented ledger operation of this universe performs", nameOf(t.path), key))
		}
		if t.new == "synced" && !w.hubHolds(t.path) {
			w.violate("synced-without-identical-hub-copy", fmt.Sprintf("ledger marked %s synced (%s) while the hub holds no identical copy", nameOf(t.path), key))
		}
	}

	// ---- O1 + O2: hub storage, O1: hub receipt index (re-read only after something that can change them)
	if w.storDirty {
		w.readHubStorage()
		w.storDirty = false
	}
	if w.idxDirty {
		w.readHubIndex()
		w.idxDirty = false
	}
	exposed, staged, idx := w.cExposed, w.cStaged, w.cIdx

	// ---- canonical state (for the distinct-state count)
	var led []string
	lrows, err := w.obsDB.Query(`SELECT path, state, bytes_sent, attempts FROM sync_ledger ORDER BY path`)
	must(err, "read ledger")
	for lrows.Next() {
		var p, st string
		var bs, at int64
		must(lrows.Scan(&p, &st, &bs, &at), "scan ledger")
		led = append(led, fmt.Sprintf("%s:%s:%d:%d", nameOf(p), st, bs, at))
	}
	must(lrows.Err(), "ledger rows")
	lrows.Close()
	var sp []string
	for _, p := range []string{pF1, pF2, pC} {
		if exists(w.spokeFile(p)) {
			sp = append(sp, nameOf(p))
		}
	}
	var hc []string
	for _, p := range []string{pF1, pF2} {
		if w.hubCompacted[p] {
			hc = append(hc, nameOf(p))
		}
	}
	w.canons = append(w.canons, fmt.Sprintf("L[%s] S[%s] H[%s] G[%s] I[%s] C[%s]", strings.Join(led, ","), strings.Join(sp, ","),
		strings.Join(exposed, ","), strings.Join(staged, ","), strings.Join(idx, ","), strings.Join(hc, ",")))
}

// readHubStorage walks the hub directory: O1 (exposed bytes equal the spoke's) and O2 (no second copy).
func (w *world) readHubStorage() {
	hubRoot := filepath.Join(w.dir, "hub")
	var exposed, staged []string
	filepath.WalkDir(hubRoot, func(p string, d fs.DirEntry, err error) error {
		if err != nil || d.IsDir() {
			return nil
		}
		rel, _ := filepath.Rel(hubRoot, p)
		rel = filepath.ToSlash(rel)
		info, _ := d.Info()
		var size int64 = -1
		if info != nil {
			size = info.Size()
		}
		if strings.HasPrefix(rel, edgesync.StagingPrefix+"/") || strings.HasSuffix(rel, ".part") {
			staged = append(staged, fmt.Sprintf("%s:%d", rel, size))
			return nil
		}
		exposed = append(exposed, rel)
		src, ok := strings.CutPrefix(rel, spokeID+"/")
		want, known := contentOf[src]
		if !ok || !known {
			w.violate("unexpected-hub-file", "the hub exposes "+rel+", which is not <spoke>/<path> of any spoke file")
			return nil
		}
		got, err := os.ReadFile(p)
		if err != nil || !bytes.Equal(got, want) {
			w.violate("hub-exposes-different-bytes", fmt.Sprintf("hub file %s holds %q, the spoke's %s is %q", rel, got, nameOf(src), want))
		}
		if w.hubCompacted[src] {
			w.violate("stored-twice", fmt.Sprintf("%s was consumed by hub compaction (its rows live in a compacted output) and now exists again at %s", nameOf(src), rel))
		}
		return nil
	})
	sort.Strings(exposed)
	sort.Strings(staged)
	w.cExposed, w.cStaged = exposed, staged
}

// readHubIndex reads the receipt index: O1 (every receipt describes the spoke's file).
func (w *world) readHubIndex() {
	var idx []string
	irows, err := w.hubDB.Query(`SELECT spoke_id, source_path, hub_path, sha256, size_bytes, compacted_at IS NOT NULL FROM sync_received ORDER BY spoke_id, source_path`)
	must(err, "read hub index")
	for irows.Next() {
		var sp, src, hp, sha string
		var size int64
		var comp bool
		must(irows.Scan(&sp, &src, &hp, &sha, &size, &comp), "scan hub index")
		idx = append(idx, fmt.Sprintf("%s:%v", nameOf(src), comp))
		want, known := contentOf[src]
		if sp != spokeID || !known || hp != edgesync.NamespacedPath(spokeID, src) {
			w.violate("unexpected-hub-receipt", fmt.Sprintf("hub index row (%s,%s,%s) matches no spoke file", sp, src, hp))
			continue
		}
		if sha != shaHex(want) || size != int64(len(want)) {
			w.violate("hub-index-differs-from-spoke", fmt.Sprintf("hub receipt for %s says sha=%s size=%d, the spoke's file has sha=%s size=%d", nameOf(src), sha, size, shaHex(want), len(want)))
		}
	}
	must(irows.Err(), "hub index rows")
	irows.Close()
	w.cIdx = idx
}

func (w *world) ledgerStates() map[string]string {
	out := map[string]string{}
	rows, err := w.obsDB.Query(`SELECT path, state FROM sync_ledger`)
	must(err, "read ledger states")
	defer rows.Close()
	for rows.Next() {
		var p, s string
		must(rows.Scan(&p, &s), "scan ledger states")
		out[p] = s
	}
	return out
}

// ---------------------------------------------------------------- events

func (w *world) applicableEvents(at string) []string {
	if w.h.Cfg == cfgChain {
		return w.chainEvents(at)
	}
	var out []string
	s1, s2 := exists(w.spokeFile(pF1)), exists(w.spokeFile(pF2))
	if s1 {
		out = append(out, evSpokeVanish1)
	}
	if s2 {
		out = append(out, evSpokeVanish2)
	}
	if s1 && s2 && !exists(w.spokeFile(pC)) {
		// the REAL delivery gate decides whether compaction may consume the two files
		w.tools()
		ok, err := w.gate(context.Background(), []string{pF1, pF2})
		if err == nil && ok[pF1] && ok[pF2] {
			out = append(out, evSpokeCompact)
		}
	}
	if exists(w.hubFinal(pF1)) {
		out = append(out, evHubVanish1, evHubCompact1)
	}
	if exists(w.hubFinal(pF2)) {
		out = append(out, evHubVanish2, evHubCompact2)
	}
	staged := false
	filepath.WalkDir(filepath.Join(w.dir, "hub", edgesync.StagingPrefix), func(p string, d fs.DirEntry, err error) error {
		if err == nil && !d.IsDir() {
			staged = true
		}
		return nil
	})
	if staged {
		out = append(out, evHubSweep)
	}
	sort.Strings(out)
	return out
}

func (w *world) applyEvent(e string) {
	ctx := context.Background()
	w.storDirty, w.idxDirty = true, true
	switch e {
	case evSpokeVanish1:
		must(w.spokeBE.Delete(ctx, pF1), e)
	case evSpokeVanish2:
		must(w.spokeBE.Delete(ctx, pF2), e)
	case evSpokeCompact:
		// what compaction.Manager does under the gate: write the output, tell the observer, delete the inputs
		must(w.spokeBE.Write(ctx, pC, contentOf[pC]), e)
		w.tools()
		w.observer(pC)
		must(w.spokeBE.Delete(ctx, pF1), e)
		must(w.spokeBE.Delete(ctx, pF2), e)
	case evHubVanish1:
		must(w.hubBE.Delete(ctx, edgesync.NamespacedPath(spokeID, pF1)), e)
	case evHubVanish2:
		must(w.hubBE.Delete(ctx, edgesync.NamespacedPath(spokeID, pF2)), e)
	case evHubCompact1, evHubCompact2:
		p := pF1
		if e == evHubCompact2 {
			p = pF2
		}
		// cmd/arc wiring (#619): the consumed-inputs observer marks the receipts, the sources are deleted,
		// the rows live on inside the compacted output
		must(w.index.MarkCompacted(ctx, spokeID, []string{p}), e)
		must(w.hubBE.Delete(ctx, edgesync.NamespacedPath(spokeID, p)), e)
		w.hubCompacted[p] = true
	case evHubSweep:
		_, err := w.recv.SweepStaging(ctx, 0, time.Now().Add(time.Hour))
		must(err, e)
	case evCut0, evCut1, evCutMid, evCutLast:
		w.applyCut(e)
	default:
		ev.Unbound("unknown event " + e)
	}
}

// point registers one perturbation point, applies a planned event and returns the planned fault/crash.
func (w *world) point(at string, isCall, isPut, bodyOK bool, bodyLen int) string {
	w.observe()
	if at == "gap" && w.keyPending {
		// end of the run that held the history's last perturbation (a call fault / crash), before any gap event
		w.keyPending = false
		w.key, w.keyRun, w.keyAfterEvent = hashState(w.fullState()), w.run, false
	}
	w.occ[fmt.Sprintf("%d/%s", w.run, at)]++
	a := addr{w.run, at, w.occ[fmt.Sprintf("%d/%s", w.run, at)]}
	pi := pointInfo{A: a, IsCall: isCall, IsPut: isPut, BodyOK: bodyOK, BodyLen: bodyLen}
	if isCall {
		w.calls++
		w.curAddr = a
	}
	if (w.wantEv && w.run <= w.h.nRuns()) || len(w.plan[a]) > 0 {
		pi.Events = w.applicableEvents(at)
	}
	outcome := oPass
	for _, p := range w.plan[a] {
		isLast := w.h.Cfg == cfgChain && p == w.h.Perts[len(w.h.Perts)-1]
		switch p.Kind {
		case "event":
			pi.HasEvent = true
			ok := false
			for _, e := range pi.Events {
				ok = ok || e == p.What
			}
			if !ok {
				w.inapplicable = p.String()
				continue
			}
			w.steps++
			w.evCount++
			w.trace = append(w.trace, "  event "+p.String())
			w.applyEvent(p.What)
			if isLast {
				w.key, w.keyRun, w.keyAfterEvent = hashState(w.fullState()), w.run, true
			}
		case kindHub:
			if !isCall || (isPut && !bodyOK) {
				w.inapplicable = p.String()
				continue
			}
			op, mode := parseHubWhat(p.What)
			w.hub.plan[op] = mode
			w.keyPending = isLast
		default:
			pi.HasFault = true
			if !isCall || (isPut && !bodyOK) {
				w.inapplicable = p.String()
				continue
			}
			outcome = p.What
			w.keyPending = isLast
		}
	}
	delete(w.plan, a)
	w.points = append(w.points, pi)
	return outcome
}

// ---------------------------------------------------------------- the fault-injecting transport

type faultTransport struct{ w *world }

var errLink = errors.New("verif: connection lost")

func (t *faultTransport) crash() error {
	t.w.crashed = true
	t.w.cancel()
	return context.Canceled
}

func (t *faultTransport) Reconcile(ctx context.Context, hub string, pending []*edgesync.LedgerEntry) (*edgesync.ReconcileResult, error) {
	w := t.w
	if err := ctx.Err(); err != nil {
		return nil, err
	}
	o := w.point("reconcile", true, false, true, 0)
	w.steps++
	names := make([]string, len(pending))
	entries := make([]edgesync.ReconcileEntry, len(pending))
	for i, e := range pending {
		names[i] = nameOf(e.Path)
		entries[i] = edgesync.ReconcileEntry{Path: e.Path, SHA256: e.SHA256, SizeBytes: e.SizeBytes} // as HTTPTransport does
	}
	call := fmt.Sprintf("  r%d reconcile[%s] %s", w.run, strings.Join(names, ","), o)
	if o == oDropB {
		w.hubCancel()
		w.trace = append(w.trace, call+" -> link error, hub never saw it")
		return nil, errLink
	}
	if o == oCrashB {
		w.hubCancel()
		w.trace = append(w.trace, call)
		return nil, t.crash()
	}
	w.hubBegin()
	res, err := w.recon.Reconcile(context.Background(), spokeID, entries)
	fired := w.hubEnd()
	w.idxDirty = true // Reconcile forgets receipts whose file is gone; it writes nothing to storage
	if err != nil {
		w.trace = append(w.trace, call+" -> "+hubErrText(err, fired))
	} else {
		w.trace = append(w.trace, call+fmt.Sprintf(" -> missing=%v present=%v conflicts=%d", short(res.Missing), short(res.Present), len(res.Conflicts))+firedNote(fired))
	}
	switch o {
	case oDropA:
		return nil, errLink
	case oCrashA:
		return nil, t.crash()
	case oConflict:
		// a hub that (wrongly or not) reports the first entry as a same-path-different-content conflict
		if err == nil && len(pending) > 0 {
			p0 := pending[0].Path
			drop := func(l []string) []string {
				var out []string
				for _, x := range l {
					if x != p0 {
						out = append(out, x)
					}
				}
				return out
			}
			res = &edgesync.ReconcileResult{Missing: drop(res.Missing), Present: drop(res.Present),
				Conflicts: append(append([]edgesync.Conflict{}, res.Conflicts...), edgesync.Conflict{Path: p0, TheirSHA256: fakeSHA})}
		}
	}
	if err != nil {
		if errors.Is(err, edgesync.ErrReconcileTooLarge) {
			return nil, &edgesync.ReconcileTooLargeError{MaxEntries: w.recon.MaxEntries()}
		}
		return nil, fmt.Errorf("edgesync: reconcile failed with 503: %v", err)
	}
	return res, nil
}

func short(l []string) []string {
	out := make([]string, len(l))
	for i, p := range l {
		out[i] = nameOf(p)
	}
	return out
}

func (t *faultTransport) PutFile(ctx context.Context, hub string, entry *edgesync.LedgerEntry, body io.Reader, offset int64) (*edgesync.PutResult, error) {
	w := t.w
	if err := ctx.Err(); err != nil {
		return nil, err
	}
	// The HTTP client streams the body out of the agent's pipe and the hub buffers it whole before the
	// handler runs (StreamRequestBody=false): a body that cannot be read never reaches the receiver.
	data, rerr := io.ReadAll(body)
	o := w.point("put("+nameOf(entry.Path)+")", true, true, rerr == nil, len(data))
	w.steps++
	call := fmt.Sprintf("  r%d put(%s) offset=%d body=%d %s", w.run, nameOf(entry.Path), offset, len(data), o)
	if rerr != nil {
		w.hubCancel()
		w.trace = append(w.trace, call+" -> body unreadable on the spoke: "+rerr.Error())
		return nil, fmt.Errorf("edgesync: file request: %w", rerr)
	}
	switch o {
	case oDropB, oCrashB, oBackpressure, oConflict:
		w.hubCancel()
	}
	switch o {
	case oDropB:
		w.trace = append(w.trace, call+" -> link error, hub never saw it")
		return nil, errLink
	case oCrashB:
		w.trace = append(w.trace, call)
		return nil, t.crash()
	case oBackpressure:
		w.trace = append(w.trace, call+" -> 429")
		return edgesync.BackpressureResult(time.Second), nil
	case oConflict:
		w.trace = append(w.trace, call+" -> 409")
		return &edgesync.PutResult{Outcome: edgesync.OutcomeConflict, TheirSHA256: fakeSHA}, nil
	}
	// chain.go outcomes: short@<pos>[+lost-ack|+crash] = the body is cut after grid position <pos>, and the hub's
	// answer is lost / the spoke dies before it can record it
	after := ""
	if base, aft, ok := parseShortAt(o); ok {
		after = aft
		o = oShortAt
		data = data[:cutPos(base, len(data))]
	}
	w.noteCheckpoint(entry.Path, offset)
	send := data
	if o == oShort || o == oShortDrop || o == oShortCorrupt {
		send = send[:len(send)/2]
	}
	if (o == oCorrupt || o == oShortCorrupt) && len(send) > 0 {
		send = append([]byte{}, send...)
		send[len(send)/2] ^= 0x5a
	}
	hadCopy := exists(w.hubFinal(entry.Path)) || w.hubCompacted[entry.Path]
	w.hubBegin()
	res, err := w.recv.Receive(context.Background(), spokeID, entry.Path, entry.SHA256, entry.SizeBytes, offset, bytes.NewReader(send))
	fired := w.hubEnd()
	w.storDirty, w.idxDirty = true, true
	if err != nil {
		w.trace = append(w.trace, call+" -> "+hubErrText(err, fired))
		w.outcomeSeen["hub-error"]++
	} else {
		w.trace = append(w.trace, call+fmt.Sprintf(" -> %s accepted=%d", res.Outcome, res.BytesAccepted)+firedNote(fired))
		w.outcomeSeen[string(res.Outcome)]++
		if res.Outcome == edgesync.OutcomeCommitted && hadCopy {
			w.violate("stored-twice", fmt.Sprintf("the receiver committed %s again although the hub already held a copy", nameOf(entry.Path)))
		}
	}
	if after != "" {
		o = after
	}
	switch o {
	case oDropA, oShortDrop:
		return nil, errLink
	case oCrashA:
		return nil, t.crash()
	}
	if err != nil {
		// what the handler + HTTPTransport make of it: 409 resume_unsupported, 503, or 400
		if errors.Is(err, storage.ErrResumeNotSupported) {
			return nil, fmt.Errorf("edgesync: hub cannot resume: %w", err)
		}
		return nil, fmt.Errorf("edgesync: file transfer failed: %v", err)
	}
	return res, nil
}

// ---------------------------------------------------------------- running one history

func (w *world) agentRun() {
	ctx, cancel := context.WithCancel(context.Background())
	w.cancel = cancel
	defer cancel()
	if w.crashed || w.agentLed == nil {
		// a new process: new SQLite handle, new Ledger (schema init as at start-up); the Agent is new on every run
		if w.ledgerDB != nil {
			w.ledgerDB.Close()
		}
		w.ledgerDB = openSQLite(filepath.Join(w.dir, "ledger.db"))
		var err error
		w.agentLed, err = edgesync.NewLedger(w.ledgerDB, zerolog.Nop())
		must(err, "new ledger")
		w.crashed = false
	}
	ag, err := edgesync.NewAgent(edgesync.AgentConfig{Ledger: w.agentLed, Transport: &faultTransport{w}, Backend: w.spokeBE,
		HubID: hubID, SpokeID: spokeID, MaxAttempts: w.h.MaxAttempts, MaxConcurrent: 1, Logger: zerolog.Nop()})
	must(err, "new agent")
	ag.SetCompactionDeferEpoch(gateEpoch)
	w.steps++
	res, err := ag.Run(ctx)
	if err != nil {
		w.agentErrs++
		w.trace = append(w.trace, fmt.Sprintf("  r%d Run error: %v", w.run, err))
	} else {
		w.trace = append(w.trace, fmt.Sprintf("  r%d Run: discovered=%d recovered=%d present=%d sent=%d partial=%d failed=%d skipped=%d conflicts=%d",
			w.run, res.Discovered, res.Recovered, res.AlreadyPresent, res.Sent, res.Partial, res.Failed, res.Skipped, len(res.Conflicts)))
	}
}

func terminal(s string) bool { return s == "synced" || s == "skipped" || s == "failed" }

func (w *world) allTerminal() bool {
	for _, s := range w.ledgerStates() {
		if !terminal(s) {
			return false
		}
	}
	return true
}

func (w *world) execute() {
	runs := w.h.nRuns()
	for w.run = 1; w.run <= runs; w.run++ {
		w.trace = append(w.trace, fmt.Sprintf("run %d", w.run))
		logAt, evAt := w.logPos, w.evCount
		w.calls = 0
		w.agentRun()
		w.point("gap", false, false, true, 0)
		if w.leaf && len(w.plan) == 0 && w.calls == 0 && w.logPos == logAt && w.evCount == evAt && w.inapplicable == "" && w.allTerminal() {
			// Every perturbation of the history has happened, and a whole pass made no transport call and changed no ledger
			// row while every row is synced / skipped / failed: every further pass (main or closing) is this pass again.
			// The remaining main runs exist only to offer placements to longer histories — a leaf has none.
			w.trace = append(w.trace, "  (quiescent; no perturbation left: remaining runs not repeated)")
			return
		}
		if w.key != "" && w.covered != nil && w.covered(w.key, w.keyRun, w.keyAfterEvent) {
			// chain universe: the state right after the last perturbation was already extended at an earlier level;
			// what follows (perturbation-free runs to quiescence) is that history's continuation
			w.cut = true
			w.trace = append(w.trace, "  (state already extended by an earlier history: continuation not repeated)")
			return
		}
	}
	if len(w.plan) > 0 && w.inapplicable == "" {
		for _, ps := range w.plan {
			w.inapplicable = ps[0].String() + " (point never reached)"
		}
	}
	// O4: perturbations have stopped; fault-free runs until quiescent
	w.hubMainRunsOver()
	for i := 1; i <= maxClose; i++ {
		w.run = runs + i
		w.trace = append(w.trace, fmt.Sprintf("closing run %d", i))
		before := w.logPos
		w.agentRun()
		w.observe()
		w.closingRuns++
		all := true
		for _, s := range w.ledgerStates() {
			all = all && terminal(s)
		}
		if all && w.logPos == before {
			return // every row terminal and a whole pass changed nothing
		}
	}
	var stuck []string
	for p, s := range w.ledgerStates() {
		if !terminal(s) {
			stuck = append(stuck, nameOf(p)+"="+s)
		}
	}
	sort.Strings(stuck)
	if len(stuck) > 0 {
		w.violate("not-quiescent", fmt.Sprintf("after %d fault-free runs these files are still neither synced, skipped nor failed: %v", maxClose, stuck))
	}
}

type result struct {
	h            history
	points       []pointInfo
	viols        []rawViol
	inapplicable string
	trace        []string
	canons       []string
	steps        int
	transSeen    map[string]int
	outcomeSeen  map[string]int
	closingRuns  int
	agentErrs    int
	final        string
	key          string
	keyRun       int
	keyAfterEv   bool
	cut          bool
	ckSeen       map[string]int
	laterSame    bool           // hub fault `once`: a later hub operation of the same kind happened inside the main runs
	hubSeen      map[string]int // hub operations observed while serving, by kind
	hubFailed    map[string]int // hub operations failed by injection, by kind
	hubFired     []pert         // where injected hub failures fired in the main runs, each as a `once` fault (for the minimiser)
}

var (
	scratch string
	worldN  int64
	thePool *pool
)

func runHistory(h history, wantEv bool) *result { return runHistoryCut(h, wantEv, false, nil) }

// runHistoryCut: covered (chain universe) tells whether a state was already extended by a history of an earlier
// level; such a history is cut right there.
func runHistoryCut(h history, wantEv, leaf bool, covered func(key string, run int, afterEvent bool) bool) *result {
	dir := filepath.Join(scratch, fmt.Sprintf("w%d", atomic.AddInt64(&worldN, 1)))
	w := newWorld(dir, h)
	w.wantEv = wantEv
	w.leaf = leaf
	w.covered = covered
	wd := time.AfterFunc(120*time.Second, func() {
		os.RemoveAll(scratch)
		ev.Unbound("history did not terminate: " + h.String())
	})
	w.execute()
	wd.Stop()
	r := &result{h: h, points: w.points, viols: w.viols, inapplicable: w.inapplicable, trace: w.trace, canons: w.canons, steps: w.steps,
		transSeen: w.transSeen, outcomeSeen: w.outcomeSeen, closingRuns: w.closingRuns, agentErrs: w.agentErrs, key: w.key, keyRun: w.keyRun, keyAfterEv: w.keyAfterEvent, ckSeen: w.ckSeen, cut: w.cut,
		laterSame: w.hub.laterSame, hubSeen: w.hub.seen, hubFailed: w.hub.failed, hubFired: w.hub.sites}
	if n := len(w.canons); n > 0 {
		r.final = w.canons[n-1]
	}
	w.close()
	return r
}

// ---------------------------------------------------------------- enumeration

// bounds: F call faults, C spoke crashes, E storage events, Total perturbations for a history WITHOUT a hub fault; a history
// WITH a hub fault (at most H of them; H is 0 or 1) holds at most HF call faults + crashes together, HE storage events and
// HTotal perturbations including the hub fault.
type bounds struct{ F, C, E, Total, H, HF, HE, HTotal int }

func count(h history) (f, c, e int) {
	for _, p := range h.Perts {
		switch p.Kind {
		case "fault":
			f++
		case "crash":
			c++
		case kindHub:
		default:
			e++
		}
	}
	return
}

// room tells which kinds of perturbation may still be added to h under b.
func room(h history, b bounds) (fault, crash, event, hub bool) {
	f, c, e := count(h)
	if hubPert(h) < 0 {
		total := f + c + e
		fault = f < b.F && total < b.Total
		crash = c < b.C && total < b.Total
		event = e < b.E && total < b.Total
		hub = b.H > 0 && f+c <= b.HF && e <= b.HE && total+1 <= b.HTotal
		return
	}
	total := f + c + e + 1
	fault = f+c < b.HF && total < b.HTotal
	crash = fault
	event = e < b.HE && total < b.HTotal
	return
}

// children: every way to add ONE perturbation at or after the parent's last perturbed point. The prefix of
// the execution up to that point is identical in parent and child (everything is deterministic), so the
// parent's trace tells which calls exist there, what they are, and which events are applicable.
func children(r *result, b bounds) []history {
	f, c, _ := count(r.h)
	okF, okC, okE, okH := room(r.h, b)
	if !okF && !okC && !okE && !okH {
		return nil
	}
	last := -1
	lastWasHub := false
	lastWasEvent := false
	if n := len(r.h.Perts); n > 0 {
		lp := r.h.Perts[n-1]
		for i, pi := range r.points {
			if pi.A == (addr{lp.Run, lp.At, lp.Occ}) {
				last = i
			}
		}
		lastWasEvent = lp.Kind == "event"
		lastWasHub = lp.Kind == kindHub
		if last < 0 {
			return nil
		}
	}
	var out []history
	add := func(p pert) {
		out = append(out, r.h.with(append(append([]pert{}, r.h.Perts...), p)))
	}
	for i, pi := range r.points {
		// order of the perturbations of one point: event, then call fault / crash, then hub fault
		if pi.A.Run > r.h.nRuns() || i < last || (i == last && lastWasHub) {
			continue
		}
		if i > last && okE {
			for _, evn := range pi.Events {
				add(pert{pi.A.Run, pi.A.At, pi.A.Occ, "event", evn})
			}
		}
		if !pi.IsCall || (pi.IsPut && !pi.BodyOK) {
			continue
		}
		if okH {
			// one hub fault at every hub operation the call performed (measured in the parent's execution, with the parent's
			// own fault on this call, if any, in effect); mode `once` — see persistentTwin for the other mode
			for _, op := range pi.HubOps {
				add(pert{pi.A.Run, pi.A.At, pi.A.Occ, kindHub, hubWhat(op, modeOnce)})
			}
		}
		if i == last && !lastWasEvent {
			continue
		}
		if r.h.Cfg == cfgChain {
			// the per-attempt alphabet of the chain universe; reconcile calls stay clean there
			if pi.IsPut {
				fs, cs := chainPutOutcomes(pi.BodyLen)
				for _, o := range fs {
					if f < b.F {
						add(pert{pi.A.Run, pi.A.At, pi.A.Occ, "fault", o})
					}
				}
				for _, o := range cs {
					if c < b.C {
						add(pert{pi.A.Run, pi.A.At, pi.A.Occ, "crash", o})
					}
				}
			}
			continue
		}
		if okF {
			fs := recFaults
			if pi.IsPut {
				fs = putFaults
			}
			for _, o := range fs {
				add(pert{pi.A.Run, pi.A.At, pi.A.Occ, "fault", o})
			}
		}
		if okC {
			for _, o := range crashKinds {
				add(pert{pi.A.Run, pi.A.At, pi.A.Occ, "crash", o})
			}
		}
	}
	return out
}

// classSig is the class signature of a minimal history: its perturbation list without positions (run
// numbers, "before <call>" placements) and with the files renamed in order of first use — the same defect
// reached through the first or the second transfer of a pass, or with the storage event placed in a gap
// or right before the next call, is one class.
func classSig(h history) string {
	ren := map[string]string{}
	name := func(s string) string {
		for _, f := range []string{"f1", "f2"} {
			if strings.Contains(s, "("+f+")") {
				if _, ok := ren[f]; !ok {
					ren[f] = fmt.Sprintf("file%c", 'A'+len(ren))
				}
				s = strings.ReplaceAll(s, "("+f+")", "("+ren[f]+")")
			}
		}
		return s
	}
	var parts []string
	for _, p := range h.Perts {
		if p.Kind == "event" {
			parts = append(parts, name(gridless(p.What)))
		} else if p.Kind == kindHub {
			op, mode := parseHubWhat(p.What)
			parts = append(parts, name(p.At)+"=hub-fault("+name(hubOccRe.ReplaceAllString(op, ""))+","+mode+")")
		} else {
			parts = append(parts, name(p.At)+"="+gridless(p.What))
		}
	}
	out := strings.Join(parts, ";")
	if h.MaxAttempts != 0 {
		out = fmt.Sprintf("max_attempts=%d;%s", h.MaxAttempts, out)
	}
	if h.Cfg != "" {
		out = h.Cfg + ":" + out
	}
	return out
}

type failing struct {
	h history
	v rawViol
}

func main() {
	run := ev.Start("C27", "model_checking")
	var err error
	scratch, err = os.MkdirTemp("/dev/shm", fmt.Sprintf("verif.c27.%d.", os.Getpid()))
	must(err, "scratch")
	cleanup := func() {
		if thePool != nil {
			thePool.close()
		}
		os.RemoveAll(scratch)
	}
	sig := make(chan os.Signal, 1)
	signal.Notify(sig, syscall.SIGINT, syscall.SIGTERM)
	go func() { <-sig; cleanup(); os.Exit(2) }()
	buildTemplates()
	debug.SetGCPercent(400)

	if os.Getenv("VERIF_C27_WORKER") != "" { // pool.go: a worker process executes histories for the searching parent
		workerMain()
		cleanup()
		return
	}
	if run.Replay != "" {
		replay(run.Replay)
		cleanup()
		return
	}
	// bounds per ledger configuration (max_attempts 0 = the default, 5). The max_attempts=2 configuration
	// exists to reach the retry cap (in_flight -> failed through MarkFailed) with two faults on one file; it is
	// explored without storage events.
	type config struct {
		cfg      string // "" = 2-file universe (DFS over perturbation placements), cfgChain = single-file attempt chain
		runs     int    // main runs (0 = mainRuns)
		attempts int
		b        bounds
	}
	all := bounds{F: 99, C: 99, E: 99, Total: 99} // chain universe: every placement in every main run
	configs := []config{{"", 0, 0, bounds{F: 2, C: 1, E: 2, Total: 3, H: 1, HF: 1, HE: 1, HTotal: 3}}, {"", 0, 2, bounds{F: 2, C: 1, E: 0, Total: 3}},
		{cfgChain, 4, 0, all}, {cfgChain, 3, 2, all}}
	chainWithBefore = true
	if run.Quick() {
		// the hub-fault dimension of the quick tier lives in a 2-run configuration of the 2-file universe (thorough: 3 runs)
		configs = []config{{"", 0, 0, bounds{F: 1, C: 1, E: 1, Total: 2}}, {"", 2, 0, bounds{F: 1, C: 1, E: 1, Total: 2, H: 1, HF: 1, HE: 1, HTotal: 3}}, {cfgChain, 3, 0, all}}
		chainWithBefore = false
	}
	if os.Getenv("VERIF_C27_CHAIN_BEFORE") != "" { // experiments only
		chainWithBefore = os.Getenv("VERIF_C27_CHAIN_BEFORE") == "1"
	}
	if s := os.Getenv("VERIF_C27_BOUNDS"); s != "" { // F,C,E,Total for the default configuration (experiments only)
		var b bounds
		fmt.Sscanf(s, "%d,%d,%d,%d,%d,%d,%d,%d", &b.F, &b.C, &b.E, &b.Total, &b.H, &b.HF, &b.HE, &b.HTotal)
		c := config{"", 0, 0, b}
		fmt.Sscanf(os.Getenv("VERIF_C27_RUNS"), "%d", &c.runs)
		configs = []config{c}
	}
	if s := os.Getenv("VERIF_C27_CHAIN"); s != "" { // runs,max_attempts: only this chain configuration (experiments only)
		c := config{cfg: cfgChain, b: all}
		fmt.Sscanf(s, "%d,%d", &c.runs, &c.attempts)
		configs = []config{c}
	}
	noDedup := os.Getenv("VERIF_C27_NODEDUP") != "" // experiments only: chain universe without state matching
	cfgKey := func(h history) string { return fmt.Sprintf("%s/%d/%d", h.Cfg, h.nRuns(), h.MaxAttempts) }
	boundOf := map[string]bounds{}
	var roots, chainRoots []history
	var boundDesc []string
	for _, c := range configs {
		root := history{Cfg: c.cfg, Runs: c.runs, MaxAttempts: c.attempts}
		boundOf[cfgKey(root)] = c.b
		if c.cfg == cfgChain {
			chainRoots = append(chainRoots, root)
			boundDesc = append(boundDesc, fmt.Sprintf("chain universe (1 file, %d main runs, max_attempts=%d): every per-attempt outcome of the chain alphabet on every transfer attempt and every applicable staging event in every gap, explored with state matching",
				root.nRuns(), attemptsNames([]int{c.attempts})[0]))
			continue
		}
		roots = append(roots, root)
		d := fmt.Sprintf("2 files, %d main runs, max_attempts=%d: <=%d call faults, <=%d spoke crash, <=%d storage event, <=%d perturbations in total",
			root.nRuns(), attemptsNames([]int{c.attempts})[0], c.b.F, c.b.C, c.b.E, c.b.Total)
		if c.b.H > 0 {
			d += fmt.Sprintf("; with a hub fault (<=%d; every hub operation of every transport call of the main runs, once + persistent): <=%d call fault or spoke crash, <=%d storage event, <=%d perturbations in total incl. the hub fault",
				c.b.H, c.b.HF, c.b.HE, c.b.HTotal)
		}
		boundDesc = append(boundDesc, d)
	}
	// own wall-clock cap below the tier budget: a capped run reports exhaustive=false
	capAt := time.Now().Add(12 * time.Minute)
	if run.Quick() {
		capAt = time.Now().Add(200 * time.Second)
	}
	if cs := os.Getenv("VERIF_C27_CAP_S"); cs != "" { // experiments only
		var n int
		fmt.Sscanf(cs, "%d", &n)
		capAt = time.Now().Add(time.Duration(n) * time.Second)
	}

	var (
		mu          sync.Mutex
		stack       []history
		outstanding int
		cond        = sync.NewCond(&mu)
		stop        bool
		states      = map[string]struct{}{}
		finals      = map[string]struct{}{}
		transSeen   = map[string]int{}
		outcomeSeen = map[string]int{}
		faultFired  = map[string]int{}
		ckSeen      = map[string]int{}
		hubSeen     = map[string]int{}
		hubFailed   = map[string]int{}
		hubModes    = map[string]int{}
		twinSkipped int
		claimed     = map[string]bool{}
		perCfg      = map[string]int{}
		histories   int
		inapplic    int
		transitions int
		closing     int
		agentErrs   int
		maxClosing  int
		fails       []failing
		small       []*result
		longest     *result
	)
	// account books one executed history (caller holds mu)
	account := func(r *result) {
		h := r.h
		if r.inapplicable != "" {
			inapplic++ // cannot happen for generated children; kept as a self-check
			if inapplic <= 5 {
				fmt.Fprintf(os.Stderr, "C27: inapplicable: %s: %s\n", h.String(), r.inapplicable)
			}
			return
		}
		histories++
		uni := "2-file"
		if h.Cfg != "" {
			uni = h.Cfg
		} else if hp := hubPert(h); hp >= 0 {
			uni = cfgHubLabel
			_, mode := parseHubWhat(h.Perts[hp].What)
			hubModes[mode]++
		}
		for k, n := range r.hubSeen {
			hubSeen[k] += n
		}
		for k, n := range r.hubFailed {
			hubFailed[k] += n
		}
		perCfg[fmt.Sprintf("%s %d runs max_attempts=%d", uni, h.nRuns(), attemptsNames([]int{h.MaxAttempts})[0])]++
		transitions += r.steps
		closing += r.closingRuns
		agentErrs += r.agentErrs
		if r.closingRuns > maxClosing {
			maxClosing = r.closingRuns
		}
		for _, c := range r.canons {
			states[h.Cfg+" "+c] = struct{}{}
		}
		if !r.cut {
			finals[h.Cfg+" "+r.final] = struct{}{}
		}
		for k, n := range r.transSeen {
			transSeen[k] += n
		}
		for k, n := range r.outcomeSeen {
			outcomeSeen[k] += n
		}
		for k, n := range r.ckSeen {
			ckSeen[k] += n
		}
		for _, p := range h.Perts {
			if p.Kind == kindHub {
				op, mode := parseHubWhat(p.What)
				faultFired["hub-fault("+hubKindOf(op)+","+mode+")"]++
				continue
			}
			faultFired[p.What]++
		}
		for _, v := range r.viols {
			fails = append(fails, failing{h, v})
		}
		if len(h.Perts) <= 1 && h.MaxAttempts == 0 {
			small = append(small, r)
		}
		if longest == nil || len(r.trace) > len(longest.trace) || (len(r.trace) == len(longest.trace) && r.h.String() < longest.h.String()) {
			longest = r
		}
	}
	progress, t0 := os.Getenv("VERIF_C27_PROGRESS") != "", time.Now() // experiments only
	workers := runtime.NumCPU()
	if s := os.Getenv("VERIF_C27_WORKERS"); s != "" { // experiments only
		fmt.Sscanf(s, "%d", &workers)
	}
	pl := startPool(workers)
	thePool = pl

	// ---- the 2-file universe, stateless DFS over perturbation placements. It runs CONCURRENTLY with the chain universe
	// below (both hand their histories to the same worker pool), so that a run that hits its wall-clock cap on a loaded
	// machine has explored a share of each instead of all of one; neither search reads the other's results.
	stack = append(stack, roots...)
	outstanding = len(stack)
	var wg sync.WaitGroup
	for i := 0; i < workers && len(roots) > 0; i++ {
		wg.Add(1)
		go func() {
			defer wg.Done()
			for {
				mu.Lock()
				for len(stack) == 0 && outstanding > 0 && !stop {
					cond.Wait()
				}
				if stop || outstanding == 0 {
					mu.Unlock()
					cond.Broadcast()
					return
				}
				h := stack[len(stack)-1]
				stack = stack[:len(stack)-1]
				mu.Unlock()

				b := boundOf[cfgKey(h)]
				_, _, wantEv, _ := room(h, b)
				r := pl.run(h, wantEv, -1, b)
				var kids []history
				if r.inapplicable == "" && len(r.viols) == 0 {
					kids = children(r, b)
				}

				mu.Lock()
				account(r)
				if progress && histories%500 == 0 {
					fmt.Fprintf(os.Stderr, "C27: %d histories, stack %d, %.0fs\n", histories, len(stack), time.Since(t0).Seconds())
				}
				hp := hubPert(h)
				for i := range kids {
					kids[i].twinOK = hp < 0 || !r.laterSame
				}
				if hp >= 0 && r.inapplicable == "" && len(r.viols) == 0 {
					// hubfault.go: the persistent twin is a different execution only when a later hub operation of the same
					// kind exists inside the main runs; it is then a history of its own (executed, judged, extended). When
					// the parent already showed such an operation, the parent's persistent twin exists and generates it.
					if _, mode := parseHubWhat(h.Perts[hp].What); mode == modeOnce {
						if r.laterSame && h.twinOK {
							kids = append(kids, withHubMode(h, modePersist))
						} else if !r.laterSame {
							twinSkipped++
						}
					}
				}
				// a history with a persistent hub fault is generated both as the twin of its `once` form and as a child
				// of a shorter persistent history: executed once
				kept := kids[:0]
				for _, k := range kids {
					if hp := hubPert(k); hp >= 0 {
						if _, mode := parseHubWhat(k.Perts[hp].What); mode == modePersist {
							if claimed[k.String()] {
								continue
							}
							claimed[k.String()] = true
						}
					}
					kept = append(kept, k)
				}
				kids = kept
				stack = append(stack, kids...)
				outstanding += len(kids) - 1
				if run.TimeUp() || time.Now().After(capAt) {
					stop = true
				}
				mu.Unlock()
				cond.Broadcast()
			}
		}()
	}
	stopped := func() bool { mu.Lock(); defer mu.Unlock(); return stop }
	setStop := func() { mu.Lock(); stop = true; mu.Unlock(); cond.Broadcast() }

	// ---- the chain universe, level-synchronous search with state matching (chain.go). A level = all
	// histories with the same number of perturbations, executed in parallel and then booked in generation order,
	// so which history represents a state (and therefore every count and every minimal counterexample) is
	// reproducible.
	chainKeys, chainPruned, chainCut, chainLevels := 0, 0, 0, 0
	for ri, root := range chainRoots {
		b := boundOf[cfgKey(root)]
		// A state met at the end of run r has every future of the same state met at the end of a later run (main
		// runs without a perturbation are exactly what closing runs are) and of the same state met right after a
		// gap event of run >= r (the gap may stay quiet); a state met after a gap event covers the same state after
		// a later gap event. seenEnd / seenEv hold the earliest run at which a state was extended.
		seenEnd, seenEv := map[string]int{}, map[string]int{}
		newEnd, newEv := map[string]int{}, map[string]int{}
		rootID := ri
		if noDedup {
			rootID = -1
		}
		level := []history{root}
		for depth := 0; len(level) > 0 && !stopped(); depth++ {
			results := make([]*result, len(level))
			var next int64 = -1
			var lw sync.WaitGroup
			for i := 0; i < workers; i++ {
				lw.Add(1)
				go func() {
					defer lw.Done()
					for {
						j := int(atomic.AddInt64(&next, 1))
						if j >= len(level) || run.TimeUp() || time.Now().After(capAt) {
							return
						}
						// the workers' copy of seenEnd / seenEv is only updated between levels: a frozen snapshot
						results[j] = pl.run(level[j], true, rootID, b)
					}
				}()
			}
			lw.Wait()
			var nextLevel []history
			for _, r := range results {
				if r == nil {
					setStop() // capped: part of this level was not executed
					continue
				}
				mu.Lock()
				account(r)
				mu.Unlock()
				if r.inapplicable != "" || len(r.viols) > 0 {
					continue
				}
				if r.cut {
					chainPruned++
					chainCut++
					continue
				}
				if r.key != "" && !noDedup {
					k := stateKey(r.h, b, r.key)
					if covered(seenEnd, k, r.keyRun) || (r.keyAfterEv && covered(seenEv, k, r.keyRun)) {
						chainPruned++
						continue
					}
					if r.keyAfterEv {
						seenEv[k], newEv[k] = r.keyRun, r.keyRun
					} else {
						seenEnd[k], newEnd[k] = r.keyRun, r.keyRun
					}
					chainKeys++
				}
				nextLevel = append(nextLevel, children(r, b)...)
			}
			level = nextLevel
			if len(level) > 0 && !stopped() && !noDedup {
				pl.broadcastSeen(rootID, newEnd, newEv)
				newEnd, newEv = map[string]int{}, map[string]int{}
			}
			if depth+1 > chainLevels {
				chainLevels = depth + 1
			}
		}
	}
	wg.Wait()
	exhaustive := !stop

	if inapplic > 0 {
		cleanup()
		ev.Unbound(fmt.Sprintf("%d generated histories were inapplicable when executed: the executions are not deterministic", inapplic))
	}

	// ---- violation classes: minimise each raw failing history, signature = oracle kind | minimal perturbations
	sort.Slice(fails, func(i, j int) bool {
		a, c := fails[i], fails[j]
		if len(a.h.Perts) != len(c.h.Perts) {
			return len(a.h.Perts) < len(c.h.Perts)
		}
		if a.v.Kind != c.v.Kind {
			return a.v.Kind < c.v.Kind
		}
		return a.h.String() < c.h.String()
	})
	type class struct {
		kind string
		h    history
	}
	var classes []class
	subset := func(small, big history) bool {
		if (small.MaxAttempts != 0 && small.MaxAttempts != big.MaxAttempts) || small.Cfg != big.Cfg {
			return false
		}
		for _, p := range small.Perts {
			found := false
			for _, q := range big.Perts {
				pw, qw := gridless(p.What), gridless(q.What)
				if p.Kind == kindHub && q.Kind == kindHub { // class matching is by hub operation, not by mode
					pw, _ = parseHubWhat(pw)
					qw, _ = parseHubWhat(qw)
				}
				found = found || (p.At == q.At && p.Kind == q.Kind && pw == qw) || (p.Kind == "event" && q.Kind == "event" && pw == qw)
			}
			if !found {
				return false
			}
		}
		return true
	}
	minimised := 0
	for _, f := range fails {
		matched := false
		for _, c := range classes {
			if c.kind == f.v.Kind && subset(c.h, f.h) {
				run.Violate(c.kind+"|"+classSig(c.h), "", nil)
				matched = true
				break
			}
		}
		if matched || minimised >= 300 {
			if !matched {
				run.Violate(f.v.Kind+"|unminimised", f.v.Detail, f.h)
			}
			continue
		}
		minimised++
		failsWith := func(h history) (bool, *result) {
			r := runHistory(h, false)
			if r.inapplicable != "" {
				return false, r
			}
			for _, v := range r.viols {
				if v.Kind == f.v.Kind {
					return true, r
				}
			}
			return false, r
		}
		// replay twice: identical observations or the harness is not deterministic
		ok1, r1 := failsWith(f.h)
		ok2, r2 := failsWith(f.h)
		if !ok1 || !ok2 || strings.Join(r1.trace, "\n") != strings.Join(r2.trace, "\n") {
			cleanup()
			ev.Nondeterminism("violation " + f.v.Kind + " of " + f.h.String() + " did not replay identically")
		}
		// Minimise inside the history space: drop perturbations, drop runs (a perturbation addressed in run r is
		// re-addressed to an earlier run when the runs before it have nothing left to do), prefer the default
		// retry cap. 1-minimal: no single perturbation can be dropped any more.
		shifted := func(h history, from, d int) (history, bool) {
			out := h.with(append([]pert{}, h.Perts...))
			for i := from; i < len(out.Perts); i++ {
				out.Perts[i].Run -= d
				if out.Perts[i].Run < 1 || (i > 0 && out.Perts[i].Run < out.Perts[i-1].Run) {
					return out, false
				}
			}
			return out, true
		}
		failsSomehow := func(h history) (history, bool) {
			if ok, _ := failsWith(h); ok {
				return h, true
			}
			for from := 0; from < len(h.Perts); from++ {
				for d := 1; d <= 2; d++ {
					if v, legal := shifted(h, from, d); legal {
						if ok, _ := failsWith(v); ok {
							return v, true
						}
					}
				}
			}
			return h, false
		}
		cur := f.h
		if cur.MaxAttempts != 0 {
			dflt := cur
			dflt.MaxAttempts = 0
			if ok, _ := failsWith(dflt); ok {
				cur = dflt
			}
		}
		dropLoop := func() {
			for changed := true; changed; {
				changed = false
				for i := range cur.Perts {
					cand := cur.with(append(append([]pert{}, cur.Perts[:i]...), cur.Perts[i+1:]...))
					if v, ok := failsSomehow(cand); ok {
						cur, changed = v, true
						break
					}
				}
			}
		}
		dropLoop()
		// A hub fault that has to fail only once is the smaller cause: the same operation as `once`, or — when the failure
		// that matters is a later one of the persistent series — that later operation as `once`.
		for round := 0; round < 3; round++ {
			hp := hubPert(cur)
			if hp < 0 {
				break
			}
			if _, mode := parseHubWhat(cur.Perts[hp].What); mode != modePersist {
				break
			}
			if v, ok := failsSomehow(withHubMode(cur, modeOnce)); ok {
				cur = v
				break
			}
			_, cr := failsWith(cur)
			sites := append([]pert{}, cr.hubFired...)
			sort.Slice(sites, func(i, j int) bool { return sites[i].String() < sites[j].String() })
			moved := false
			for _, site := range sites {
				ps := append(append([]pert{}, cur.Perts[:hp]...), cur.Perts[hp+1:]...)
				ps = append(ps, site)
				// the storage events of the history may be addressed relative to calls that only exist while the persistent
				// series is running: also try each of them in every gap
				for _, cand := range eventPlacements(cur.with(ps)) {
					if v, ok := failsSomehow(cand); ok {
						cur, moved = v, true
						break
					}
				}
				if moved {
					break
				}
			}
			if !moved {
				break
			}
			dropLoop()
		}
		for changed := true; changed; { // earliest runs
			changed = false
			for from := 0; from < len(cur.Perts) && !changed; from++ {
				if v, legal := shifted(cur, from, 1); legal {
					if ok, _ := failsWith(v); ok {
						cur, changed = v, true
					}
				}
			}
		}
		cur = executionOrder(cur)
		_, mr := failsWith(cur)
		detail := f.v.Detail
		for _, v := range mr.viols {
			if v.Kind == f.v.Kind {
				detail = v.Detail
			}
		}
		classes = append(classes, class{f.v.Kind, cur})
		run.Violate(f.v.Kind+"|"+classSig(cur), detail+"  [minimal history: "+cur.String()+"]", map[string]any{"history": cur, "trace": mr.trace,
			"how": "cd /verif && ./check C27 --replay <this file>"})
	}

	sort.Slice(small, func(i, j int) bool { return small[i].h.String() < small[j].h.String() })
	var sl []any
	for i, r := range small {
		if len(r.h.Perts) == 0 || i%(len(small)/4+1) == 0 {
			sl = append(sl, map[string]any{"history": r.h.String(), "trace": r.trace})
		}
	}
	if longest != nil {
		sl = append(sl, map[string]any{"history": longest.h.String(), "trace": longest.trace, "note": "longest trace"})
	}
	run.Coverage["states"] = len(states)
	run.Coverage["transitions"] = transitions
	run.Coverage["traces_validated_against_impl"] = histories
	run.Coverage["samples"] = sl
	run.Coverage["exhaustive"] = exhaustive
	run.Coverage["bound_completed"] = fmt.Sprintf("every history is followed by <=%d fault-free closing runs; %s", maxClose, strings.Join(boundDesc, "; "))
	run.Coverage["histories_per_configuration"] = perCfg
	run.Coverage["chain_distinct_states_expanded"] = chainKeys
	run.Coverage["chain_histories_not_extended_state_already_expanded"] = chainPruned
	run.Coverage["chain_histories_cut_at_state_extended_by_earlier_level"] = chainCut
	run.Coverage["chain_levels"] = chainLevels
	run.Coverage["chain_checkpoint_vs_hub_staged_at_put"] = ckSeen
	run.Coverage["distinct_outcomes"] = len(finals)
	run.Coverage["histories"] = histories
	run.Coverage["raw_violating_histories"] = len(fails)
	run.Coverage["closing_runs"] = closing
	run.Coverage["max_closing_runs_needed"] = maxClosing
	run.Coverage["agent_run_errors"] = agentErrs
	run.Coverage["ledger_transitions_observed"] = transSeen
	run.Coverage["receiver_outcomes_observed"] = outcomeSeen
	run.Coverage["perturbations_executed"] = faultFired
	run.Coverage["hub_operations_observed_while_serving"] = hubSeen
	run.Coverage["hub_operations_failed_by_injection"] = hubFailed
	run.Coverage["hub_fault_histories_by_mode"] = hubModes
	run.Coverage["hub_fault_persistent_twins_identical_to_once_not_repeated"] = twinSkipped
	run.Coverage["worker_processes"] = workers
	cf, cc := chainPutOutcomes(len(contentOf[pF1]))
	run.Coverage["alphabet"] = map[string]any{"put_faults": putFaults, "reconcile_faults": recFaults, "crash": crashKinds, "events": allEvents, "hub_fault_operation_kinds": hubKinds, "hub_fault_modes": []string{modeOnce, modePersist},
		"chain_put_outcomes": append(append([]string{oPass}, cf...), cc...), "chain_gap_events": chainEventKinds}
	run.Coverage["rule"] = "a history is a set of perturbations attached to points of a 3-run execution (k-th transport call of run r, or the gap after run r); " +
		"children of an executed history add one perturbation at every later point the parent's trace shows (every fault of the call kind's alphabet, every crash kind, every event applicable in the real state at that point), " +
		"so every placement within the bound is executed exactly once; a state is the canonical dump (ledger rows, spoke files, hub final files, hub staging, hub receipts, hub-compacted set) at a step boundary; " +
		"a transition is one implementation step (agent run start, transport call served by the real hub, storage event); violating histories are not extended. " +
		hubRule + ". " + chainRule
	run.Assume(hubAssume)
	run.Assume("MaxConcurrent=1 and one reconcile page (BatchSize=0): transfers of one pass are sequential, so the k-th call is well defined; concurrency of sendAll is not explored here")
	run.Assume("spoke crash = context cancellation at a transport call (no ledger write succeeds afterwards) + a fresh Agent/Ledger/SQLite handle; a kill inside a SQLite transaction is not modelled")
	run.Assume("the hub process itself does not crash; hub compaction is modelled as cmd/arc wires it (MarkCompacted, then source deletion), hub retention/rm as a bare delete without HubIndex.Forget (the documented #611 gap)")
	run.Assume("ledger transitions of features outside the universe (air-gap export, operator requeue/dismiss, pruning) are not allowed to appear; transport is faultTransport = HTTPTransport+handler semantics without HTTP/HMAC")
	run.Assume(chainAssume)
	run.Assume("short-body = first half of the transmitted bytes; corrupted = one flipped byte in the middle of the transmitted bytes; injected conflict/backpressure answers do not touch hub state")
	fmt.Printf("C27: histories=%d %v states=%d transitions=%d final-outcomes=%d raw-violating=%d classes=%d exhaustive=%v closing(max)=%d\n",
		histories, perCfg, len(states), transitions, len(finals), len(fails), run.ViolationClasses(), exhaustive, maxClosing)
	fmt.Printf("C27: hub faults: histories by mode=%v persistent twins identical to once (not repeated)=%d operations observed=%v failed=%v\n", hubModes, twinSkipped, hubSeen, hubFailed)
	fmt.Printf("C27: chain universe: levels=%d states-expanded=%d not-extended(state seen)=%d (cut early=%d) checkpoint-vs-staged=%v\n", chainLevels, chainKeys, chainPruned, chainCut, ckSeen)
	cleanup()
	fmt.Printf("C27: %d worker processes used %.1fs of CPU\n", workers, pl.cpu.Seconds())
	run.Finish()
}

func attemptsNames(a []int) []int {
	out := make([]int, len(a))
	for i, x := range a {
		out[i] = x
		if x == 0 {
			out[i] = edgesync.DefaultMaxAttempts
		}
	}
	return out
}

func replay(file string) {
	b, err := os.ReadFile(file)
	must(err, "read replay")
	var doc struct {
		Replay struct {
			History history `json:"history"`
		} `json:"replay"`
	}
	must(json.Unmarshal(b, &doc), "parse replay")
	r := runHistory(doc.Replay.History, true)
	fmt.Println("history:", doc.Replay.History.String())
	for _, l := range r.trace {
		fmt.Println(l)
	}
	if r.inapplicable != "" {
		fmt.Println("inapplicable perturbation:", r.inapplicable)
	}
	for _, v := range r.viols {
		fmt.Printf("VIOLATION-REPLAYED %s: %s\n", v.Kind, v.Detail)
	}
	if len(r.viols) > 0 {
		os.RemoveAll(scratch)
		os.Exit(1)
	}
}
