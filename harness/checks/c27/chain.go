// C27, second universe: the single-file attempt chain.
//
// The 2-file universe of main.go bounds the NUMBER of perturbations (quick: one call fault), which keeps
// multi-step fault histories on one file out of reach: "spoke checkpoint and hub staged length disagree" needs
// a truncated upload that is acknowledged, a second one whose answer is lost, and a third attempt from the stale
// checkpoint. The chain universe removes the bound on the number and bounds the SHAPE instead:
//
//	1 spoke file, R main runs (R transfer attempts on that file at most, one per pass) + fault-free closing runs;
//	every transfer attempt of every main run takes every outcome of
//	  pass | short@p | short@p+lost-ack | short@p+crash        p in {0, 1, mid, last} of the transmitted bytes
//	  drop-after-commit (complete body, answer lost) | crash-after-hub-commit (spoke dies before MarkSynced)
//	  drop-before-commit | crash-before-send | corrupted-byte | short+corrupted
//	and every gap between two passes takes every applicable hub staging event of
//	  none | hub-sweep-staging (staging file removed, through the real Receiver.SweepStaging)
//	  hub-staging-cut@q  (staging file shortened to q bytes)  q in {0, 1, mid, last} of the staged length
//
// Reconcile calls stay clean here (their faults are enumerated in the 2-file universe).
//
// Search: level-synchronous over histories (level = number of perturbations), each history executed on the real
// code from a fresh world. A history is not extended when the FULL state right after its last perturbation took
// effect (run number, ledger row incl. checkpoint and attempts, every hub file with a digest of its bytes, hub
// receipts, spoke files, process-restart flag) equals the state of a history that was already extended: from
// there on both have the same futures. Every executed history — extended or not — runs to quiescence and is
// judged by the same oracles O1..O5.
package main

import (
	"crypto/sha256"
	"fmt"
	"io/fs"
	"os"
	"path/filepath"
	"regexp"
	"sort"
	"strings"

	"github.com/basekick-labs/arc/internal/edgesync"
	"github.com/basekick-labs/arc/zzverif/engine/ev"
)

const (
	cfgChain  = "chain"
	oShortAt  = "short@" // internal marker once the grid position has been resolved
	evCut0    = "hub-staging-cut@0"
	evCut1    = "hub-staging-cut@1"
	evCutMid  = "hub-staging-cut@mid"
	evCutLast = "hub-staging-cut@last"
)

// chainWithBefore (thorough): the request is lost / the spoke dies BEFORE the hub sees anything. Neither touches
// the checkpoint or the staged bytes (only the attempt counter / the in_flight mark), and the 2-file universe
// enumerates both on every call, so quick leaves them out of the chain alphabet.
var chainWithBefore bool

var (
	gridNames       = []string{"0", "1", "mid", "last"}
	chainEventKinds = []string{evHubSweep, evCut0, evCut1, evCutMid, evCutLast}
	gridRe          = regexp.MustCompile(`@(0|1|mid|last)`)
)

const chainRule = "Chain universe (1 file): level-synchronous search, level = number of perturbations; the children of a history add one per-attempt outcome " +
	"(every grid position of the transmitted bytes x {acknowledged, answer lost, spoke crash before the ledger write}, complete body with lost answer / crash, " +
	"drop/crash before the request, corrupted, short+corrupted) at every later transfer attempt and every applicable staging event (removed, shortened to every grid " +
	"position of the staged length) at every later gap of the main runs, with no bound on their number; a history is not extended when the full state right after its " +
	"last perturbation (run, ledger row with checkpoint and attempts, digests of all hub files, receipts, spoke files, restart flag) was already extended; " +
	"every executed history is run to quiescence and judged"

const chainAssume = "chain universe: state matching treats two histories as equivalent when run number, ledger row (state, checkpoint, attempts, digest, size), all hub files " +
	"(path + content digest), hub receipts, spoke files and the restart flag agree; ledger timestamps and last_error text are not part of the state (no code path of the " +
	"agent reads them); truncation / cut positions are the grid {0, 1, half, all-but-one} of the transmitted / staged bytes, a shortened staging file keeps a true prefix"

func universe(h history) []string {
	if h.Cfg == cfgChain {
		return []string{pF1}
	}
	return []string{pF1, pF2}
}

// gridless drops the grid position of a chain outcome / event: class signatures and class matching are by
// kind, not by the byte position that happened to expose it.
func gridless(what string) string { return gridRe.ReplaceAllString(what, "") }

// parseShortAt splits "short@<pos>[+lost-ack|+crash]".
func parseShortAt(o string) (pos, after string, ok bool) {
	rest, ok := strings.CutPrefix(o, "short@")
	if !ok {
		return "", "", false
	}
	if p, yes := strings.CutSuffix(rest, "+lost-ack"); yes {
		return p, oDropA, true
	}
	if p, yes := strings.CutSuffix(rest, "+crash"); yes {
		return p, oCrashA, true
	}
	return rest, "", true
}

// cutPos resolves a grid position against a length (clamped, so a history re-addressed by the minimiser stays
// executable).
func cutPos(pos string, n int) int {
	j := 0
	switch pos {
	case "0":
		j = 0
	case "1":
		j = 1
	case "mid":
		j = n / 2
	case "last":
		j = n - 1
	default:
		ev.Unbound("unknown grid position " + pos)
	}
	if j > n {
		j = n
	}
	if j < 0 {
		j = 0
	}
	return j
}

// grid returns the grid positions that are strictly shorter than n and pairwise distinct in value.
func grid(n int) []string {
	var out []string
	seen := map[int]bool{}
	for _, g := range gridNames {
		j := cutPos(g, n)
		if j >= n || seen[j] {
			continue
		}
		seen[j] = true
		out = append(out, g)
	}
	return out
}

// chainPutOutcomes: the per-attempt alphabet for a transfer that transmits n bytes.
func chainPutOutcomes(n int) (faults, crashes []string) {
	for _, g := range grid(n) {
		faults = append(faults, "short@"+g, "short@"+g+"+lost-ack")
		crashes = append(crashes, "short@"+g+"+crash")
	}
	faults = append(faults, oDropA, oCorrupt, oShortCorrupt)
	crashes = append(crashes, oCrashA)
	if chainWithBefore {
		faults = append(faults, oDropB)
		crashes = append(crashes, oCrashB)
	}
	return
}

type stagedFile struct {
	abs, rel string
	size     int64
}

// stagingFiles: what the hub has staged for the files of this universe (the staging object itself or the
// backend's in-progress "<staging>.part").
func (w *world) stagingFiles() []stagedFile {
	var out []stagedFile
	root := filepath.Join(w.dir, "hub")
	for _, p := range universe(w.h) {
		base := filepath.ToSlash(filepath.Join(edgesync.StagingPrefix, spokeID, p))
		for _, rel := range []string{base, base + ".part"} {
			abs := filepath.Join(root, filepath.FromSlash(rel))
			if info, err := os.Stat(abs); err == nil && !info.IsDir() {
				out = append(out, stagedFile{abs, rel, info.Size()})
			}
		}
	}
	sort.Slice(out, func(i, j int) bool { return out[i].rel < out[j].rel })
	return out
}

// chainEvents: staging events applicable in a gap of the chain universe (measured on the real hub directory).
func (w *world) chainEvents(at string) []string {
	if at != "gap" {
		return nil
	}
	st := w.stagingFiles()
	if len(st) == 0 {
		return nil
	}
	out := []string{evHubSweep}
	for _, g := range grid(int(st[0].size)) {
		out = append(out, "hub-staging-cut@"+g)
	}
	sort.Strings(out)
	return out
}

func (w *world) applyCut(e string) {
	st := w.stagingFiles()
	if len(st) == 0 {
		ev.Unbound("no staging file to shorten for " + e)
	}
	pos := strings.TrimPrefix(e, "hub-staging-cut@")
	must(os.Truncate(st[0].abs, int64(cutPos(pos, int(st[0].size)))), e)
}

// noteCheckpoint classifies the spoke's resume offset against what the hub has staged for that file, right
// before the real Receiver sees the request (vacuity evidence: the disagreement class is reached in both
// directions).
func (w *world) noteCheckpoint(p string, offset int64) {
	staged := int64(-1)
	want := filepath.ToSlash(filepath.Join(edgesync.StagingPrefix, spokeID, p))
	for _, s := range w.stagingFiles() {
		if s.rel == want || s.rel == want+".part" {
			staged = s.size
		}
	}
	var k string
	switch {
	case exists(w.hubFinal(p)):
		k = "hub-already-holds-final"
	case offset == 0 && staged < 0:
		k = "fresh(0,nothing-staged)"
	case staged < 0:
		k = "checkpoint>0,nothing-staged"
	case offset == staged:
		k = "agree(k>0)"
		if offset == 0 {
			k = "agree(0,empty-staging)"
		}
	case offset < staged:
		k = "checkpoint-behind-staged"
		if offset == 0 {
			k = "checkpoint-0-behind-staged"
		}
	default:
		k = "checkpoint-ahead-of-staged"
	}
	w.ckSeen[k]++
}

// fullState: everything the future of a history can depend on (see chainAssume).
func (w *world) fullState() string {
	var sb strings.Builder
	rows, err := w.obsDB.Query(`SELECT path, state, bytes_sent, attempts, sha256, size_bytes, exported_at IS NOT NULL FROM sync_ledger ORDER BY path`)
	must(err, "read ledger (state key)")
	for rows.Next() {
		var p, st, sha string
		var bs, at, sz int64
		var exp bool
		must(rows.Scan(&p, &st, &bs, &at, &sha, &sz, &exp), "scan ledger (state key)")
		fmt.Fprintf(&sb, "L %s %s %d %d %s %d %v\n", nameOf(p), st, bs, at, sha[:8], sz, exp)
	}
	must(rows.Err(), "ledger rows (state key)")
	rows.Close()
	for _, side := range []string{"spoke", "hub"} {
		root := filepath.Join(w.dir, side)
		var files []string
		filepath.WalkDir(root, func(p string, d fs.DirEntry, err error) error {
			if err != nil || d.IsDir() {
				return nil
			}
			b, rerr := os.ReadFile(p)
			must(rerr, "read file (state key)")
			rel, _ := filepath.Rel(root, p)
			s := sha256.Sum256(b)
			files = append(files, fmt.Sprintf("%s %s %d %x", side, filepath.ToSlash(rel), len(b), s[:6]))
			return nil
		})
		sort.Strings(files)
		sb.WriteString(strings.Join(files, "\n") + "\n")
	}
	held, err := w.hubDB.Query(`SELECT spoke_id, source_path, hub_path, sha256, size_bytes, compacted_at IS NOT NULL FROM sync_received ORDER BY spoke_id, source_path`)
	must(err, "read hub index (state key)")
	for held.Next() {
		var sp, src, hp, sha string
		var size int64
		var comp bool
		must(held.Scan(&sp, &src, &hp, &sha, &size, &comp), "scan hub index (state key)")
		fmt.Fprintf(&sb, "I %s %s %s %s %d %v\n", sp, src, hp, sha, size, comp)
	}
	must(held.Err(), "hub index rows (state key)")
	held.Close()
	var hc []string
	for p, c := range w.hubCompacted {
		if c {
			hc = append(hc, nameOf(p))
		}
	}
	sort.Strings(hc)
	fmt.Fprintf(&sb, "restart=%v hub-compacted=%v", w.crashed, hc)
	return sb.String()
}

// budgetKey: the part of the remaining perturbation budget that can still matter (nothing for the unbounded
// chain configurations).
func budgetKey(h history, b bounds) string {
	f, c, e := count(h)
	most := 2 * h.nRuns()
	rem := func(bound, used int) int {
		r := bound - used
		if r > most {
			r = most
		}
		return r
	}
	return fmt.Sprintf("%d,%d,%d,%d", rem(b.F, f), rem(b.C, c), rem(b.E, e), rem(b.Total, f+c+e))
}
