// C27, hub-side fault dimension.
//
// The transport faults of main.go perturb the LINK (and the spoke); the hub itself always worked. Here the hub's own
// dependencies fail while it serves a transport call:
//
//	hub index  (HubIndex on SQLite): every statement the real code sends through database/sql while Reconciler.Reconcile /
//	           Receiver.Receive runs is intercepted by a wrapping driver.Conn and classified by statement kind —
//	           index.select (Lookup), index.upsert (Record: INSERT .. ON CONFLICT DO UPDATE), index.delete (Forget /
//	           ForgetBatch), index.update (MarkCompacted) — and can be failed BEFORE it reaches SQLite ("database is locked");
//	hub storage (the storage.Backend handed to Receiver and Reconciler): Exists, StatFile, WriteReader, AppendReader, ReadTo,
//	           Delete are intercepted by a wrapping backend and can be failed BEFORE they touch the directory tree.
//
// A hub fault is addressed like every other perturbation: (run, transport call, n-th such call) + the hub operation inside
// that call (kind, file, n-th such operation of the call) + a mode:
//
//	once        exactly this operation fails;
//	persistent  this operation and every later hub operation of the same kind (any file) fail until the main runs are over.
//
// Children are generated from the parent's executed trace (which hub operations a call performed is MEASURED), so every hub
// operation of every transport call of the main runs is a placement. The persistent twin of a history with a `once` fault is
// executed when (and only when) that history's execution shows a later operation of the same kind inside the main runs —
// otherwise both executions are the same execution.
package main

import (
	"context"
	"database/sql"
	"database/sql/driver"
	"errors"
	"fmt"
	"io"
	"regexp"
	"sort"
	"strings"
	"sync"

	"github.com/basekick-labs/arc/internal/edgesync"
	"github.com/basekick-labs/arc/internal/storage"
	sqlite3 "github.com/mattn/go-sqlite3"
)

const (
	kindHub       = "hub"
	modeOnce      = "once"
	modePersist   = "persistent"
	hIdxSelect    = "index.select"
	hIdxUpsert    = "index.upsert"
	hIdxDelete    = "index.delete"
	hIdxUpdate    = "index.update"
	hStoExists    = "store.exists"
	hStoStat      = "store.stat"
	hStoWrite     = "store.write"
	hStoAppend    = "store.append"
	hStoRead      = "store.read"
	hStoDelete    = "store.delete"
	cfgHubLabel   = "2-file+hub-fault"
	hubErrIndex   = "verif: injected hub index failure: database is locked"
	hubErrStorage = "verif: injected hub storage failure: input/output error"
)

var hubKinds = []string{hIdxSelect, hIdxUpsert, hIdxDelete, hIdxUpdate, hStoExists, hStoStat, hStoWrite, hStoAppend, hStoRead, hStoDelete}

// hubState is the hub-fault bookkeeping of one world.
type hubState struct {
	mu        sync.Mutex
	serving   bool              // inside Reconciler.Reconcile / Receiver.Receive of a transport call of a main run or closing run
	occ       map[string]int    // per transport call: operation -> how many so far
	ops       []string          // per transport call: operations performed ("index.select#1", "store.exists(f1)#1")
	plan      map[string]string // per transport call: operation -> mode
	firedNow  []string          // per transport call: faults that fired
	persist   map[string]bool   // kind -> fails until the main runs are over
	onceKind  string            // kind of the `once` fault that fired
	laterSame bool              // a later operation of onceKind happened inside the main runs
	seen      map[string]int    // kind -> operations observed while serving (vacuity evidence)
	failed    map[string]int    // kind -> operations failed
	sites     []pert            // main runs: where a failure was injected, written as a `once` fault
}

func newHubState() *hubState {
	return &hubState{occ: map[string]int{}, plan: map[string]string{}, persist: map[string]bool{}, seen: map[string]int{}, failed: map[string]int{}}
}

// hubOp is called by the wrapping driver / backend for every hub operation. It returns true when the operation must fail.
func (w *world) hubOp(kind, file string) bool {
	hs := w.hub
	hs.mu.Lock()
	defer hs.mu.Unlock()
	if !hs.serving {
		return false // the harness's own reads, storage events, schema initialisation
	}
	k := kind
	if file != "" {
		k = kind + "(" + file + ")"
	}
	hs.occ[k]++
	key := fmt.Sprintf("%s#%d", k, hs.occ[k])
	hs.ops = append(hs.ops, key)
	hs.seen[kind]++
	inMain := w.run <= w.h.nRuns()
	if inMain && hs.onceKind == kind {
		hs.laterSame = true
	}
	site := pert{Run: w.curAddr.Run, At: w.curAddr.At, Occ: w.curAddr.Occ, Kind: kindHub, What: hubWhat(key, modeOnce)}
	if hs.persist[kind] {
		hs.failed[kind]++
		hs.firedNow = append(hs.firedNow, key+" (persistent)")
		hs.sites = append(hs.sites, site)
		return true
	}
	if mode, ok := hs.plan[key]; ok {
		delete(hs.plan, key)
		hs.failed[kind]++
		hs.firedNow = append(hs.firedNow, key+" ("+mode+")")
		hs.sites = append(hs.sites, site)
		if mode == modePersist {
			hs.persist[kind] = true
		} else {
			hs.onceKind = kind
		}
		return true
	}
	return false
}

// hubBegin / hubEnd bracket the part of a transport call that the real hub serves.
func (w *world) hubBegin() {
	hs := w.hub
	hs.mu.Lock()
	hs.serving = true
	hs.occ = map[string]int{}
	hs.ops = nil
	hs.firedNow = nil
	hs.mu.Unlock()
}

// hubEnd returns the faults that fired during the call (sorted: some hub operations run concurrently).
func (w *world) hubEnd() []string {
	hs := w.hub
	hs.mu.Lock()
	defer hs.mu.Unlock()
	hs.serving = false
	ops := append([]string{}, hs.ops...)
	sort.Strings(ops)
	if n := len(w.points); n > 0 {
		w.points[n-1].HubOps = ops
	}
	for k := range hs.plan {
		w.inapplicable = "hub fault " + k + " (the call never performed that operation)"
		delete(hs.plan, k)
	}
	fired := append([]string{}, hs.firedNow...)
	sort.Strings(fired)
	return fired
}

// hubCancel drops a planned hub fault of a call that never reached the hub.
func (w *world) hubCancel() {
	hs := w.hub
	hs.mu.Lock()
	defer hs.mu.Unlock()
	for k := range hs.plan {
		w.inapplicable = "hub fault " + k + " (the call never reached the hub)"
		delete(hs.plan, k)
	}
}

// hubMainRunsOver: perturbations have stopped.
func (w *world) hubMainRunsOver() {
	hs := w.hub
	hs.mu.Lock()
	hs.persist = map[string]bool{}
	hs.mu.Unlock()
}

// hubErrText: what the trace shows for a hub error. When a fault was injected the error text may depend on which of two
// concurrent hub operations reported first (confirmPresent's fan-out, promote's reader/writer pair), so it is not shown.
func hubErrText(err error, fired []string) string {
	if len(fired) > 0 {
		return "hub error [injected: " + strings.Join(fired, ", ") + "]"
	}
	return "hub error " + err.Error()
}

// ---------------------------------------------------------------- hub pert encoding

// hubWhat: "<operation>#<n>:<mode>"
func hubWhat(op, mode string) string { return op + ":" + mode }

func parseHubWhat(what string) (op, mode string) {
	i := strings.LastIndex(what, ":")
	if i < 0 {
		return what, modeOnce
	}
	return what[:i], what[i+1:]
}

var hubOccRe = regexp.MustCompile(`#\d+`)

func hubKindOf(op string) string {
	if i := strings.IndexAny(op, "(#"); i >= 0 {
		return op[:i]
	}
	return op
}

// hubPert returns the index of the hub fault of a history, or -1.
func hubPert(h history) int {
	for i, p := range h.Perts {
		if p.Kind == kindHub {
			return i
		}
	}
	return -1
}

// withHubMode returns the history with its hub fault in the other mode.
func withHubMode(h history, mode string) history {
	out := h.with(append([]pert{}, h.Perts...))
	if i := hubPert(out); i >= 0 {
		op, _ := parseHubWhat(out.Perts[i].What)
		out.Perts[i].What = hubWhat(op, mode)
	}
	return out
}

// ---------------------------------------------------------------- hub index: wrapping database/sql driver

type hubConnector struct {
	dsn string
	w   *world
}

func (c *hubConnector) Connect(context.Context) (driver.Conn, error) {
	conn, err := (&sqlite3.SQLiteDriver{}).Open(c.dsn)
	if err != nil {
		return nil, err
	}
	return &hubConn{SQLiteConn: conn.(*sqlite3.SQLiteConn), w: c.w}, nil
}

func (c *hubConnector) Driver() driver.Driver { return &sqlite3.SQLiteDriver{} }

// hubConn forwards everything to the real SQLite connection; statements are classified and possibly failed first.
type hubConn struct {
	*sqlite3.SQLiteConn
	w *world
}

func stmtKind(q string) string {
	q = strings.ToUpper(strings.TrimSpace(q))
	switch {
	case strings.HasPrefix(q, "SELECT"):
		return hIdxSelect
	case strings.HasPrefix(q, "INSERT"):
		return hIdxUpsert
	case strings.HasPrefix(q, "DELETE"):
		return hIdxDelete
	case strings.HasPrefix(q, "UPDATE"):
		return hIdxUpdate
	}
	return ""
}

func (c *hubConn) gate(q string) error {
	if k := stmtKind(q); k != "" && c.w.hubOp(k, "") {
		return errors.New(hubErrIndex)
	}
	return nil
}

func (c *hubConn) ExecContext(ctx context.Context, q string, args []driver.NamedValue) (driver.Result, error) {
	if err := c.gate(q); err != nil {
		return nil, err
	}
	return c.SQLiteConn.ExecContext(ctx, q, args)
}

func (c *hubConn) QueryContext(ctx context.Context, q string, args []driver.NamedValue) (driver.Rows, error) {
	if err := c.gate(q); err != nil {
		return nil, err
	}
	return c.SQLiteConn.QueryContext(ctx, q, args)
}

func (c *hubConn) PrepareContext(ctx context.Context, q string) (driver.Stmt, error) {
	if err := c.gate(q); err != nil {
		return nil, err
	}
	return c.SQLiteConn.PrepareContext(ctx, q)
}

func (c *hubConn) Prepare(q string) (driver.Stmt, error) { return c.PrepareContext(context.Background(), q) }

func (c *hubConn) Exec(q string, args []driver.Value) (driver.Result, error) {
	if err := c.gate(q); err != nil {
		return nil, err
	}
	return c.SQLiteConn.Exec(q, args)
}

func (c *hubConn) Query(q string, args []driver.Value) (driver.Rows, error) {
	if err := c.gate(q); err != nil {
		return nil, err
	}
	return c.SQLiteConn.Query(q, args)
}

func openHubSQLite(p string, w *world) *sql.DB {
	db := sql.OpenDB(&hubConnector{dsn: "file:" + p + "?_busy_timeout=10000&_synchronous=0&_journal_mode=MEMORY", w: w})
	db.SetMaxOpenConns(1) // as cmd/arc's sharedSQLiteHandle does
	return db
}

// ---------------------------------------------------------------- hub storage: wrapping backend

// hubBackend is what Receiver and Reconciler get: the real LocalBackend (all optional interfaces — AppendingBackend,
// ObjectLister — come through the embedding), with the calls they make intercepted.
type hubBackend struct {
	*storage.LocalBackend
	w *world
}

var errHubStorage = errors.New(hubErrStorage)

// hubFileName names a hub path the way the traces do: f1, f1.part, staging(f1), staging(f1).part
func hubFileName(p string) string {
	part := ""
	if q, ok := strings.CutSuffix(p, ".part"); ok {
		p, part = q, ".part"
	}
	if src, ok := strings.CutPrefix(p, edgesync.StagingPrefix+"/"+spokeID+"/"); ok {
		return "staging(" + nameOf(src) + ")" + part
	}
	if src, ok := strings.CutPrefix(p, spokeID+"/"); ok {
		return nameOf(src) + part
	}
	return "?" + p + part
}

func (b *hubBackend) Exists(ctx context.Context, p string) (bool, error) {
	if b.w.hubOp(hStoExists, hubFileName(p)) {
		return false, errHubStorage
	}
	return b.LocalBackend.Exists(ctx, p)
}

func (b *hubBackend) StatFile(ctx context.Context, p string) (int64, error) {
	if b.w.hubOp(hStoStat, hubFileName(p)) {
		return -1, errHubStorage
	}
	return b.LocalBackend.StatFile(ctx, p)
}

func (b *hubBackend) WriteReader(ctx context.Context, p string, r io.Reader, size int64) error {
	if b.w.hubOp(hStoWrite, hubFileName(p)) {
		return errHubStorage
	}
	return b.LocalBackend.WriteReader(ctx, p, r, size)
}

func (b *hubBackend) AppendReader(ctx context.Context, p string, r io.Reader, size int64) error {
	if b.w.hubOp(hStoAppend, hubFileName(p)) {
		return errHubStorage
	}
	return b.LocalBackend.AppendReader(ctx, p, r, size)
}

func (b *hubBackend) ReadTo(ctx context.Context, p string, wr io.Writer) error {
	if b.w.hubOp(hStoRead, hubFileName(p)) {
		return errHubStorage
	}
	return b.LocalBackend.ReadTo(ctx, p, wr)
}

func (b *hubBackend) Delete(ctx context.Context, p string) error {
	if b.w.hubOp(hStoDelete, hubFileName(p)) {
		return errHubStorage
	}
	return b.LocalBackend.Delete(ctx, p)
}

var (
	_ storage.AppendingBackend = (*hubBackend)(nil)
	_ storage.ObjectLister     = (*hubBackend)(nil)
)

const hubRule = "Hub-fault dimension (2-file universe): every statement the hub index sends to SQLite and every storage call Receiver / Reconciler make while serving a transport call " +
	"is intercepted (wrapping database/sql driver.Conn, wrapping storage backend), classified (index.select / index.upsert / index.delete / index.update; store.exists / store.stat / " +
	"store.write / store.append / store.read / store.delete, per file) and recorded per transport call; the children of a history add ONE hub fault at every recorded hub operation of every " +
	"transport call at or after the parent's last perturbed point, mode `once`; the `persistent` twin (same operation, and every later hub operation of that kind fails until the main runs " +
	"are over) of any executed history is executed — and extended like any other history — exactly when the execution shows a later operation of that kind inside the main runs " +
	"(otherwise the two executions are identical); a failed operation fails BEFORE it has any effect"

const hubAssume = "hub faults: an injected index / storage failure has no effect of its own (the statement never reaches SQLite, the storage call never touches the tree) — a write that dies half-way " +
	"leaves what the short-body transport fault leaves; hub faults are injected only into the operations Reconciler.Reconcile and Receiver.Receive perform while serving a transport call of a main run; " +
	"the harness-driven storage events (hub compaction's MarkCompacted — the only UPDATE statement of the index —, retention delete, staging sweep) run fault-free"

func firedNote(fired []string) string {
	if len(fired) == 0 {
		return ""
	}
	return "  [injected, tolerated by the hub: " + strings.Join(fired, ", ") + "]"
}

// eventPlacements: h itself, then h with its storage events moved into gaps (every combination, earliest gaps first).
func eventPlacements(h history) []history {
	out := []history{h}
	var evs []int
	for i, p := range h.Perts {
		if p.Kind == "event" {
			evs = append(evs, i)
		}
	}
	if len(evs) == 0 || len(evs) > 2 {
		return out
	}
	var rec func(k int, ps []pert)
	rec = func(k int, ps []pert) {
		if k == len(evs) {
			cand := h.with(append([]pert{}, ps...))
			sort.SliceStable(cand.Perts, func(i, j int) bool { return cand.Perts[i].Run < cand.Perts[j].Run })
			out = append(out, cand)
			return
		}
		for r := 1; r <= h.nRuns(); r++ {
			q := append([]pert{}, ps...)
			q[evs[k]] = pert{Run: r, At: "gap", Occ: 1, Kind: "event", What: ps[evs[k]].What}
			rec(k+1, q)
		}
	}
	rec(0, h.Perts)
	return out
}

// executionOrder lists the perturbations of an (applicable) history in the order in which its execution meets them: by
// point, and at one point event, then call fault / crash, then hub fault — the order the search generates them in.
func executionOrder(h history) history {
	r := runHistory(h, false)
	if r.inapplicable != "" {
		return h
	}
	at := map[addr]int{}
	for i, pi := range r.points {
		at[pi.A] = i
	}
	rank := func(p pert) int {
		switch p.Kind {
		case "event":
			return 0
		case kindHub:
			return 2
		}
		return 1
	}
	out := h.with(append([]pert{}, h.Perts...))
	sort.SliceStable(out.Perts, func(i, j int) bool {
		a, b := out.Perts[i], out.Perts[j]
		ia, ib := at[addr{a.Run, a.At, a.Occ}], at[addr{b.Run, b.At, b.Occ}]
		if ia != ib {
			return ia < ib
		}
		return rank(a) < rank(b)
	})
	return out
}
