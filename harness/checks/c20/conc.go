// C20, phase 2 — a mutation racing a permission check.
//
// Stateless model checking (engine/sched over the vsched runtime) of the REAL AuthManager + RBACManager, whose
// package is instrumented by the overlay (cache locks, goroutine starts, channel operations, the clock, and every
// database operation through a visible model of the 1-connection pool are scheduling points).
//
// One execution: fresh managers over a fresh copy of a seeded database (built once per process through the real
// API), the caches brought into one of three pre-states, then TWO threads: the mutator (one operation of the BFS
// alphabet, direct or through the cluster-apply path) and the checker (VerifyToken + ONE CheckPermission, or ONE
// CheckPermissionsBatch with two requests, for a token the mutation affects). Every schedule of the two threads (and
// of the managers' own background goroutines) up to the deviation bound is executed. After BOTH returned, all 12
// probes of the token are asked on the long-lived managers, singly and then as one batch, and every answer must equal
// the decision of brand-new managers opened over the same database file.
package main

import (
	"encoding/json"
	"fmt"
	"os"
	"os/exec"
	"os/signal"
	"path/filepath"
	"runtime"
	"sort"
	"strconv"
	"strings"
	"sync"
	"sync/atomic"
	"syscall"
	"time"

	"github.com/basekick-labs/arc/internal/auth"
	"github.com/basekick-labs/arc/zzverif/engine/ev"
	"github.com/basekick-labs/arc/zzverif/engine/sched"
	"github.com/basekick-labs/arc/zzverif/shim/vclock"
	"github.com/basekick-labs/arc/zzverif/shim/vsched"
	"github.com/basekick-labs/arc/zzverif/shim/vsync"
	"github.com/rs/zerolog"
)

// ---------------------------------------------------------------------------------------------
// the scenario table

var concH = []string{"createOrg(O1)", "createOrg(O2)", "createTeam(T1)", "createTeam(T2)", "createRole(R1,*,read)", "createRole(R2,db1,read+write)",
	"createToken(K1,read+write)", "createToken(K2,none)", "addMember(K1,T1)", "addMember(K2,T2)"}

func without(l []string, drop string) []string {
	var out []string
	for _, x := range l {
		if x != drop {
			out = append(out, x)
		}
	}
	if len(out) != len(l)-1 {
		panic("without: " + drop)
	}
	return out
}

func with(l []string, add ...string) []string { return append(append([]string{}, l...), add...) }

// concSeeds: the fixed hierarchy H (organizations O1,O2; team Ti in Oi; role R1 (*: read) on T1, role R2 (db1:
// read+write) on T2; token K1 (read,write) in T1, RBAC-only token K2 in T2) and its one-step variants that make a
// create / enable / widen / narrow operation applicable and decision-changing.
var concSeeds = map[string][]string{
	"H":        concH,
	"H+P2":     with(concH, "createMeasPerm(P2,m2,read)"),
	"H+T2off":  with(concH, "setTeamEnabled(T2,false)"),
	"H+O2off":  with(concH, "setOrgEnabled(O2,false)"),
	"H+R2any":  with(concH, "setRolePattern(R2,*)"),
	"H+R2ro":   with(concH, "setRolePerms(R2,read)"),
	"H-R2":     without(concH, "createRole(R2,db1,read+write)"),
	"H-K2inT2": without(concH, "addMember(K2,T2)"),
	"H+K2ro":   with(concH, "setTokenPerms(K2,read)"),
}

type concCase struct {
	seed  string
	mut   string
	tok   int  // the token the checker uses (0 = K1, 1 = K2)
	quick bool // part of the quick tier (every API method once; thorough adds the opposite direction and the K1 twins)
}

// concCases: every operation of the BFS alphabet that changes a decision of an EXISTING token, once per API
// method and direction (the slot-1 twins of the slot-2 RBAC operations run the same code on other ids and are
// left to the BFS phase; createOrg / createTeam / createToken cannot change a decision of an existing token).
var concCases = []concCase{
	{"H", "setOrgEnabled(O2,false)", 1, true},
	{"H+O2off", "setOrgEnabled(O2,true)", 1, false},
	{"H", "deleteOrg(O2)", 1, true},
	{"H", "setTeamEnabled(T2,false)", 1, true},
	{"H+T2off", "setTeamEnabled(T2,true)", 1, false},
	{"H", "deleteTeam(T2)", 1, true},
	{"H-R2", "createRole(R2,db1,read+write)", 1, true},
	{"H", "setRolePattern(R2,*)", 1, false},
	{"H+R2any", "setRolePattern(R2,db1)", 1, true},
	{"H", "setRolePerms(R2,read)", 1, true},
	{"H+R2ro", "setRolePerms(R2,read+write)", 1, false},
	{"H", "deleteRole(R2)", 1, true},
	{"H", "createMeasPerm(P2,m2,read)", 1, true},
	{"H+P2", "deleteMeasPerm(P2)", 1, true},
	{"H-K2inT2", "addMember(K2,T2)", 1, true},
	{"H", "addMember(K2,T1)", 1, false},
	{"H", "removeMember(K2,T2)", 1, true},
	{"H", "setTokenPerms(K2,read)", 1, false},
	{"H+K2ro", "setTokenPerms(K2,none)", 1, false},
	{"H", "setTokenPerms(K1,read)", 0, true},
	{"H", "setTokenPerms(K1,none)", 0, false},
	{"H", "revokeToken(K2)", 1, true},
	{"H", "deleteToken(K2)", 1, true},
	{"H", "revokeToken(K1)", 0, false},
	{"H", "deleteToken(K1)", 0, false},
}

var (
	concCheckers = []string{"single", "batch"}
	// cache pre-state when the two threads start (A = the checker's request, B = another request of the same token):
	//   cold        nothing was asked since the managers were opened
	//   rbac-cold   the token value was verified once (verified-token cache filled); both RBAC caches are empty - the
	//               state every RBAC write leaves behind
	//   token-warm  single checker: B was asked once (verified-token cache, tokenCache and permCache[B] filled)
	//               batch checker [A,B]: A was asked once singly (A hits, B misses the permCache)
	//   warm        exactly the checker's call was made once before
	concPre = []string{"cold", "rbac-cold", "token-warm", "warm"}
)

type concSpec struct {
	concCase
	mode    int
	checker string
	pre     string
}

func (s concSpec) name() string {
	return fmt.Sprintf("%s/%s from %s/%s checker K%d/cache %s", modeName[s.mode], s.mut, s.seed, s.checker, s.tok+1, s.pre)
}

// concBound is the deviation bound of a scenario: quick 2, thorough 3; one less from the all-cold pre-state, whose
// verified-token miss (it holds the pool's only connection across its cache fill and queues a last_used_at write)
// brings a third thread into the window and multiplies the schedules by 4-10.
func concBound(sp concSpec, quick bool) int {
	b := 3
	if quick {
		b = 2
	}
	if sp.pre == "cold" {
		b--
	}
	return b
}

func family(op string) string {
	if i := strings.IndexByte(op, '('); i >= 0 {
		return op[:i]
	}
	return op
}

// concSpecs lists every scenario; the quick tier runs those with inQuick() (see concBound for the bound).
func concSpecs() []concSpec {
	var out []concSpec
	for _, c := range concCases {
		for mode := 0; mode < 2; mode++ {
			for _, ck := range concCheckers {
				for _, pre := range concPre {
					out = append(out, concSpec{c, mode, ck, pre})
				}
			}
		}
	}
	return out
}

// ---------------------------------------------------------------------------------------------
// per-process preparation (seed template, reference decisions before/after, the checker's requests)

type concPrep struct {
	seed           *seeded
	before, after  string // fresh decisions of the token's 12 probes on the seeded state / after the mutation alone
	reqA, reqB     int    // probe indices
	changing       bool
	mutErrSeq      bool // the mutation returns an error when run alone
	changedProbes  int
	seedStateLines int
}

var (
	concPrepMu sync.Mutex
	concPreps  = map[string]*concPrep{}
	concT0     = time.Unix(1_700_000_500, 0)
)

// tokenDecisions opens brand-new managers over the database file and asks the token's probes singly (cold) and,
// on another brand-new RBACManager, as one batch. val is the token VALUE the client holds (kept after a delete).
func tokenDecisions(path string, tok int, val string) (single1, batch1 []byte) {
	stats.freshOpens.Add(1)
	am, err := auth.NewAuthManager(path, time.Hour, 100, zerolog.Nop())
	if err != nil {
		unbound("fresh NewAuthManager: " + err.Error())
	}
	cfg := &auth.RBACManagerConfig{DB: am.GetDB(), LicenseClient: lic, Logger: zerolog.Nop(), CacheTTL: time.Hour}
	single1, batch1 = make([]byte, len(probes)), make([]byte, len(probes))
	rm1 := auth.NewRBACManager(cfg)
	for _, i := range tokProbes[tok] {
		single1[i] = single(am, rm1, val, probes[i])
	}
	rm1.Close()
	rm2 := auth.NewRBACManager(cfg)
	am.InvalidateCache()
	var vals [2]string
	vals[tok] = val
	batch(am, rm2, vals, tokProbes[tok], batch1)
	rm2.Close()
	am.Close()
	return
}

func pickTok(b []byte, tok int) string {
	var s []byte
	for _, i := range tokProbes[tok] {
		s = append(s, b[i])
	}
	return string(s)
}

func prepare(sp concSpec) *concPrep {
	k := fmt.Sprintf("%d|%s|%s|%d", sp.mode, sp.seed, sp.mut, sp.tok)
	concPrepMu.Lock()
	defer concPrepMu.Unlock()
	if p, ok := concPreps[k]; ok {
		return p
	}
	if err := os.MkdirAll(root, 0o700); err != nil {
		unbound(err.Error())
	}
	vclock.Install(concT0)
	if tmpl == nil {
		initTemplate(func() { os.RemoveAll(root) })
	}
	p := &concPrep{seed: buildSeed(sp.mode, idx(concSeeds[sp.seed]...))}
	// dry run of the mutation alone: which probes change?
	w := newWorld(sp.mode, p.seed)
	val := w.tokVal[sp.tok]
	if val == "" {
		unbound("phase 2: seed " + sp.seed + " has no token K" + fmt.Sprint(sp.tok+1))
	}
	m := opIndex[sp.mut]
	if ops[m].enabled != nil && !ops[m].enabled(w) {
		unbound("phase 2: " + sp.mut + " is not applicable in seed " + sp.seed)
	}
	p.seedStateLines = strings.Count(w.abs, "\n") + 1
	b1, _ := tokenDecisions(w.path, sp.tok, val)
	p.mutErrSeq = ops[m].run(w) != nil
	w.refresh()
	a1, _ := tokenDecisions(w.path, sp.tok, val)
	w.close()
	p.before, p.after = pickTok(b1, sp.tok), pickTok(a1, sp.tok)
	var diff, same []int
	for _, i := range tokProbes[sp.tok] {
		if b1[i] != a1[i] {
			diff = append(diff, i)
		} else {
			same = append(same, i)
		}
	}
	p.changedProbes = len(diff)
	p.changing = len(diff) > 0
	order := append(diff, same...)
	p.reqA, p.reqB = order[0], order[1]
	concPreps[k] = p
	return p
}

// ---------------------------------------------------------------------------------------------
// one execution

type concDetail struct {
	Scenario   string   `json:"scenario"`
	Mutation   string   `json:"mutation"`
	MutErr     string   `json:"mutation_error,omitempty"`
	Requests   []string `json:"checker_requests"`
	Concurrent string   `json:"checker_answers"`
	Stale      []string `json:"stale_later_checks"`
	Stored     string   `json:"stored_state"`
	PermCache  []string `json:"perm_cache"`
	TokenCache []string `json:"token_cache"`
}

func concScenarios() []sched.Scenario {
	var out []sched.Scenario
	for _, sp := range concSpecs() {
		sp := sp
		out = append(out, sched.Scenario{Name: sp.name(), Setup: func() (func(), func() sched.Outcome, func()) {
			p := prepare(sp)
			os.MkdirAll(root, 0o700)
			vclock.Install(concT0.Add(time.Hour))
			var (
				w      *world
				val    string
				mutErr error
				mutRan bool
				conc   = make([]byte, len(probes))
				reqs   []int
			)
			var vals [2]string
			ask := func(kind string, reqs []int, out []byte) {
				if kind == "single" {
					out[reqs[0]] = single(w.am, w.rm, val, probes[reqs[0]])
					return
				}
				batch(w.am, w.rm, vals, reqs, out)
			}
			reqs = []int{p.reqA}
			if sp.checker == "batch" {
				reqs = []int{p.reqA, p.reqB}
			}
			body := func() {
				afterOpen = settle
				w = newWorld(sp.mode, p.seed)
				afterOpen = nil
				val = w.tokVal[sp.tok]
				vals[sp.tok] = val
				scratch := make([]byte, len(probes))
				if sp.pre != "cold" {
					// the verified-token cache is filled first and the last_used_at writer drained, so that the
					// rest of the priming has no scheduling alternatives either
					w.am.VerifyToken(val)
					settle()
				}
				switch sp.pre {
				case "token-warm":
					if sp.checker == "single" {
						ask("single", []int{p.reqB}, scratch)
					} else {
						ask("single", []int{p.reqA}, scratch)
					}
				case "warm":
					ask(sp.checker, reqs, scratch)
				}
				var wg vsync.WaitGroup
				wg.Add(2)
				m := opIndex[sp.mut]
				vsched.Go("mutator", func() {
					defer wg.Done()
					mutErr = ops[m].run(w)
					mutRan = true
				})
				vsched.Go("checker", func() {
					defer wg.Done()
					ask(sp.checker, reqs, conc)
				})
				wg.Wait()
			}
			check := func() sched.Outcome {
				if w == nil || !mutRan {
					return sched.Outcome{Key: "setup-error"}
				}
				w.refresh()
				later1, later2 := make([]byte, len(probes)), make([]byte, len(probes))
				for _, i := range tokProbes[sp.tok] {
					later1[i] = single(w.am, w.rm, val, probes[i])
				}
				batch(w.am, w.rm, vals, tokProbes[sp.tok], later2)
				ref, refBatch := concRef(w, sp.tok, val, false)
				stale := func(ref []byte) (idx []int) {
					for _, i := range tokProbes[sp.tok] {
						if later1[i] != ref[i] || later2[i] != ref[i] {
							idx = append(idx, i)
						}
					}
					return
				}
				bad := stale(ref)
				if len(bad) > 0 || string(ref) != string(refBatch) {
					// never report from a memoised reference: re-evaluate on real fresh managers over THIS file
					stats.confirmations.Add(1)
					ref, refBatch = concRef(w, sp.tok, val, true)
					bad = stale(ref)
				}
				var cs []byte
				for _, i := range reqs {
					cs = append(cs, conc[i])
				}
				now := pickTok(ref, sp.tok)
				key := fmt.Sprintf("mutErr=%v checker=%s later=%s/%s fresh=%s changed=%v", mutErr != nil, cs, pickTok(later1, sp.tok), pickTok(later2, sp.tok), now, now != p.before)
				if len(bad) == 0 && string(ref) == string(refBatch) {
					return sched.Outcome{Key: key}
				}
				d := concDetail{Scenario: sp.name(), Mutation: sp.mut, Concurrent: string(cs), Stored: w.abs}
				if mutErr != nil {
					d.MutErr = mutErr.Error()
				}
				asked := map[int]bool{}
				for _, i := range reqs {
					d.Requests = append(d.Requests, probes[i].String())
					asked[i] = true
				}
				if len(bad) == 0 {
					for _, i := range tokProbes[sp.tok] {
						if ref[i] != refBatch[i] {
							d.Stale = append(d.Stale, fmt.Sprintf("%s cold batch=%c cold single=%c", probes[i], refBatch[i], ref[i]))
						}
					}
					return sched.Outcome{Key: key, Violation: fmt.Sprintf("concurrent-batch-vs-single|%s|%s", modeName[sp.mode], family(sp.mut)), Detail: d}
				}
				scope := "asked-requests-only"
				for _, i := range bad {
					if !asked[i] {
						scope = "other-requests-too"
					}
					d.Stale = append(d.Stale, fmt.Sprintf("%s single=%c batch=%c fresh=%c", probes[i], later1[i], later2[i], ref[i]))
				}
				d.PermCache, d.TokenCache = w.cacheDump()
				return sched.Outcome{Key: key, Violation: fmt.Sprintf("concurrent-stale|%s|%s|%s|%s", modeName[sp.mode], sp.checker, scope, family(sp.mut)), Detail: d}
			}
			teardown := func() {
				if w != nil {
					w.close()
				}
				os.Remove(root) // only succeeds when empty
			}
			return body, check, teardown
		}})
	}
	return out
}

// settle blocks the calling thread until every other enabled thread has run to its next blocking operation (the
// default schedule runs them one after the other): a helper thread is started last and waited for.
func settle() {
	var wg vsync.WaitGroup
	wg.Add(1)
	vsched.Go("settle", func() { wg.Done() })
	wg.Wait()
}

var concMemo sync.Map // abstract stored state | token -> [2][]byte

// concRef is the reference for the current stored state: decisions of brand-new managers over the same file.
func concRef(w *world, tok int, val string, real bool) ([]byte, []byte) {
	stats.oracleEvals.Add(1)
	k := fmt.Sprintf("%s|K%d", w.abs, tok+1)
	if !real {
		if v, ok := concMemo.Load(k); ok {
			stats.memoHits.Add(1)
			r := v.([2][]byte)
			return r[0], r[1]
		}
	}
	s, b := tokenDecisions(w.path, tok, val)
	concMemo.Store(k, [2][]byte{s, b})
	return s, b
}

// cacheDump renders the two RBAC caches of the long-lived manager (ids renamed to slot names) for the replay artefact.
func (w *world) cacheDump() (perm, tokc []string) {
	n := w.namer(nil)
	for _, e := range w.rm.VerifPermCache() {
		perm = append(perm, fmt.Sprintf("%s %s/%s:%s -> %v %s", n.K(fmt.Sprint(e.TokenID)), e.Database, e.Measurement, e.Permission, e.Allowed, e.Source))
	}
	for _, d := range w.rm.VerifTokenCache() {
		var s []string
		for _, tm := range d.Teams {
			s = append(s, fmt.Sprintf("team %s en=%v", n.T(fmt.Sprint(tm.ID)), tm.Enabled))
		}
		for tid, rs := range d.Roles {
			for _, r := range rs {
				s = append(s, fmt.Sprintf("role %s on %s %s %v", n.R(fmt.Sprint(r.ID)), n.T(fmt.Sprint(tid)), r.DatabasePattern, r.Permissions))
			}
		}
		for rid, ms := range d.MeasPerms {
			for _, m := range ms {
				s = append(s, fmt.Sprintf("mp %s on %s %s %v", n.P(fmt.Sprint(m.ID)), n.R(fmt.Sprint(rid)), m.MeasurementPattern, m.Permissions))
			}
		}
		sort.Strings(s)
		tokc = append(tokc, fmt.Sprintf("%s {%s}", n.K(fmt.Sprint(d.TokenID)), strings.Join(s, "; ")))
	}
	sort.Strings(perm)
	sort.Strings(tokc)
	return
}

// ---------------------------------------------------------------------------------------------
// worker processes: one process explores a chunk of scenarios, one after the other

type concWorkerOut struct {
	Results []sched.Result     `json:"results"`
	Preps   map[string]prepOut `json:"preps"`
	Counts  map[string]int64   `json:"counters"`
}

type prepOut struct {
	Before, After string
	ReqA, ReqB    string
	Changing      bool
	MutErrSeq     bool
}

var windowSites = []string{"start mutator", "start checker"}

// shapeOf classifies a schedule by how the mutator (M) and the checker (C) interleave, ignoring the managers'
// background goroutines: "mutation-atomic" = the mutator ran as ONE uninterrupted block relative to the checker
// (C* M+ C*), so nothing inside the mutating call can matter; otherwise "split".
func shapeOf(pts []vsched.PointRec) string {
	m, c := -1, -1
	for _, p := range pts {
		switch p.Site {
		case "start mutator":
			m = p.Thread
		case "start checker":
			c = p.Thread
		}
	}
	runsM, last := 0, -1
	for _, p := range pts {
		if p.Thread != m && p.Thread != c {
			continue
		}
		if p.Thread == m && last != m {
			runsM++
		}
		last = p.Thread
	}
	if runsM <= 1 {
		return "mutation-atomic"
	}
	return "split"
}

// finalClass turns the per-execution class of check() ("concurrent-stale|mode|checker|scope|family") into the
// reported class: the family is dropped when the mutation ran atomically (the counterexample does not depend on it).
func finalClass(cl string, pts []vsched.PointRec) string {
	if !strings.HasPrefix(cl, "concurrent-stale|") {
		return cl
	}
	f := strings.Split(cl, "|")
	if len(f) != 5 {
		return cl
	}
	if shapeOf(pts) == "mutation-atomic" {
		f[4] = "mutation-atomic"
	} else {
		f[4] += "-split"
	}
	return strings.Join(f, "|")
}

// concWorkerMain: VERIF_C20_CONC="<tier>/<deadline unix>/<watchdog ms>/<i,j,...>"
func concWorkerMain(env string) {
	f := strings.Split(env, "/")
	if len(f) != 4 {
		fmt.Println("bad VERIF_C20_CONC")
		os.Exit(2)
	}
	if !instrumented {
		fmt.Println("phase-2 worker started from the uninstrumented binary")
		os.Exit(2)
	}
	quick := f[0] == "quick"
	sig := make(chan os.Signal, 1)
	signal.Notify(sig, os.Interrupt, syscall.SIGTERM, syscall.SIGHUP)
	go func() { <-sig; os.RemoveAll(root); os.Exit(130) }()
	dl, _ := strconv.ParseInt(f[1], 10, 64)
	wd, _ := strconv.Atoi(f[2])
	scs := concScenarios()
	specs := concSpecs()
	out := concWorkerOut{Preps: map[string]prepOut{}}
	var windowPts int64
	for _, s := range strings.Split(f[3], ",") {
		i, err := strconv.Atoi(s)
		if err != nil || i < 0 || i >= len(scs) {
			fmt.Println("bad scenario index", s)
			os.Exit(2)
		}
		res, wp := exploreWindow(scs[i], sched.Options{Bound: concBound(specs[i], quick), FreeCost: 1, Deadline: time.Unix(dl, 0), Watchdog: time.Duration(wd) * time.Millisecond}, windowSites, finalClass)
		out.Results = append(out.Results, res)
		windowPts += wp
		p := prepare(specs[i])
		out.Preps[scs[i].Name] = prepOut{p.before, p.after, probes[p.reqA].String(), probes[p.reqB].String(), p.changing, p.mutErrSeq}
	}
	out.Counts = map[string]int64{"fresh_manager_opens": stats.freshOpens.Load(), "oracle_evaluations": stats.oracleEvals.Load(), "oracle_memo_hits": stats.memoHits.Load(),
		"permission_checks": stats.probeCalls.Load(), "worlds_built": stats.worlds.Load(), "violations_confirmed_on_real_fresh_managers": stats.confirmations.Load(),
		"cluster_apply_materialise_errors": applyErr.Load(), "scheduling_points_in_window": windowPts}
	os.RemoveAll(root)
	b, _ := json.Marshal(out)
	os.Stdout.Write(append(b, '\n'))
	os.Exit(0)
}

type concSummary struct {
	scenarios, schedules, stuck, diverged, deadlocks, panics, changing, overlapping int
	points, foreign                                                                 int64
	maxPoints                                                                       int
	outcomes                                                                        map[string]bool
	complete                                                                        bool
	per                                                                             []map[string]any
	sample                                                                          any
	counters                                                                        map[string]int64
	wall                                                                            float64
	err                                                                             error
	nondet                                                                          []string
	viol                                                                            map[string]*sched.Viol
	violScen                                                                        map[string][]string
	buildS                                                                          float64
	bounds                                                                          map[string]int
	mutations                                                                       []string
}

// concCleanup removes the build products of the worker binary (also called on signals and on unbound()).
var concCleanup atomic.Pointer[func()]

func concCleanupNow() {
	if f := concCleanup.Load(); f != nil {
		(*f)()
	}
}

// buildConcBinary builds the phase-2 worker: this package with tag c20conc under the scheduler overlay (generated now
// from /repo's working tree by the same overlaygen ./check uses; VERIF_REPLACE is honoured by overlaygen itself).
func buildConcBinary() (string, func(), error) {
	if instrumented { // already the instrumented build (manual development runs)
		exe, err := os.Executable()
		return exe, func() {}, err
	}
	vb := os.Getenv("VERIF_BUILD")
	if vb == "" {
		vb = "/verif/.build"
	}
	// Built at a stable path under a lock (an up-to-date binary is not linked again), then copied to a private
	// name, so that a concurrent run of this check with another VERIF_REPLACE cannot swap the binary under us.
	ovJSON, work, stable := filepath.Join(vb, "ov", "c20conc.json"), filepath.Join(vb, "ov", "c20conc"), filepath.Join(vb, "bin", "c20conc")
	bin := fmt.Sprintf("%s.%d", stable, os.Getpid())
	cleanup := func() { os.Remove(bin) }
	concCleanup.Store(&cleanup)
	lock, err := os.OpenFile(filepath.Join(vb, "c20conc.lock"), os.O_CREATE|os.O_RDWR, 0o644)
	if err != nil {
		return "", cleanup, err
	}
	defer lock.Close()
	if err := syscall.Flock(int(lock.Fd()), syscall.LOCK_EX); err != nil {
		return "", cleanup, err
	}
	defer syscall.Flock(int(lock.Fd()), syscall.LOCK_UN)
	gen := exec.Command(filepath.Join(vb, "bin", "overlaygen"), "-cfg", "/verif/harness/checks/c20/conc.overlay.cfg.json", "-out", ovJSON, "-work", work)
	if out, err := gen.CombinedOutput(); err != nil {
		return "", cleanup, fmt.Errorf("phase-2 overlay: %v: %s", err, tailStr(out))
	}
	build := exec.Command("go", "build", "-overlay", ovJSON, "-tags", "c20conc", "-o", stable, "./checks/c20")
	build.Dir = "/verif/harness"
	if out, err := build.CombinedOutput(); err != nil {
		return "", cleanup, fmt.Errorf("phase-2 worker build: %v: %s", err, tailStr(out))
	}
	b, err := os.ReadFile(stable)
	if err != nil {
		return "", cleanup, err
	}
	if err := os.WriteFile(bin, b, 0o755); err != nil {
		return "", cleanup, err
	}
	return bin, cleanup, nil
}

// runConcurrent explores every phase-2 scenario of the tier to its deviation bound in worker processes.
func runConcurrent(run *ev.Run, par int) *concSummary {
	t0 := time.Now()
	quick := run.Quick()
	sum := &concSummary{outcomes: map[string]bool{}, complete: true, counters: map[string]int64{}, viol: map[string]*sched.Viol{}, violScen: map[string][]string{}, bounds: map[string]int{}}
	exe, cleanup, err := buildConcBinary()
	defer cleanup()
	if err != nil {
		sum.err = err
		return sum
	}
	sum.buildS = time.Since(t0).Seconds()
	scs := concScenarios()
	specs := concSpecs()
	byName := map[string]concSpec{}
	var order []int
	seenMut := map[string]bool{}
	for i, sp := range specs {
		byName[scs[i].Name] = sp
		if quick && !sp.quick {
			continue
		}
		if f := os.Getenv("VERIF_C20_CONC_ONLY"); f != "" && !strings.Contains(scs[i].Name, f) {
			continue
		}
		order = append(order, i)
		if !seenMut[sp.mut] {
			seenMut[sp.mut] = true
			sum.mutations = append(sum.mutations, sp.mut+" from "+sp.seed)
		}
	}
	// the expensive scenarios (all-cold pre-state) first, so that the tail of the run is made of short chunks;
	// a chunk shares mode, seed and mutation as far as possible (one seed build per process and key)
	var cold, rest []int
	for _, i := range order {
		if specs[i].pre == "cold" {
			cold = append(cold, i)
		} else {
			rest = append(rest, i)
		}
	}
	var chunks [][]int
	cut := func(l []int, n int) {
		for i := 0; i < len(l); i += n {
			chunks = append(chunks, l[i:min(i+n, len(l))])
		}
	}
	if quick {
		cut(cold, 4)
	} else {
		cut(cold, 2)
	}
	cut(rest, 6)
	wdMS := 20000
	var mu sync.Mutex
	var wg sync.WaitGroup
	sem := make(chan struct{}, par)
	results := make([][]sched.Result, len(chunks))
	preps := map[string]prepOut{}
	for ci, ch := range chunks {
		ci, ch := ci, ch
		wg.Add(1)
		sem <- struct{}{}
		go func() {
			defer wg.Done()
			defer func() { <-sem }()
			var l []string
			for _, i := range ch {
				l = append(l, strconv.Itoa(i))
			}
			cmd := exec.Command(exe)
			cmd.Env = append(os.Environ(), fmt.Sprintf("VERIF_C20_CONC=%s/%d/%d/%s", run.Tier, run.Deadline.Unix(), wdMS, strings.Join(l, ",")), "GOMAXPROCS=2")
			cmd.Stderr = os.Stderr
			outb, err := cmd.Output()
			mu.Lock()
			defer mu.Unlock()
			if err != nil {
				if sum.err == nil {
					sum.err = fmt.Errorf("phase-2 worker for %q: %v: %s", scs[ch[0]].Name, err, tailStr(outb))
				}
				return
			}
			var o concWorkerOut
			lines := strings.Split(strings.TrimSpace(string(outb)), "\n")
			if err := json.Unmarshal([]byte(lines[len(lines)-1]), &o); err != nil {
				if sum.err == nil {
					sum.err = fmt.Errorf("phase-2 worker output: %v: %s", err, tailStr(outb))
				}
				return
			}
			results[ci] = o.Results
			for k, v := range o.Preps {
				preps[k] = v
			}
			for k, v := range o.Counts {
				sum.counters[k] += v
			}
		}()
	}
	wg.Wait()
	if sum.err != nil {
		return sum
	}
	var all []sched.Result
	for _, rs := range results {
		all = append(all, rs...)
	}
	sort.Slice(all, func(i, j int) bool { return all[i].Scenario < all[j].Scenario })
	// a "<family>-split" class is subsumed when the same (mode, checker, scope) fails for that family with the mutation
	// running atomically (in any cache pre-state): the minimal counterexample then does not involve the mutator's inside
	type gk struct{ mode, checker, scope, family string }
	atomicSeen := map[gk]bool{}
	for _, r := range all {
		sp := byName[r.Scenario]
		for cl := range r.Violations {
			f := strings.Split(cl, "|")
			if len(f) == 5 && f[0] == "concurrent-stale" && f[4] == "mutation-atomic" {
				atomicSeen[gk{f[1], f[2], f[3], family(sp.mut)}] = true
			}
		}
	}
	for _, r := range all {
		sp := byName[r.Scenario]
		sum.scenarios++
		sum.schedules += r.Execs
		sum.points += r.Points
		sum.stuck += r.Stuck
		sum.diverged += r.Diverged
		sum.deadlocks += r.Deadlocks
		sum.panics += r.Panics
		sum.foreign += r.Foreign
		sum.complete = sum.complete && r.Complete && r.Stuck == 0 && r.Diverged == 0
		sum.nondet = append(sum.nondet, r.Nondet...)
		sum.bounds[fmt.Sprintf("cache %s: bound %d", sp.pre, r.Bound)]++
		pr := preps[r.Scenario]
		if pr.Changing {
			sum.changing++
		}
		if len(r.Outcomes) > 1 {
			sum.overlapping++
		}
		for k := range r.Outcomes {
			sum.outcomes[r.Scenario+"|"+k] = true
		}
		if r.MaxPoints > sum.maxPoints {
			sum.maxPoints = r.MaxPoints
			sum.sample = map[string]any{"phase": "concurrent", "scenario": r.Scenario, "longest_schedule": r.Sample}
		}
		for _, cl := range sched.SortedKeys(r.Violations) {
			v := r.Violations[cl]
			f := strings.Split(cl, "|")
			if len(f) == 5 && f[0] == "concurrent-stale" && f[4] != "mutation-atomic" && atomicSeen[gk{f[1], f[2], f[3], family(sp.mut)}] {
				continue
			}
			sum.violScen[cl] = append(sum.violScen[cl], r.Scenario)
			if o, ok := sum.viol[cl]; !ok || v.Preemptions < o.Preemptions || (v.Preemptions == o.Preemptions && len(v.Choices) < len(o.Choices)) {
				c := 0
				if ok {
					c = o.Count
				}
				vv := *v
				vv.Count += c
				sum.viol[cl] = &vv
			} else {
				o.Count += v.Count
			}
		}
		sum.per = append(sum.per, map[string]any{"scenario": r.Scenario, "bound": r.Bound, "schedules": r.Execs, "points": r.Points, "max_points": r.MaxPoints,
			"distinct_outcomes": len(r.Outcomes), "stuck": r.Stuck, "diverged": r.Diverged, "deadlocks": r.Deadlocks, "complete": r.Complete,
			"checker_request_A": pr.ReqA, "checker_request_B": pr.ReqB, "fresh_before": pr.Before, "fresh_after_mutation_alone": pr.After, "decision_changing": pr.Changing})
		for _, d := range r.DivSamples {
			fmt.Println("  phase 2 diverged:", d)
		}
	}
	sum.wall = time.Since(t0).Seconds()
	return sum
}

func tailStr(b []byte) string {
	s := string(b)
	if len(s) > 600 {
		s = s[len(s)-600:]
	}
	return s
}

// reportConcurrent turns the merged phase-2 result into violations and coverage.
func reportConcurrent(run *ev.Run, sum *concSummary) {
	if sum.err != nil {
		os.RemoveAll(root)
		fmt.Println("HARNESS-UNBOUND:", sum.err)
		os.Exit(2)
	}
	if len(sum.nondet) > 0 {
		os.RemoveAll(root)
		ev.Nondeterminism("C20 phase 2: " + strings.Join(sum.nondet, "; "))
	}
	for _, key := range sched.SortedKeys(sum.viol) {
		cl, v := key, sum.viol[key]
		desc := fmt.Sprintf("a schedule with %d preemption(s) of ONE mutation racing ONE permission check leaves the long-lived managers answering later checks differently from fresh managers over the same database, after both calls returned (%d schedules in %d scenarios)", v.Preemptions, v.Count, len(sum.violScen[key]))
		if strings.HasPrefix(cl, "panic|") || strings.HasPrefix(cl, "deadlock|") {
			cl = "concurrent-" + cl
			desc = "a schedule of one mutation racing one permission check ends in a panic / deadlock"
		}
		scen := ""
		if d, ok := v.Detail.(map[string]any); ok {
			scen, _ = d["scenario"].(string)
		}
		run.Violate(cl, desc, map[string]any{"phase": "concurrent", "scenario": scen, "choices": v.Choices, "trace": v.Trace, "detail": v.Detail,
			"preemptions": v.Preemptions, "scenarios_in_class": sum.violScen[key]})
	}
	run.Coverage["concurrent_phase"] = map[string]any{
		"scenarios": sum.scenarios, "schedules": sum.schedules, "scheduling_points": sum.points, "max_points_per_schedule": sum.maxPoints,
		"deviation_bounds_completed": sum.bounds, "distinct_scenario_outcomes": len(sum.outcomes), "decision_changing_scenarios": sum.changing,
		"scenarios_with_more_than_one_outcome": sum.overlapping, "blocked_infeasible": sum.stuck, "diverged": sum.diverged, "deadlocks": sum.deadlocks,
		"foreign_calls": sum.foreign, "complete": sum.complete, "wall_s": sum.wall, "worker_binary_build_s": sum.buildS, "counters": sum.counters, "per_scenario": sum.per,
		"mutations": sum.mutations, "modes": modeName, "checkers": concCheckers, "cache_pre_states": concPre,
		"rule": "scenario = (mutation from its seeded hierarchy, mode direct|cluster-apply, checker single|batch of 2, cache pre-state); for each, EVERY schedule of {mutator thread, checker thread, the managers' background goroutines} with at most <bound> deviations from the default schedule (mutator first; a preemption or any other non-default choice costs 1) is executed on fresh real managers over a fresh copy of the seeded database; deviations are enumerated from the decision that first runs the mutator or the checker (the set-up before it is sequential); scheduling points: every lock operation on the caches (invalidation, lookup, fill), every database statement / acquisition of the pool's only connection, channel operations, goroutine start and exit; oracle after BOTH calls returned: all 12 probes of the token, asked singly and then as one batch on the long-lived managers, equal the decisions of brand-new managers over the same file; quick = every API method once, thorough adds the opposite direction and the K1 twins",
	}
	fmt.Printf("phase 2 (mutation || check): scenarios=%d schedules=%d points=%d bounds=%v outcomes=%d decision-changing=%d multi-outcome=%d stuck=%d diverged=%d classes=%d complete=%v %.1fs\n",
		sum.scenarios, sum.schedules, sum.points, sum.bounds, len(sum.outcomes), sum.changing, sum.overlapping, sum.stuck, sum.diverged, len(sum.viol), sum.complete, sum.wall)
}

// replayConcurrent re-executes one recorded schedule.
func replayConcurrent(run *ev.Run, raw map[string]any) {
	name, _ := raw["scenario"].(string)
	var choices []int
	if l, ok := raw["choices"].([]any); ok {
		for _, x := range l {
			f, _ := x.(float64)
			choices = append(choices, int(f))
		}
	}
	for _, sc := range concScenarios() {
		if sc.Name != name {
			continue
		}
		body, check, teardown := sc.Setup()
		s := vsched.Run(body, choices, 20*time.Second)
		if s.Diverged != "" || s.Stuck {
			teardown()
			fmt.Printf("replay %q: schedule could not be replayed (diverged=%q stuck=%v)\n", name, s.Diverged, s.Stuck)
			return
		}
		out := check()
		teardown()
		fmt.Printf("replay %q: %d points, outcome %s\n", name, len(s.Points), out.Key)
		if out.Violation != "" {
			cl := finalClass(out.Violation, s.Points)
			b, _ := json.MarshalIndent(out.Detail, "  ", " ")
			fmt.Printf("  %s\n  %s\n", cl, b)
			for _, l := range xtrace(s) {
				fmt.Println("    ", l)
			}
			run.Violate(cl, "replayed schedule still violates the oracle", raw)
		}
		return
	}
	unbound("replay file: unknown phase-2 scenario " + name)
}

func concPar() int {
	n := runtime.NumCPU() / 2
	if n < 2 {
		n = 2
	}
	return n
}
