package main

import (
	"os"
	"runtime/pprof"
)

func init() {
	if p := os.Getenv("C20_CPUPROF"); p != "" {
		f, _ := os.Create(p)
		pprof.StartCPUProfile(f)
		stopProf = func() { pprof.StopCPUProfile(); f.Close() }
	}
}
