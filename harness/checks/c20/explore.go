// exploreWindow is engine/sched.Explore (depth-first enumeration of all schedules up to a deviation bound, each run
// on fresh real objects) with ONE difference: alternatives are only enumerated from the decision that first schedules
// the mutator or the checker thread on (the "window"). The set-up before it (opening the managers, priming the
// caches) is sequential code of thread 0; the only alternatives there are the order in which the managers' own
// background goroutines reach their parking select and drain the last_used_at queue, which cannot influence the
// state the window starts from (they are all parked, with empty queues, when the two threads are started).
package main

import (
	"fmt"
	"strings"
	"time"

	"github.com/basekick-labs/arc/zzverif/engine/sched"
	"github.com/basekick-labs/arc/zzverif/shim/vsched"
)

type xres struct {
	s   *vsched.Sched
	out sched.Outcome
}

func xrunOne(sc sched.Scenario, prefix []int, wd time.Duration) xres {
	body, check, teardown := sc.Setup()
	s := vsched.Run(body, prefix, wd)
	var out sched.Outcome
	switch {
	case s.Diverged != "":
	case s.Stuck:
	case s.Panic != nil:
		out = sched.Outcome{Key: "panic", Violation: "panic|" + xfirstLine(fmt.Sprint(s.Panic)), Detail: fmt.Sprint(s.Panic)}
	case s.Deadlock:
		out = sched.Outcome{Key: "deadlock", Violation: "deadlock|" + xlastSites(s), Detail: xlastSites(s)}
	default:
		out = check()
	}
	if teardown != nil {
		teardown()
	}
	return xres{s, out}
}

func xfirstLine(s string) string {
	if i := strings.IndexByte(s, '\n'); i >= 0 {
		s = s[:i]
	}
	if len(s) > 160 {
		s = s[:160]
	}
	return s
}

func xlastSites(s *vsched.Sched) string {
	var l []string
	n := len(s.Points)
	for i := max(0, n-4); i < n; i++ {
		l = append(l, fmt.Sprintf("t%d@%s", s.Points[i].Thread, s.Points[i].Site))
	}
	return strings.Join(l, " > ")
}

func xtrace(s *vsched.Sched) []string {
	var l []string
	for _, p := range s.Points {
		if p.Choice {
			l = append(l, fmt.Sprintf("t%d choose %d/%d %s", p.Thread, p.Chosen, p.N, p.Site))
		} else {
			pre := ""
			if p.Chosen != 0 && p.LastEn {
				pre = " PREEMPT"
			}
			l = append(l, fmt.Sprintf("t%d %s%s", p.Thread, p.Site, pre))
		}
	}
	return l
}

func xpreemptions(pts []vsched.PointRec) int {
	n := 0
	for _, p := range pts {
		if !p.Choice && p.LastEn && p.Chosen != 0 {
			n++
		}
	}
	return n
}

// windowStart is the index of the first decision that runs one of the window threads (len(points) if none does).
func windowStart(pts []vsched.PointRec, sites []string) int {
	for i, p := range pts {
		for _, s := range sites {
			if p.Site == s {
				return i
			}
		}
	}
	return len(pts)
}

func exploreWindow(sc sched.Scenario, opt sched.Options, sites []string, classify func(string, []vsched.PointRec) string) (sched.Result, int64) {
	res := sched.Result{Scenario: sc.Name, Bound: opt.Bound, Outcomes: map[string]int{}, Violations: map[string]*sched.Viol{}, Complete: true}
	var windowPoints int64
	stack := [][]int{nil}
	for len(stack) > 0 {
		if (!opt.Deadline.IsZero() && time.Now().After(opt.Deadline)) || (opt.MaxExecs > 0 && res.Execs >= opt.MaxExecs) {
			res.Complete = false
			break
		}
		prefix := stack[len(stack)-1]
		stack = stack[:len(stack)-1]
		x := xrunOne(sc, prefix, opt.Watchdog)
		res.Foreign += x.s.Foreign
		if x.s.Diverged != "" {
			res.Diverged++
			if len(res.DivSamples) < 3 {
				res.DivSamples = append(res.DivSamples, fmt.Sprintf("%s | prefix=%v | trace=%v", x.s.Diverged, prefix, xtrace(x.s)))
			}
			continue
		}
		if x.s.Stuck {
			res.Stuck++
			continue
		}
		res.Execs++
		res.Points += int64(len(x.s.Points))
		if len(x.s.Points) > res.MaxPoints {
			res.MaxPoints = len(x.s.Points)
			res.Sample = xtrace(x.s)
		}
		if x.s.Deadlock {
			res.Deadlocks++
		}
		if x.s.Panic != nil {
			res.Panics++
		}
		res.Outcomes[x.out.Key]++
		if x.out.Violation != "" && classify != nil {
			x.out.Violation = classify(x.out.Violation, x.s.Points)
		}
		if x.out.Violation != "" {
			pre := xpreemptions(x.s.Points)
			v, ok := res.Violations[x.out.Violation]
			if !ok || pre < v.Preemptions || (pre == v.Preemptions && len(x.s.Points) < len(v.Choices)) {
				ch := make([]int, len(x.s.Points))
				for i, p := range x.s.Points {
					ch[i] = p.Chosen
				}
				cnt := 0
				if ok {
					cnt = v.Count
				}
				v = &sched.Viol{Class: x.out.Violation, Choices: ch, Preemptions: pre, Trace: xtrace(x.s), Detail: x.out.Detail, Count: cnt}
				res.Violations[x.out.Violation] = v
			}
			v.Count++
		}
		ws := windowStart(x.s.Points, sites)
		windowPoints += int64(len(x.s.Points) - ws)
		cost := 0
		for i := 0; i < len(x.s.Points); i++ {
			p := x.s.Points[i]
			if i >= len(prefix) && i >= ws {
				for alt := 1; alt < p.N; alt++ {
					c := cost
					if !p.Choice && p.LastEn {
						c++
					} else {
						c += opt.FreeCost
					}
					if c > opt.Bound {
						continue
					}
					np := make([]int, i+1)
					for j := 0; j < i; j++ {
						np[j] = x.s.Points[j].Chosen
					}
					np[i] = alt
					stack = append(stack, np)
				}
			}
			if p.Chosen != 0 {
				if !p.Choice && p.LastEn {
					cost++
				} else {
					cost += opt.FreeCost
				}
			}
		}
	}
	// every violation must replay identically twice
	for cl, v := range res.Violations {
		for k := 0; k < 2; k++ {
			x := xrunOne(sc, v.Choices, opt.Watchdog)
			if x.out.Violation != "" && classify != nil {
				x.out.Violation = classify(x.out.Violation, x.s.Points)
			}
			if x.out.Violation != cl {
				res.Nondet = append(res.Nondet, fmt.Sprintf("%s: replay %d gave %q (diverged=%q stuck=%v)", cl, k, x.out.Violation, x.s.Diverged, x.s.Stuck))
			}
		}
	}
	return res, windowPoints
}
