// C20 — Permission decisions always reflect the current RBAC state.
//
// Explicit-state BFS over operation histories on the REAL auth.AuthManager + auth.RBACManager (RBAC
// licence-enabled through an in-package licence constructor), each history executed on its own
// file-backed SQLite database on /dev/shm, in direct-database mode and in cluster-apply mode (a
// synchronous RaftProposer that feeds every proposal to the real raft.ClusterFSM, whose callbacks call
// the real Apply* materialisers exactly as cmd/arc/main.go wires them).
//
// After EVERY operation the full probe protocol is asked on the long-lived managers (token K1: single,
// single, batch; token K2: batch, batch, single; then one mixed batch) and every answer must equal the
// decision of a FRESH manager pair opened over the same database file (cache-free evaluation of the same
// stored state). The probe protocol is part of the transition, so caches are warm when the next mutation
// arrives — which is exactly the situation in which a missing invalidation shows.
//
// Phase 2 (conc.go, explore.go) runs next to the BFS in worker processes: ONE mutation racing ONE permission check,
// every schedule up to a deviation bound under the cooperative scheduler, judged by the same fresh-manager oracle
// after both calls returned. The workers are a SECOND binary of this same package, built by this program at start-up
// (build tag c20conc, overlay conc.overlay.cfg.json: internal/auth rewritten onto the scheduler shims - locks,
// goroutines, channels, clock, and the 1-connection database pool; VERIF_REPLACE reaches it through overlaygen), so
// that phase 1 keeps running on internal/auth exactly as it is in the repository.
package main

import (
	"context"
	"database/sql"
	"encoding/json"
	"fmt"
	"os"
	"os/signal"
	"path/filepath"
	"runtime"
	"sort"
	"strings"
	"sync"
	"sync/atomic"
	"syscall"
	"time"

	"github.com/basekick-labs/arc/internal/auth"
	araft "github.com/basekick-labs/arc/internal/cluster/raft"
	"github.com/basekick-labs/arc/internal/license"
	"github.com/basekick-labs/arc/zzverif/engine/ev"
	"github.com/basekick-labs/arc/zzverif/engine/sched"
	"github.com/basekick-labs/arc/zzverif/engine/xstate"
	hraft "github.com/hashicorp/raft"
	_ "github.com/mattn/go-sqlite3"
	"github.com/rs/zerolog"
)

// ---------------------------------------------------------------------------------------------
// universe

var (
	orgName  = [2]string{"orgA", "orgB"}
	teamName = [2]string{"teamA", "teamB"}
	tokName  = [2]string{"tokA", "tokB"}
	// token K1 is created with the API default (read,write); K2 is an RBAC-only token
	tokInit = [2]string{"read,write", auth.PermissionsNone}
	// role Ri belongs to team Ti
	rolePat  = [2]string{"*", "db1"}
	rolePerm = [2][]string{{"read"}, {"read", "write"}}
	// measurement permission Pi belongs to role Ri
	mpPat  = [2]string{"m1", "m2"}
	mpPerm = [2][]string{{"write"}, {"read"}}

	dbs   = []string{"db1", "db2"}
	meass = []string{"", "m1", "m2"} // "" = database-level check (what the auth middleware asks without a measurement)
	perms = []string{"read", "write"}
)

type probe struct {
	tok            int
	db, meas, perm string
}

var probes []probe

func (p probe) String() string {
	m := p.meas
	if m == "" {
		m = "-"
	}
	return fmt.Sprintf("K%d:%s/%s:%s", p.tok+1, p.db, m, p.perm)
}

func init() {
	for t := 0; t < 2; t++ {
		for _, d := range dbs {
			for _, m := range meass {
				for _, p := range perms {
					probes = append(probes, probe{t, d, m, p})
				}
			}
		}
	}
}

// ---------------------------------------------------------------------------------------------
// world = one real manager pair on its own database file

const (
	direct  = 0
	cluster = 1
)

var modeName = [2]string{"direct", "cluster"}

var (
	root     = fmt.Sprintf("/dev/shm/verif.c20.%d", os.Getpid())
	tmpl     []byte
	fileSeq  atomic.Int64
	lic      = license.VerifClient(license.FeatureRBAC)
	bg       = context.Background()
	applyErr atomic.Int64 // Apply* materialisers that returned an error (cluster mode)
	stats    struct {
		worlds, freshOpens, memoHits, oracleEvals, confirmations, opsOK, opsErr, probeCalls, replays, selfLoops atomic.Int64
	}
)

// afterOpen is nil in phase 1. Phase 2 (scheduler attached) uses it to let the managers' background goroutines reach
// their parking select right after the constructors, so that the rest of the set-up has no scheduling alternatives.
var afterOpen func()

type world struct {
	mode int
	path string
	am   *auth.AuthManager
	rm   *auth.RBACManager
	fsm  *araft.ClusterFSM
	idx  uint64
	// slot -> current id (0 = no live entity in the slot)
	org, team, role, mp, tok [2]int64
	tokVal                   [2]string
	raw                      string   // raw table dump after the last refresh
	abs                      string   // the same with ids renamed to slot names (table part of the state key)
	logs                     [][]byte // cluster mode: every proposed raft.Command, in order (recorded for seed templates)
}

// seeded is a start state built once through the real API: the database file after the seed operations
// (managers closed, WAL checkpointed), the slot map, and in cluster mode the Raft log that produced it.
// A world started from it is what a restarted node has: SQLite as persisted, the FSM rebuilt by log replay,
// cold caches.
type seeded struct {
	file                     []byte
	org, team, role, mp, tok [2]int64
	tokVal                   [2]string
	logs                     [][]byte
}

func buildSeed(mode int, seed []int) *seeded {
	w := newWorld(mode, nil)
	for _, s := range seed {
		w.apply(s)
		w.refresh()
	}
	w.rm.Close()
	w.am.Close()
	b, err := os.ReadFile(w.path)
	if err != nil {
		unbound("seed template: " + err.Error())
	}
	if _, err := os.Stat(w.path + "-wal"); err == nil {
		unbound("seed template still has a WAL file after Close")
	}
	os.Remove(w.path)
	os.Remove(w.path + "-shm")
	return &seeded{file: b, org: w.org, team: w.team, role: w.role, mp: w.mp, tok: w.tok, tokVal: w.tokVal, logs: w.logs}
}

func newWorld(mode int, from *seeded) *world {
	w := &world{mode: mode, path: filepath.Join(root, fmt.Sprintf("w%d.db", fileSeq.Add(1)))}
	file := tmpl
	if from != nil {
		file = from.file
		w.org, w.team, w.role, w.mp, w.tok, w.tokVal = from.org, from.team, from.role, from.mp, from.tok, from.tokVal
	}
	if err := os.WriteFile(w.path, file, 0o600); err != nil {
		unbound("scratch: " + err.Error())
	}
	am, err := auth.NewAuthManager(w.path, time.Hour, 100, zerolog.Nop())
	if err != nil {
		unbound("NewAuthManager: " + err.Error())
	}
	w.am = am
	w.rm = auth.NewRBACManager(&auth.RBACManagerConfig{DB: am.GetDB(), LicenseClient: lic, Logger: zerolog.Nop(),
		CacheTTL: time.Hour, MaxCascadeDescendants: 50000})
	if afterOpen != nil {
		afterOpen()
	}
	if mode == cluster {
		w.fsm = araft.NewClusterFSM(zerolog.Nop())
		if from != nil {
			for _, data := range from.logs { // log replay into the in-memory FSM (SQLite already holds these rows)
				w.idx++
				w.fsm.Apply(&hraft.Log{Index: w.idx, Term: 1, Type: hraft.LogCommand, Data: data})
			}
			w.logs = append(w.logs, from.logs...)
		}
		w.wire()
		w.am.SetRaftProposer(proposer{w})
		w.rm.SetRaftProposer(proposer{w})
	}
	stats.worlds.Add(1)
	w.refresh()
	return w
}

func (w *world) close() {
	w.rm.Close()
	w.am.Close()
	os.Remove(w.path)
	os.Remove(w.path + "-wal")
	os.Remove(w.path + "-shm")
}

// proposer applies the command synchronously on the proposing node through the real FSM, as
// CoordinatorAuthProposer does on the leader (raftNode.Apply -> FSM.Apply -> callbacks).
type proposer struct{ w *world }

func (p proposer) IsLeader() bool { return true }
func (p proposer) Propose(_ context.Context, ct uint8, payload []byte, _ time.Duration) error {
	w := p.w
	w.idx++
	data, err := json.Marshal(araft.Command{Type: araft.CommandType(ct), Payload: payload})
	if err != nil {
		return err
	}
	w.logs = append(w.logs, data)
	if e, ok := w.fsm.Apply(&hraft.Log{Index: w.idx, Term: 1, Type: hraft.LogCommand, Data: data}).(error); ok && e != nil {
		return fmt.Errorf("%w: %w", auth.ErrApplyFailed, e) // cluster.wrapApplyError
	}
	return nil
}

// unbound removes the scratch directory before reporting that the harness cannot bind (exit 2).
func unbound(msg string) {
	os.RemoveAll(root)
	concCleanupNow()
	ev.Unbound(msg)
}

func note(err error) {
	if err != nil {
		applyErr.Add(1) // cmd/arc/main.go logs and carries on; so do we
	}
}

// wire installs the FSM callbacks exactly as cmd/arc/main.go does (cluster.ToAuth*Entry are
// field-for-field copies, repeated here because importing internal/cluster would link DuckDB).
func (w *world) wire() {
	tok := func(e *araft.TokenEntry) auth.ClusterTokenEntry {
		return auth.ClusterTokenEntry{ID: e.ID, Name: e.Name, Description: e.Description, Permissions: e.Permissions, TokenHash: e.TokenHash,
			TokenPrefix: e.TokenPrefix, CreatedAtUnixNano: e.CreatedAtUnixNano, ExpiresAtUnixNano: e.ExpiresAtUnixNano, Enabled: e.Enabled, LSN: e.LSN}
	}
	w.fsm.SetAuthCallbacks(
		func(e *araft.TokenEntry) { note(w.am.ApplyCreateToken(tok(e))) },
		func(e *araft.TokenEntry) { note(w.am.ApplyUpdateToken(tok(e))) },
		func(id int64) { note(w.am.ApplyRevokeToken(id)) },
		func(id int64) { note(w.am.ApplyDeleteToken(id)) },
		func(id int64, h, p string, _ uint64) { note(w.am.ApplyRotateToken(id, h, p)) },
	)
	org := func(e *araft.OrganizationEntry) auth.ClusterOrganizationEntry {
		return auth.ClusterOrganizationEntry{ID: e.ID, Name: e.Name, Description: e.Description, CreatedAtUnixNano: e.CreatedAtUnixNano,
			UpdatedAtUnixNano: e.UpdatedAtUnixNano, Enabled: e.Enabled, LSN: e.LSN}
	}
	team := func(e *araft.TeamEntry) auth.ClusterTeamEntry {
		return auth.ClusterTeamEntry{ID: e.ID, OrganizationID: e.OrganizationID, Name: e.Name, Description: e.Description,
			CreatedAtUnixNano: e.CreatedAtUnixNano, UpdatedAtUnixNano: e.UpdatedAtUnixNano, Enabled: e.Enabled, LSN: e.LSN}
	}
	role := func(e *araft.RoleEntry) auth.ClusterRoleEntry {
		return auth.ClusterRoleEntry{ID: e.ID, TeamID: e.TeamID, DatabasePattern: e.DatabasePattern, Permissions: e.Permissions,
			CreatedAtUnixNano: e.CreatedAtUnixNano, LSN: e.LSN}
	}
	mp := func(e *araft.MeasurementPermissionEntry) auth.ClusterMeasurementPermissionEntry {
		return auth.ClusterMeasurementPermissionEntry{ID: e.ID, RoleID: e.RoleID, MeasurementPattern: e.MeasurementPattern,
			Permissions: e.Permissions, CreatedAtUnixNano: e.CreatedAtUnixNano, LSN: e.LSN}
	}
	mem := func(e *araft.TokenMembershipEntry) auth.ClusterTokenMembershipEntry {
		return auth.ClusterTokenMembershipEntry{ID: e.ID, TokenID: e.TokenID, TeamID: e.TeamID, CreatedAtUnixNano: e.CreatedAtUnixNano, LSN: e.LSN}
	}
	w.fsm.SetRBACCallbacks(
		func(e *araft.OrganizationEntry) { note(w.rm.ApplyCreateOrganization(org(e))) },
		func(e *araft.OrganizationEntry) { note(w.rm.ApplyUpdateOrganization(org(e))) },
		func(id int64) { note(w.rm.ApplyDeleteOrganization(id)) },
		func(e *araft.TeamEntry) { note(w.rm.ApplyCreateTeam(team(e))) },
		func(e *araft.TeamEntry) { note(w.rm.ApplyUpdateTeam(team(e))) },
		func(id int64) { note(w.rm.ApplyDeleteTeam(id)) },
		func(e *araft.RoleEntry) { note(w.rm.ApplyCreateRole(role(e))) },
		func(e *araft.RoleEntry) { note(w.rm.ApplyUpdateRole(role(e))) },
		func(id int64) { note(w.rm.ApplyDeleteRole(id)) },
		func(e *araft.MeasurementPermissionEntry) { note(w.rm.ApplyCreateMeasurementPermission(mp(e))) },
		func(id int64) { note(w.rm.ApplyDeleteMeasurementPermission(id)) },
		func(e *araft.TokenMembershipEntry) { note(w.rm.ApplyAddTokenToTeam(mem(e))) },
		func(tokenID, teamID int64) { note(w.rm.ApplyRemoveTokenFromTeam(tokenID, teamID)) },
	)
}

// ---------------------------------------------------------------------------------------------
// stored state: raw dump (decision-relevant columns of every table, ids as stored) and slot refresh

type tables struct {
	tok  [][5]string // id name perms enabled expires?
	org  [][3]string // id name enabled
	team [][4]string // id org name enabled
	role [][4]string // id team pattern perms
	mp   [][4]string // id role pattern perms
	mem  [][3]string // id token team
}

const dumpSQL = `
SELECT 1, id, name, COALESCE(permissions,''), enabled, expires_at IS NOT NULL FROM api_tokens
UNION ALL SELECT 2, id, name, enabled, '', '' FROM rbac_organizations
UNION ALL SELECT 3, id, organization_id, name, enabled, '' FROM rbac_teams
UNION ALL SELECT 4, id, team_id, database_pattern, permissions, '' FROM rbac_roles
UNION ALL SELECT 5, id, role_id, measurement_pattern, permissions, '' FROM rbac_measurement_permissions
UNION ALL SELECT 6, id, token_id, team_id, '', '' FROM rbac_token_memberships
ORDER BY 1, 2`

func readTables(db *sql.DB) (t tables) {
	rows, err := db.Query(dumpSQL)
	if err != nil {
		unbound("dump query: " + err.Error())
	}
	defer rows.Close()
	var kind int
	var v [5]sql.NullString
	for rows.Next() {
		if err := rows.Scan(&kind, &v[0], &v[1], &v[2], &v[3], &v[4]); err != nil {
			unbound("dump scan: " + err.Error())
		}
		r := [5]string{v[0].String, v[1].String, v[2].String, v[3].String, v[4].String}
		switch kind {
		case 1:
			t.tok = append(t.tok, r)
		case 2:
			t.org = append(t.org, [3]string(r[:3]))
		case 3:
			t.team = append(t.team, [4]string(r[:4]))
		case 4:
			t.role = append(t.role, [4]string(r[:4]))
		case 5:
			t.mp = append(t.mp, [4]string(r[:4]))
		case 6:
			t.mem = append(t.mem, [3]string(r[:3]))
		}
	}
	if err := rows.Err(); err != nil {
		unbound("dump rows: " + err.Error())
	}
	return
}

func (t tables) raw() string {
	return fmt.Sprint("tok", t.tok, "org", t.org, "team", t.team, "role", t.role, "mp", t.mp, "mem", t.mem)
}

func has[T ~[3]string | ~[4]string | ~[5]string](rows []T, id int64) bool {
	s := fmt.Sprint(id)
	for _, r := range rows {
		if r[0] == s {
			return true
		}
	}
	return false
}

// refresh re-reads the tables and clears slots whose row is gone (deleted directly or by cascade).
func (w *world) refresh() tables {
	t := readTables(realDB(w.am.GetDB()))
	for i := 0; i < 2; i++ {
		if w.org[i] != 0 && !has(t.org, w.org[i]) {
			w.org[i] = 0
		}
		if w.team[i] != 0 && !has(t.team, w.team[i]) {
			w.team[i] = 0
		}
		if w.role[i] != 0 && !has(t.role, w.role[i]) {
			w.role[i] = 0
		}
		if w.mp[i] != 0 && !has(t.mp, w.mp[i]) {
			w.mp[i] = 0
		}
		if w.tok[i] != 0 && !has(t.tok, w.tok[i]) {
			w.tok[i] = 0
			w.tokVal[i] = ""
		}
	}
	w.raw = t.raw()
	w.abs = w.absTables(t)
	return t
}

type namer struct{ K, O, T, R, P func(string) string }

// namer renames ids to slot names. Ids that are in no slot (entities that no longer exist but still sit in a
// cache) are renamed by rank among the dead ids of their kind that occur in this state (ids grow monotonically in
// both modes, so the rank is independent of the raw values).
func (w *world) namer(dead map[string][]int64) namer {
	name := func(kind string, slots [2]int64) func(string) string {
		return func(id string) string {
			for i, s := range slots {
				if s != 0 && fmt.Sprint(s) == id {
					return fmt.Sprintf("%s%d", kind, i+1)
				}
			}
			var n int64
			fmt.Sscan(id, &n)
			if dead == nil {
				return kind + "#" + id
			}
			for rank, d := range dead[kind] {
				if d == n {
					return fmt.Sprintf("%s#dead%d", kind, rank+1)
				}
			}
			dead[kind] = append(dead[kind], n)
			return kind + "#?"
		}
	}
	return namer{name("K", w.tok), name("O", w.org), name("T", w.team), name("R", w.role), name("P", w.mp)}
}

// absTables is the stored state with ids renamed to slot names (see the id-symmetry assumption), sorted.
func (w *world) absTables(t tables) string {
	n := w.namer(nil) // every id in a table belongs to a slot (ops create at most one live entity per slot)
	var l []string
	for _, r := range t.tok {
		l = append(l, fmt.Sprintf("tok %s %s [%s] en=%s exp=%s", n.K(r[0]), r[1], r[2], r[3], r[4]))
	}
	for _, r := range t.org {
		l = append(l, fmt.Sprintf("org %s %s en=%s", n.O(r[0]), r[1], r[2]))
	}
	for _, r := range t.team {
		l = append(l, fmt.Sprintf("team %s in %s %s en=%s", n.T(r[0]), n.O(r[1]), r[2], r[3]))
	}
	for _, r := range t.role {
		l = append(l, fmt.Sprintf("role %s on %s %s [%s]", n.R(r[0]), n.T(r[1]), r[2], r[3]))
	}
	for _, r := range t.mp {
		l = append(l, fmt.Sprintf("mp %s on %s %s [%s]", n.P(r[0]), n.R(r[1]), r[2], r[3]))
	}
	for _, r := range t.mem {
		l = append(l, fmt.Sprintf("mem %s in %s", n.K(r[1]), n.T(r[2])))
	}
	sort.Strings(l)
	return strings.Join(l, "\n")
}

// key is the canonical state: the stored state plus the contents of all three caches, ids renamed, sorted.
func (w *world) key() string {
	perm, tokc, authc := w.rm.VerifPermCache(), w.rm.VerifTokenCache(), w.am.VerifTokenCache()
	dead := map[string][]int64{}
	render := func() []string {
		n := w.namer(dead)
		nI := func(f func(string) string) func(int64) string {
			return func(id int64) string { return f(fmt.Sprint(id)) }
		}
		Ki, Oi, Ti, Ri, Pi := nI(n.K), nI(n.O), nI(n.T), nI(n.R), nI(n.P)
		var l []string
		for _, e := range perm {
			l = append(l, fmt.Sprintf("permCache %s %s/%s:%s -> %v %s", Ki(e.TokenID), e.Database, e.Measurement, e.Permission, e.Allowed, e.Source))
		}
		for _, d := range tokc {
			var s []string
			for _, tm := range d.Teams {
				s = append(s, fmt.Sprintf("team %s in %s en=%v", Ti(tm.ID), Oi(tm.OrganizationID), tm.Enabled))
			}
			for tid, rs := range d.Roles {
				for _, r := range rs {
					s = append(s, fmt.Sprintf("role %s on %s %s %v", Ri(r.ID), Ti(tid), r.DatabasePattern, r.Permissions))
				}
			}
			for rid, ms := range d.MeasPerms {
				for _, m := range ms {
					s = append(s, fmt.Sprintf("mp %s on %s %s %v", Pi(m.ID), Ri(rid), m.MeasurementPattern, m.Permissions))
				}
			}
			sort.Strings(s)
			l = append(l, fmt.Sprintf("tokenCache %s {%s}", Ki(d.TokenID), strings.Join(s, "; ")))
		}
		for _, e := range authc {
			l = append(l, fmt.Sprintf("authCache %s %v en=%v", Ki(e.TokenID), e.Permissions, e.Enabled))
		}
		sort.Strings(l)
		return l
	}
	l := render() // first pass collects the dead ids
	if len(dead) > 0 {
		for k := range dead {
			d := dead[k]
			sort.Slice(d, func(i, j int) bool { return d[i] < d[j] })
			// de-duplicate
			u := d[:0]
			for i, x := range d {
				if i == 0 || x != d[i-1] {
					u = append(u, x)
				}
			}
			dead[k] = u
		}
		l = render()
	}
	return w.abs + "\n--\n" + strings.Join(l, "\n")
}

// ---------------------------------------------------------------------------------------------
// operations (every one is a call of the public manager API, as the HTTP handlers make it)

type op struct {
	name    string
	run     func(w *world) error
	enabled func(w *world) bool // nil = always
}

var ops []op
var opIndex = map[string]int{}

const check = -1 // pseudo-item "run the probe protocol" in item lists

func itemName(i int) string {
	if i == check {
		return "check"
	}
	return ops[i].name
}

func addOp(name string, run func(w *world) error, enabled func(w *world) bool) {
	opIndex[name] = len(ops)
	ops = append(ops, op{name, run, enabled})
}

func init() {
	for i := 0; i < 2; i++ {
		i := i
		O, T, R, P, K := fmt.Sprintf("O%d", i+1), fmt.Sprintf("T%d", i+1), fmt.Sprintf("R%d", i+1), fmt.Sprintf("P%d", i+1), fmt.Sprintf("K%d", i+1)
		// organizations
		addOp("createOrg("+O+")", func(w *world) error {
			o, err := w.rm.CreateOrganization(bg, &auth.CreateOrganizationRequest{Name: orgName[i]})
			if err == nil {
				w.org[i] = o.ID
			}
			return err
		}, nil)
		for _, en := range []bool{false, true} {
			en := en
			addOp(fmt.Sprintf("setOrgEnabled(%s,%v)", O, en), func(w *world) error {
				return w.rm.UpdateOrganization(bg, w.org[i], &auth.UpdateOrganizationRequest{Enabled: &en})
			}, nil)
		}
		addOp("deleteOrg("+O+")", func(w *world) error { return w.rm.DeleteOrganization(bg, w.org[i]) }, nil)
		// teams (Ti lives in Oi)
		addOp("createTeam("+T+")", func(w *world) error {
			t, err := w.rm.CreateTeam(bg, w.org[i], &auth.CreateTeamRequest{Name: teamName[i]})
			if err == nil {
				w.team[i] = t.ID
			}
			return err
		}, nil)
		for _, en := range []bool{false, true} {
			en := en
			addOp(fmt.Sprintf("setTeamEnabled(%s,%v)", T, en), func(w *world) error {
				return w.rm.UpdateTeam(bg, w.team[i], &auth.UpdateTeamRequest{Enabled: &en})
			}, nil)
		}
		addOp("deleteTeam("+T+")", func(w *world) error { return w.rm.DeleteTeam(bg, w.team[i]) }, nil)
		// roles (Ri belongs to Ti); roles have no unique key, so a slot holds at most one live role
		addOp(fmt.Sprintf("createRole(%s,%s,%s)", R, rolePat[i], strings.Join(rolePerm[i], "+")), func(w *world) error {
			r, err := w.rm.CreateRole(bg, w.team[i], &auth.CreateRoleRequest{DatabasePattern: rolePat[i], Permissions: rolePerm[i]})
			if err == nil {
				w.role[i] = r.ID
			}
			return err
		}, func(w *world) bool { return w.role[i] == 0 })
		for _, pat := range []string{"*", "db1"} {
			pat := pat
			addOp(fmt.Sprintf("setRolePattern(%s,%s)", R, pat), func(w *world) error {
				return w.rm.UpdateRole(bg, w.role[i], &auth.UpdateRoleRequest{DatabasePattern: &pat})
			}, nil)
		}
		for _, pp := range [][]string{{"read"}, {"read", "write"}} {
			pp := pp
			addOp(fmt.Sprintf("setRolePerms(%s,%s)", R, strings.Join(pp, "+")), func(w *world) error {
				return w.rm.UpdateRole(bg, w.role[i], &auth.UpdateRoleRequest{Permissions: pp})
			}, nil)
		}
		addOp("deleteRole("+R+")", func(w *world) error { return w.rm.DeleteRole(bg, w.role[i]) }, nil)
		// measurement permissions (Pi belongs to Ri)
		addOp(fmt.Sprintf("createMeasPerm(%s,%s,%s)", P, mpPat[i], strings.Join(mpPerm[i], "+")), func(w *world) error {
			m, err := w.rm.CreateMeasurementPermission(bg, w.role[i], &auth.CreateMeasurementPermissionRequest{MeasurementPattern: mpPat[i], Permissions: mpPerm[i]})
			if err == nil {
				w.mp[i] = m.ID
			}
			return err
		}, func(w *world) bool { return w.mp[i] == 0 })
		addOp("deleteMeasPerm("+P+")", func(w *world) error { return w.rm.DeleteMeasurementPermission(bg, w.mp[i]) }, nil)
		// tokens
		addOp(fmt.Sprintf("createToken(%s,%s)", K, permLabel(tokInit[i])), func(w *world) error {
			v, err := w.am.CreateToken(bg, tokName[i], "", tokInit[i], nil)
			if err != nil {
				return err
			}
			// the id is what the HTTP client learns from GET /tokens
			l, err := w.am.ListTokens()
			if err != nil {
				return err
			}
			for _, ti := range l {
				if ti.Name == tokName[i] {
					w.tok[i], w.tokVal[i] = ti.ID, v
				}
			}
			return nil
		}, nil)
		for _, pp := range []string{"read", ""} {
			pp := pp
			addOp(fmt.Sprintf("setTokenPerms(%s,%s)", K, permLabel(pp)), func(w *world) error {
				return w.am.UpdateToken(bg, w.tok[i], nil, nil, &pp, nil)
			}, nil)
		}
		addOp("revokeToken("+K+")", func(w *world) error { return w.am.RevokeToken(bg, w.tok[i]) }, nil)
		addOp("deleteToken("+K+")", func(w *world) error { return w.am.DeleteToken(bg, w.tok[i]) }, nil)
		// memberships
		for j := 0; j < 2; j++ {
			j := j
			Tj := fmt.Sprintf("T%d", j+1)
			addOp(fmt.Sprintf("addMember(%s,%s)", K, Tj), func(w *world) error {
				_, err := w.rm.AddTokenToTeam(bg, w.tok[i], w.team[j])
				return err
			}, nil)
			addOp(fmt.Sprintf("removeMember(%s,%s)", K, Tj), func(w *world) error {
				return w.rm.RemoveTokenFromTeam(bg, w.tok[i], w.team[j])
			}, nil)
		}
	}
}

func permLabel(p string) string {
	if p == "" || p == auth.PermissionsNone {
		return "none"
	}
	return strings.ReplaceAll(p, ",", "+")
}

func (w *world) apply(o int) {
	if err := ops[o].run(w); err != nil {
		stats.opsErr.Add(1)
	} else {
		stats.opsOK.Add(1)
	}
}

// ---------------------------------------------------------------------------------------------
// probe protocol and oracle

// decision bytes: 'A' allowed, 'D' denied, 'u' token value does not authenticate, '-' slot has never held a token
func single(am *auth.AuthManager, rm *auth.RBACManager, val string, p probe) byte {
	if val == "" {
		return '-'
	}
	info := am.VerifyToken(val)
	if info == nil {
		return 'u'
	}
	stats.probeCalls.Add(1)
	if rm.CheckPermission(&auth.PermissionCheckRequest{TokenInfo: info, Database: p.db, Measurement: p.meas, Permission: p.perm}).Allowed {
		return 'A'
	}
	return 'D'
}

// batch asks the probes with index in idx in ONE CheckPermissionsBatch call (one VerifyToken per token, as one
// HTTP request carries one token; the mixed batch carries both to exercise the grouping code).
func batch(am *auth.AuthManager, rm *auth.RBACManager, vals [2]string, idx []int, out []byte) {
	var infos [2]*auth.TokenInfo
	for t := 0; t < 2; t++ {
		if vals[t] != "" {
			infos[t] = am.VerifyToken(vals[t])
		}
	}
	var reqs []*auth.PermissionCheckRequest
	var at []int
	for _, i := range idx {
		p := probes[i]
		switch {
		case vals[p.tok] == "":
			out[i] = '-'
		case infos[p.tok] == nil:
			out[i] = 'u'
		default:
			reqs = append(reqs, &auth.PermissionCheckRequest{TokenInfo: infos[p.tok], Database: p.db, Measurement: p.meas, Permission: p.perm})
			at = append(at, i)
		}
	}
	if len(reqs) == 0 {
		return
	}
	stats.probeCalls.Add(int64(len(reqs)))
	res := rm.CheckPermissionsBatch(reqs)
	for k, i := range at {
		if k < len(res) && res[k] != nil && res[k].Allowed {
			out[i] = 'A'
		} else {
			out[i] = 'D'
		}
	}
}

var tokProbes [2][]int
var allProbes []int

func init() {
	for i, p := range probes {
		tokProbes[p.tok] = append(tokProbes[p.tok], i)
		allProbes = append(allProbes, i)
	}
}

// answers of the long-lived managers: 7 rounds per probe
//
//	K1: s1 s2 b    (single first: miss-or-stale, hit, batch hit)
//	K2: b1 b2 s    (batch first)
//	both: mixed batch
type answers struct {
	first, second, third, mixed []byte
}

func (w *world) protocol() answers {
	n := len(probes)
	a := answers{make([]byte, n), make([]byte, n), make([]byte, n), make([]byte, n)}
	for _, i := range tokProbes[0] {
		a.first[i] = single(w.am, w.rm, w.tokVal[0], probes[i])
	}
	for _, i := range tokProbes[0] {
		a.second[i] = single(w.am, w.rm, w.tokVal[0], probes[i])
	}
	batch(w.am, w.rm, w.tokVal, tokProbes[0], a.third)
	batch(w.am, w.rm, w.tokVal, tokProbes[1], a.first)
	batch(w.am, w.rm, w.tokVal, tokProbes[1], a.second)
	for _, i := range tokProbes[1] {
		a.third[i] = single(w.am, w.rm, w.tokVal[1], probes[i])
	}
	batch(w.am, w.rm, w.tokVal, allProbes, a.mixed)
	return a
}

// reference decisions of fresh managers over the same file: cold single (the reference) and cold batch
type ref struct{ single, batch []byte }

var memo sync.Map // abstract stored state -> ref

// fresh returns the reference decisions for the current stored state. They are a function of the stored state
// only, so they are memoised per abstract table dump; a memoised reference is never used to REPORT: judge()
// re-evaluates on real fresh managers over this very file before anything is recorded.
func (w *world) fresh() ref {
	stats.oracleEvals.Add(1)
	k := w.abs + "|" + presence(w.tokVal)
	if v, ok := memo.Load(k); ok {
		stats.memoHits.Add(1)
		return v.(ref)
	}
	r := w.freshReal()
	memo.Store(k, r)
	return r
}

// freshReal opens a second, brand-new AuthManager + RBACManager over the same database file: cold single
// decisions (the reference) and, on another brand-new RBACManager, cold batch decisions.
func (w *world) freshReal() ref {
	stats.freshOpens.Add(1)
	am, err := auth.NewAuthManager(w.path, time.Hour, 100, zerolog.Nop())
	if err != nil {
		unbound("fresh NewAuthManager: " + err.Error())
	}
	cfg := &auth.RBACManagerConfig{DB: am.GetDB(), LicenseClient: lic, Logger: zerolog.Nop(), CacheTTL: time.Hour}
	r := ref{make([]byte, len(probes)), make([]byte, len(probes))}
	rm1 := auth.NewRBACManager(cfg)
	for i, p := range probes {
		r.single[i] = single(am, rm1, w.tokVal[p.tok], p)
	}
	rm1.Close()
	rm2 := auth.NewRBACManager(cfg)
	am.InvalidateCache()
	batch(am, rm2, w.tokVal, allProbes, r.batch)
	rm2.Close()
	am.Close()
	return r
}

// judge compares the protocol answers with the reference; any disagreement is confirmed against real fresh
// managers over this world's own file before it is returned.
func (w *world) judge(a answers) map[string]map[int]string {
	f := failing(a, w.fresh())
	if len(f) == 0 {
		return f
	}
	stats.confirmations.Add(1)
	return failing(a, w.freshReal())
}

func presence(v [2]string) string {
	return fmt.Sprint(v[0] != "", v[1] != "")
}

// failing returns, per oracle kind, the set of probes that violate it.
//
//	stale            an answer of the long-lived managers differs from the fresh reference
//	batch-vs-single  batch and single answers differ for the same probe in the same state (long-lived or cold)
func failing(a answers, r ref) map[string]map[int]string {
	out := map[string]map[int]string{}
	put := func(kind string, i int, d string) {
		if out[kind] == nil {
			out[kind] = map[int]string{}
		}
		if _, ok := out[kind][i]; !ok {
			out[kind][i] = d
		}
	}
	round := [2][3]string{{"single#1", "single#2", "batch"}, {"batch#1", "batch#2", "single"}}
	for i, p := range probes {
		got := [4]byte{a.first[i], a.second[i], a.third[i], a.mixed[i]}
		for k, g := range got {
			if g != r.single[i] {
				nm := "mixed-batch"
				if k < 3 {
					nm = round[p.tok][k]
				}
				put("stale", i, fmt.Sprintf("%s %s=%c fresh=%c", p, nm, g, r.single[i]))
			}
		}
		if r.batch[i] != r.single[i] {
			put("batch-vs-single", i, fmt.Sprintf("%s cold batch=%c cold single=%c", p, r.batch[i], r.single[i]))
		}
		// long-lived managers: the batch answer next to the single answer of the same protocol run
		s, b := a.second[i], a.third[i]
		if p.tok == 1 {
			s, b = a.third[i], a.second[i]
		}
		if s != b || a.mixed[i] != s {
			put("batch-vs-single", i, fmt.Sprintf("%s warm single=%c batch=%c mixed=%c", p, s, b, a.mixed[i]))
		}
	}
	return out
}

// ---------------------------------------------------------------------------------------------
// running item lists

// expand computes every successor of the state reached by hist in scenario sc. The state is rebuilt from the
// scenario's seeded start (cold caches, then the protocol) by replaying hist with the protocol after every op; op c
// is applied, the protocol run, and the oracle evaluated. The oracle is also evaluated in the parent state so that
// only NEW failures are attributed to c. A world whose key did not change under c (failed or idempotent operation)
// IS still the parent state and is reused for the next op; otherwise the parent is rebuilt from scratch.
func expand(sc *scenario, hist []int, wantKey string, disabled *atomic.Int64, each func(c int, key, decisions string, newFail map[string][]string)) {
	var (
		w         *world
		parentKey string
		before    map[string]map[int]string
	)
	open := func() {
		w = newWorld(sc.mode, sc.start)
		a := w.protocol()
		for _, h := range hist {
			w.apply(h)
			w.refresh()
			a = w.protocol()
		}
		parentKey = w.key()
		if wantKey != "" && parentKey != wantKey {
			os.RemoveAll(root)
			ev.Nondeterminism(fmt.Sprintf("C20 %s: replay of %v reached a different state", sc.name, names(hist)))
		}
		before = failing(a, w.fresh())
		if len(hist) == 0 && wantKey == "" && len(before) > 0 { // the seeded state itself is judged once
			each(-1, parentKey, "", describe(w.judge(a), nil))
		}
		stats.replays.Add(1)
	}
	for _, c := range sc.alpha {
		if w == nil {
			open()
		}
		if ops[c].enabled != nil && !ops[c].enabled(w) {
			disabled.Add(1)
			continue
		}
		w.apply(c)
		w.refresh()
		a := w.protocol()
		key := w.key()
		// new failures (relative to the parent state) are confirmed on real fresh managers over this file before they count
		nf := describe(failing(a, w.fresh()), before)
		if len(nf) > 0 {
			nf = describe(w.judge(a), before)
		}
		each(c, key, string(w.fresh().single), nf)
		if key != parentKey {
			w.close()
			w = nil
		} else {
			stats.selfLoops.Add(1)
		}
	}
	if w != nil {
		w.close()
	}
}

func describe(after, before map[string]map[int]string) map[string][]string {
	out := map[string][]string{}
	for kind, m := range after {
		var idx []int
		for i := range m {
			if _, was := before[kind][i]; !was {
				idx = append(idx, i)
			}
		}
		sort.Ints(idx)
		for _, i := range idx {
			out[kind] = append(out[kind], m[i])
		}
	}
	return out
}

// runItems executes an item list (ops and "check" pseudo-items) and returns the failing sets after a final protocol run.
func runItems(mode int, items []int) map[string]map[int]string {
	w := newWorld(mode, nil)
	defer w.close()
	for _, it := range items {
		if it == check {
			w.protocol()
			continue
		}
		if ops[it].enabled != nil && !ops[it].enabled(w) {
			continue
		}
		w.apply(it)
		w.refresh()
	}
	return w.judge(w.protocol())
}

// failsNew: the list ends in an op; kind fails after it on a probe that does not fail when the same prefix is
// probed without that op.
func failsNew(mode int, kind string, items []int) bool {
	if len(items) == 0 || items[len(items)-1] == check {
		return false
	}
	after := runItems(mode, items)[kind]
	if len(after) == 0 {
		return false
	}
	before := runItems(mode, items[:len(items)-1])[kind]
	for i := range after {
		if _, was := before[i]; !was {
			return true
		}
	}
	return false
}

func names(items []int) []string {
	var out []string
	for _, it := range items {
		n := itemName(it)
		if n == "check" && len(out) > 0 && out[len(out)-1] == "check" {
			continue
		}
		out = append(out, n)
	}
	return out
}

// ---------------------------------------------------------------------------------------------
// scenarios

type scenario struct {
	name  string
	mode  int
	seed  []int
	start *seeded
	alpha []int
	depth int
}

func idx(ns ...string) []int {
	var out []int
	for _, n := range ns {
		i, ok := opIndex[n]
		if !ok {
			panic("unknown op " + n)
		}
		out = append(out, i)
	}
	return out
}

func matching(pred func(string) bool) []int {
	var out []int
	for i, o := range ops {
		if pred(o.name) {
			out = append(out, i)
		}
	}
	return out
}

func hasAny(s string, subs ...string) bool {
	for _, x := range subs {
		if strings.Contains(s, x) {
			return true
		}
	}
	return false
}

type rep struct {
	sc    *scenario
	hist  []int
	descs []string
	n     int
}

type preKey struct {
	mode       int
	kind, last string
}

var (
	mu   sync.Mutex
	reps = map[preKey]*rep{}
)

func less(a, b []int) bool {
	if len(a) != len(b) {
		return len(a) < len(b)
	}
	for i := range a {
		if a[i] != b[i] {
			return a[i] < b[i]
		}
	}
	return false
}

func report(sc *scenario, hist []int, c int, nf map[string][]string) {
	if len(nf) == 0 {
		return
	}
	full := append(append([]int{}, hist...), c)
	last := "(seed)"
	if c >= 0 {
		last = ops[c].name
	} else {
		full = hist
	}
	mu.Lock()
	for kind, d := range nf {
		k := preKey{sc.mode, kind, last}
		r := reps[k]
		if r == nil {
			r = &rep{}
			reps[k] = r
		}
		r.n++
		// deterministic representative: shortest, then smallest scenario name, then lexicographically smallest history
		if r.sc == nil || len(sc.seed)+len(full) < len(r.sc.seed)+len(r.hist) ||
			(len(sc.seed)+len(full) == len(r.sc.seed)+len(r.hist) && (sc.name < r.sc.name || (sc.name == r.sc.name && less(full, r.hist)))) {
			r.sc, r.hist, r.descs = sc, full, d
		}
	}
	mu.Unlock()
}

// initTemplate creates the migrated template database (migrations run once per process) and checks the licence seam.
func initTemplate(exit func()) {
	p := filepath.Join(root, "template.db")
	am, err := auth.NewAuthManager(p, time.Hour, 100, zerolog.Nop())
	if err != nil {
		exit()
		unbound("template: " + err.Error())
	}
	am.Close()
	if tmpl, err = os.ReadFile(p); err != nil || len(tmpl) == 0 {
		exit()
		unbound("template read")
	}
	if _, err := os.Stat(p + "-wal"); err == nil {
		exit()
		unbound("template database still has a WAL file after Close")
	}
	os.Remove(p)
	os.Remove(p + "-shm")
	w := newWorld(direct, nil)
	ok := w.rm.IsRBACEnabled()
	w.close()
	if !ok {
		exit()
		unbound("licence seam: RBACManager.IsRBACEnabled() is false")
	}
}

func main() {
	if e := os.Getenv("VERIF_C20_CONC"); e != "" {
		concWorkerMain(e) // phase-2 worker process
	}
	// VERIF_SCHED_REPLAY / VERIF_SCHED_FREERUN modes of the scheduler engine (the free-running -race pass takes the
	// quick tier's single-checker scenarios from the rbac-cold pre-state: one per API method and mode)
	sched.Main(func() []sched.Scenario {
		all := concScenarios()
		if os.Getenv("VERIF_SCHED_FREERUN") == "" {
			return all
		}
		var l []sched.Scenario
		for i, sp := range concSpecs() {
			if sp.quick && sp.checker == "single" && sp.pre == "rbac-cold" {
				l = append(l, all[i])
			}
		}
		return l
	})
	run := ev.Start("C20", "model_checking")
	quick := run.Quick()
	if !quick && os.Getenv("VERIF_DEADLINE_S") == "" {
		if d := time.Now().Add(13 * time.Minute); d.Before(run.Deadline) {
			run.Deadline = d // thorough budget is 15 min; a capped run reports exhaustive=false
		}
	}
	if err := os.MkdirAll(root, 0o700); err != nil {
		unbound(err.Error())
	}
	defer os.RemoveAll(root)
	exit := func() { os.RemoveAll(root) }
	sig := make(chan os.Signal, 1)
	signal.Notify(sig, os.Interrupt, syscall.SIGTERM, syscall.SIGPIPE, syscall.SIGHUP)
	go func() { <-sig; os.RemoveAll(root); concCleanupNow(); os.Exit(130) }()
	initTemplate(exit)

	if run.Replay != "" {
		replay(run)
		exit()
		run.Finish()
	}

	// phase 2 (one mutation racing one permission check, all schedules to the deviation bound) runs in worker
	// processes next to the BFS of phase 1
	phases := os.Getenv("VERIF_C20_PHASE") // "" = both; "1" / "2" = only that phase (development aid; recorded in the evidence)
	var concDone chan *concSummary
	if phases != "1" {
		concDone = make(chan *concSummary, 1)
		go func() { concDone <- runConcurrent(run, concPar()) }()
	}

	hierarchy := idx("createOrg(O1)", "createOrg(O2)", "createTeam(T1)", "createTeam(T2)", "createRole(R1,*,read)", "createRole(R2,db1,read+write)",
		"createToken(K1,read+write)", "createToken(K2,none)", "addMember(K1,T1)", "addMember(K2,T2)")
	all := matching(func(string) bool { return true })
	creates := matching(func(n string) bool { return hasAny(n, "create", "addMember") })
	// focused alphabets (every one explored to the full depth bound)
	tokensA := matching(func(n string) bool {
		return hasAny(n, "Token", "Member(K1,T1)", "Member(K2,T2)", "Member(K2,T1)")
	})
	teamsA := matching(func(n string) bool {
		return hasAny(n, "(T1", "(R1", "(P1", "Member(K1,T1)", "Member(K2,T1)", "setTokenPerms(K1")
	})
	orgsA := matching(func(n string) bool {
		return hasAny(n, "Org(", "OrgEnabled(", "createTeam", "deleteTeam", "createRole", "addMember(K1,T1)", "addMember(K2,T2)", "addMember(K2,T1)", "setTokenPerms(K1,none)")
	})
	type spec struct {
		name   string
		seed   []int
		alpha  []int
		dq, dt int
	}
	specs := []spec{
		{"E:build-up from empty", nil, creates, 5, 8},
		{"C:team-role-measurement ops from full hierarchy", hierarchy, teamsA, 4, 5},
		{"D:organization cascade ops from full hierarchy", hierarchy, orgsA, 4, 6},
		{"B:token and membership ops from full hierarchy", hierarchy, tokensA, 4, 5},
		{"A:all ops from full hierarchy", hierarchy, all, 2, 3},
	}
	var scs []*scenario
	for _, sp := range specs {
		for mode := 0; mode < 2; mode++ {
			scs = append(scs, &scenario{name: modeName[mode] + "/" + sp.name, mode: mode, seed: sp.seed, alpha: sp.alpha, depth: pick(quick, sp.dq, sp.dt)})
		}
	}
	if phases == "2" {
		scs = nil
	}
	if f := os.Getenv("VERIF_C20_ONLY"); f != "" {
		var keep []*scenario
		for _, sc := range scs {
			if strings.Contains(sc.name, f) {
				keep = append(keep, sc)
			}
		}
		scs = keep
	}

	samples := ev.NewSamples(11)
	distinct := sync.Map{}
	totalStates, totalTrans := 0, int64(0)
	complete := true
	// The scenarios are independent searches; they run side by side (at most bfsPar at a time, the largest first)
	// because a level-synchronous BFS leaves most cores idle on its small early frontiers. What is explored is
	// the same as when they run one after the other.
	per := make([]map[string]any, len(scs))
	lines := make([]string, len(scs))
	type scOut struct {
		states   int
		trans    int64
		complete bool
	}
	outs := make([]scOut, len(scs))
	startOrder := make([]int, len(scs))
	for i := range startOrder {
		startOrder[i] = i
	}
	weight := func(sc *scenario) int { // B > C > A > D > E (measured transition counts)
		if i := strings.IndexByte(sc.name, '/'); i >= 0 && i+1 < len(sc.name) {
			return strings.IndexByte("BCADE", sc.name[i+1])
		}
		return 9
	}
	sort.SliceStable(startOrder, func(a, b int) bool { return weight(scs[startOrder[a]]) < weight(scs[startOrder[b]]) })
	bfsPar, bfsWorkers := 4, max(4, runtime.NumCPU()/2)
	var wgS sync.WaitGroup
	semS := make(chan struct{}, bfsPar)
	for _, si := range startOrder {
		si, sc := si, scs[si]
		wgS.Add(1)
		semS <- struct{}{}
		go func() {
			defer wgS.Done()
			defer func() { <-semS }()
			t0 := time.Now()
			sc.start = buildSeed(sc.mode, sc.seed)
			var disabled atomic.Int64
			var sampled atomic.Bool
			res := xstate.BFS(xstate.Config{NCmds: len(sc.alpha), MaxDepth: sc.depth, Workers: bfsWorkers, Stop: run.TimeUp,
				Expand: func(hist []int, wantKey string, leaf bool, visit func(int, string)) {
					if leaf {
						return // judged when it was generated
					}
					expand(sc, hist, wantKey, &disabled, func(c int, key, decisions string, nf map[string][]string) {
						if c < 0 {
							report(sc, nil, -1, nf)
							return
						}
						report(sc, hist, c, nf)
						distinct.Store(decisions, true)
						if len(hist)+1 == sc.depth && strings.Contains(decisions, "A") && strings.Contains(decisions, "D") && sampled.CompareAndSwap(false, true) {
							samples.Add(map[string]any{"scenario": sc.name, "seed": opNames(sc.seed), "history": names(append(append([]int{}, hist...), c)),
								"fresh_decisions": decisions})
						}
						visit(c, key)
					})
				}})
			outs[si] = scOut{res.States, res.Transitions, res.Complete}
			per[si] = map[string]any{"scenario": sc.name, "alphabet": len(sc.alpha), "seed_len": len(sc.seed), "depth": sc.depth, "states": res.States,
				"transitions": res.Transitions, "per_depth_frontier": res.PerDepth, "disabled_ops_skipped": disabled.Load(), "complete": res.Complete, "wall_s": time.Since(t0).Seconds()}
			lines[si] = fmt.Sprintf("scenario %q: alphabet=%d depth=%d states=%d transitions=%d frontier=%v complete=%v %.1fs", sc.name, len(sc.alpha), sc.depth, res.States, res.Transitions, res.PerDepth, res.Complete, time.Since(t0).Seconds())
		}()
	}
	wgS.Wait()
	for i := range scs {
		totalStates += outs[i].states
		totalTrans += outs[i].trans
		complete = complete && outs[i].complete
		fmt.Println(lines[i])
	}

	// minimise one representative per (mode, kind, last op), in parallel, then classify by minimal form
	type minRes struct {
		k     preKey
		items []int
	}
	var keys []preKey
	for k := range reps {
		keys = append(keys, k)
	}
	sort.Slice(keys, func(i, j int) bool { return fmt.Sprint(keys[i]) < fmt.Sprint(keys[j]) })
	results := make([]minRes, len(keys))
	var wg sync.WaitGroup
	sem := make(chan struct{}, 16)
	for n, k := range keys {
		n, k := n, k
		r := reps[k]
		wg.Add(1)
		sem <- struct{}{}
		go func() {
			defer wg.Done()
			defer func() { <-sem }()
			// item list as the BFS executed it: seed, check, then a check after every op but the last
			items := append([]int{}, r.sc.seed...)
			items = append(items, check)
			for i, h := range r.hist {
				items = append(items, h)
				if i < len(r.hist)-1 {
					items = append(items, check)
				}
			}
			if len(r.hist) == 0 { // violation in the seeded state itself: last seed op is the culprit
				items = append([]int{}, r.sc.seed...)
			}
			last := items[len(items)-1]
			prefix := items[:len(items)-1]
			pos := make([]int, len(prefix))
			for i := range pos {
				pos[i] = i
			}
			build := func(sel []int) []int {
				var l []int
				for _, p := range sel {
					l = append(l, prefix[p])
				}
				return append(l, last)
			}
			if !failsNew(k.mode, k.kind, build(pos)) {
				// the list form must reproduce what the BFS saw; if not, report the unminimised history
				results[n] = minRes{k, items}
				return
			}
			min := ev.Minimize(pos, func(sel []int) bool { return failsNew(k.mode, k.kind, build(sel)) })
			results[n] = minRes{k, build(min)}
		}()
	}
	wg.Wait()
	for _, mr := range results {
		r := reps[mr.k]
		nm := names(mr.items)
		sig := fmt.Sprintf("%s|%s|%s", mr.k.kind, modeName[mr.k.mode], strings.Join(nm, ";"))
		desc := "after this operation list (check = full probe protocol) a decision of the long-lived managers differs from a fresh manager over the same database"
		if mr.k.kind == "batch-vs-single" {
			desc = "after this operation list CheckPermissionsBatch and CheckPermission give different decisions for the same request in the same state"
		}
		run.Violate(sig, desc, map[string]any{"mode": modeName[mr.k.mode], "oracle": mr.k.kind, "operations": nm, "found_in": r.sc.name,
			"found_at": names(append(append(append([]int{}, r.sc.seed...), check), r.hist...)), "first_new_failures": head(r.descs, 6), "raw_transitions_in_class": r.n})
	}

	if concDone != nil {
		sum := <-concDone
		reportConcurrent(run, sum)
		complete = complete && sum.complete
		run.Coverage["schedules"] = sum.schedules
		if sum.sample != nil {
			samples.Add(sum.sample)
		}
		run.Coverage["traces_validated_against_impl_concurrent"] = sum.schedules
	}
	if phases != "" {
		run.Coverage["phases_run"] = phases
		complete = false
	}
	run.Coverage["states"] = totalStates
	run.Coverage["transitions"] = totalTrans
	run.Coverage["traces_validated_against_impl"] = totalTrans
	run.Coverage["samples"] = samples.List()
	run.Coverage["exhaustive"] = complete
	run.Coverage["scenarios"] = per
	nd := 0
	distinct.Range(func(_, _ any) bool { nd++; return true })
	run.Coverage["distinct_fresh_decision_vectors"] = nd
	run.Coverage["probes_per_protocol_run"] = len(probes) * 4
	run.Coverage["probe_order"] = probeNames() // positions of the fresh_decisions strings (A allow, D deny, u no longer authenticates, - no token)
	run.Coverage["counters"] = map[string]int64{"worlds_built": stats.worlds.Load(), "oracle_evaluations": stats.oracleEvals.Load(), "fresh_manager_opens": stats.freshOpens.Load(),
		"oracle_memo_hits": stats.memoHits.Load(), "parent_state_replays": stats.replays.Load(), "self_loop_transitions_reusing_parent": stats.selfLoops.Load(), "ops_ok": stats.opsOK.Load(), "ops_returned_error": stats.opsErr.Load(), "permission_checks": stats.probeCalls.Load(),
		"cluster_apply_materialise_errors": applyErr.Load(), "violations_confirmed_on_real_fresh_managers": stats.confirmations.Load(), "raw_violating_transition_classes": int64(len(reps))}
	run.Coverage["alphabet"] = opNames(all)
	run.Coverage["explanation"] = "state = history; every transition replays seed+history+op on fresh real managers over a fresh copy of a migrated SQLite file, running the probe protocol after every op; states de-duplicated by sorted dump of all auth/RBAC tables + permCache + tokenCache + verified-token cache with ids renamed to slot names; the fresh-manager reference (cold single + cold batch on brand-new managers over the same file) is a function of the stored state only and is memoised per table dump; every disagreement is re-evaluated on real fresh managers over the very file of the failing history before it is recorded"
	if nd < 2 {
		fmt.Println("VACUITY WARNING: fewer than 2 distinct decision vectors")
	}
	fmt.Printf("states=%d transitions=%d distinct_decision_vectors=%d fresh_opens=%d memo_hits=%d apply_errors=%d classes(raw)=%d\n", totalStates, totalTrans, nd, stats.freshOpens.Load(), stats.memoHits.Load(), applyErr.Load(), len(reps))
	run.Assume("universe: organizations O1,O2; team Ti in Oi; role Ri on Ti (patterns *, db1; perms read / read+write); measurement permission Pi on Ri (m1:write, m2:read); tokens K1 (read,write) and K2 (RBAC-only); probes 2 tokens x {db1,db2} x {database-level,m1,m2} x {read,write}; depth bounds per scenario as reported")
	run.Assume("a role / measurement-permission slot holds at most one live entity (creating a second one in an occupied slot is not explored)")
	run.Assume("state de-duplication renames entity ids to slot names: behaviour is assumed invariant under renaming of surrogate ids (ids are only compared for equality; ORDER BY id only orders an any-match loop)")
	run.Assume("PBKDF2 iteration count overridden to 1 at build time (test-time parameter only); cache TTLs set to 1 h so that no entry expires during a history (TTL expiry is not the invalidation under test)")
	run.Assume("cluster-apply mode: single node that is the Raft leader; the proposer applies each command synchronously through the real ClusterFSM whose callbacks call the real Apply* materialisers as cmd/arc/main.go wires them; hashicorp/raft replication and follower lag are not explored")
	run.Assume("phase 2 (concurrent): two client threads only (one mutator, one checker) plus the managers' own background goroutines; deviation bounds as reported per cache pre-state (a schedule needing more deviations from the mutator-first default is not explored); the decision the overlapping check itself returns is not judged (it may legitimately be the old or the new one), only checks made after both calls returned; database/sql pool modelled as a counting semaphore with the limit the code sets (SetMaxOpenConns(1)), SQLite itself runs for real; interleavings inside one SQL statement and data races are out of scope (cooperative scheduling at synchronisation operations; run `./check C20 race` for the free-running -race pass); virtual clock (1 us per reading), cache TTL 1 h")
	run.Assume("a decision is the Allowed bit obtained as the HTTP path obtains it: AuthManager.VerifyToken(token value) then RBACManager.CheckPermission / CheckPermissionsBatch with that TokenInfo; a value that no longer authenticates is its own outcome; Source/Reason strings are not compared")
	exit()
	run.Finish()
}

// replay re-executes the operation list of a replay artefact (no exploration) and prints what disagrees.
func replay(run *ev.Run) {
	b, err := os.ReadFile(run.Replay)
	if err != nil {
		unbound("replay file: " + err.Error())
	}
	var art struct {
		Raw    json.RawMessage `json:"replay"`
		Replay struct {
			Mode       string   `json:"mode"`
			Oracle     string   `json:"oracle"`
			Operations []string `json:"operations"`
		} `json:"-"`
	}
	if err := json.Unmarshal(b, &art); err != nil {
		unbound("replay file: " + err.Error())
	}
	var raw map[string]any
	if err := json.Unmarshal(art.Raw, &art.Replay); err != nil || json.Unmarshal(art.Raw, &raw) != nil || (len(art.Replay.Operations) == 0 && raw["phase"] == nil) {
		unbound("replay file: not a C20 artefact")
	}
	if ph, _ := raw["phase"].(string); ph == "concurrent" {
		replayConcurrent(run, raw)
		return
	}
	mode := direct
	if art.Replay.Mode == modeName[cluster] {
		mode = cluster
	}
	var items []int
	for _, n := range art.Replay.Operations {
		if n == "check" {
			items = append(items, check)
		} else if i, ok := opIndex[n]; ok {
			items = append(items, i)
		} else {
			unbound("replay file: unknown operation " + n)
		}
	}
	after := runItems(mode, items)[art.Replay.Oracle]
	before := runItems(mode, items[:len(items)-1])[art.Replay.Oracle]
	var idx []int
	for i := range after {
		if _, was := before[i]; !was {
			idx = append(idx, i)
		}
	}
	sort.Ints(idx)
	fmt.Printf("replay mode=%s oracle=%s ops=%v: %d probe(s) newly disagree after the last operation\n", modeName[mode], art.Replay.Oracle, art.Replay.Operations, len(idx))
	for _, i := range idx {
		fmt.Println("  ", after[i])
	}
	if len(idx) > 0 {
		run.Violate(fmt.Sprintf("%s|%s|%s", art.Replay.Oracle, modeName[mode], strings.Join(names(items), ";")), "replayed operation list still violates the oracle", raw)
	}
}

func head(s []string, n int) []string {
	if len(s) > n {
		return s[:n]
	}
	return s
}

func probeNames() []string {
	var o []string
	for _, p := range probes {
		o = append(o, p.String())
	}
	return o
}

func opNames(l []int) []string {
	var o []string
	for _, i := range l {
		o = append(o, ops[i].name)
	}
	return o
}

func pick(q bool, a, b int) int {
	if q {
		return a
	}
	return b
}
