//go:build c20conc

package main

import (
	"database/sql"

	"github.com/basekick-labs/arc/zzverif/shim/vsql"
)

const instrumented = true

// realDB is the handle behind the pool model (the harness reads table dumps through it, outside the model).
func realDB(d *vsql.DB) *sql.DB { return d.Real() }
