//go:build !c20conc

package main

import "database/sql"

// instrumented: false in the binary ./check builds (internal/auth as it is in the repository: phase 1 and the
// parent of phase 2), true in the phase-2 worker binary (internal/auth rewritten onto the scheduler shims).
const instrumented = false

func realDB(d *sql.DB) *sql.DB { return d }
