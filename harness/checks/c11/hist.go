// C11, mode "hist" — HISTORIES on ONE long-lived RetentionHandler.
//
// A history is a sequence of operations on one freshly created api.RetentionHandler (its own SQLite
// file, its own LocalBackend root, the worker's real DuckDB) that lives for the whole history:
//
//	h0:=S/2        put: the content class S with 2 rows is written under the path h0 through the real
//	               LocalBackend.Write (a first write, a restore or a re-import: same key, other content)
//	trim(h0,old)   the file is rewritten in place the way the DELETE API does it (DuckDB COPY of the rows
//	               that stay into <dir>/.tmp/<name>.new, rename over the original): "old" keeps only the
//	               rows older than the cutoff of that moment, "new" only the rows at/after it; a file that
//	               would become empty is deleted, a file that would not change is not touched
//	rm(h0)         the file is removed (LocalBackend.Delete)
//	clock+12m      the clock (and with it every later cutoff) advances
//	dry / run / exec   a retention pass: POST execute {dry_run}, POST execute {confirm}, ExecutePolicy
//
// Paths: h0, h1 = two hour-level files in <db>/<m>/2026/01/10/06/, d0 = a compacted day file in
// <db>/<m>/2026/01/10/. Content classes (times relative to the base cutoff C = 2026-01-10T06:30Z, all inside
// hour 06): B = [C-25m,C-15m] all older, S = [C-10m,C+10m] straddling, A = [C+15m,C+25m] all newer,
// E = [C-12m,C] newest row == C, M = [C-12m,C-1us] newest row == C-1us. Hour-file content is written by the
// real ingest ArrowWriter, day-file content is the output of a real daily compaction.Job, trimmed content is
// written by DuckDB exactly as DeleteHandler.rewriteLocalFile does.
//
// Oracle: after EVERY pass, judged against the store as it is at that moment (ground truth = generator rows,
// re-read with the independent reader): a confirmed pass (run/exec) is judged by judgeTransition (no row at or
// after the cutoff of that moment is lost, no fully expired file of a covered measurement survives a
// successful pass, uncovered measurements byte-identical, nothing unreadable); a dry pass must leave the store
// byte-identical and report exactly (files, rows) what a confirmed run by a FRESH handler removes from a copy
// of the store as it is now (reference run: other handler, other root, other SQLite file; same DuckDB instance, whose caches every pass clears at its end).
package main

import (
	"bytes"
	"context"
	"crypto/sha1"
	"database/sql"
	"fmt"
	"os"
	"path/filepath"
	"sort"
	"strings"
	"time"

	"github.com/basekick-labs/arc/internal/api"
	"github.com/basekick-labs/arc/internal/config"
	"github.com/basekick-labs/arc/internal/ingest"
	"github.com/basekick-labs/arc/internal/storage"
	"github.com/basekick-labs/arc/zzverif/engine/ev"
	"github.com/gofiber/fiber/v2"
	"github.com/rs/zerolog"
)

type hop struct {
	Op string `json:"op"`           // put | trim | rm | adv | dry | run | exec
	P  int    `json:"p,omitempty"`  // put/trim/rm: path 0=h0 1=h1 2=d0
	C  string `json:"c,omitempty"`  // put: content class; trim: old | new; adv: 1us | 12m | 1d
	N  int    `json:"n,omitempty"`  // put: number of rows
	ID int    `json:"id,omitempty"` // put: makes the rows' v values unique within the history
}

var hpathNames = []string{"h0", "h1", "d0"}

func (o hop) isPass() bool { return o.Op == "dry" || o.Op == "run" || o.Op == "exec" }

func (o hop) String() string {
	switch o.Op {
	case "put":
		return fmt.Sprintf("%s:=%s/%d", hpathNames[o.P], o.C, o.N)
	case "trim":
		return fmt.Sprintf("trim(%s,%s)", hpathNames[o.P], o.C)
	case "rm":
		return fmt.Sprintf("rm(%s)", hpathNames[o.P])
	case "adv":
		return "clock+" + o.C
	}
	return o.Op
}

func histString(h []hop) string {
	if len(h) == 0 {
		return "-"
	}
	var s []string
	for _, o := range h {
		s = append(s, o.String())
	}
	return strings.Join(s, " ")
}

var hclassOrder = []string{"B", "S", "A", "E", "M"}
var hclasses = map[string][2]int64{
	"B": {-25 * mnt, -15 * mnt},
	"S": {-10 * mnt, 10 * mnt},
	"A": {15 * mnt, 25 * mnt},
	"E": {-12 * mnt, 0},
	"M": {-12 * mnt, -1 * us},
}
var hadvOrder = []string{"1us", "12m", "1d"}
var hadvNS = map[string]int64{"1us": 1000, "12m": int64(12 * time.Minute), "1d": dayNS}
var hpassOrder = []string{"dry", "run", "exec"}

func histRel(s slotT, p int) string {
	switch p {
	case 0, 1:
		return fmt.Sprintf("%s/%s/2026/01/10/06/%s_20260301_1210%02d_%09d.parquet", s.DB, s.M, s.M, p, 900+p)
	default:
		return fmt.Sprintf("%s/%s/2026/01/10/%s_20260301_131000_%d_b0_daily.parquet", s.DB, s.M, s.M, 1772370000000000900)
	}
}

func (o hop) rows() []rowT {
	r := hclasses[o.C]
	lo, hi := cutUS+r[0], cutUS+r[1]
	n := o.N
	if n < 2 {
		n = 2
	}
	var out []rowT
	for i := 0; i < n; i++ {
		out = append(out, rowT{lo + (hi-lo)*int64(i)/int64(n-1), int64(10000 + o.ID*10 + i)})
	}
	sortRows(out)
	return out
}

// ---- the space --------------------------------------------------------------------------------------

type histSweep struct {
	Name     string
	Paths    []int
	Classes  []string
	Advs     []string
	Passes   []string
	NPass    int
	GapMax   int
	GapExact bool // only gaps of exactly GapMax operations (the shorter ones belong to another sweep)
	Policies []int
}

func (s histSweep) describe() string {
	var ps []string
	for _, p := range s.Paths {
		ps = append(ps, hpathNames[p])
	}
	var pol []string
	for _, p := range s.Policies {
		pol = append(pol, policies[p].String())
	}
	gap := fmt.Sprintf("<=%d", s.GapMax)
	if s.GapExact {
		gap = fmt.Sprintf("exactly %d", s.GapMax)
	}
	return fmt.Sprintf("%s: %d passes from {%s}, paths {%s}, classes {%s}, clock steps {%s}, %s operations between two passes, policies {%s}",
		s.Name, s.NPass, strings.Join(s.Passes, ","), strings.Join(ps, ","), strings.Join(s.Classes, ","), strings.Join(s.Advs, ","), gap, strings.Join(pol, ","))
}

func histSweeps(quick bool) []histSweep {
	bsa := []string{"B", "S", "A"}
	all := []string{"dry", "run", "exec"}
	if quick {
		return []histSweep{
			{Name: "H2", Paths: []int{0, 1}, Classes: bsa, Advs: []string{"12m"}, Passes: all, NPass: 2, GapMax: 1, Policies: []int{1, 0}},
			{Name: "H3", Paths: []int{0}, Classes: bsa, Advs: []string{"12m"}, Passes: []string{"dry", "run"}, NPass: 3, GapMax: 1, Policies: []int{1}},
		}
	}
	return []histSweep{
		{Name: "H2", Paths: []int{0, 1}, Classes: hclassOrder, Advs: hadvOrder, Passes: all, NPass: 2, GapMax: 1, Policies: []int{1, 0}},
		{Name: "H2gap2", Paths: []int{0, 1}, Classes: bsa, Advs: []string{"12m"}, Passes: all, NPass: 2, GapMax: 2, GapExact: true, Policies: []int{1}},
		{Name: "H2day", Paths: []int{0, 2}, Classes: bsa, Advs: []string{"12m"}, Passes: all, NPass: 2, GapMax: 1, Policies: []int{1}},
		{Name: "H3", Paths: []int{0}, Classes: bsa, Advs: []string{"12m"}, Passes: all, NPass: 3, GapMax: 1, Policies: []int{1}},
		{Name: "H3two", Paths: []int{0, 1}, Classes: bsa, Advs: []string{"12m"}, Passes: []string{"dry", "run"}, NPass: 3, GapMax: 1, Policies: []int{1}},
	}
}

// histBackground: what the other measurements hold during a history (static): the sibling measurement of
// the same database an expired and a live hour file, the same measurement of the other database an expired one.
func histBackground(pol int) []fileRef {
	f := kase{Mode: "hist", Policy: pol}.focus()
	fs := []fileRef{{f ^ 1, 0}, {f ^ 1, 4}, {f ^ 2, 0}}
	sortFiles(fs)
	return fs
}

// enumerate: every history of the sweep. Static pruning only: trim/rm of a path that no earlier operation of the
// history has written, and an operation whose effect a later operation of the same gap overwrites.
func (s histSweep) enumerate() [][]hop {
	var out [][]hop
	both := false
	has := map[int]bool{}
	for _, p := range s.Paths {
		has[p] = true
	}
	both = has[0] && has[1]
	opts := append([]string{""}, s.Classes...)
	// initial assignments
	var inits [][]int
	var rec func(i int, cur []int)
	rec = func(i int, cur []int) {
		if i == len(s.Paths) {
			inits = append(inits, append([]int{}, cur...))
			return
		}
		for c := range opts {
			rec(i+1, append(cur, c))
		}
	}
	rec(0, nil)
	for _, in := range inits {
		if both { // h0 and h1 are interchangeable: the larger class index goes to h0
			var i0, i1 int
			for j, p := range s.Paths {
				if p == 0 {
					i0 = in[j]
				}
				if p == 1 {
					i1 = in[j]
				}
			}
			if i0 < i1 {
				continue
			}
		}
		var base []hop
		seen := map[int]bool{}
		for j, p := range s.Paths {
			if in[j] > 0 {
				base = append(base, hop{Op: "put", P: p, C: opts[in[j]], N: 2, ID: len(base)})
				seen[p] = true
			}
		}
		var gaps func(cur []hop, seen map[int]bool, gapNo, left int, emit func([]hop, map[int]bool))
		gaps = func(cur []hop, seen map[int]bool, gapNo, left int, emit func([]hop, map[int]bool)) {
			if !s.GapExact || left == 0 {
				emit(cur, seen)
			}
			if left == 0 {
				return
			}
			var cands []hop
			for _, p := range s.Paths {
				for _, c := range s.Classes {
					cands = append(cands, hop{Op: "put", P: p, C: c, N: 2 + gapNo})
				}
			}
			for _, p := range s.Paths {
				if !seen[p] {
					continue
				}
				if p != 2 {
					cands = append(cands, hop{Op: "trim", P: p, C: "old"}, hop{Op: "trim", P: p, C: "new"})
				}
				cands = append(cands, hop{Op: "rm", P: p})
			}
			for _, a := range s.Advs {
				cands = append(cands, hop{Op: "adv", C: a})
			}
			for _, c := range cands {
				// dead: an earlier operation of this gap on the same path is overwritten by a put/rm
				dead := false
				if c.Op == "put" || c.Op == "rm" {
					for j := len(cur) - 1; j >= 0 && !cur[j].isPass(); j-- {
						if cur[j].Op != "adv" && cur[j].P == c.P {
							dead = true
						}
					}
				}
				if dead {
					continue
				}
				c.ID = len(cur)
				ns := seen
				if c.Op == "put" && !seen[c.P] {
					ns = map[int]bool{c.P: true}
					for k := range seen {
						ns[k] = true
					}
				}
				gaps(append(append([]hop{}, cur...), c), ns, gapNo, left-1, emit)
			}
		}
		var passes func(cur []hop, seen map[int]bool, done int)
		passes = func(cur []hop, seen map[int]bool, done int) {
			for _, p := range s.Passes {
				h := append(append([]hop{}, cur...), hop{Op: p})
				if done+1 == s.NPass {
					out = append(out, h)
					continue
				}
				gaps(h, seen, done+1, s.GapMax, func(g []hop, sn map[int]bool) { passes(g, sn, done+1) })
			}
		}
		passes(base, seen, 0)
	}
	return out
}

func histComplexity(h []hop) int {
	n := 0
	for _, o := range h {
		if o.isPass() {
			n += 2
		} else {
			n++
		}
	}
	return n
}

// histGroup: what happens between the passes of a history, for the ORDER of the task list only: 0 a written
// path is written again, 1 trim, 2 rm, 3 clock step, 4 a new path is written, 5 nothing; +6 when the focus
// measurement never holds a file at all.
func histGroup(h []hop) int {
	seen := map[int]bool{}
	passed, puts := false, 0
	g := 5
	for _, o := range h {
		k := 5
		switch o.Op {
		case "put":
			puts++
			k = 4
			if seen[o.P] {
				k = 0
			}
			seen[o.P] = true
		case "trim":
			k = 1
		case "rm":
			k = 2
		case "adv":
			k = 3
		default:
			passed = true
			continue
		}
		if passed && k < g {
			g = k
		}
	}
	if puts == 0 {
		g += 6
	}
	return g
}

// buildHistTasks: the histories of every sweep x its policies, simplest first; ord spreads them evenly over
// the 286 layout positions of the other sweeps.
func buildHistTasks(quick bool) (tasks []kase, dims map[string]any, rule string) {
	per := map[string]int{}
	var descr []string
	for _, s := range histSweeps(quick) {
		hs := s.enumerate()
		for _, h := range hs {
			for _, pol := range s.Policies {
				tasks = append(tasks, kase{Mode: "hist", Backend: "local", Policy: pol, Files: histBackground(pol), Hist: h})
			}
		}
		per[s.Name] = len(hs) * len(s.Policies)
		descr = append(descr, s.describe()+fmt.Sprintf(" = %d histories", len(hs)*len(s.Policies)))
	}
	// order only (a capped run reports what it covered): the histories are grouped by what happens between
	// their passes, every group simplest first, and the groups are dealt out in turn
	sort.SliceStable(tasks, func(i, j int) bool { return histComplexity(tasks[i].Hist) < histComplexity(tasks[j].Hist) })
	groups := make([][]kase, 12)
	for _, t := range tasks {
		g := histGroup(t.Hist)
		groups[g] = append(groups[g], t)
	}
	tasks = tasks[:0]
	for more := true; more; {
		more = false
		for g := range groups {
			if len(groups[g]) > 0 {
				tasks = append(tasks, groups[g][0])
				groups[g] = groups[g][1:]
				more = true
			}
		}
	}
	for i := range tasks {
		tasks[i].ord = i * 286 / len(tasks)
	}
	dims = map[string]any{"hist_histories_by_sweep": per, "hist_histories": len(tasks)}
	rule = strings.Join(descr, "; ")
	return
}

// ---- execution -------------------------------------------------------------------------------------------

type refResult struct {
	files int
	rows  int64
	ok    bool
}

type hcontent struct {
	bytes []byte
	rows  []rowT
}

func (w *worker) plainDB() *sql.DB {
	if w.jobDB == nil {
		var err error
		w.jobDB, err = sql.Open("duckdb", "")
		must(err, "plain duckdb")
		w.jobDB.Exec("SET threads=1")
	}
	return w.jobDB
}

func (w *worker) arrowWriter() *ingest.ArrowWriter {
	if w.aw == nil {
		w.aw = ingest.NewArrowWriter(&config.IngestConfig{Compression: "snappy", WriteStatistics: true, DataPageVersion: "1.0"}, zerolog.Nop())
	}
	return w.aw
}

func (w *worker) checked(what string, b []byte, want []rowT) *hcontent {
	got, err := readRows(b)
	must(err, what+": read-back (independent reader)")
	if !sameRows(got, want) {
		must(fmt.Errorf("file holds %v, generator says %v", got, want), what+" differs from generator ground truth")
	}
	return &hcontent{bytes: b, rows: want}
}

// putContent: the bytes of a put (memoised): hour paths = ArrowWriter output, the day path = what the real
// daily compaction makes of two hour files holding the rows.
func (w *worker) putContent(m string, o hop) *hcontent {
	day := o.P == 2
	key := fmt.Sprintf("put|%s|%v|%s|%d|%d", m, day, o.C, o.N, o.ID)
	if c, ok := w.memo[key]; ok {
		return c
	}
	rows := o.rows()
	var b []byte
	if !day {
		b = w.writeHourFile(w.arrowWriter(), m, rows)
	} else {
		w.seq++
		fdb := fmt.Sprintf("fx%d", w.seq)
		var keys []string
		for i, part := range [][]rowT{rows[:1], rows[1:]} {
			k := fmt.Sprintf("%s/%s/2026/01/10/06/in%d.parquet", fdb, m, i)
			p := filepath.Join(w.store, k)
			must(os.MkdirAll(filepath.Dir(p), 0o755), "mkdir")
			must(os.WriteFile(p, w.writeHourFile(w.arrowWriter(), m, part), 0o644), "write")
			keys = append(keys, k)
		}
		out, err := w.compact(fdb, m, fdb+"/"+m+"/2026/01/10", keys)
		must(err, "compaction.Job (daily) for day-file content")
		if out == "" {
			must(fmt.Errorf("no output"), "compaction.Job (daily) for day-file content")
		}
		b, err = os.ReadFile(filepath.Join(w.store, out))
		must(err, "read compacted content")
		os.RemoveAll(filepath.Join(w.store, fdb))
	}
	c := w.checked("content "+o.String(), b, rows)
	w.memo[key] = c
	return c
}

// trimContent: src without the rows at/after (keepOld) or before (!keepOld) cutoffUS, written by DuckDB with
// the statement of DeleteHandler.rewriteLocalFile (memoised by source bytes).
func (w *worker) trimContent(src *fileState, keepOld bool, cutoffUS int64, keep []rowT) *hcontent {
	key := fmt.Sprintf("trim|%v|%d|%x", keepOld, cutoffUS, src.Bytes)
	if c, ok := w.memo[key]; ok {
		return c
	}
	dir := filepath.Join(w.root, "trimtmp")
	must(os.MkdirAll(dir, 0o755), "mkdir")
	// a fresh pair of names per call: DuckDB keeps per-path file metadata (external file cache, validated by
	// modification time), and two different contents written to the SAME path within its time granularity made it
	// read the new bytes with the old footer ("Snappy decompression failure") once in ~30 runs
	w.trimSeq++
	in, out := filepath.Join(dir, fmt.Sprintf("in%d.parquet", w.trimSeq)), filepath.Join(dir, fmt.Sprintf("out%d.parquet", w.trimSeq))
	must(os.WriteFile(in, src.Bytes, 0o644), "write")
	defer os.Remove(in)
	defer os.Remove(out)
	where := fmt.Sprintf("time >= make_timestamp(%d)", cutoffUS) // rows the DELETE removes
	if !keepOld {
		where = fmt.Sprintf("time < make_timestamp(%d)", cutoffUS)
	}
	q := fmt.Sprintf(`COPY (SELECT * FROM read_parquet('%s') WHERE (%s) IS NOT TRUE) TO '%s' (FORMAT PARQUET, COMPRESSION ZSTD, COMPRESSION_LEVEL 3, ROW_GROUP_SIZE 122880)`, in, where, out)
	_, err := w.plainDB().Exec(q)
	must(err, "DuckDB COPY for a DELETE-style rewrite")
	b, err := os.ReadFile(out)
	must(err, "read rewritten content")
	c := w.checked("DELETE-style rewrite", b, keep)
	w.memo[key] = c
	return c
}

// freshSet: a new RetentionHandler on a new SQLite file that holds policies[pol]. The file is a byte copy of a
// template made once per worker and policy by a handler that created the policy through the POST route and
// was closed right after (nothing else ever happened on it).
func (w *worker) freshSet(be storage.Backend, dbPath string, pol int) *handlerSet {
	c0 := cpuNow()
	defer func() { w.cpu["fresh_handler"] += cpuNow() - c0; w.cpu["fresh_handler_n"]++ }()
	must(os.MkdirAll(filepath.Dir(dbPath), 0o700), "mkdir")
	t, ok := w.tmpl[pol]
	if !ok {
		t.path = filepath.Join(w.root, "hdb", fmt.Sprintf("template_p%d.db", pol))
		set := w.newSet(be, w.arcdb, t.path, pol)
		t.id = set.ids[pol]
		must(set.h.Close(), "close template handler")
		for _, sfx := range []string{"-wal", "-shm", "-journal"} {
			if _, err := os.Stat(t.path + sfx); err == nil {
				must(fmt.Errorf("%s exists after Close", t.path+sfx), "SQLite template is not a single file")
			}
		}
		t.bytes, _ = os.ReadFile(t.path)
		if len(t.bytes) == 0 {
			must(fmt.Errorf("empty"), "SQLite template")
		}
		w.tmpl[pol] = t
	}
	must(os.WriteFile(dbPath, t.bytes, 0o600), "copy SQLite template")
	h, err := api.NewRetentionHandler(be, w.arcdb, &config.RetentionConfig{Enabled: true, DBPath: dbPath}, nil, nil, zerolog.Nop())
	must(err, "api.NewRetentionHandler")
	set := &handlerSet{h: h, app: fiber.New(fiber.Config{DisableStartupMessage: true}), ids: make([]int64, len(policies))}
	h.RegisterRoutes(set.app)
	set.ids[pol] = t.id
	if p, err := h.GetPolicy(t.id); err != nil || p == nil || p.Database != policies[pol].DB {
		must(fmt.Errorf("%v %v", p, err), "policy missing in the copied SQLite file")
	}
	return set
}

// reference: what a confirmed run of a FRESH handler removes from a copy of the store as it is now.
//
// The result is a function of (store content, policy, cutoff) only — a fresh handler has no past — so it is
// computed once per distinct store content and worker.
func (w *worker) reference(before state, pol int, covered map[int]bool, cutoffNS int64) (files int, rows int64, ok bool) {
	hsh := sha1.New()
	fmt.Fprintf(hsh, "%d|%d", pol, cutoffNS)
	for _, rel := range before.rels() {
		fmt.Fprintf(hsh, "|%s|%d|", rel, len(before[rel].Bytes))
		hsh.Write(before[rel].Bytes)
	}
	key := string(hsh.Sum(nil))
	if r, hit := w.refMemo[key]; hit {
		w.stats["hist_reference_memo_hits"]++
		return r.files, r.rows, r.ok
	}
	defer func() { w.refMemo[key] = refResult{files, rows, ok} }()
	w.refSeq++
	root := filepath.Join(w.store, fmt.Sprintf("_ref%d", w.refSeq)) // inside the DuckDB sandbox allowlist (LocalStorageRoot)
	must(os.MkdirAll(root, 0o755), "mkdir")
	for _, rel := range before.rels() {
		p := filepath.Join(root, rel)
		must(os.MkdirAll(filepath.Dir(p), 0o755), "mkdir")
		must(os.WriteFile(p, before[rel].Bytes, 0o644), "copy for the reference run")
	}
	be, err := storage.NewLocalBackend(root, zerolog.Nop())
	must(err, "storage.NewLocalBackend (reference)")
	dbp := filepath.Join(w.root, "hdb", fmt.Sprintf("ref%d.db", w.refSeq))
	set := w.freshSet(be, dbp, pol)
	rep := w.runPass(set, pol, cutoffNS, "run")
	after := scanAt(root, before)
	o2 := &outcome{Kinds: map[string]string{}, Culprit: map[string]string{}}
	files, rows = judgeTransition(o2, "", before, after, covered, cutoffNS, rep.OK)
	set.h.Close()
	os.RemoveAll(root)
	os.Remove(dbp)
	w.stats["hist_reference_runs"]++
	if files > 0 {
		w.stats["hist_reference_runs_removing_files"]++
	}
	if !rep.OK || len(o2.Kinds) > 0 {
		w.stats["hist_reference_run_not_clean"]++ // a single fresh run that violates the property is the other sweeps' subject
		return files, rows, false
	}
	return files, rows, true
}

func (w *worker) judgeHist(k kase) *outcome {
	o := &outcome{Kinds: map[string]string{}, Culprit: map[string]string{}}
	ctx := context.Background()
	w.histSeq++
	root := filepath.Join(w.store, fmt.Sprintf("_h%d", w.histSeq))
	os.RemoveAll(root)
	must(os.MkdirAll(root, 0o755), "mkdir")
	defer os.RemoveAll(root)
	be, err := storage.NewLocalBackend(root, zerolog.Nop())
	must(err, "storage.NewLocalBackend (history)")
	dbp := filepath.Join(w.root, "hdb", fmt.Sprintf("h%d.db", w.histSeq))
	set := w.freshSet(be, dbp, k.Policy) // THE handler of this history
	defer func() { set.h.Close(); os.Remove(dbp) }()

	sortFiles(k.Files)
	covered := k.covered()
	focus := k.focus()
	st := w.materialiseAt(root, k.Files)
	var advNS int64
	passNo := 0
	effectiveGap, interesting := false, false
	for _, op := range k.Hist {
		cutoffNS := k.cutoffNS() + advNS
		rel := histRel(slots[focus], op.P)
		switch op.Op {
		case "put":
			c := w.putContent(slots[focus].M, op)
			old := st[rel]
			if passNo > 0 {
				if old == nil || !bytes.Equal(old.Bytes, c.bytes) {
					effectiveGap = true
					w.stats["hist_gap_ops_effective"]++
				} else {
					w.stats["hist_gap_ops_noop"]++
				}
			}
			must(be.Write(ctx, rel, c.bytes), "LocalBackend.Write")
			st[rel] = &fileState{Rel: rel, Slot: focus, Label: op.C, Rows: c.rows, Bytes: c.bytes}
		case "trim":
			f := st[rel]
			var keep []rowT
			if f != nil && f.Err == "" {
				for _, r := range f.Rows {
					if (r.T*1000 < cutoffNS) == (op.C == "old") {
						keep = append(keep, r)
					}
				}
			}
			switch {
			case f == nil || f.Err != "" || len(keep) == len(f.Rows):
				w.stats["hist_gap_ops_noop"]++
			case len(keep) == 0: // the DELETE API deletes a file that loses all its rows
				must(be.Delete(ctx, rel), "LocalBackend.Delete")
				delete(st, rel)
				effectiveGap = true
				w.stats["hist_gap_ops_effective"]++
			default:
				c := w.trimContent(f, op.C == "old", cutoffNS/1000, keep)
				full := filepath.Join(root, rel)
				tmpDir := filepath.Join(filepath.Dir(full), ".tmp")
				must(os.MkdirAll(tmpDir, 0o700), "mkdir")
				tmp := filepath.Join(tmpDir, filepath.Base(full)+".new")
				must(os.WriteFile(tmp, c.bytes, 0o644), "write rewritten file")
				must(os.Rename(tmp, full), "rename rewritten file over the original")
				os.Remove(tmpDir)
				st[rel] = &fileState{Rel: rel, Slot: focus, Label: f.Label + "." + op.C, Rows: c.rows, Bytes: c.bytes}
				effectiveGap = true
				w.stats["hist_gap_ops_effective"]++
			}
		case "rm":
			if st[rel] != nil {
				must(be.Delete(ctx, rel), "LocalBackend.Delete")
				delete(st, rel)
				effectiveGap = true
				w.stats["hist_gap_ops_effective"]++
			} else {
				w.stats["hist_gap_ops_noop"]++
			}
		case "adv":
			advNS += hadvNS[op.C]
			effectiveGap = true
			w.stats["hist_gap_ops_effective"]++
		case "dry", "run", "exec":
			passNo++
			w.stats["hist_passes"]++
			phase := fmt.Sprintf("pass %d (%s, cutoff C%+dns): ", passNo, op.Op, cutoffNS-cutUS*1000)
			before := st
			mustDelete, mustKeep := 0, 0
			var modelRows int64
			for _, f := range before {
				if covered[f.Slot] && f.Err == "" && len(f.Rows) > 0 && f.maxUS()*1000 < cutoffNS {
					mustDelete++
					modelRows += int64(len(f.Rows))
				} else {
					mustKeep++
				}
			}
			if mustDelete > 0 && mustKeep > 0 && (passNo == 1 || effectiveGap) {
				interesting = true
			}
			if op.Op == "dry" {
				c0 := cpuNow()
				rep := w.runPass(set, k.Policy, cutoffNS, "dry")
				w.cpu["hist_pass"] += cpuNow() - c0
				o.DryFiles, o.DryRows = rep.Files, rep.Rows
				after := scanAt(root, before)
				c0 = cpuNow()
				// the reference run comes after the pass (it ends, like every pass, by clearing the DuckDB caches)
				refF, refR, refOK := w.reference(before, k.Policy, covered, cutoffNS)
				w.cpu["hist_reference"] += cpuNow() - c0
				if refOK && (refF != mustDelete || refR != modelRows) {
					w.stats["hist_reference_differs_from_model"]++
				}
				if !rep.OK {
					o.add("dryrun-failed", "-", phase+"dry run failed: "+rep.Err)
				}
				if same, what := sameFiles(before, after); !same {
					o.add("dryrun-deleted", firstChanged(before, after), phase+"the dry run changed the store: "+what)
				} else if rep.OK && refOK && (rep.Files != refF || rep.Rows != refR) {
					dir := "rows"
					if rep.Files < refF {
						dir = "under"
					} else if rep.Files > refF {
						dir = "over"
					}
					o.add("dryrun-report", dir, fmt.Sprintf("%sdry run reported files_deleted=%d deleted_count=%d, a confirmed run of a fresh handler on the same store removes %d files holding %d rows", phase, rep.Files, rep.Rows, refF, refR))
				}
				st = after
			} else {
				c0 := cpuNow()
				rep := w.runPass(set, k.Policy, cutoffNS, op.Op)
				w.cpu["hist_pass"] += cpuNow() - c0
				if !rep.OK {
					o.add("run-failed", "-", phase+"confirmed run failed: "+rep.Err)
				}
				after := scanAt(root, before)
				fg, rg := judgeTransition(o, phase, before, after, covered, cutoffNS, rep.OK)
				o.Deleted += fg
				o.DeletedRow += rg
				o.MustDelete += mustDelete
				if rep.OK && (rep.Files != fg || rep.Rows != rg) {
					w.stats["real_report_differs_from_effect"]++
				}
				st = after
			}
		}
	}
	o.NonTrivial = interesting && effectiveGap
	return o
}

// ---- classes ----------------------------------------------------------------------------------------------

// histKey: the class signature of a (minimal) history: oracle kind, policy shape, operations, background by role.
func (k kase) histKey(kind string) string {
	var fs []string
	for _, f := range k.Files {
		fs = append(fs, k.role(f.Slot)+":"+ftypes[f.Type].Name)
	}
	sort.Strings(fs)
	if len(fs) == 0 {
		fs = []string{"-"}
	}
	return fmt.Sprintf("hist|%s|%s|%s|background=%s", kind, k.shape(), histString(k.Hist), strings.Join(fs, ","))
}

// minimiseHist: ddmin over background files + operations while the same oracle still fails, then every
// remaining operation is lowered to the simplest alternative (fixed order) that still fails, so that symmetric
// variants of one defect end in one signature.
func (w *worker) minimiseHist(k kase, kind string, runs *int) kase {
	fails := func(c kase) bool {
		*runs++
		_, bad := w.judge(c).Kinds[kind]
		return bad
	}
	nf := len(k.Files)
	build := func(ix []int) kase {
		c := k
		c.Files, c.Hist = nil, nil
		for _, i := range ix {
			if i < nf {
				c.Files = append(c.Files, k.Files[i])
			} else {
				c.Hist = append(c.Hist, k.Hist[i-nf])
			}
		}
		return c
	}
	idx := make([]int, nf+len(k.Hist))
	for i := range idx {
		idx[i] = i
	}
	if !fails(build(idx)) {
		cleanup()
		ev.Nondeterminism("history " + histString(k.Hist) + " (" + kind + ") did not reproduce in the parent process")
	}
	c := build(ev.Minimize(idx, func(ix []int) bool { return fails(build(ix)) }))
	try := func(mut func(*kase)) {
		d := c
		d.Hist = append([]hop{}, c.Hist...)
		mut(&d)
		if histString(d.Hist) == histString(c.Hist) && d.Policy == c.Policy {
			return
		}
		if fails(d) {
			c = d
		}
	}
	// the filtered policy first
	try(func(d *kase) {
		if policies[d.Policy].M == "" && len(d.Files) == 0 {
			d.Policy = 1
		}
	})
	// paths renamed in order of first use
	try(func(d *kase) {
		ren := map[int]int{}
		for i, o := range d.Hist {
			if o.Op == "put" || o.Op == "trim" || o.Op == "rm" {
				if _, ok := ren[o.P]; !ok {
					ren[o.P] = len(ren)
				}
				d.Hist[i].P = ren[o.P]
			}
		}
	})
	for i := range c.Hist {
		switch c.Hist[i].Op {
		case "dry", "run", "exec":
			for _, alt := range hpassOrder {
				if alt == c.Hist[i].Op {
					break
				}
				before := c.Hist[i].Op
				try(func(d *kase) { d.Hist[i].Op = alt })
				if c.Hist[i].Op != before {
					break
				}
			}
		case "put":
			for _, alt := range hclassOrder {
				if alt == c.Hist[i].C {
					break
				}
				before := c.Hist[i].C
				try(func(d *kase) { d.Hist[i].C = alt })
				if c.Hist[i].C != before {
					break
				}
			}
			for _, alt := range []int{2, 3} {
				if alt >= c.Hist[i].N {
					break
				}
				before := c.Hist[i].N
				try(func(d *kase) { d.Hist[i].N = alt })
				if c.Hist[i].N != before {
					break
				}
			}
		case "trim":
			if c.Hist[i].C == "new" {
				try(func(d *kase) { d.Hist[i].C = "old" })
			}
		case "adv":
			for _, alt := range hadvOrder {
				if alt == c.Hist[i].C {
					break
				}
				before := c.Hist[i].C
				try(func(d *kase) { d.Hist[i].C = alt })
				if c.Hist[i].C != before {
					break
				}
			}
		}
	}
	return c
}
