// C11 — Retention only deletes data older than the cutoff.
//
// Bounded-exhaustive file layouts are put under a real storage.LocalBackend root on /dev/shm and the
// REAL api.RetentionHandler is driven on them with a real database.DuckDB:
//
//	http   : POST /api/v1/retention/:id/execute through a fiber app — dry run, then confirmed run
//	exec   : RetentionHandler.ExecutePolicy (the scheduler's entry point)
//	direct : the unexported deleteOldFiles with exact cutoffs around a file's max(time) (in-package accessor)
//	cycle  : real compaction.Job (daily tier) -> dry run -> run -> real compaction.Job -> run
//	hist   : HISTORIES on one long-lived handler: 2-3 passes with content changes under the same path,
//	         removals, additions and clock steps between them, judged after every pass (hist.go)
//
// Every case (and every history) gets a FRESH RetentionHandler on its own SQLite file, so cases are
// independent of each other whatever a handler remembers.
//
// retention.go reads the clock through the vclock shim (overlay "time": true), so the policy cutoff
// now-(retention_days+buffer_days) is an exact, frozen instant C(+offset) chosen by the harness.
//
// A layout gives every measurement of {prod,prod2} x {cpu,cpu2} at most 3 Parquet files taken (with
// repetition) from 10 types: {hour file, compacted day file} x {entirely below C, straddling C,
// max==C, max==C-1us, entirely above C}. Hour files are written by the real ingest ArrowWriter, day files
// are the output of a real daily compaction.Job.
//
// Oracle (the property, nothing more): rows are (time,v) pairs known from the generator and re-read
// with an independent arrow-go Parquet reader. (1) no row with time >= cutoff disappears from a covered
// measurement; (2) after a successful run no remaining file of a covered measurement has max(time) <
// cutoff; (3) databases/measurements the policy does not cover are untouched; (4) a dry run deletes
// nothing and its report (files, rows) equals what the confirmed run then removes.
package main

import (
	"bytes"
	"context"
	"database/sql"
	"encoding/json"
	"fmt"
	"io"
	"math/rand"
	"net/http/httptest"
	"os"
	"path/filepath"
	"regexp"
	"runtime/pprof"
	"sort"
	"strings"
	"syscall"
	"time"

	"github.com/basekick-labs/arc/internal/api"
	"github.com/basekick-labs/arc/internal/compaction"
	"github.com/basekick-labs/arc/internal/config"
	"github.com/basekick-labs/arc/internal/database"
	"github.com/basekick-labs/arc/internal/ingest"
	"github.com/basekick-labs/arc/internal/storage"
	"github.com/basekick-labs/arc/zzverif/engine/ev"
	"github.com/basekick-labs/arc/zzverif/hx"
	"github.com/basekick-labs/arc/zzverif/shim/vclock"
	_ "github.com/duckdb/duckdb-go/v2"
	"github.com/gofiber/fiber/v2"
	"github.com/rs/zerolog"
)

// ---- the space ---------------------------------------------------------------------------------

var cutT = time.Date(2026, 1, 10, 6, 30, 0, 0, time.UTC) // C: the base cutoff instant
var cutUS = cutT.UnixMicro()

const dayNS = int64(24 * time.Hour)

type slotT struct{ DB, M string }

// shared name prefixes on purpose: prod/prod2, cpu/cpu2
var slots = []slotT{{"prod", "cpu"}, {"prod", "cpu2"}, {"prod2", "cpu"}, {"prod2", "cpu2"}}

func (s slotT) String() string { return s.DB + "/" + s.M }

const (
	us  = int64(1)
	mnt = 60 * 1_000_000 * us
	hr  = 60 * mnt
	day = 24 * hr
)

// ftype: one kind of Parquet file, its time range relative to C in microseconds.
type ftype struct {
	Name           string // e.g. hB = hour file entirely below the cutoff
	Hour           bool
	MinOff, MaxOff int64
}

var ftypes = []ftype{
	{"hB", true, -(2*hr + 20*mnt), -(2*hr + 10*mnt)},
	{"hS", true, -20 * mnt, 20 * mnt},
	{"hE", true, -25 * mnt, 0},
	{"hM", true, -25 * mnt, -1 * us},
	{"hA", true, 1*hr + 40*mnt, 1*hr + 50*mnt},
	{"dB", false, -(2*day + 3*hr), -(1*day + 10*hr)},
	{"dS", false, -5 * hr, 16 * hr},
	{"dE", false, -5 * hr, 0},
	{"dM", false, -5 * hr, -1 * us},
	{"dA", false, 1*day + 20*hr, 2*day + 10*hr},
}

const maxDup = 3

type rowT struct{ T, V int64 } // time in microseconds, unique value

func (r rowT) String() string { return fmt.Sprintf("(t=C%+dus v=%d)", r.T-cutUS, r.V) }

func (t *ftype) rows(ti, dup int) []rowT {
	lo, hi := cutUS+t.MinOff, cutUS+t.MaxOff
	ts := []int64{lo, lo + (hi-lo)/2, hi}
	var out []rowT
	for i, x := range ts {
		out = append(out, rowT{x, int64(ti*100 + dup*10 + i)})
	}
	return out
}

func (t *ftype) dir() string {
	lo := time.UnixMicro(cutUS + t.MinOff).UTC()
	if t.Hour {
		return lo.Format("2006/01/02/15")
	}
	return lo.Format("2006/01/02")
}

// file names follow the writers' conventions; the date in the name is a creation time (never read by retention)
func (t *ftype) fileName(m string, ti, dup int) string {
	if t.Hour {
		return fmt.Sprintf("%s_20260301_1200%02d_%09d.parquet", m, dup, ti)
	}
	return fmt.Sprintf("%s_20260301_1300%02d_%d_b0_daily.parquet", m, dup, 1772370000000000000+int64(ti))
}

type fileRef struct {
	Slot int `json:"slot"`
	Type int `json:"type"`
}

func (f fileRef) String() string { return slots[f.Slot].String() + ":" + ftypes[f.Type].Name }

func filesString(fs []fileRef) string {
	if len(fs) == 0 {
		return "-"
	}
	var s []string
	for _, f := range fs {
		s = append(s, f.String())
	}
	return strings.Join(s, ",")
}

func sortFiles(fs []fileRef) {
	sort.SliceStable(fs, func(i, j int) bool {
		if fs[i].Slot != fs[j].Slot {
			return fs[i].Slot < fs[j].Slot
		}
		return fs[i].Type < fs[j].Type
	})
}

// enumLayouts: every multiset of at most maxFiles types out of `types`, simplest first.
func enumLayouts(types []int, maxFiles int) [][]int {
	out := [][]int{{}}
	var rec func(start int, cur []int, n int)
	for n := 1; n <= maxFiles; n++ {
		rec = func(start int, cur []int, left int) {
			if left == 0 {
				out = append(out, append([]int{}, cur...))
				return
			}
			for i := start; i < len(types); i++ {
				rec(i, append(cur, types[i]), left-1)
			}
		}
		rec(0, nil, n)
	}
	return out
}

type policyT struct {
	DB   string
	M    string // "" = no measurement filter
	R, B int
}

func (p policyT) String() string {
	m := p.M
	if m == "" {
		m = "*"
	}
	return fmt.Sprintf("%s/%s", p.DB, m)
}

var policies = []policyT{
	{"prod", "", 30, 7}, {"prod", "cpu", 2, 1}, {"prod", "cpu2", 1, 0},
	{"prod2", "", 30, 7}, {"prod2", "cpu", 2, 1}, {"prod2", "cpu2", 1, 0},
}

// kase: one executed case.
type kase struct {
	Mode    string    `json:"mode"`             // http | exec | direct | cycle
	Backend string    `json:"backend"`          // local = *storage.LocalBackend; prefix = object-store List semantics over the same directory
	Policy  int       `json:"policy"`           // http/exec/cycle: index into policies; direct: index into slots (the target)
	DeltaNS int64     `json:"cutoff_offset_ns"` // cutoff = C + offset
	Files   []fileRef `json:"files"`
	Hist    []hop     `json:"hist,omitempty"` // mode hist: the operations on ONE long-lived handler (hist.go); Files = the static background
	ord     int       // position of the layout in its sweep (simplest first); orders the task list
}

func (k kase) cutoffNS() int64 { return cutUS*1000 + k.DeltaNS }

func (k kase) scope() string {
	if k.Mode == "direct" {
		return "target=" + slots[k.Policy].String()
	}
	return "policy=" + policies[k.Policy].String()
}

func (k kase) covered() map[int]bool {
	c := map[int]bool{}
	if k.Mode == "direct" {
		c[k.Policy] = true
		return c
	}
	p := policies[k.Policy]
	for i, s := range slots {
		if s.DB == p.DB && (p.M == "" || p.M == s.M) {
			c[i] = true
		}
	}
	return c
}

func (k kase) head() string {
	return fmt.Sprintf("%s|%s|%s|cutoff=C%+dns", k.Mode, k.Backend, k.scope(), k.DeltaNS)
}

func (k kase) sig(kind string) string {
	return kind + "|" + k.head() + "|files=" + filesString(k.Files)
}

// target: the database and measurement ("" = every measurement) the case's retention run is aimed at.
func (k kase) target() (string, string) {
	if k.Mode == "direct" {
		return slots[k.Policy].DB, slots[k.Policy].M
	}
	return policies[k.Policy].DB, policies[k.Policy].M
}

func (k kase) shape() string {
	if _, m := k.target(); m == "" {
		return "unfiltered"
	}
	return "filtered"
}

func rel(name, target, tag string) string {
	switch {
	case name == target:
		return tag
	case strings.HasPrefix(name, target):
		return tag + "+" // the target's name is a proper prefix of this one (prod -> prod2, cpu -> cpu2)
	case strings.HasPrefix(target, name):
		return tag + "-"
	}
	return tag + "?"
}

// role: a slot named relative to the target, keeping the direction of the shared name prefix.
func (k kase) role(slot int) string {
	db, m := k.target()
	if m == "" {
		return rel(slots[slot].DB, db, "db") + "/*"
	}
	return rel(slots[slot].DB, db, "db") + "/" + rel(slots[slot].M, m, "m")
}

func (k kase) roleCulprit(c string) string {
	for i, s := range slots {
		if strings.HasPrefix(c, s.String()+":") {
			return k.role(i) + strings.TrimPrefix(c, s.String())
		}
	}
	return c
}

func (k kase) classKey(kind string) string {
	var fs []string
	for _, f := range k.Files {
		fs = append(fs, k.role(f.Slot)+":"+ftypes[f.Type].Name)
	}
	sort.Strings(fs)
	if len(fs) == 0 {
		fs = []string{"-"}
	}
	return fmt.Sprintf("%s|%s|cutoff=C%+dns|files=%s", kind, k.shape(), k.DeltaNS, strings.Join(fs, ","))
}

var probeMatrix = [][2]string{{"http", "local"}, {"http", "prefix"}, {"exec", "local"}, {"exec", "prefix"}, {"direct", "local"}, {"direct", "prefix"}, {"cycle", "local"}}

// translate: the same layout, cutoff and target in another mode/backend (ok=false when there is no equivalent).
func (k kase) translate(mode, backend string) (kase, bool) {
	db, m := k.target()
	c := kase{Mode: mode, Backend: backend, DeltaNS: k.DeltaNS, Files: k.Files, Policy: -1}
	if mode == "direct" {
		for i, s := range slots {
			if s.DB == db && s.M == m {
				c.Policy = i
			}
		}
	} else {
		for i, p := range policies {
			if p.DB == db && p.M == m {
				c.Policy = i
			}
		}
	}
	return c, c.Policy >= 0
}

func (k kase) focus() int {
	if k.Mode == "direct" {
		return k.Policy
	}
	p := policies[k.Policy]
	for i, s := range slots {
		if s.DB == p.DB && (s.M == p.M || (p.M == "" && s.M == "cpu")) {
			return i
		}
	}
	return 0
}

// world: the focus slot gets layout i, the other three get the layouts 95, 190, 285 places further on
// (cyclically), so every slot sees every layout once per sweep and the slots differ from each other.
func world(focus, i int, layouts [][]int) []fileRef {
	var fs []fileRef
	for d := 0; d < len(slots); d++ {
		s := (focus + d) % len(slots)
		for _, t := range layouts[(i+95*d)%len(layouts)] {
			fs = append(fs, fileRef{s, t})
		}
	}
	sortFiles(fs)
	return fs
}

var allTypes = []int{0, 1, 2, 3, 4, 5, 6, 7, 8, 9}
var hourTypes = []int{0, 1, 2, 3, 4}

var directOffsets = []int64{-1000, -999, 0, 1, 1000}

func buildTasks(run *ev.Run) (tasks []kase, dims map[string]any) {
	l3 := enumLayouts(allTypes, 3)
	l2 := enumLayouts(allTypes, 2)
	h3 := enumLayouts(hourTypes, 3)
	h2 := enumLayouts(hourTypes, 2)
	lsib := enumLayouts(allTypes, 1) // sibling layouts of the thorough product
	add := func(k kase) { tasks = append(tasks, k) }
	sweep := func(mode, backend string, delta int64, ls [][]int) {
		for p := range policies {
			for i := range ls {
				k := kase{Mode: mode, Backend: backend, Policy: p, DeltaNS: delta, ord: i}
				k.Files = world(k.focus(), i, ls)
				add(k)
			}
		}
	}
	sweep("http", "local", 0, l3)
	sweep("exec", "prefix", 0, l3)
	direct := func(be string, target int, offs []int64) {
		for _, off := range offs {
			for i := range l3 {
				add(kase{Mode: "direct", Backend: be, Policy: target, DeltaNS: off, Files: world(target, i, l3), ord: i})
			}
		}
	}
	direct("local", 0, directOffsets)
	if run.Quick() {
		direct("prefix", 0, []int64{0})
		sweep("cycle", "local", 0, h2)
	} else {
		direct("local", 3, directOffsets)
		direct("prefix", 0, directOffsets)
		direct("prefix", 3, directOffsets)
		sweep("cycle", "local", 0, h3)
	}
	dims = map[string]any{"file_types": len(ftypes), "layouts_le3_files": len(l3), "layouts_le2_files": len(l2), "layouts_le1_file": len(lsib), "hour_only_layouts_le3": len(h3), "hour_only_layouts_le2": len(h2),
		"policies": len(policies), "direct_cutoff_offsets_ns": directOffsets}
	if !run.Quick() {
		sweep("http", "local", 500, l3) // the clock (hence the cutoff) is not microsecond aligned
		sweep("http", "prefix", 0, l3)
		sweep("exec", "local", 0, l3)
		sweep("exec", "prefix", 500, l3)
		// full product: focus measurement (<=3 files) x the other measurement of the same database (<=1 file)
		for p := range policies {
			for i := range l3 {
				for j := range lsib {
					k := kase{Mode: "http", Backend: "local", Policy: p, ord: len(l3) + i + j}
					f := k.focus()
					sib := f ^ 1
					for _, t := range l3[i] {
						k.Files = append(k.Files, fileRef{f, t})
					}
					for _, t := range lsib[j] {
						k.Files = append(k.Files, fileRef{sib, t})
					}
					for d, s := range []int{f ^ 2, f ^ 3} {
						for _, t := range l3[(i+95*(d+1)+j)%len(l3)] {
							k.Files = append(k.Files, fileRef{s, t})
						}
					}
					sortFiles(k.Files)
					add(k)
				}
			}
		}
	}
	ht, hdims, hrule := buildHistTasks(run.Quick())
	tasks = append(tasks, ht...)
	for k, v := range hdims {
		dims[k] = v
	}
	dims["hist_rule"] = hrule
	// simplest layouts first across all sweeps, so that a run stopped by the time cap has covered every
	// mode/policy on the simpler layouts
	sort.SliceStable(tasks, func(i, j int) bool { return tasks[i].ord < tasks[j].ord })
	if run.Seed != 0 { // VERIF_SEED only permutes the order
		rand.New(rand.NewSource(int64(run.Seed))).Shuffle(len(tasks), func(i, j int) { tasks[i], tasks[j] = tasks[j], tasks[i] })
	}
	return
}

// ---- worker: real backend, real DuckDB, real handlers ----------------------------------------------

var scratch string

func cleanup() {
	if scratch != "" {
		os.RemoveAll(scratch)
	}
}

func must(err error, what string) {
	if err != nil {
		cleanup()
		ev.Unbound(what + ": " + err.Error())
	}
}

// prefixBackend models an object store over the same directory: List(prefix) returns every key that
// starts with the prefix STRING (S3/Azure semantics) instead of walking the directory the prefix names.
// Everything else is the embedded LocalBackend. The retention handler does not recognise its type, so
// it hands DuckDB the storage-relative key; the process runs with the store root as working directory.
type prefixBackend struct{ *storage.LocalBackend }

func (b *prefixBackend) List(ctx context.Context, prefix string) ([]string, error) {
	all, err := b.LocalBackend.List(ctx, "")
	if err != nil {
		return nil, err
	}
	var out []string
	for _, k := range all {
		if strings.HasPrefix(k, prefix) {
			out = append(out, k)
		}
	}
	sort.Strings(out)
	return out, nil
}

func (b *prefixBackend) Type() string { return "verif-prefix" }

type sqliteTemplate struct {
	path  string
	id    int64
	bytes []byte
}

type handlerSet struct {
	h   *api.RetentionHandler
	app *fiber.App
	ids []int64 // policy ids, parallel to policies
}

type worker struct {
	root, store string
	arcdb       *database.DuckDB
	jobDB       *sql.DB
	be          map[string]storage.Backend
	cur         *handlerSet // the handler of the case being judged: every case gets a fresh one, so cases are independent of each other
	caseSeq     int
	trimSeq     int
	fixture     map[string][][][]byte // measurement -> type -> dup -> bytes
	seq         int
	stats       map[string]int64
	// hist mode (hist.go)
	aw              *ingest.ArrowWriter
	memo            map[string]*hcontent
	refSeq, histSeq int
	refMemo         map[string]refResult
	tmpl            map[int]sqliteTemplate
	cpu             map[string]time.Duration // debug output only
}

func newWorker() *worker {
	tw := time.Now()
	w := &worker{root: scratch, store: filepath.Join(scratch, "store"), stats: map[string]int64{}, memo: map[string]*hcontent{}, refMemo: map[string]refResult{}, tmpl: map[int]sqliteTemplate{}, cpu: map[string]time.Duration{}}
	must(os.MkdirAll(w.store, 0o755), "mkdir")
	must(os.Chdir(w.store), "chdir") // for the prefix backend (DuckDB resolves relative keys against the cwd)
	lg := zerolog.Nop()
	be, err := storage.NewLocalBackend(w.store, lg)
	must(err, "storage.NewLocalBackend")
	// database.New configures DuckDB under its own short timeouts; on a heavily loaded machine it can run into
	// them ("context deadline exceeded"), which says nothing about the property: try again a few times
	var db *database.DuckDB
	for attempt := 0; ; attempt++ {
		db, err = database.New(&database.Config{
			MaxConnections:   2,
			MemoryLimit:      "512MB",
			ThreadCount:      1,
			TempDirectory:    filepath.Join(w.root, "spill"),
			UploadDir:        filepath.Join(w.root, "upload"),
			LocalStorageRoot: be.GetBasePath(),
		}, lg)
		if err == nil || attempt >= 5 || !strings.Contains(err.Error(), "deadline exceeded") {
			break
		}
		time.Sleep(time.Duration(attempt+1) * time.Second)
	}
	must(err, "database.New")
	w.arcdb = db
	w.be = map[string]storage.Backend{"local": be, "prefix": &prefixBackend{be}}
	tf := time.Now()
	w.makeFixtures()
	if os.Getenv("VERIF_C11_DEBUG") != "" {
		fmt.Fprintf(os.Stderr, "init: before fixtures %.2fs, fixtures %.2fs\n", tf.Sub(tw).Seconds(), time.Since(tf).Seconds())
	}
	return w
}

// newSet: a fresh RetentionHandler (its own SQLite file) behind a fiber app, with every policy of `policies`
// (only < 0) or just policies[only] created through the real POST route.
func (w *worker) newSet(b storage.Backend, db *database.DuckDB, dbPath string, only int) *handlerSet {
	h, err := api.NewRetentionHandler(b, db, &config.RetentionConfig{Enabled: true, DBPath: dbPath}, nil, nil, zerolog.Nop())
	must(err, "api.NewRetentionHandler")
	set := &handlerSet{h: h, app: fiber.New(fiber.Config{DisableStartupMessage: true}), ids: make([]int64, len(policies))}
	h.RegisterRoutes(set.app)
	for i, p := range policies {
		if only >= 0 && i != only {
			continue
		}
		body := map[string]any{"name": fmt.Sprintf("p%d", i), "database": p.DB, "retention_days": p.R, "buffer_days": p.B, "is_active": true}
		if p.M != "" {
			body["measurement"] = p.M
		}
		st, raw := post(set.app, "/api/v1/retention/", body)
		var created struct {
			ID int64 `json:"id"`
		}
		if st != 201 || json.Unmarshal(raw, &created) != nil || created.ID == 0 {
			must(fmt.Errorf("HTTP %d %s", st, raw), "create retention policy")
		}
		set.ids[i] = created.ID
	}
	return set
}

func (w *worker) close() {
	w.arcdb.Close()
	if w.jobDB != nil {
		w.jobDB.Close()
	}
}

func post(app *fiber.App, path string, body any) (int, []byte) {
	b, _ := json.Marshal(body)
	req := httptest.NewRequest("POST", path, bytes.NewReader(b))
	req.Header.Set("Content-Type", "application/json")
	resp, err := app.Test(req, -1)
	if err != nil {
		return 0, []byte(err.Error())
	}
	defer resp.Body.Close()
	raw, _ := io.ReadAll(resp.Body)
	return resp.StatusCode, raw
}

// ---- fixtures ----------------------------------------------------------------------------------------

func (w *worker) writeHourFile(aw *ingest.ArrowWriter, m string, rows []rowT) []byte {
	ts := make([]int64, len(rows))
	vs := make([]int64, len(rows))
	hosts := make([]string, len(rows))
	for i, r := range rows {
		ts[i], vs[i], hosts[i] = r.T, r.V, fmt.Sprintf("h%d", r.V) // unique tag value: compaction dedup (tags+time) never merges rows
	}
	b, err := aw.WriteParquetColumnar(context.Background(), m, map[string]interface{}{"time": ts, "v": vs, "host": hosts}, nil, []string{"host"}, false, nil)
	must(err, "ingest.ArrowWriter.WriteParquetColumnar")
	return b
}

func readRows(b []byte) ([]rowT, error) {
	rs, _, _, err := hx.ReadParquet(b)
	if err != nil {
		return nil, err
	}
	var out []rowT
	for _, r := range rs {
		t, ok1 := r["time"].(int64)
		v, ok2 := r["v"].(int64)
		if !ok1 || !ok2 {
			return nil, fmt.Errorf("row without time/v: %v", r.Key())
		}
		out = append(out, rowT{t, v})
	}
	sortRows(out)
	return out, nil
}

func sortRows(r []rowT) {
	sort.Slice(r, func(i, j int) bool {
		if r[i].T != r[j].T {
			return r[i].T < r[j].T
		}
		return r[i].V < r[j].V
	})
}

func sameRows(a, b []rowT) bool {
	if len(a) != len(b) {
		return false
	}
	for i := range a {
		if a[i] != b[i] {
			return false
		}
	}
	return true
}

// compact runs one REAL daily-tier compaction.Job over the given storage keys of one day partition.
func (w *worker) compact(db, m, partition string, keys []string) (string, error) {
	be, err := storage.NewLocalBackend(w.store, zerolog.Nop())
	if err != nil {
		return "", err
	}
	if w.jobDB == nil { // its own plain DuckDB, like the compaction subprocess
		w.jobDB, err = sql.Open("duckdb", "")
		must(err, "duckdb for compaction jobs")
		w.jobDB.Exec("SET threads=1")
	}
	w.seq++
	j := compaction.NewJob(&compaction.JobConfig{Measurement: m, PartitionPath: partition, Files: keys, StorageBackend: be, Database: db,
		Tier: "daily", TempDirectory: filepath.Join(w.root, "ctmp"), Logger: zerolog.Nop(), DB: w.jobDB, JobID: fmt.Sprintf("c11job%d", w.seq)})
	if err := j.Run(context.Background()); err != nil {
		return "", err
	}
	return j.OutputStorageKey, nil
}

// makeFixtures produces the Parquet bytes of every (measurement, file type, copy). The parent process
// generates them once into $VERIF_C11_FIXTURES; shard workers load them from there. Every file — generated
// or loaded — is read back with the independent reader and compared with the generator's rows.
func (w *worker) makeFixtures() {
	dir := os.Getenv("VERIF_C11_FIXTURES")
	var aw *ingest.ArrowWriter
	writer := func() *ingest.ArrowWriter {
		if aw == nil {
			aw = ingest.NewArrowWriter(&config.IngestConfig{Compression: "snappy", WriteStatistics: true, DataPageVersion: "1.0"}, zerolog.Nop())
		}
		return aw
	}
	dayBytes := map[[2]int][]byte{} // the compacted day file of (type, copy) is produced once and used for both measurements
	w.fixture = map[string][][][]byte{}
	for _, m := range []string{"cpu", "cpu2"} {
		w.fixture[m] = make([][][]byte, len(ftypes))
		for ti := range ftypes {
			t := &ftypes[ti]
			for dup := 0; dup < maxDup; dup++ {
				rows := t.rows(ti, dup)
				var b []byte
				fpath := filepath.Join(dir, fmt.Sprintf("%s_%s_%d.parquet", m, t.Name, dup))
				if dir != "" {
					if x, err := os.ReadFile(fpath); err == nil {
						b = x
					}
				}
				if b == nil && t.Hour {
					b = w.writeHourFile(writer(), m, rows)
				} else if b == nil && dayBytes[[2]int{ti, dup}] != nil {
					b = dayBytes[[2]int{ti, dup}]
				} else if b == nil {
					// a day file is what the real daily compaction makes of the hour files holding these rows
					if w.jobDB == nil {
						var err error
						w.jobDB, err = sql.Open("duckdb", "")
						must(err, "duckdb for compaction jobs")
						w.jobDB.Exec("SET threads=1")
					}
					w.seq++
					fdb := fmt.Sprintf("fx%d", w.seq)
					var keys []string
					for i, part := range [][]rowT{rows[:1], rows[1:]} {
						key := fmt.Sprintf("%s/%s/%s/in%d.parquet", fdb, m, time.UnixMicro(part[0].T).UTC().Format("2006/01/02/15"), i)
						p := filepath.Join(w.store, key)
						must(os.MkdirAll(filepath.Dir(p), 0o755), "mkdir")
						must(os.WriteFile(p, w.writeHourFile(writer(), m, part), 0o644), "write")
						keys = append(keys, key)
					}
					out, err := w.compact(fdb, m, fdb+"/"+m+"/"+t.dir(), keys)
					must(err, "compaction.Job (daily) for a day-file fixture")
					if out == "" {
						must(fmt.Errorf("no output"), "compaction.Job (daily) for a day-file fixture")
					}
					b, err = os.ReadFile(filepath.Join(w.store, out))
					must(err, "read compacted fixture")
					os.RemoveAll(filepath.Join(w.store, fdb))
					dayBytes[[2]int{ti, dup}] = b
				}
				got, err := readRows(b)
				must(err, "fixture read-back (independent reader)")
				want := append([]rowT{}, rows...)
				sortRows(want)
				if !sameRows(got, want) {
					must(fmt.Errorf("%s/%s copy %d: file holds %v, generator says %v", m, t.Name, dup, got, want), "fixture differs from generator ground truth")
				}
				if dir != "" {
					if _, err := os.Stat(fpath); err != nil {
						must(os.MkdirAll(dir, 0o755), "mkdir")
						must(os.WriteFile(fpath, b, 0o644), "write fixture")
					}
				}
				w.fixture[m][ti] = append(w.fixture[m][ti], b)
			}
		}
	}
}

// ---- store state ------------------------------------------------------------------------------------

type fileState struct {
	Rel   string
	Slot  int    // -1 = outside every slot
	Label string // type name of the fixture, or "new"
	Rows  []rowT
	Bytes []byte
	Err   string // unreadable
}

func (f *fileState) maxUS() int64 {
	m := int64(-1 << 62)
	for _, r := range f.Rows {
		if r.T > m {
			m = r.T
		}
	}
	return m
}

type state map[string]*fileState

func slotOf(rel string) int {
	p := strings.Split(rel, "/")
	if len(p) < 3 {
		return -1
	}
	for i, s := range slots {
		if p[0] == s.DB && p[1] == s.M {
			return i
		}
	}
	return -1
}

func wipeDir(root string) {
	ents, _ := os.ReadDir(root)
	for _, e := range ents {
		os.RemoveAll(filepath.Join(root, e.Name()))
	}
}

func (w *worker) materialise(files []fileRef) state { return w.materialiseAt(w.store, files) }

func (w *worker) materialiseAt(root string, files []fileRef) state {
	wipeDir(root)
	st := state{}
	dup := map[fileRef]int{}
	for _, f := range files {
		d := dup[f]
		dup[f]++
		if d >= maxDup {
			must(fmt.Errorf("%v", f), "too many copies of one file type")
		}
		s, t := slots[f.Slot], &ftypes[f.Type]
		rel := fmt.Sprintf("%s/%s/%s/%s", s.DB, s.M, t.dir(), t.fileName(s.M, f.Type, d))
		b := w.fixture[s.M][f.Type][d]
		p := filepath.Join(root, rel)
		must(os.MkdirAll(filepath.Dir(p), 0o755), "mkdir")
		must(os.WriteFile(p, b, 0o644), "write fixture")
		rows := t.rows(f.Type, d)
		sortRows(rows)
		st[rel] = &fileState{Rel: rel, Slot: f.Slot, Label: t.Name, Rows: rows, Bytes: b}
	}
	return st
}

// scan reads the store; a file whose bytes are unchanged keeps its known rows, anything else is decoded
// with the independent reader.
func (w *worker) scan(prev state) state { return scanAt(w.store, prev) }

func scanAt(root string, prev state) state {
	st := state{}
	filepath.WalkDir(root, func(p string, d os.DirEntry, err error) error {
		if err != nil || d.IsDir() {
			return nil
		}
		rel, _ := filepath.Rel(root, p)
		rel = filepath.ToSlash(rel)
		b, rerr := os.ReadFile(p)
		if rerr != nil {
			st[rel] = &fileState{Rel: rel, Slot: slotOf(rel), Label: "new", Err: rerr.Error()}
			return nil
		}
		if old, ok := prev[rel]; ok && bytes.Equal(old.Bytes, b) {
			st[rel] = old
			return nil
		}
		fs := &fileState{Rel: rel, Slot: slotOf(rel), Label: "new", Bytes: b}
		if strings.HasSuffix(rel, ".parquet") {
			rows, e := readRows(b)
			if e != nil {
				fs.Err = e.Error()
			}
			fs.Rows = rows
		}
		st[rel] = fs
		return nil
	})
	return st
}

func (s state) rels() []string {
	out := make([]string, 0, len(s))
	for r := range s {
		out = append(out, r)
	}
	sort.Strings(out)
	return out
}

func (s state) rowsOf(slot int) map[rowT]int {
	m := map[rowT]int{}
	for _, f := range s {
		if f.Slot == slot {
			for _, r := range f.Rows {
				m[r]++
			}
		}
	}
	return m
}

func sameFiles(a, b state) (bool, string) {
	for _, r := range a.rels() {
		if f, ok := b[r]; !ok {
			return false, disp(a[r]) + " disappeared"
		} else if !bytes.Equal(f.Bytes, a[r].Bytes) {
			return false, disp(a[r]) + " changed"
		}
	}
	for _, r := range b.rels() {
		if _, ok := a[r]; !ok {
			return false, disp(b[r]) + " appeared"
		}
	}
	return true, ""
}

// ---- running retention -------------------------------------------------------------------------------

type report struct {
	OK       bool
	Files    int
	Rows     int64
	Meas     []string
	Cutoff   string
	Err      string
	HTTPCode int
}

type execResp struct {
	DeletedCount         int64    `json:"deleted_count"`
	FilesDeleted         int      `json:"files_deleted"`
	DryRun               bool     `json:"dry_run"`
	CutoffDate           string   `json:"cutoff_date"`
	AffectedMeasurements []string `json:"affected_measurements"`
	Error                string   `json:"error"`
}

func (w *worker) retain(k kase, dry bool) report {
	set := w.cur
	ctx := context.Background()
	switch k.Mode {
	case "direct":
		s := slots[k.Policy]
		rows, files, err := set.h.VerifC11DeleteOldFiles(ctx, s.DB, s.M, time.Unix(0, k.cutoffNS()).UTC(), dry)
		r := report{OK: err == nil, Files: files, Rows: rows}
		if err != nil {
			r.Err = err.Error()
		}
		return r
	case "exec":
		return w.runPass(set, k.Policy, k.cutoffNS(), "exec")
	default: // http, cycle
		if dry {
			return w.runPass(set, k.Policy, k.cutoffNS(), "dry")
		}
		return w.runPass(set, k.Policy, k.cutoffNS(), "run")
	}
}

// runPass: one retention pass of policies[pol] on the given handler with the clock frozen so that the
// policy's cutoff is exactly cutoffNS. how: dry = POST execute {dry_run}, run = POST execute {confirm},
// exec = ExecutePolicy (the scheduler's entry point).
func (w *worker) runPass(set *handlerSet, pol int, cutoffNS int64, how string) report {
	p := policies[pol]
	vclock.Install(time.Unix(0, cutoffNS+int64(p.R+p.B)*dayNS))
	vclock.SetTick(0) // frozen: every reading of the clock inside retention.go returns the same instant
	defer vclock.Uninstall()
	if how == "exec" {
		resp, err := set.h.ExecutePolicy(context.Background(), set.ids[pol])
		if err != nil {
			return report{Err: err.Error()}
		}
		m := append([]string{}, resp.AffectedMeasurements...)
		sort.Strings(m)
		return report{OK: true, Files: resp.FilesDeleted, Rows: resp.DeletedCount, Meas: m, Cutoff: resp.CutoffDate}
	}
	dry := how == "dry"
	st, raw := post(set.app, fmt.Sprintf("/api/v1/retention/%d/execute", set.ids[pol]), map[string]any{"dry_run": dry, "confirm": !dry})
	var e execResp
	if err := json.Unmarshal(raw, &e); err != nil || st != 200 || e.DryRun != dry {
		return report{HTTPCode: st, Err: fmt.Sprintf("HTTP %d %s", st, strings.TrimSpace(string(raw)))}
	}
	m := append([]string{}, e.AffectedMeasurements...)
	sort.Strings(m)
	return report{OK: true, HTTPCode: st, Files: e.FilesDeleted, Rows: e.DeletedCount, Meas: m, Cutoff: e.CutoffDate}
}

// ---- the oracle ---------------------------------------------------------------------------------------

type outcome struct {
	Kinds      map[string]string `json:"kinds,omitempty"`    // violated oracle -> description
	Culprit    map[string]string `json:"culprits,omitempty"` // violated oracle -> slot:type the oracle points at
	NonTrivial bool              `json:"nontrivial"`
	MustDelete int               `json:"must_delete"`
	Deleted    int               `json:"deleted_files"`
	DeletedRow int64             `json:"deleted_rows"`
	DryFiles   int               `json:"dry_files"`
	DryRows    int64             `json:"dry_rows"`
	Skipped    string            `json:"skipped,omitempty"`
}

func (o *outcome) add(kind, culprit, desc string) {
	if _, ok := o.Kinds[kind]; ok {
		return // first (in sorted order) instance per oracle kind and case
	}
	o.Kinds[kind] = desc
	o.Culprit[kind] = culprit
}

var wallClockName = regexp.MustCompile(`_\d{8}_\d{6}_\d+_b(\d+)_`)

// disp: the path as it appears in descriptions; the names of files written during the case (compaction
// outputs) contain wall-clock time and are rendered without it.
func disp(f *fileState) string {
	if f.Label == "new" {
		return wallClockName.ReplaceAllString(f.Rel, "_<time>_b${1}_")
	}
	return f.Rel
}

func culpritOf(f *fileState) string {
	if f.Slot < 0 {
		return disp(f)
	}
	return slots[f.Slot].String() + ":" + f.Label
}

// transition judges one confirmed retention run (before -> after).
func judgeTransition(o *outcome, phase string, before, after state, covered map[int]bool, cutoffNS int64, success bool) (filesGone int, rowsGone int64) {
	// rows that disappeared, per slot (multiset over (time, v))
	origin := map[int]map[rowT]*fileState{}
	for _, rel := range before.rels() {
		f := before[rel]
		if origin[f.Slot] == nil {
			origin[f.Slot] = map[rowT]*fileState{}
		}
		for _, r := range f.Rows {
			if _, ok := origin[f.Slot][r]; !ok {
				origin[f.Slot][r] = f
			}
		}
	}
	for si := range slots {
		b, a := before.rowsOf(si), after.rowsOf(si)
		var lost []rowT
		for r, n := range b {
			for i := a[r]; i < n; i++ {
				lost = append(lost, r)
			}
		}
		sortRows(lost)
		rowsGone += int64(len(lost))
		for _, r := range lost {
			f := origin[si][r]
			if !covered[si] {
				o.add("untargeted-touched", culpritOf(f), fmt.Sprintf("%srow %v of %s vanished although the run does not cover %s", phase, r, disp(f), slots[si]))
			} else if r.T*1000 >= cutoffNS {
				o.add("deleted-live-row", culpritOf(f), fmt.Sprintf("%srow %v of %s (time >= cutoff C%+dns) vanished", phase, r, disp(f), cutoffNS-cutUS*1000))
			}
		}
	}
	for _, rel := range before.rels() {
		f := before[rel]
		g, ok := after[rel]
		if ok && bytes.Equal(g.Bytes, f.Bytes) {
			continue
		}
		filesGone++
		if f.Slot < 0 || !covered[f.Slot] {
			o.add("untargeted-touched", culpritOf(f), fmt.Sprintf("%s%s was removed or rewritten although the run does not cover it", phase, disp(f)))
		}
	}
	for _, rel := range after.rels() {
		g := after[rel]
		if g.Err != "" && strings.HasSuffix(rel, ".parquet") {
			o.add("unreadable-file", culpritOf(g), fmt.Sprintf("%s%s is unreadable after the run: %s", phase, disp(g), g.Err))
			continue
		}
		if success && g.Slot >= 0 && covered[g.Slot] && strings.HasSuffix(rel, ".parquet") && len(g.Rows) > 0 && g.maxUS()*1000 < cutoffNS {
			o.add("kept-expired-file", culpritOf(g), fmt.Sprintf("%s%s remains after a successful run although its newest row is C%+dus < cutoff C%+dns", phase, disp(g), g.maxUS()-cutUS, cutoffNS-cutUS*1000))
		}
	}
	return
}

func (w *worker) judge(k kase) *outcome {
	if k.Mode == "hist" {
		return w.judgeHist(k)
	}
	o := &outcome{Kinds: map[string]string{}, Culprit: map[string]string{}}
	pol := k.Policy
	if k.Mode == "direct" {
		pol = 0 // deleteOldFiles takes no policy
	}
	w.caseSeq++
	dbp := filepath.Join(w.root, "hdb", fmt.Sprintf("c%d.db", w.caseSeq))
	w.cur = w.freshSet(w.be[k.Backend], dbp, pol)
	defer func() { w.cur.h.Close(); os.Remove(dbp); w.cur = nil }()
	sortFiles(k.Files)
	covered := k.covered()
	cutoffNS := k.cutoffNS()
	before := w.materialise(k.Files)

	if k.Mode == "cycle" {
		nb, skip := w.compactCovered(before, covered)
		if skip != "" {
			o.Skipped = "compaction before retention: " + skip
			return o
		}
		before = nb
	}
	mustDelete, mustKeep := 0, 0
	for _, f := range before {
		if covered[f.Slot] && f.maxUS()*1000 < cutoffNS {
			mustDelete++
		} else {
			mustKeep++
		}
	}
	o.MustDelete = mustDelete
	o.NonTrivial = mustDelete > 0 && mustKeep > 0

	var dry report
	hasDry := k.Mode != "exec"
	if hasDry {
		dry = w.retain(k, true)
		o.DryFiles, o.DryRows = dry.Files, dry.Rows
		if !dry.OK {
			o.add("dryrun-failed", "-", "dry run failed: "+dry.Err)
		}
		mid := w.scan(before)
		if same, what := sameFiles(before, mid); !same {
			o.add("dryrun-deleted", firstChanged(before, mid), "the dry run changed the store: "+what)
			before = w.materialise(k.Files) // judge the confirmed run on the stated layout
			if k.Mode == "cycle" {
				before, _ = w.compactCovered(before, covered)
			}
		}
	}
	real := w.retain(k, false)
	if !real.OK {
		o.add("run-failed", "-", "confirmed run failed: "+real.Err)
	}
	after := w.scan(before)
	filesGone, rowsGone := judgeTransition(o, "", before, after, covered, cutoffNS, real.OK)
	o.Deleted, o.DeletedRow = filesGone, rowsGone
	if hasDry && dry.OK && real.OK {
		if dry.Files != filesGone || dry.Rows != rowsGone {
			o.add("dryrun-report", "-", fmt.Sprintf("dry run reported files_deleted=%d deleted_count=%d, the confirmed run then removed %d files holding %d rows", dry.Files, dry.Rows, filesGone, rowsGone))
		} else if k.Mode != "direct" && strings.Join(dry.Meas, ",") != strings.Join(real.Meas, ",") {
			o.add("dryrun-report", "-", fmt.Sprintf("dry run reported measurements %v, the confirmed run %v", dry.Meas, real.Meas))
		}
	}
	if real.OK {
		if real.Files != filesGone || real.Rows != rowsGone {
			w.stats["real_report_differs_from_effect"]++
		}
		if k.Mode != "direct" {
			if want := time.Unix(0, cutoffNS).UTC().Format(time.RFC3339); real.Cutoff != want {
				w.stats["reported_cutoff_differs"]++
			}
		}
	}
	if k.Mode == "cycle" && real.OK {
		// compaction after the run, then a second run: nothing at or after the cutoff may go, nothing expired may stay
		nb, skip := w.compactCovered(after, covered)
		if skip != "" {
			w.stats["cycle_second_phase_skipped"]++
			return o
		}
		again := w.retain(k, false)
		if !again.OK {
			o.add("run-failed", "-", "second confirmed run (after compaction) failed: "+again.Err)
		}
		judgeTransition(o, "after compaction: ", nb, w.scan(nb), covered, cutoffNS, again.OK)
	}
	return o
}

func firstChanged(a, b state) string {
	for _, r := range a.rels() {
		if f, ok := b[r]; !ok || !bytes.Equal(f.Bytes, a[r].Bytes) {
			return culpritOf(a[r])
		}
	}
	return "-"
}

// compactCovered runs a real daily compaction.Job on the hour-level files of every day partition of the
// covered measurements. The result must hold exactly the same rows per measurement (anything else is
// C09's subject: the case is skipped and counted, never judged).
func (w *worker) compactCovered(st state, covered map[int]bool) (state, string) {
	parts := map[string][]string{}
	for _, rel := range st.rels() {
		f := st[rel]
		p := strings.Split(rel, "/")
		if f.Slot >= 0 && covered[f.Slot] && len(p) == 7 && strings.HasSuffix(rel, ".parquet") {
			key := strings.Join(p[:5], "/")
			parts[key] = append(parts[key], rel)
		}
	}
	keys := make([]string, 0, len(parts))
	for k := range parts {
		keys = append(keys, k)
	}
	sort.Strings(keys)
	for _, part := range keys {
		p := strings.Split(part, "/")
		if _, err := w.compact(p[0], p[1], part, parts[part]); err != nil {
			w.stats["compaction_failed"]++
			return nil, "compaction.Job failed: " + err.Error()
		}
		w.stats["compaction_jobs"]++
	}
	ns := w.scan(st)
	for si := range slots {
		a, b := st.rowsOf(si), ns.rowsOf(si)
		if len(a) != len(b) {
			w.stats["compaction_changed_rows"]++
			return nil, "compaction changed the rows of " + slots[si].String()
		}
		for r, n := range a {
			if b[r] != n {
				w.stats["compaction_changed_rows"]++
				return nil, "compaction changed the rows of " + slots[si].String()
			}
		}
	}
	for _, f := range ns {
		if f.Err != "" {
			return nil, "unreadable file after compaction: " + f.Rel
		}
	}
	return ns, ""
}

// ---- main -----------------------------------------------------------------------------------------------

func sortedKinds(o *outcome) []string {
	ks := make([]string, 0, len(o.Kinds))
	for k := range o.Kinds {
		ks = append(ks, k)
	}
	sort.Strings(ks)
	return ks
}

// cpuNow: user+system CPU time of this process so far (debug output only).
func cpuNow() time.Duration {
	var ru syscall.Rusage
	syscall.Getrusage(syscall.RUSAGE_SELF, &ru)
	return time.Duration(ru.Utime.Nano() + ru.Stime.Nano())
}

type sampleList struct{ s []any }

func (l *sampleList) Len() int  { return len(l.s) }
func (l *sampleList) Add(x any) { l.s = append(l.s, x) }

func sample(k kase, o *outcome) map[string]any {
	if k.Mode == "hist" {
		return map[string]any{"case": k.head(), "history": histString(k.Hist), "background": filesString(k.Files), "files_that_had_to_go_at_confirmed_passes": o.MustDelete,
			"files_removed": o.Deleted, "rows_removed": o.DeletedRow, "last_dry_run_reported_files": o.DryFiles, "last_dry_run_reported_rows": o.DryRows, "violated": sortedKinds(o)}
	}
	return map[string]any{"case": k.head(), "files": filesString(k.Files), "files_that_must_go": o.MustDelete, "files_removed": o.Deleted, "rows_removed": o.DeletedRow,
		"dry_run_reported_files": o.DryFiles, "dry_run_reported_rows": o.DryRows, "violated": sortedKinds(o)}
}

func main() {
	run := ev.Start("C11", "exploration")
	tStart := time.Now()
	// scratch of earlier runs whose process is gone (a run that ended in HARNESS-UNBOUND inside the engine)
	if old, _ := filepath.Glob("/dev/shm/verif.c11.*"); len(old) > 0 {
		for _, d := range old {
			if _, err := os.Stat("/proc/" + strings.TrimPrefix(d, "/dev/shm/verif.c11.")); err != nil {
				os.RemoveAll(d)
			}
		}
	}
	scratch = fmt.Sprintf("/dev/shm/verif.c11.%d", os.Getpid())
	os.RemoveAll(scratch)
	must(os.MkdirAll(scratch, 0o755), "scratch")
	tasks, dims := buildTasks(run)
	if os.Getenv("VERIF_C11_COUNT") != "" { // debug: the size of the space, nothing is run
		b, _ := json.MarshalIndent(dims, "", " ")
		fmt.Printf("tasks=%d\n%s\n", len(tasks), b)
		cleanup()
		return
	}

	if run.Replay != "" {
		replay(run)
		return
	}
	shard, shards, isWorker := ev.Shard()
	if isWorker {
		if pf := os.Getenv("VERIF_C11_PPROF"); pf != "" {
			f, _ := os.Create(pf)
			pprof.StartCPUProfile(f)
			defer pprof.StopCPUProfile()
		}
		t0 := time.Now()
		w := newWorker()
		tInit := time.Since(t0)
		modeNS := map[string]time.Duration{}
		counters := map[string]int64{}
		samples := ev.NewSamples(1)
		histSamples := &sampleList{}
		complete := true
		// work is handed out dynamically in chunks of 8 consecutive tasks (a chunk belongs to the process that
		// creates its claim file), so a worker starved of CPU does not hold the others back; cases are
		// independent (fresh store each), so who runs a case has no influence on its verdict
		claims := os.Getenv("VERIF_C11_CLAIMS")
		const chunk = 8
		mine := func(c int) bool {
			if claims == "" {
				return c%shards == shard
			}
			f, err := os.OpenFile(filepath.Join(claims, fmt.Sprint(c)), os.O_CREATE|os.O_EXCL|os.O_WRONLY, 0o644)
			if err != nil {
				return false
			}
			f.Close()
			return true
		}
		owned := -1
		for i, k := range tasks {
			if run.TimeUp() {
				complete = false
				break
			}
			if c := i / chunk; c != owned {
				if !mine(c) {
					owned = -1
					continue
				}
				owned = c
			}
			t1, c1 := time.Now(), cpuNow()
			o := w.judge(k)
			modeNS[k.Mode+"_"+k.Backend] += time.Since(t1)
			modeNS[k.Mode+"_"+k.Backend+"_cpu"] += cpuNow() - c1
			modeNS[k.Mode+"_"+k.Backend+"_n"]++
			if o.Skipped != "" {
				counters["skipped"]++
				continue
			}
			counters["evals"]++
			counters["mode_"+k.Mode+"_"+k.Backend]++
			if o.NonTrivial {
				counters["nontrivial"]++
			}
			if o.Deleted > 0 {
				counters["cases_with_deletions"]++
			}
			counters["files_removed"] += int64(o.Deleted)
			counters["files_that_had_to_go"] += int64(o.MustDelete)
			if o.NonTrivial && i%(97*16) == 48 {
				samples.Add(sample(k, o))
			}
			if k.Mode == "hist" {
				counters["hist_evals"]++
				if o.NonTrivial {
					counters["hist_nontrivial"]++
					if histSamples.Len() == 0 && len(k.Hist) >= 5 {
						histSamples.Add(sample(k, o))
					}
				}
			}
			for _, kind := range sortedKinds(o) {
				counters["failing_case_oracle_pairs"]++
				run.Violate(fmt.Sprintf("%s|%s|%s|cutoff=C%+dns|culprit=%s", kind, k.Mode, k.shape(), k.DeltaNS, k.roleCulprit(o.Culprit[kind])), o.Kinds[kind], k)
			}
		}
		for s, n := range w.stats {
			counters[s] += n
		}
		if os.Getenv("VERIF_C11_DEBUG") != "" {
			fmt.Fprintf(os.Stderr, "shard %d: init %.2fs, per mode %v\n", shard, tInit.Seconds(), modeNS)
			if f, err := os.OpenFile("/dev/shm/c11.debug.log", os.O_APPEND|os.O_CREATE|os.O_WRONLY, 0o644); err == nil {
				fmt.Fprintf(f, "shard %d: started %s init %.2fs loop done after %.2fs evals %d per mode %v cpu %v\n", shard, t0.Format("15:04:05.000"), tInit.Seconds(), time.Since(t0).Seconds(), counters["evals"], modeNS, w.cpu)
				f.Close()
			}
		}
		cleanup() // no orderly close of DuckDB: the process exits now
		pprof.StopCPUProfile()
		run.FinishShard(counters, append(samples.List(), histSamples.s...), complete)
		return
	}

	// soft time cap (a capped run reports exhaustive=false): quick is meant to take 40-60 s at moderate load, thorough <= 15 min
	if os.Getenv("VERIF_DEADLINE_S") == "" {
		limit := 75 * time.Second
		if !run.Quick() {
			limit = 13 * time.Minute
		}
		run.Deadline = tStart.Add(limit)
	}
	// fixtures once, in this process; the shard workers load them
	os.Setenv("VERIF_C11_FIXTURES", filepath.Join(scratch, "fixtures"))
	gen := &worker{root: scratch, store: filepath.Join(scratch, "fxstore")}
	must(os.MkdirAll(gen.store, 0o755), "mkdir")
	gen.makeFixtures()
	if gen.jobDB != nil {
		gen.jobDB.Close()
	}
	nShards := 16
	os.Setenv("VERIF_C11_CLAIMS", filepath.Join(scratch, "claims"))
	must(os.MkdirAll(filepath.Join(scratch, "claims"), 0o755), "mkdir")
	tFix := time.Since(tStart)
	counters, samples, complete := run.SpawnShards(nShards)
	if os.Getenv("VERIF_C11_DEBUG") != "" {
		fmt.Fprintf(os.Stderr, "parent: fixtures ready at %.1fs, shards done at %.1fs\n", tFix.Seconds(), time.Since(tStart).Seconds())
	}
	raw, counts := run.TakeViolations()

	// ---- raw groups (oracle kind, mode, scope shape, cutoff, culprit role) -> minimise one representative
	// each (drop files while the same oracle still fails) -> classes keyed by the minimal layout written
	// in roles relative to the scope (so the six symmetric policies collapse) -> probe every class in the
	// fixed mode/backend matrix, which becomes the "where" part of the signature (tier independent).
	var w0 *worker
	minimRuns := 0
	type classT struct {
		rep  kase
		kind string
		desc string
		n    int
		hist bool
	}
	classes := map[string]*classT{}
	for _, v := range raw {
		if w0 == nil {
			w0 = newWorker()
		}
		kind := strings.SplitN(v.Signature, "|", 2)[0]
		var k kase
		b, _ := json.Marshal(v.Replay)
		must(json.Unmarshal(b, &k), "raw violation replay")
		if k.Mode == "hist" {
			c := w0.minimiseHist(k, kind, &minimRuns)
			o1, o2 := w0.judge(c), w0.judge(c)
			if o1.Kinds[kind] == "" || o1.Kinds[kind] != o2.Kinds[kind] {
				cleanup()
				ev.Nondeterminism("minimal history for " + v.Signature + " did not reproduce identically")
			}
			key := c.histKey(kind)
			if cl, ok := classes[key]; ok {
				cl.n += counts[v.Signature]
			} else {
				classes[key] = &classT{rep: c, kind: kind, hist: true, n: counts[v.Signature],
					desc: fmt.Sprintf("one long-lived RetentionHandler, %s, history [%s], background %s: %s", c.scope(), histString(c.Hist), filesString(c.Files), o1.Kinds[kind])}
			}
			continue
		}
		failsOn := func(ix []int) bool {
			c := k
			c.Files = nil
			for _, i := range ix {
				c.Files = append(c.Files, k.Files[i])
			}
			minimRuns++
			_, bad := w0.judge(c).Kinds[kind]
			return bad
		}
		idx := make([]int, len(k.Files))
		for i := range idx {
			idx[i] = i
		}
		if !failsOn(idx) {
			cleanup()
			ev.Nondeterminism(v.Signature + " did not reproduce in the parent process")
		}
		keep := ev.Minimize(idx, failsOn)
		c := k
		c.Files = nil
		for _, i := range keep {
			c.Files = append(c.Files, k.Files[i])
		}
		o1, o2 := w0.judge(c), w0.judge(c)
		if o1.Kinds[kind] == "" || o1.Kinds[kind] != o2.Kinds[kind] {
			cleanup()
			ev.Nondeterminism("minimal case for " + v.Signature + " did not reproduce identically")
		}
		key := c.classKey(kind)
		if cl, ok := classes[key]; ok {
			cl.n += counts[v.Signature]
		} else {
			classes[key] = &classT{rep: c, kind: kind, desc: c.head() + " files=" + filesString(c.Files) + ": " + o1.Kinds[kind], n: counts[v.Signature]}
		}
	}
	keys := make([]string, 0, len(classes))
	for k := range classes {
		keys = append(keys, k)
	}
	sort.Strings(keys)
	for _, key := range keys {
		cl := classes[key]
		if cl.hist {
			for i := 0; i < cl.n; i++ {
				run.Violate(key, cl.desc, cl.rep)
			}
			continue
		}
		ws, where, n := w0.probe(cl.rep, cl.kind)
		minimRuns += n
		for i := 0; i < cl.n; i++ {
			run.Violate(key+"|where="+ws, cl.desc+" [fails in: "+strings.Join(where, ",")+"]", cl.rep)
		}
	}
	if w0 != nil {
		w0.close()
	}

	run.Coverage["evaluations"] = counters["evals"]
	run.Coverage["distinct_nontrivial"] = counters["nontrivial"]
	tierRule := "quick: http/LocalBackend x 6 policies x all 286 layouts; exec/prefix-backend x 6 policies x 286; direct/LocalBackend on prod/cpu x cutoffs C+{-1000,-999,0,1,1000}ns x 286; direct/prefix-backend on prod/cpu x cutoff C x 286; cycle x 6 policies x the 21 multisets of <=2 hour files; hist sweeps: " + fmt.Sprint(dims["hist_rule"])
	if !run.Quick() {
		tierRule = "thorough: http and exec on both backends x 6 policies x all 286 layouts, http/LocalBackend and exec/prefix-backend also with a clock that is not microsecond aligned (cutoff C+500ns); direct on prod/cpu and prod2/cpu2 x both backends x cutoffs C+{-1000,-999,0,1,1000}ns x 286; cycle x 6 policies x the 56 multisets of <=3 hour files; plus the full product http/LocalBackend x 6 policies x focus measurement (286 layouts of <=3 files) x other measurement of the same database (11 layouts of <=1 file); hist sweeps: " + fmt.Sprint(dims["hist_rule"])
	}
	delete(dims, "hist_rule")
	run.Coverage["rule"] = "cases = (mode, backend, policy or target measurement, cutoff offset, layout), enumerated exhaustively, simplest layout first. A layout gives each of prod/cpu, prod/cpu2, prod2/cpu, prod2/cpu2 a multiset of <=3 files over 10 types {hour file, compacted day file} x {entirely below C, straddling C, max==C, max==C-1us, entirely above C}; in every sweep the focus measurement (the policy's, or cpu for a policy without filter) runs through ALL 286 multisets while the other three hold the multisets 95/190/285 places further on (cyclically), so each of them also sees every multiset once. Policies: {prod,prod2} x {no filter, cpu, cpu2} with (retention,buffer) days (30,7),(2,1),(1,0). Modes: http = dry run then confirmed run through the fiber route; exec = ExecutePolicy; direct = deleteOldFiles dry then real with an exact cutoff; cycle = daily compaction.Job, dry run, run, compaction.Job, run; hist = a HISTORY on ONE long-lived RetentionHandler (fresh per history, LocalBackend): 2-3 passes from {dry = POST execute dry_run, run = POST execute confirm, exec = ExecutePolicy} and, between two passes, operations on the focus measurement's paths h0,h1 (hour files of one partition) and d0 (compacted day file) from {put = the path is (re)written through LocalBackend.Write with a content class B all older / S straddling / A all newer / E newest==C / M newest==C-1us and a row count that differs from the previous content, trim old|new = DELETE-API-style rewrite in place (DuckDB COPY to .tmp + rename) keeping only the rows older than | at or after the cutoff of that moment, file deleted when nothing stays, rm = file removed, clock+d = the clock and every later cutoff advance}; the other measurements hold a static background (sibling measurement: one expired + one live hour file, other database: one expired file); after EVERY pass the oracle is applied to the store as it is then: confirmed pass -> clauses 1-3, dry pass -> store byte-identical and (files, rows) equal to what a confirmed run of a FRESH handler (other root and SQLite file) removes from a copy of the store; the enumeration prunes only statically (trim/rm of a never written path; an operation overwritten later in the same gap); h0/h1 are interchangeable, so initial layouts give h0 the larger class. " + tierRule + ". A case is non-trivial when the covered measurements hold at least one file that must go (max(time) < cutoff) and the store holds at least one file that must stay (a history: at a pass that is the first one or follows an operation that really changed the store or the clock, and at least one such operation happened); all cases are pairwise distinct, so distinct_nontrivial = number of non-trivial cases"
	for k, v := range dims {
		run.Coverage[k] = v
	}
	modes := map[string]int64{}
	for k, v := range counters {
		if strings.HasPrefix(k, "mode_") {
			modes[strings.TrimPrefix(k, "mode_")] = v
		}
	}
	run.Coverage["cases"] = len(tasks)
	run.Coverage["cases_by_mode_backend"] = modes
	run.Coverage["cases_with_deletions"] = counters["cases_with_deletions"]
	run.Coverage["files_removed"] = counters["files_removed"]
	run.Coverage["files_that_had_to_go"] = counters["files_that_had_to_go"]
	run.Coverage["skipped_cases_compaction_not_row_preserving"] = counters["skipped"]
	run.Coverage["compaction_jobs"] = counters["compaction_jobs"]
	run.Coverage["cycle_second_phase_skipped"] = counters["cycle_second_phase_skipped"]
	run.Coverage["real_report_differs_from_effect"] = counters["real_report_differs_from_effect"]
	run.Coverage["reported_cutoff_differs"] = counters["reported_cutoff_differs"]
	run.Coverage["hist"] = map[string]any{"histories_judged": counters["hist_evals"], "histories_nontrivial": counters["hist_nontrivial"], "passes": counters["hist_passes"],
		"operations_between_passes_that_changed_store_or_clock": counters["hist_gap_ops_effective"], "operations_between_passes_without_effect": counters["hist_gap_ops_noop"],
		"dry_pass_reference_runs": counters["hist_reference_runs"], "dry_passes_judged_with_a_memoised_reference": counters["hist_reference_memo_hits"], "reference_runs_that_removed_files": counters["hist_reference_runs_removing_files"],
		"reference_runs_not_clean": counters["hist_reference_run_not_clean"], "reference_differs_from_whole_file_model": counters["hist_reference_differs_from_model"]}
	run.Coverage["failing_case_oracle_pairs_before_minimisation"] = counters["failing_case_oracle_pairs"]
	run.Coverage["raw_groups"] = len(raw)
	run.Coverage["minimisation_runs"] = minimRuns
	run.Coverage["reference_validated"] = true
	run.Coverage["samples"] = samples
	run.Coverage["exhaustive"] = complete
	run.Coverage["worker_processes"] = nShards
	run.Assume("the policy's cutoff is now-(retention_days+buffer_days) days (what ExecutePolicy/handleExecute document); the clock read by retention.go is the frozen virtual clock, so the cutoff is exact; SQLite's CURRENT_TIMESTAMP in the execution log is not judged")
	run.Assume("rows are identified by (time, v); files whose bytes are unchanged hold the generator's rows (validated once per process with an independent arrow-go reader), every other file is decoded with that reader")
	run.Assume("backend 'prefix' is a test double over the same directory whose List(prefix) matches by string prefix like S3/Azure (where a missing trailing slash would confuse cpu with cpu2); the S3/Azure clients themselves are not driven")
	run.Assume("hist mode: the content changes between passes are made by the harness with the real LocalBackend.Write/Delete and with the DuckDB COPY + rename of DeleteHandler.rewriteLocalFile; the DELETE and import HTTP APIs themselves are not driven; retention never reads the date in a path, so the day path d0 holds content of hour 06 only; every history has its own handler, store root and SQLite file, so histories are independent of each other")
	run.Assume("cycle mode runs compaction.Job sequentially before/after retention (no concurrent interleaving); a compaction that does not preserve rows is C09's subject and makes the case skipped, not judged")
	run.Assume("the real run's own numbers (files_deleted, deleted_count, cutoff_date) are only counted when they differ from the effect; the property constrains the dry run's report")
	fmt.Printf("C11 hist: histories=%d nontrivial=%d passes=%d effective_gap_ops=%d reference_runs=%d (removing files: %d)\n", counters["hist_evals"], counters["hist_nontrivial"], counters["hist_passes"],
		counters["hist_gap_ops_effective"], counters["hist_reference_runs"], counters["hist_reference_runs_removing_files"])
	fmt.Printf("C11 cases=%d judged=%d nontrivial=%d with_deletions=%d files_removed=%d (had to go %d) skipped=%d raw_failures=%d groups=%d minimisation_runs=%d\n",
		len(tasks), counters["evals"], counters["nontrivial"], counters["cases_with_deletions"], counters["files_removed"], counters["files_that_had_to_go"],
		counters["skipped"], counters["failing_case_oracle_pairs"], len(raw), minimRuns)
	if counters["nontrivial"] < 2 || counters["files_removed"] == 0 {
		fmt.Println("C11 VACUITY WARNING: no case deleted anything")
	}
	cleanup()
	run.Finish()
}

// probe runs a minimal case in every mode/backend of the fixed matrix; "all" when every applicable one fails.
func (w *worker) probe(rep kase, kind string) (string, []string, int) {
	var where []string
	all := true
	n := 0
	for _, pr := range probeMatrix {
		c, ok := rep.translate(pr[0], pr[1])
		if !ok {
			continue
		}
		n++
		if _, bad := w.judge(c).Kinds[kind]; bad {
			where = append(where, pr[0]+"/"+pr[1])
		} else {
			all = false
		}
	}
	if all {
		return "all", where, n
	}
	return strings.Join(where, ","), where, n
}

func replay(run *ev.Run) {
	b, err := os.ReadFile(run.Replay)
	must(err, "replay file")
	var f struct {
		Replay kase `json:"replay"`
	}
	must(json.Unmarshal(b, &f), "replay json")
	w := newWorker()
	o := w.judge(f.Replay)
	for _, kind := range sortedKinds(o) {
		if f.Replay.Mode == "hist" {
			run.Violate(f.Replay.histKey(kind), o.Kinds[kind], f.Replay)
			continue
		}
		ws, _, _ := w.probe(f.Replay, kind)
		run.Violate(f.Replay.classKey(kind)+"|where="+ws, o.Kinds[kind], f.Replay)
	}
	if f.Replay.Mode == "hist" {
		fmt.Printf("C11 replay history [%s] ", histString(f.Replay.Hist))
	}
	fmt.Printf("C11 replay %s files=%s must_go=%d removed=%d dry=(%d files, %d rows) violated=%v %s\n", f.Replay.head(), filesString(f.Replay.Files), o.MustDelete, o.Deleted, o.DryFiles, o.DryRows, sortedKinds(o), o.Skipped)
	w.close()
	cleanup()
	run.Finish()
}
