package main

import (
	"fmt"
	"sort"
	"strings"

	"github.com/basekick-labs/arc/zzverif/engine/ev"
)

// URL-domain rewrite: REGEXP_REPLACE(col, '<pattern>', '\1') / REGEXP_EXTRACT(col, '<pattern>', 1) whose pattern
// mentions "https" and "[^/]" is replaced by a CASE over LIKE/substr/split_part. Index 0 of every component is
// the canonical (ClickBench) form the rewrite was written for.

var (
	// URL components; index 0 is canonical, a component may only be replaced by an earlier one when minimising.
	// quick uses the first 3/2/2/4 values and no prefix; thorough the full alphabets.
	uPrefix  = []string{"", "x "}
	uSchemes = []string{"http", "https", "ftp", "HTTPS", ""} // "" = no scheme and no "://"
	uWWW     = []string{"", "www.", "wwwx."}
	uHosts   = []string{"a.b", "", "a.b:80", "ä.b"}
	uTails   = []string{"/p", "/", "", "?q", "/p/q", "/p?q", "//", "\n/p"}

	pAnchor  = []string{"^", ""}
	pScheme  = []string{"https?", "https", "(?:https?|ftp)"}
	pWWW     = []string{`(?:www\.)?`, ""}
	pCapture = []string{"([^/]+)", "([^/]*)", `([^\/]+)`}
	pTail    = [][]string{{"/.*$", ".*$", ""}, {"", "/.*$", ".*$"}} // per function, canonical first
	uFuncs   = []string{"REGEXP_REPLACE", "REGEXP_EXTRACT"}
	uRepl    = []string{`'\1'`, `'\\1'`}
)

type urow struct {
	P, S, W, H, T int // component indexes, S = -1 for rows outside the product
	Null          bool
	Text          string
}

type ucase struct {
	Fn, Lower                int // function, lower-case spelling
	A, Sch, W, Cap, Tail, Rp int
}

func (c ucase) pattern() string {
	return pAnchor[c.A] + pScheme[c.Sch] + "://" + pWWW[c.W] + pCapture[c.Cap] + pTail[c.Fn][c.Tail]
}

func (c ucase) expr() string {
	fn := uFuncs[c.Fn]
	if c.Lower == 1 {
		fn = strings.ToLower(fn)
	}
	if c.Fn == 0 {
		return fmt.Sprintf("%s(url, '%s', %s)", fn, c.pattern(), uRepl[c.Rp])
	}
	return fmt.Sprintf("%s(url, '%s', 1)", fn, c.pattern())
}

func (c ucase) sql() string { return "SELECT i, " + c.expr() + " FROM u ORDER BY i" }

type urlGrid struct {
	rows  []urow
	cases []ucase
	out   map[ucase]*outcome
	index map[[5]int]int
	stat  stats
	viol  []violation
}

func (g *urlGrid) name() string { return "url" }
func (g *urlGrid) st() *stats   { return &g.stat }

func newURLGrid(quick bool) *urlGrid {
	g := &urlGrid{out: map[ucase]*outcome{}}
	np, ns, nw, nh, nt := 1, 3, 2, 2, 4
	if !quick {
		np, ns, nw, nh, nt = len(uPrefix), len(uSchemes), len(uWWW), len(uHosts), len(uTails)
	}
	g.index = map[[5]int]int{}
	for p := 0; p < np; p++ {
		for s := 0; s < ns; s++ {
			for w := 0; w < nw; w++ {
				for h := 0; h < nh; h++ {
					for t := 0; t < nt; t++ {
						sep := "://"
						if uSchemes[s] == "" {
							sep = ""
						}
						g.index[[5]int{p, s, w, h, t}] = len(g.rows)
						g.rows = append(g.rows, urow{P: p, S: s, W: w, H: h, T: t, Text: uPrefix[p] + uSchemes[s] + sep + uWWW[w] + uHosts[h] + uTails[t]})
					}
				}
			}
		}
	}
	seenText := map[string]bool{}
	for _, r := range g.rows {
		seenText[r.Text] = true
	}
	if !seenText[""] {
		g.rows = append(g.rows, urow{S: -1, Text: ""})
	}
	g.rows = append(g.rows, urow{S: -1, Null: true, Text: "NULL"})
	for fn := range uFuncs {
		for lo := 0; lo < 2; lo++ {
			for a := range pAnchor {
				for s := range pScheme {
					for w := range pWWW {
						for c := range pCapture {
							for t := range pTail[fn] {
								for rp := range uRepl {
									if fn == 1 && rp > 0 {
										continue
									}
									g.cases = append(g.cases, ucase{Fn: fn, Lower: lo, A: a, Sch: s, W: w, Cap: c, Tail: t, Rp: rp})
								}
							}
						}
					}
				}
			}
		}
	}
	return g
}

func (g *urlGrid) setup() []string {
	s := []string{"CREATE TABLE u(i INTEGER, url VARCHAR)"}
	for i, r := range g.rows {
		if r.Null {
			s = append(s, fmt.Sprintf("INSERT INTO u VALUES (%d, NULL)", i))
		} else {
			s = append(s, fmt.Sprintf("INSERT INTO u VALUES (%d, '%s')", i, strings.ReplaceAll(r.Text, "'", "''")))
		}
	}
	return s
}

func (g *urlGrid) explore(run *ev.Run, ws []*worker, samples *ev.Samples) bool {
	n := len(g.rows)
	outs := make([]*outcome, len(g.cases))
	ok := forAll(run, ws, len(g.cases), func(w *worker, k int) {
		outs[k] = w.evaluate(g.cases[k].sql(), n, true)
	})
	for k, o := range outs {
		if o == nil {
			continue
		}
		g.out[g.cases[k]] = o
		g.stat.account(o)
	}
	for _, c := range []ucase{{}, {Fn: 1}} {
		if o := g.out[c]; o != nil {
			samples.Add(map[string]string{"original": c.sql(), "rewritten": o.Rewrite})
		}
	}
	g.classify()
	return ok
}

func (g *urlGrid) fails(c ucase, r int) bool {
	o := g.out[c]
	return o != nil && o.differs(r)
}

func (g *urlGrid) productRow(p, s, w, h, t int) int {
	if i, ok := g.index[[5]int{p, s, w, h, t}]; ok {
		return i
	}
	return -1
}

type ucr struct {
	c ucase
	r int
}

// shrink candidates: every candidate moves exactly one component of the pattern, the call or the URL to a
// simpler (lower-index) value; index 0 is canonical.
func (g *urlGrid) shrinks(c ucase, r int) []ucr {
	var out []ucr
	get := func(c *ucase, fi int) *int {
		return []*int{&c.Lower, &c.Rp, &c.A, &c.Sch, &c.W, &c.Cap, &c.Tail}[fi]
	}
	for fi := 0; fi < 7; fi++ {
		cur := *get(&c, fi)
		for v := 0; v < cur; v++ {
			e := c
			*get(&e, fi) = v
			out = append(out, ucr{e, r})
		}
	}
	row := g.rows[r]
	if row.S < 0 {
		if i := g.productRow(0, 0, 0, 0, 0); i >= 0 && !row.Null {
			out = append(out, ucr{c, i})
		}
		return out
	}
	for v := 0; v < row.P; v++ {
		out = append(out, ucr{c, g.productRow(v, row.S, row.W, row.H, row.T)})
	}
	for v := 0; v < row.S; v++ {
		out = append(out, ucr{c, g.productRow(row.P, v, row.W, row.H, row.T)})
	}
	for v := 0; v < row.W; v++ {
		out = append(out, ucr{c, g.productRow(row.P, row.S, v, row.H, row.T)})
	}
	for v := 0; v < row.H; v++ {
		out = append(out, ucr{c, g.productRow(row.P, row.S, row.W, v, row.T)})
	}
	for v := 0; v < row.T; v++ {
		out = append(out, ucr{c, g.productRow(row.P, row.S, row.W, row.H, v)})
	}
	return out
}

func (g *urlGrid) signature(c ucase, r int) string {
	o := g.out[c]
	sig := "url|" + strings.ToLower(uFuncs[c.Fn]) + "|" + c.pattern()
	if c.Rp != 0 {
		sig += "|repl=" + uRepl[c.Rp]
	}
	if c.Lower != 0 {
		sig += "|lowercase-call"
	}
	return strings.ReplaceAll(sig+fmt.Sprintf("|url=%s|duckdb=%s|arc=%s", g.rows[r].Text, quoted(o.Orig[r]), quoted(o.Rew[r])), "\n", `\n`)
}

func quoted(c cell) string {
	if c.Err != "" || c.Null {
		return c.String()
	}
	return "'" + c.V + "'"
}

func (g *urlGrid) classify() {
	type cls struct {
		c ucase
		r int
		n int
	}
	classes := map[string]*cls{}
	for _, c := range g.cases {
		o := g.out[c]
		if o == nil || !o.Fired || !o.Accepted {
			continue
		}
		for r := range g.rows {
			if !o.differs(r) {
				continue
			}
			mc, mr := c, r
			for changed := true; changed; {
				changed = false
				for _, s := range g.shrinks(mc, mr) {
					if s.r >= 0 && g.fails(s.c, s.r) {
						mc, mr = s.c, s.r
						changed = true
						break
					}
				}
			}
			sig := g.signature(mc, mr)
			if _, ok := classes[sig]; !ok {
				classes[sig] = &cls{c: mc, r: mr}
			}
			classes[sig].n++
		}
	}
	sigs := make([]string, 0, len(classes))
	for s := range classes {
		sigs = append(sigs, s)
	}
	sort.Strings(sigs)
	for _, s := range sigs {
		k := classes[s]
		o := g.out[k.c]
		g.viol = append(g.viol, violation{Sig: s,
			Desc: fmt.Sprintf("%s on url=%s: DuckDB gives %s, Arc's CASE rewrite gives %s", k.c.expr(), g.rows[k.r].Text, o.Orig[k.r], o.Rew[k.r]),
			Replay: map[string]any{"standalone_original_sql": fmt.Sprintf("SELECT i, %s FROM (SELECT 0 AS i, CAST('%s' AS VARCHAR) AS url) u", k.c.expr(), strings.ReplaceAll(g.rows[k.r].Text, "'", "''")), "original_sql": k.c.sql(), "rewritten_sql": o.Rewrite, "url": g.rows[k.r].Text,
				"duckdb_original": o.Orig[k.r].String(), "arc_rewritten": o.Rew[k.r].String()},
			Instances: k.n})
	}
}

func (g *urlGrid) classes() []violation { return g.viol }

func (g *urlGrid) coverage() map[string]any {
	m := g.stat.cov()
	m["urls"] = len(g.rows)
	m["url_grammar"] = "{http,https,ftp}://{,www.}{a.b,}{/p,/,,?q} plus '' and NULL; thorough: {,'x '}{http://,https://,ftp://,HTTPS://,}{,www.,wwwx.}{a.b,,a.b:80,ä.b}{/p,/,,?q,/p/q,/p?q,//,<newline>/p}"
	m["pattern_grammar"] = "{^,}{https?,https,(?:https?|ftp)}://{(?:www\\.)?,}{([^/]+),([^/]*),([^\\/]+)}{/.*$,.*$,} in REGEXP_REPLACE(url,p,'\\1'|'\\\\1') and REGEXP_EXTRACT(url,p,1), upper and lower case call"
	m["classes"] = len(g.viol)
	return m
}
