package main

import (
	"fmt"
	"math/bits"
	"sort"
	"strings"
	"sync"

	"github.com/basekick-labs/arc/zzverif/engine/ev"
)

// Second LIKE grid: boolean STRUCTURE around the trailing emptiness check.
//
// A clause is a sequence of 1..3 predicate leaves joined by AND/OR, an optional NOT in front of every
// leaf, and a parenthesisation: any laminar (pairwise nested-or-disjoint, no duplicates) family of
// intervals [lo,hi] of leaf positions, each interval rendered as "(" ... ")" with an optional NOT in
// front. That yields every placement of zero to five groups over three leaves: "(p)", "(p) OR (q) AND r",
// "((p) OR q) AND r", "(p OR (q)) AND r", "NOT (p) OR NOT (q) AND r", "(p OR q AND r)", ... The leaves
// are a LIKE, an equality, an IN list (which brings its own parentheses) and three spellings of the
// emptiness check; keywords are rendered all upper-case or all lower-case. The table holds every
// combination of a in NULL/'x'/'y' (LIKE unknown/true/false), b in NULL/1/2/3 (equality unknown/true/
// false, IN differs from = on 3) and c in NULL/''/'z'. Oracle: ids DuckDB returns for the original.

// atom order = simplicity order used by the minimiser (an atom may only be replaced by an earlier one)
var bAtoms = []string{"a LIKE '%x%'", "b = 1", "b IN (1, 3)", "c <> ''", "c != ''", "length(c) > 0", "a NOT LIKE '%x%'", "c<>''"}
var bAtomsLower = []string{"a like '%x%'", "b = 1", "b in (1, 3)", "c <> ''", "c != ''", "length(c) > 0", "a not like '%x%'", "c<>''"}

const bAtomClass = "LEECCCLC" // L = LIKE, E = equality / IN, C = emptiness check
const bQuickAtoms = 6          // thorough adds a NOT LIKE and the unspaced c<>''

var bTails = []string{"", " ORDER BY i", " LIMIT 100", " GROUP BY i"}
var bTailsLower = []string{"", " order by i", " limit 100", " group by i"}
var bAVals = []string{"NULL", "'x'", "'y'"}
var bBVals = []string{"NULL", "1", "2", "3"}
var bCVals = []string{"NULL", "''", "'z'"}

type bgroup struct {
	Lo, Hi int
	Not    bool
}

type bcase struct {
	Atoms  []int
	Ops    []int // 0 AND, 1 OR; len(Atoms)-1
	LNot   []bool
	Groups []bgroup // canonical order: Lo ascending, Hi descending (outermost first)
	Lower  bool
	Tail   int
}

func (c *bcase) clone() *bcase {
	return &bcase{Atoms: append([]int{}, c.Atoms...), Ops: append([]int{}, c.Ops...), LNot: append([]bool{}, c.LNot...),
		Groups: append([]bgroup{}, c.Groups...), Lower: c.Lower, Tail: c.Tail}
}

func (c *bcase) canon() {
	sort.SliceStable(c.Groups, func(i, j int) bool {
		if c.Groups[i].Lo != c.Groups[j].Lo {
			return c.Groups[i].Lo < c.Groups[j].Lo
		}
		return c.Groups[i].Hi > c.Groups[j].Hi
	})
}

// render writes the clause; skeleton=true replaces every atom by its class letter (always upper-case keywords)
func (c *bcase) render(skeleton bool) string {
	lower := c.Lower && !skeleton
	not, and, or := "NOT ", " AND ", " OR "
	if lower {
		not, and, or = "not ", " and ", " or "
	}
	var b strings.Builder
	for i, a := range c.Atoms {
		if i > 0 {
			if c.Ops[i-1] == 0 {
				b.WriteString(and)
			} else {
				b.WriteString(or)
			}
		}
		for _, g := range c.Groups {
			if g.Lo == i {
				if g.Not {
					b.WriteString(not)
				}
				b.WriteByte('(')
			}
		}
		if c.LNot[i] {
			b.WriteString(not)
		}
		switch {
		case skeleton:
			b.WriteByte(bAtomClass[a])
		case lower:
			b.WriteString(bAtomsLower[a])
		default:
			b.WriteString(bAtoms[a])
		}
		for _, g := range c.Groups {
			if g.Hi == i {
				b.WriteByte(')')
			}
		}
	}
	return b.String()
}

func (c *bcase) where() string {
	if c.Lower {
		return "where " + c.render(false) + bTailsLower[c.Tail]
	}
	return "WHERE " + c.render(false) + bTails[c.Tail]
}

func (c *bcase) sql() string { return "SELECT i FROM r2 " + c.where() }

// topLevelOr: an OR that no parenthesised group encloses
func (c *bcase) topLevelOr() bool {
	for k, op := range c.Ops {
		if op != 1 {
			continue
		}
		enclosed := false
		for _, g := range c.Groups {
			if g.Lo <= k && k+1 <= g.Hi {
				enclosed = true
			}
		}
		if !enclosed {
			return true
		}
	}
	return false
}

// laminarFamilies returns every set of distinct intervals over n leaf positions in which any two
// intervals are nested or disjoint, each in canonical order.
func laminarFamilies(n int) [][]bgroup {
	var iv []bgroup
	for lo := 0; lo < n; lo++ {
		for hi := n - 1; hi >= lo; hi-- {
			iv = append(iv, bgroup{Lo: lo, Hi: hi})
		}
	}
	var out [][]bgroup
	for m := 0; m < 1<<len(iv); m++ {
		var fam []bgroup
		for k := range iv {
			if m>>k&1 == 1 {
				fam = append(fam, iv[k])
			}
		}
		ok := true
		for i := range fam {
			for j := i + 1; j < len(fam); j++ {
				a, b := fam[i], fam[j]
				disjoint := a.Hi < b.Lo || b.Hi < a.Lo
				nested := (a.Lo <= b.Lo && b.Hi <= a.Hi) || (b.Lo <= a.Lo && a.Hi <= b.Hi)
				if !disjoint && !nested {
					ok = false
				}
			}
		}
		if ok {
			out = append(out, fam)
		}
	}
	sort.SliceStable(out, func(i, j int) bool { return len(out[i]) < len(out[j]) })
	return out
}

type bjob struct {
	n       int
	fam     []bgroup
	notMask int // bit i<n: NOT before leaf i; bit n+j: NOT before group j
}

type boolGrid struct {
	quick    bool
	natoms   int
	nrows    int
	maxGroup int // bound for 3-leaf clauses
	maxNots  int // bound for 3-leaf clauses
	jobs     []bjob
	stat     stats
	viol     []violation
	mu       sync.Mutex
	fails    []*bcase
	rawFail  int
	shapes   map[int]int64    // leaves -> (family, NOT mask, ops) combinations enumerated
	families map[int]int      // leaves -> parenthesisations
	byGroups map[string]int64 // judged statements by number of groups
	judgedOr, judgedTopOr int64
}

func (g *boolGrid) name() string { return "likebool" }
func (g *boolGrid) st() *stats   { return &g.stat }

func newBoolGrid(quick bool) *boolGrid {
	g := &boolGrid{quick: quick, natoms: len(bAtoms), nrows: len(bAVals) * len(bBVals) * len(bCVals), maxGroup: 5, maxNots: 8,
		shapes: map[int]int64{}, families: map[int]int{}, byGroups: map[string]int64{}}
	if quick {
		g.natoms, g.maxGroup, g.maxNots = bQuickAtoms, 3, 2
	}
	for n := 3; n >= 1; n-- { // big jobs first
		fams := laminarFamilies(n)
		for _, fam := range fams {
			if n == 3 && len(fam) > g.maxGroup {
				continue
			}
			g.families[n]++
			for m := 0; m < 1<<(n+len(fam)); m++ {
				if n == 3 && bits.OnesCount(uint(m)) > g.maxNots {
					continue
				}
				g.jobs = append(g.jobs, bjob{n, fam, m})
				g.shapes[n] += 1 << (n - 1)
			}
		}
	}
	return g
}

func (g *boolGrid) setup() []string {
	s := []string{"CREATE TABLE r2(i INTEGER, a VARCHAR, b INTEGER, c VARCHAR)"}
	i := 0
	for _, a := range bAVals {
		for _, b := range bBVals {
			for _, c := range bCVals {
				s = append(s, fmt.Sprintf("INSERT INTO r2 VALUES (%d, %s, %s, %s)", i, a, b, c))
				i++
			}
		}
	}
	return s
}

func (g *boolGrid) rowVals(i int) (string, string, string) {
	nb, nc := len(bBVals), len(bCVals)
	return bAVals[i/(nb*nc)], bBVals[(i/nc)%nb], bCVals[i%nc]
}

// every tail for clauses of 1-2 leaves; no tail (thorough: and ORDER BY) for 3 leaves
func (g *boolGrid) tails(n int) []int {
	if n < 3 {
		return []int{0, 1, 2, 3}
	}
	if g.quick {
		return []int{0}
	}
	return []int{0, 1}
}

func (g *boolGrid) runJob(w *worker, j bjob) {
	n := j.n
	c := &bcase{Atoms: make([]int, n), Ops: make([]int, n-1), LNot: make([]bool, n), Groups: append([]bgroup{}, j.fam...)}
	for i := 0; i < n; i++ {
		c.LNot[i] = j.notMask>>i&1 == 1
	}
	for k := range c.Groups {
		c.Groups[k].Not = j.notMask>>(n+k)&1 == 1
	}
	c.canon()
	tails := g.tails(n)
	total := 1
	for i := 0; i < n; i++ {
		total *= g.natoms
	}
	var lb [6]int64
	var lor, ltop int64
	for om := 0; om < 1<<(n-1); om++ {
		for k := range c.Ops {
			c.Ops[k] = om >> k & 1
		}
		top := c.topLevelOr()
		for am := 0; am < total; am++ {
			x := am
			for i := n - 1; i >= 0; i-- {
				c.Atoms[i] = x % g.natoms
				x /= g.natoms
			}
			for _, lower := range []bool{false, true} {
				c.Lower = lower
				for _, tl := range tails {
					c.Tail = tl
					o := w.evaluate(c.sql(), g.nrows, false)
					g.stat.account(o)
					if !o.Fired || !o.Accepted {
						continue
					}
					lb[len(c.Groups)]++
					if om != 0 {
						lor++
					}
					if top {
						ltop++
					}
					if o.anyDiff() {
						g.mu.Lock()
						g.fails = append(g.fails, c.clone())
						g.mu.Unlock()
					}
				}
			}
		}
	}
	g.mu.Lock()
	for k, v := range lb {
		if v > 0 {
			g.byGroups[fmt.Sprintf("%d_groups", k)] += v
		}
	}
	g.judgedOr += lor
	g.judgedTopOr += ltop
	g.mu.Unlock()
}

func (g *boolGrid) explore(run *ev.Run, ws []*worker, samples *ev.Samples) bool {
	ok := forAll(run, ws, len(g.jobs), func(w *worker, k int) { g.runJob(w, g.jobs[k]) })
	for _, q := range []string{"SELECT i FROM r2 WHERE (a LIKE '%x%') AND NOT (b IN (1, 3)) AND c <> ''", "SELECT i FROM r2 where (a like '%x%') or (b = 1) and c <> ''"} {
		samples.Add(map[string]string{"original": q, "rewritten": pipeline(q)})
	}
	g.rawFail = len(g.fails)
	g.classify(ws)
	return ok
}

// shrink candidates: drop the tail, upper-case the keywords, drop a leaf (with the operator before or after
// it), drop a pair of parentheses, drop a NOT, replace an atom by an earlier atom
func bshrinks(c *bcase) []*bcase {
	var out []*bcase
	if c.Tail != 0 {
		d := c.clone()
		d.Tail = 0
		out = append(out, d)
	}
	if c.Lower {
		d := c.clone()
		d.Lower = false
		out = append(out, d)
	}
	n := len(c.Atoms)
	for i := 0; i < n && n > 1; i++ {
		for _, k := range []int{i - 1, i} {
			if k < 0 || k >= n-1 {
				continue
			}
			d := c.clone()
			d.Atoms = append(d.Atoms[:i:i], d.Atoms[i+1:]...)
			d.LNot = append(d.LNot[:i:i], d.LNot[i+1:]...)
			d.Ops = append(d.Ops[:k:k], d.Ops[k+1:]...)
			var gs []bgroup
			for _, gr := range d.Groups {
				switch {
				case gr.Lo == i && gr.Hi == i:
					continue
				case gr.Hi < i:
				case gr.Lo > i:
					gr.Lo--
					gr.Hi--
				default:
					gr.Hi--
				}
				dup := false
				for _, e := range gs {
					if e.Lo == gr.Lo && e.Hi == gr.Hi {
						dup = true
					}
				}
				if !dup {
					gs = append(gs, gr)
				}
			}
			d.Groups = gs
			d.canon()
			out = append(out, d)
		}
	}
	for j := range c.Groups {
		d := c.clone()
		d.Groups = append(d.Groups[:j:j], d.Groups[j+1:]...)
		out = append(out, d)
	}
	for j, gr := range c.Groups {
		if gr.Not {
			d := c.clone()
			d.Groups[j].Not = false
			out = append(out, d)
		}
	}
	for i := range c.Atoms {
		if c.LNot[i] {
			d := c.clone()
			d.LNot[i] = false
			out = append(out, d)
		}
	}
	for i, a := range c.Atoms {
		for b := 0; b < a; b++ {
			d := c.clone()
			d.Atoms[i] = b
			out = append(out, d)
		}
	}
	return out
}

func (g *boolGrid) classify(ws []*worker) {
	sort.SliceStable(g.fails, func(i, j int) bool {
		a, b := g.fails[i].sql(), g.fails[j].sql()
		if len(a) != len(b) {
			return len(a) < len(b)
		}
		return a < b
	})
	var memo sync.Map // sql -> bool (fails)
	failsQ := func(w *worker, c *bcase) bool {
		q := c.sql()
		if v, ok := memo.Load(q); ok {
			return v.(bool)
		}
		o := w.evaluate(q, g.nrows, false)
		r := o.Fired && o.Accepted && o.anyDiff()
		memo.Store(q, r)
		return r
	}
	var minOf sync.Map // sql -> minimal case
	mins := make([]*bcase, len(g.fails))
	var next int64 = -1
	var nmu sync.Mutex
	var wg sync.WaitGroup
	for _, w := range ws {
		wg.Add(1)
		go func(w *worker) {
			defer wg.Done()
			for {
				nmu.Lock()
				next++
				k := int(next)
				nmu.Unlock()
				if k >= len(g.fails) {
					return
				}
				cur := g.fails[k]
				var path []string
				for changed := true; changed; {
					changed = false
					if m, ok := minOf.Load(cur.sql()); ok {
						cur = m.(*bcase)
						break
					}
					path = append(path, cur.sql())
					for _, s := range bshrinks(cur) {
						if failsQ(w, s) {
							cur = s
							changed = true
							break
						}
					}
				}
				for _, p := range path {
					minOf.Store(p, cur)
				}
				mins[k] = cur
			}
		}(w)
	}
	wg.Wait()
	count := map[string]int{}
	rep := map[string]*bcase{}
	for _, m := range mins {
		s := "like|" + m.render(true) + "|" + m.where()
		count[s]++
		if _, ok := rep[s]; !ok {
			rep[s] = m
		}
	}
	keys := make([]string, 0, len(count))
	for s := range count {
		keys = append(keys, s)
	}
	sort.Strings(keys)
	for _, s := range keys {
		c := rep[s]
		q := c.sql()
		o := ws[0].evaluate(q, g.nrows, false)
		var rows []string
		standalone := ""
		for i := range o.Orig {
			if !o.differs(i) {
				continue
			}
			a, b, cv := g.rowVals(i)
			if standalone == "" {
				standalone = fmt.Sprintf("SELECT i FROM (SELECT 0 AS i, CAST(%s AS VARCHAR) AS a, CAST(%s AS INTEGER) AS b, CAST(%s AS VARCHAR) AS c) r2 %s", a, b, cv, c.where())
			}
			if len(rows) < 4 {
				rows = append(rows, fmt.Sprintf("(a,b,c)=(%s,%s,%s): duckdb %s, arc %s", a, b, cv, keep(o.Orig[i]), keep(o.Rew[i])))
			}
		}
		g.viol = append(g.viol, violation{Sig: s,
			Desc:      c.where() + " is rewritten to " + strings.TrimPrefix(o.Rewrite, "SELECT i FROM r2 ") + " which selects different rows, e.g. " + strings.Join(rows, "; "),
			Replay:    map[string]any{"standalone_original_sql": standalone, "original_sql": q, "rewritten_sql": o.Rewrite, "table": "r2(i,a,b,c) = every combination of a in NULL,'x','y'; b in NULL,1,2,3; c in NULL,'','z'", "differing_rows": rows, "structure": c.render(true)},
			Instances: count[s]})
	}
}

func (g *boolGrid) classes() []violation { return g.viol }

func (g *boolGrid) coverage() map[string]any {
	m := g.stat.cov()
	m["rows"] = g.nrows
	m["atoms"] = bAtoms[:g.natoms]
	m["tails"] = bTails
	m["keyword_case"] = []string{"UPPER", "lower"}
	m["parenthesisations_by_leaves"] = g.families
	m["shapes_by_leaves"] = g.shapes
	m["grammar"] = fmt.Sprintf("clause := 1..3 leaves joined by AND/OR (every operator assignment), optional NOT before every leaf, every laminar family of parenthesised intervals of leaf positions (single-leaf groups, groups of two, the whole clause, nested) each with optional NOT; "+
		"3-leaf clauses bounded to at most %d groups and at most %d NOTs; every assignment of the atoms to the leaves; keywords all upper-case or all lower-case; every tail for 1-2 leaves, %v for 3 leaves", g.maxGroup, g.maxNots, tailNames(g.tails(3)))
	m["judged_by_group_count"] = g.byGroups
	m["judged_with_or"] = g.judgedOr
	m["judged_with_top_level_or"] = g.judgedTopOr
	m["failing_clauses_before_minimisation"] = g.rawFail
	m["classes"] = len(g.viol)
	return m
}

func tailNames(ix []int) []string {
	var s []string
	for _, i := range ix {
		if bTails[i] == "" {
			s = append(s, "no tail")
		} else {
			s = append(s, strings.TrimSpace(bTails[i]))
		}
	}
	return s
}
