package main

import (
	"fmt"
	"sort"
	"strings"
	"sync"

	"github.com/basekick-labs/arc/zzverif/engine/ev"
)

// LIKE / <> '' predicate reordering. WHERE clauses from the grammar
//   expr := term ((AND|OR) term)*      term := [NOT] atom | [NOT] "(" expr ")"
// over four atoms, evaluated on the table of all (a,b,c) in {NULL,'','x','y'}^3. The oracle is the set of row
// ids DuckDB returns for the original statement.

// atom order = simplicity order used by the minimiser (an atom may only be replaced by an earlier one)
var lAtoms = []string{"b <> ''", "a LIKE '%x%'", "c <> ''", "b NOT LIKE 'y%'"}
var lOps = []string{" AND ", " OR "}
var lTails = []string{"", " ORDER BY i", " LIMIT 100", " GROUP BY i"}
var lVals = []string{"NULL", "''", "'x'", "'y'"}

type lterm struct {
	Not  bool
	Atom int    // index in lAtoms when Sub == nil
	Sub  *lexpr // parenthesised sub-expression
}

type lexpr struct {
	Terms []lterm
	Ops   []int // len(Terms)-1
}

func (t lterm) String() string {
	s := ""
	if t.Not {
		s = "NOT "
	}
	if t.Sub != nil {
		return s + "(" + t.Sub.String() + ")"
	}
	return s + lAtoms[t.Atom]
}

func (e *lexpr) String() string {
	var b strings.Builder
	for i, t := range e.Terms {
		if i > 0 {
			b.WriteString(lOps[e.Ops[i-1]])
		}
		b.WriteString(t.String())
	}
	return b.String()
}

func (e *lexpr) clone() *lexpr {
	c := &lexpr{Ops: append([]int{}, e.Ops...)}
	for _, t := range e.Terms {
		if t.Sub != nil {
			t.Sub = t.Sub.clone()
		}
		c.Terms = append(c.Terms, t)
	}
	return c
}

func likeSQL(e *lexpr, tail int) string { return "SELECT i FROM r WHERE " + e.String() + lTails[tail] }

type lfail struct {
	e    *lexpr
	tail int
}

type likeGrid struct {
	quick   bool
	t0      []lterm // [NOT] atom
	t1      []lterm // t0 + [NOT] (atom op atom)
	t2      []lterm // [NOT] (X op Y), X,Y in atom | (atom op atom), at least one parenthesised: depth 2
	nrows   int
	stat    stats
	viol    []violation
	mu      sync.Mutex
	fails   []lfail
	rawFail int
}

func (g *likeGrid) name() string { return "like" }
func (g *likeGrid) st() *stats   { return &g.stat }

func pair(x lterm, op int, y lterm) *lexpr { return &lexpr{Terms: []lterm{x, y}, Ops: []int{op}} }

func newLikeGrid(quick bool) *likeGrid {
	g := &likeGrid{quick: quick, nrows: 64}
	var atoms []lterm
	for a := range lAtoms {
		atoms = append(atoms, lterm{Atom: a})
	}
	for _, not := range []bool{false, true} {
		for a := range lAtoms {
			g.t0 = append(g.t0, lterm{Not: not, Atom: a})
		}
	}
	g.t1 = append(g.t1, g.t0...)
	var parens []lterm
	for _, x := range atoms {
		for op := range lOps {
			for _, y := range atoms {
				parens = append(parens, lterm{Sub: pair(x, op, y)})
			}
		}
	}
	for _, not := range []bool{false, true} {
		for _, p := range parens {
			p.Not = not
			g.t1 = append(g.t1, p)
		}
	}
	inner := append(append([]lterm{}, atoms...), parens...)
	for _, not := range []bool{false, true} {
		for _, x := range inner {
			for op := range lOps {
				for _, y := range inner {
					if x.Sub == nil && y.Sub == nil {
						continue
					}
					g.t2 = append(g.t2, lterm{Not: not, Sub: pair(x, op, y)})
				}
			}
		}
	}
	return g
}

func (g *likeGrid) setup() []string {
	s := []string{"CREATE TABLE r(i INTEGER, a VARCHAR, b VARCHAR, c VARCHAR)"}
	i := 0
	for _, a := range lVals {
		for _, b := range lVals {
			for _, c := range lVals {
				s = append(s, fmt.Sprintf("INSERT INTO r VALUES (%d, %s, %s, %s)", i, a, b, c))
				i++
			}
		}
	}
	return s
}

// job = one first term of a family; the worker enumerates the rest of the clause
type ljob struct {
	fam   int // 1..3: n terms over t1; 4: n=4 over t0; 5: depth-2 term alone / with one t0 (quick) or t1 (thorough) term; 6: depth-2 term with two atoms (thorough)
	first int
}

// every tail for clauses of up to 2 terms (and 4 [NOT] atom terms in thorough); ” (thorough: and ORDER BY) for the larger families
func (g *likeGrid) tails(small bool) []int {
	if small {
		return []int{0, 1, 2, 3}
	}
	if g.quick {
		return []int{0}
	}
	return []int{0, 1}
}

func (g *likeGrid) visit(w *worker, e *lexpr, tails []int) {
	for _, tl := range tails {
		q := likeSQL(e, tl)
		o := w.evaluate(q, g.nrows, false)
		g.stat.account(o)
		if o.Fired && o.Accepted && o.anyDiff() {
			g.mu.Lock()
			g.fails = append(g.fails, lfail{e.clone(), tl})
			g.mu.Unlock()
		}
	}
}

func (g *likeGrid) chain(w *worker, terms []lterm, tails []int) {
	n := len(terms)
	ops := make([]int, n-1)
	for m := 0; m < 1<<(n-1); m++ {
		for k := range ops {
			ops[k] = (m >> k) & 1
		}
		g.visit(w, &lexpr{Terms: terms, Ops: ops}, tails)
	}
}

func parens(t lterm) int {
	if t.Sub != nil {
		return 1
	}
	return 0
}

func (g *likeGrid) runJob(w *worker, j ljob) {
	switch j.fam {
	case 1:
		g.chain(w, []lterm{g.t1[j.first]}, g.tails(true))
	case 2:
		for _, b := range g.t1 {
			g.chain(w, []lterm{g.t1[j.first], b}, g.tails(true))
		}
	case 3:
		for _, b := range g.t1 {
			for _, c := range g.t1 {
				if g.quick && parens(g.t1[j.first])+parens(b)+parens(c) > 1 {
					continue // quick: at most one parenthesised term in a 3-term clause
				}
				g.chain(w, []lterm{g.t1[j.first], b, c}, g.tails(false))
			}
		}
	case 4:
		for _, b := range g.t0 {
			for _, c := range g.t0 {
				for _, d := range g.t0 {
					g.chain(w, []lterm{g.t0[j.first], b, c, d}, g.tails(!g.quick))
				}
			}
		}
	case 5:
		d := g.t2[j.first]
		g.chain(w, []lterm{d}, g.tails(false))
		other := g.t0[:len(lAtoms)] // quick: plain atoms
		if !g.quick {
			other = g.t1
		}
		for _, b := range other {
			g.chain(w, []lterm{d, b}, g.tails(false))
			g.chain(w, []lterm{b, d}, g.tails(false))
		}
	case 6:
		d := g.t2[j.first]
		for _, b := range g.t0[:len(lAtoms)] {
			for _, c := range g.t0[:len(lAtoms)] {
				g.chain(w, []lterm{d, b, c}, g.tails(false))
				g.chain(w, []lterm{b, d, c}, g.tails(false))
				g.chain(w, []lterm{b, c, d}, g.tails(false))
			}
		}
	}
}

func (g *likeGrid) explore(run *ev.Run, ws []*worker, samples *ev.Samples) bool {
	var jobs []ljob
	for f := 1; f <= 3; f++ {
		for i := range g.t1 {
			jobs = append(jobs, ljob{f, i})
		}
	}
	for i := range g.t0 {
		jobs = append(jobs, ljob{4, i})
	}
	for i := range g.t2 {
		jobs = append(jobs, ljob{5, i})
		if !g.quick {
			jobs = append(jobs, ljob{6, i})
		}
	}
	// big jobs first for load balance
	sort.SliceStable(jobs, func(i, j int) bool {
		rank := map[int]int{3: 0, 6: 1, 4: 2, 5: 3, 2: 4, 1: 5}
		return rank[jobs[i].fam] < rank[jobs[j].fam]
	})
	ok := forAll(run, ws, len(jobs), func(w *worker, k int) { g.runJob(w, jobs[k]) })
	for _, q := range []string{"SELECT i FROM r WHERE a LIKE '%x%' AND b <> ''", "SELECT i FROM r WHERE (a LIKE '%x%' OR c <> '') AND NOT b NOT LIKE 'y%' AND c <> '' ORDER BY i"} {
		samples.Add(map[string]string{"original": q, "rewritten": pipeline(q)})
	}
	g.rawFail = len(g.fails)
	g.classify(ws)
	return ok
}

// shrink candidates of a clause: drop the tail, drop a term of a chain, drop a NOT, remove a pair of
// parentheses, replace an atom by a lower-index atom
func lshrinks(e *lexpr, tail int) []lfail {
	var out []lfail
	if tail != 0 {
		out = append(out, lfail{e, 0})
	}
	var walk func(cur *lexpr, rebuild func(*lexpr) *lexpr)
	walk = func(cur *lexpr, rebuild func(*lexpr) *lexpr) {
		n := len(cur.Terms)
		for i := 0; i < n && n > 1; i++ {
			// drop term i together with the operator before it, or the operator after it
			for _, k := range []int{i - 1, i} {
				if k < 0 || k >= n-1 {
					continue
				}
				c := cur.clone()
				c.Terms = append(c.Terms[:i:i], c.Terms[i+1:]...)
				c.Ops = append(c.Ops[:k:k], c.Ops[k+1:]...)
				out = append(out, lfail{rebuild(c), tail})
			}
		}
		for i, t := range cur.Terms {
			if t.Not {
				c := cur.clone()
				c.Terms[i].Not = false
				out = append(out, lfail{rebuild(c), tail})
			}
			if t.Sub != nil && !t.Not {
				// splice the inner chain into this chain (removes one pair of parentheses)
				c := cur.clone()
				in := t.Sub.clone()
				terms := append(append(append([]lterm{}, c.Terms[:i]...), in.Terms...), c.Terms[i+1:]...)
				ops := append(append(append([]int{}, c.Ops[:i]...), in.Ops...), c.Ops[i:]...)
				out = append(out, lfail{rebuild(&lexpr{Terms: terms, Ops: ops}), tail})
			}
			if t.Sub == nil {
				for a := 0; a < t.Atom; a++ {
					c := cur.clone()
					c.Terms[i].Atom = a
					out = append(out, lfail{rebuild(c), tail})
				}
			} else {
				i := i
				walk(t.Sub, func(sub *lexpr) *lexpr {
					c := cur.clone()
					c.Terms[i].Sub = sub
					return rebuild(c)
				})
			}
		}
	}
	walk(e, func(x *lexpr) *lexpr { return x })
	return out
}

func (g *likeGrid) classify(ws []*worker) {
	// smallest clauses first so that the memo fills with the minimal forms early
	sort.SliceStable(g.fails, func(i, j int) bool {
		a, b := likeSQL(g.fails[i].e, g.fails[i].tail), likeSQL(g.fails[j].e, g.fails[j].tail)
		if len(a) != len(b) {
			return len(a) < len(b)
		}
		return a < b
	})
	var memo sync.Map // sql -> bool (fails)
	failsQ := func(w *worker, f lfail) bool {
		q := likeSQL(f.e, f.tail)
		if v, ok := memo.Load(q); ok {
			return v.(bool)
		}
		o := w.evaluate(q, g.nrows, false)
		r := o.Fired && o.Accepted && o.anyDiff()
		memo.Store(q, r)
		return r
	}
	var minOf sync.Map // sql -> minimal sql (memo of whole minimisations)
	sigs := make([]string, len(g.fails))
	mins := make([]lfail, len(g.fails))
	var next int64 = -1
	var nmu sync.Mutex
	var wg sync.WaitGroup
	for _, w := range ws {
		wg.Add(1)
		go func(w *worker) {
			defer wg.Done()
			for {
				nmu.Lock()
				next++
				k := int(next)
				nmu.Unlock()
				if k >= len(g.fails) {
					return
				}
				cur := g.fails[k]
				var path []string
				for changed := true; changed; {
					changed = false
					if m, ok := minOf.Load(likeSQL(cur.e, cur.tail)); ok {
						cur = m.(lfail)
						break
					}
					path = append(path, likeSQL(cur.e, cur.tail))
					for _, s := range lshrinks(cur.e, cur.tail) {
						if failsQ(w, s) {
							cur = s
							changed = true
							break
						}
					}
				}
				for _, p := range path {
					minOf.Store(p, cur)
				}
				mins[k] = cur
				sigs[k] = "like|" + cur.e.String() + lTails[cur.tail]
			}
		}(w)
	}
	wg.Wait()
	count := map[string]int{}
	rep := map[string]lfail{}
	for k, s := range sigs {
		count[s]++
		if _, ok := rep[s]; !ok {
			rep[s] = mins[k]
		}
	}
	keys := make([]string, 0, len(count))
	for s := range count {
		keys = append(keys, s)
	}
	sort.Strings(keys)
	for _, s := range keys {
		f := rep[s]
		q := likeSQL(f.e, f.tail)
		o := ws[0].evaluate(q, g.nrows, false)
		var rows []string
		standalone := ""
		for i := range o.Orig {
			if o.differs(i) && standalone == "" {
				standalone = fmt.Sprintf("SELECT i FROM (SELECT 0 AS i, CAST(%s AS VARCHAR) AS a, CAST(%s AS VARCHAR) AS b, CAST(%s AS VARCHAR) AS c) r WHERE %s%s",
					lVals[i/16], lVals[(i/4)%4], lVals[i%4], f.e.String(), lTails[f.tail])
			}
			if o.differs(i) && len(rows) < 4 {
				rows = append(rows, fmt.Sprintf("(a,b,c)=(%s,%s,%s): duckdb %s, arc %s", lVals[i/16], lVals[(i/4)%4], lVals[i%4], keep(o.Orig[i]), keep(o.Rew[i])))
			}
		}
		g.viol = append(g.viol, violation{Sig: s,
			Desc:      "WHERE " + f.e.String() + lTails[f.tail] + " is rewritten to " + strings.TrimPrefix(o.Rewrite, "SELECT i FROM r ") + " which selects different rows, e.g. " + strings.Join(rows, "; "),
			Replay:    map[string]any{"standalone_original_sql": standalone, "original_sql": q, "rewritten_sql": o.Rewrite, "table": "r(i,a,b,c) = every combination of NULL,'','x','y'", "differing_rows": rows},
			Instances: count[s]})
	}
}

func keep(c cell) string {
	if c.Err != "" {
		return c.String()
	}
	if c.V == "1" {
		return "keeps the row"
	}
	return "drops the row"
}

func (g *likeGrid) classes() []violation { return g.viol }

func (g *likeGrid) coverage() map[string]any {
	m := g.stat.cov()
	m["rows"] = g.nrows
	m["atoms"] = lAtoms
	m["tails"] = lTails
	m["grammar"] = "term := [NOT] atom | [NOT] (atom op atom); every clause of 1..3 such terms (quick: at most one parenthesised term among 3), every clause of 4 [NOT] atom terms, every depth-2 term [NOT] (X op Y) with X,Y in atom|(atom op atom) alone or joined before/after one atom (thorough: one depth-1 term, or two atoms in every position); op in AND, OR; every tail for clauses of 1-2 terms (thorough: also 4 terms), for the rest no tail (thorough: and ORDER BY)"
	m["failing_clauses_before_minimisation"] = g.rawFail
	m["classes"] = len(g.viol)
	return m
}
