// C17 — Performance rewrites do not change query results.
//
// Bounded-exhaustive grids; DuckDB is the oracle. Every case is a complete SQL statement over a small
// table. The statement is pushed through Arc's real rewrite functions in the order the query handler
// applies them (RewriteRegexToStringFuncs, rewriteTimeBucket, rewriteDateTrunc, OptimizeLikePatterns);
// when the text changed ("the rewrite fired") both the original and the rewritten statement are run in a
// real DuckDB over the same rows and compared row by row (value for the projections, filter decision for
// the WHERE clauses). Cases where DuckDB rejects the original are not judged.
//
// Files: main.go (driver, DuckDB workers), time.go (time_bucket/date_trunc grid), origin.go (origin x width grid
// inside the range where the rewrite must agree with DuckDB), url.go (URL-domain
// regex grid), like.go (LIKE / <> ” predicate grid), likebool.go (boolean structure / parenthesisation grid
// around the trailing emptiness check).
package main

import (
	"database/sql"
	"encoding/json"
	"fmt"
	"os"
	"sort"
	"strings"
	"sync"
	"sync/atomic"
	"time"

	"github.com/basekick-labs/arc/internal/api"
	"github.com/basekick-labs/arc/zzverif/engine/ev"
	_ "github.com/duckdb/duckdb-go/v2"
)

// pipeline applies Arc's rewrites in the order of QueryHandler.convertSQLToStoragePaths (query.go Phase 0a-0c).
func pipeline(q string) string {
	q, _ = api.RewriteRegexToStringFuncs(q)
	q = api.VerifRewriteTimeBucket(q)
	q = api.VerifRewriteDateTrunc(q)
	q, _ = api.OptimizeLikePatterns(q)
	return q
}

// ---- DuckDB workers ----------------------------------------------------------

const nWorkers = 12

type worker struct{ db *sql.DB }

var perRowFallbacks int64
var rejectClasses sync.Map // error class of rejected originals -> *int64

var rejectMu sync.Mutex
var rejectExample = map[string]string{} // error class -> lexicographically smallest rejected original

var setupSQL []string // filled by the sections before the workers start

func newWorker() *worker {
	db, err := sql.Open("duckdb", "?threads=1")
	if err != nil {
		ev.Unbound("cannot open DuckDB: " + err.Error())
	}
	db.SetMaxOpenConns(1)
	for _, s := range append([]string{"SET TimeZone='UTC'", "SET threads=1"}, setupSQL...) {
		if _, err := db.Exec(s); err != nil {
			ev.Unbound("DuckDB setup failed: " + s + ": " + err.Error())
		}
	}
	return &worker{db: db}
}

// cell is one per-row observation: a value (NULL-able, rendered as text), or an error class.
type cell struct {
	Null bool
	V    string
	Err  string
}

func (c cell) String() string {
	if c.Err != "" {
		return "error(" + c.Err + ")"
	}
	if c.Null {
		return "NULL"
	}
	return c.V
}

func errClass(err error) string {
	s := err.Error()
	if i := strings.Index(s, ":"); i > 0 && i < 40 {
		return s[:i]
	}
	if len(s) > 40 {
		s = s[:40]
	}
	return s
}

func staticError(err error) bool {
	switch errClass(err) {
	case "Binder Error", "Parser Error", "Catalog Error", "Not implemented Error":
		return true
	}
	return false
}

// rowsOf runs a statement returning (i, v) or (i) and returns cells indexed by i (n rows). For
// single-column statements the cell value is "1" for returned rows and "0" for the others (filter decision).
func (w *worker) rowsOf(q string, n int) ([]cell, error) {
	rs, err := w.db.Query(q)
	if err != nil {
		return nil, err
	}
	defer rs.Close()
	cols, _ := rs.Columns()
	out := make([]cell, n)
	if len(cols) == 1 {
		for i := range out {
			out[i] = cell{V: "0"}
		}
	} else {
		for i := range out {
			out[i] = cell{Err: "row-missing"}
		}
	}
	for rs.Next() {
		var i int
		if len(cols) == 1 {
			if err := rs.Scan(&i); err != nil {
				return nil, err
			}
			if i >= 0 && i < n {
				out[i] = cell{V: "1"}
			}
			continue
		}
		var v sql.NullString
		if err := rs.Scan(&i, &v); err != nil {
			return nil, err
		}
		if i >= 0 && i < n {
			out[i] = cell{Null: !v.Valid, V: v.String}
		}
	}
	if err := rs.Err(); err != nil {
		return nil, err
	}
	return out, nil
}

// perRow evaluates a projection statement one row at a time (used when the whole-table run failed, so
// that one failing row does not hide the others). The statement must end in " ORDER BY i".
func (w *worker) perRow(q string, n int) []cell {
	atomic.AddInt64(&perRowFallbacks, 1)
	out := make([]cell, n)
	base := strings.TrimSuffix(q, " ORDER BY i")
	for i := 0; i < n; i++ {
		c, err := w.rowsOf(fmt.Sprintf("%s WHERE i = %d", base, i), n)
		if err != nil {
			out[i] = cell{Err: errClass(err)}
		} else {
			out[i] = c[i]
		}
	}
	return out
}

// outcome of one case
type outcome struct {
	Fired    bool
	Rewrite  string
	Accepted bool   // DuckDB accepted the original on at least one row
	Orig     []cell // per row (Err set = original rejected for this row: not judged)
	Rew      []cell
}

func (o *outcome) differs(i int) bool {
	if !o.Fired || !o.Accepted || o.Orig[i].Err != "" {
		return false
	}
	return o.Orig[i] != o.Rew[i]
}

func (o *outcome) anyDiff() bool {
	for i := range o.Orig {
		if o.differs(i) {
			return true
		}
	}
	return false
}

// evaluate runs one statement (projection: perRowFallback=true) through rewrite + DuckDB.
func (w *worker) evaluate(q string, n int, projection bool) *outcome {
	o := &outcome{Rewrite: pipeline(q)}
	o.Fired = o.Rewrite != q
	if !o.Fired {
		return o
	}
	var err error
	o.Orig, err = w.rowsOf(q, n)
	if err != nil {
		// static rejections (binder/parser/catalog) hold for every row; only data-dependent errors are retried per row
		if !projection || staticError(err) {
			n, _ := rejectClasses.LoadOrStore(errClass(err), new(int64))
			atomic.AddInt64(n.(*int64), 1)
			rejectMu.Lock()
			if cur, ok := rejectExample[errClass(err)]; !ok || q < cur {
				rejectExample[errClass(err)] = q
			}
			rejectMu.Unlock()
			o.Orig = nil
			return o
		}
		o.Orig = w.perRow(q, n)
	}
	for _, c := range o.Orig {
		if c.Err == "" {
			o.Accepted = true
		}
	}
	if !o.Accepted {
		return o
	}
	o.Rew, err = w.rowsOf(o.Rewrite, n)
	if err != nil {
		if projection {
			o.Rew = w.perRow(o.Rewrite, n)
		} else {
			o.Rew = make([]cell, n)
			for i := range o.Rew {
				o.Rew[i] = cell{Err: errClass(err)}
			}
		}
	}
	return o
}

// forAll evaluates f(worker, k) for k in [0,n) on the worker pool; returns false if the deadline stopped it.
func forAll(run *ev.Run, ws []*worker, n int, f func(w *worker, k int)) bool {
	var next int64 = -1
	var stopped int32
	var wg sync.WaitGroup
	for _, w := range ws {
		wg.Add(1)
		go func(w *worker) {
			defer wg.Done()
			for {
				k := int(atomic.AddInt64(&next, 1))
				if k >= n {
					return
				}
				if k%256 == 0 && run.TimeUp() {
					atomic.StoreInt32(&stopped, 1)
					return
				}
				f(w, k)
			}
		}(w)
	}
	wg.Wait()
	return stopped == 0
}

// stats shared by the sections
type stats struct {
	Cases, Fired, NotAccepted, Judged int64 // statements
	Pairs, DiffPairs                  int64 // (statement,row) comparisons
	distinctRew                       sync.Map
	DistinctRewrites                  int64
}

func (s *stats) account(o *outcome) {
	atomic.AddInt64(&s.Cases, 1)
	if !o.Fired {
		return
	}
	atomic.AddInt64(&s.Fired, 1)
	if !o.Accepted {
		atomic.AddInt64(&s.NotAccepted, 1)
		return
	}
	atomic.AddInt64(&s.Judged, 1)
	if _, dup := s.distinctRew.LoadOrStore(o.Rewrite, true); !dup {
		atomic.AddInt64(&s.DistinctRewrites, 1)
	}
	for i := range o.Orig {
		if o.Orig[i].Err != "" {
			continue
		}
		atomic.AddInt64(&s.Pairs, 1)
		if o.differs(i) {
			atomic.AddInt64(&s.DiffPairs, 1)
		}
	}
}

func (s *stats) cov() map[string]any {
	return map[string]any{"statements": s.Cases, "rewrite_fired": s.Fired, "original_rejected_by_duckdb": s.NotAccepted,
		"judged_statements": s.Judged, "distinct_rewritten_statements": s.DistinctRewrites,
		"row_comparisons": s.Pairs, "row_mismatches_before_minimisation": s.DiffPairs}
}

func main() {
	run := ev.Start("C17", "exploration")
	quick := run.Quick()
	t0 := time.Now()
	// no scratch files: every DuckDB instance is in-memory

	// binding sanity: the accessors must reach rewrites that still fire on their documented forms
	if pipeline("SELECT time_bucket(INTERVAL '1 hour', time) FROM g") == "SELECT time_bucket(INTERVAL '1 hour', time) FROM g" ||
		pipeline("SELECT date_trunc('hour', time) FROM g") == "SELECT date_trunc('hour', time) FROM g" {
		ev.Unbound("rewriteTimeBucket/rewriteDateTrunc no longer rewrite their documented forms")
	}

	if run.Replay != "" {
		replay(run)
		return
	}

	tg := newTimeGrid(quick)
	ug := newURLGrid(quick)
	lg := newLikeGrid(quick)
	og := newOriginGrid(quick)
	bg := newBoolGrid(quick)
	setupSQL = append(setupSQL, tg.setup()...)
	setupSQL = append(setupSQL, ug.setup()...)
	setupSQL = append(setupSQL, lg.setup()...)
	setupSQL = append(setupSQL, bg.setup()...)
	ws := make([]*worker, nWorkers)
	var wg sync.WaitGroup
	for i := range ws {
		wg.Add(1)
		go func(i int) { defer wg.Done(); ws[i] = newWorker() }(i)
	}
	wg.Wait()

	samples := ev.NewSamples(9)
	exhaustive := true
	var viols []violation
	debug := os.Getenv("VERIF_DEBUG") != ""
	if debug {
		fmt.Fprintf(os.Stderr, "setup done %.1fs\n", time.Since(t0).Seconds())
	}
	for _, sec := range []section{tg, og, ug, lg, bg} {
		ok := sec.explore(run, ws, samples)
		if debug {
			fmt.Fprintf(os.Stderr, "%s done %.1fs %v\n", sec.name(), time.Since(t0).Seconds(), sec.coverage())
		}
		fmt.Printf("C17 %s: statements=%d fired=%d judged=%d row_comparisons=%d mismatches=%d classes=%d\n", sec.name(), sec.st().Cases, sec.st().Fired, sec.st().Judged, sec.st().Pairs, sec.st().DiffPairs, len(sec.classes()))
		exhaustive = exhaustive && ok
		viols = append(viols, sec.classes()...)
		run.Coverage[sec.name()] = sec.coverage()
	}
	sort.Slice(viols, func(i, j int) bool { return viols[i].Sig < viols[j].Sig })
	for _, v := range viols {
		if debug {
			fmt.Fprintf(os.Stderr, "SIG %6d %s\n", v.Instances, v.Sig)
		}
		for k := 0; k < v.Instances; k++ {
			run.Violate(v.Sig, v.Desc, v.Replay)
		}
	}
	var evals, nontriv int64
	for _, sec := range []section{tg, og, ug, lg, bg} {
		st := sec.st()
		evals += st.Pairs
		nontriv += st.Judged
	}
	run.Coverage["evaluations"] = evals
	run.Coverage["distinct_nontrivial"] = nontriv
	run.Coverage["rule"] = "every statement of five explicit grids (time: every spelling x amount x unit x origin x column type over a table of boundary timestamps; " +
		"timeorigin: every width x origin x spelling x column type of the 3-argument time_bucket (plus the 2-argument form and date_trunc where their grid is the epoch grid), each over its own list of timestamps at, before and after the origin " +
		"restricted to the range where the epoch formula must agree with DuckDB (fraction < .5 s, before the origin only on bucket boundaries; exact lists in coverage.timeorigin.bounds); " +
		"url: every regex pattern built from the component grammar x REGEXP_REPLACE/REGEXP_EXTRACT over a table of URL strings; like: every WHERE clause of the predicate grammar over a table of all NULL/''/'x'/'y' combinations; " +
		"likebool: every boolean structure (AND/OR/NOT, every parenthesisation, upper/lower-case keywords) of 1-3 LIKE / equality / IN / emptiness-check leaves over a table of all LIKE true/false/NULL x equality true/false/NULL x c empty/non-empty/NULL rows) " +
		"is rewritten by Arc's real functions; evaluations = (statement,row) pairs where the rewrite changed the text and DuckDB accepted the original, each compared original vs rewritten in DuckDB; " +
		"non-trivial = a statement whose text the rewrite changed and whose original DuckDB accepts (unchanged statements are trivial and only counted); distinct by original statement text (every grid point renders a different statement)"
	run.Coverage["samples"] = samples.List()
	run.Coverage["exhaustive"] = exhaustive
	run.Coverage["per_row_fallback_statements"] = perRowFallbacks
	rej := map[string]int64{}
	rejectClasses.Range(func(k, v any) bool { rej[k.(string)] = *v.(*int64); return true })
	run.Coverage["original_rejected_by_error_class"] = rej
	run.Coverage["original_rejected_example"] = rejectExample
	run.Assume("DuckDB (the version linked into Arc, session TimeZone=UTC as on a UTC server; Arc never sets TimeZone) evaluating the original statement is the ground truth")
	run.Assume("timestamps are compared as instants (epoch_us); the change of result type TIMESTAMP -> TIMESTAMP WITH TIME ZONE made by to_timestamp() is recorded in coverage but not judged")
	run.Assume("statements DuckDB rejects in their original form, and statements the rewrite leaves textually unchanged (months, nested calls, non-matching patterns), are counted but not judged")
	run.Assume("inputs outside the stated grids (other interval amounts/units, other URL shapes and regex patterns, string literals containing SQL keywords, more than the stated nesting) are not covered")
	run.Finish()
}

type violation struct {
	Sig, Desc string
	Replay    any
	Instances int
}

type section interface {
	name() string
	setup() []string
	explore(run *ev.Run, ws []*worker, samples *ev.Samples) bool
	classes() []violation
	coverage() map[string]any
	st() *stats
}

// replay re-runs one recorded counterexample in isolation: the standalone original statement is rewritten
// afresh by the current code and both forms are evaluated on its single inline row.
func replay(run *ev.Run) {
	b, err := os.ReadFile(run.Replay)
	if err != nil {
		ev.Unbound("cannot read replay file: " + err.Error())
	}
	var f struct {
		Signature string `json:"signature"`
		Replay    struct {
			SQL string `json:"standalone_original_sql"`
		} `json:"replay"`
	}
	if err := json.Unmarshal(b, &f); err != nil || f.Replay.SQL == "" {
		ev.Unbound("replay file has no standalone_original_sql")
	}
	w := newWorker()
	projection := !strings.HasPrefix(f.Replay.SQL, "SELECT i FROM")
	o := w.evaluate(f.Replay.SQL, 1, projection)
	fmt.Printf("original : %s\nrewritten: %s\n", f.Replay.SQL, o.Rewrite)
	switch {
	case !o.Fired:
		fmt.Println("the rewrite no longer fires on this statement")
	case !o.Accepted:
		fmt.Println("DuckDB rejects the original statement")
	default:
		fmt.Printf("duckdb(original)=%s duckdb(rewritten)=%s\n", o.Orig[0], o.Rew[0])
		if o.differs(0) {
			run.Violate(f.Signature, "replayed counterexample still differs: original "+o.Orig[0].String()+" rewritten "+o.Rew[0].String(), map[string]any{"standalone_original_sql": f.Replay.SQL})
		}
	}
	run.Coverage["evaluations"] = 1
	run.Finish()
}
