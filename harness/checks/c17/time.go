package main

import (
	"fmt"
	"sort"
	"strconv"
	"strings"
	"time"

	"github.com/basekick-labs/arc/zzverif/engine/ev"
)

// ---- grid ---------------------------------------------------------------------

type trow struct {
	Us    int64  // microseconds since the epoch
	Group int    // 0 = canonical plain second P, 1 = canonical pre-epoch second Q, 2 = other
	Frac  int64  // floor-mod microseconds within the second
	Text  string // UTC rendering
}

var (
	tAmounts = []int{1, 2, 7, 15, 90}
	tUnits   = []string{"second", "minute", "hour", "day", "week", "month"}
	dUnits   = []string{"second", "minute", "hour", "day", "week", "month", "quarter", "year"}
	tOrigins = []string{"2024-01-01 00:30:00", "2024-01-01T00:00:00", "2000-01-03", "1970-01-01 00:00:00Z", "2030-01-01 00:00:00"}
	// spellings of the call; %[1]d amount, %[2]s unit, %[3]s origin argument (", <origin>" or "")
	tbSpell = []string{
		"time_bucket(INTERVAL '%[1]d %[2]s', time%[3]s)",
		"time_bucket('%[1]d %[2]s', time%[3]s)",
		"time_bucket(INTERVAL '%[1]d %[2]ss', time%[3]s)",
		"TIME_BUCKET( INTERVAL '%[1]d  %[2]s' , time %[3]s )",
	}
	dtSpell = []string{"date_trunc('%s', time)", "DATE_TRUNC('%s', time)", "date_trunc( '%s' , time )"}
)

type tcase struct {
	Kind int // 0 time_bucket, 1 date_trunc
	Sp   int
	Amt  int // index in tAmounts
	Unit int
	Org  int  // -1 = no origin
	Kw   bool // origin written TIMESTAMP '...'
	Tz   bool // column is TIMESTAMP WITH TIME ZONE (what Arc's parquet files give) instead of TIMESTAMP
}

func (c tcase) expr() string {
	if c.Kind == 1 {
		u := dUnits[c.Unit]
		if c.Sp == 1 {
			u = strings.ToUpper(u)
		}
		return fmt.Sprintf(dtSpell[c.Sp], u)
	}
	org := ""
	if c.Org >= 0 {
		org = ", '" + tOrigins[c.Org] + "'"
		if c.Kw {
			org = ", TIMESTAMP '" + tOrigins[c.Org] + "'"
		}
	}
	return fmt.Sprintf(tbSpell[c.Sp], tAmounts[c.Amt], tUnits[c.Unit], org)
}

func (c tcase) sql() string {
	tab := "g_ts"
	if c.Tz {
		tab = "g_tz"
	}
	return "SELECT i, epoch_us(" + c.expr() + ") FROM " + tab + " ORDER BY i"
}

type timeGrid struct {
	rows  []trow
	cases []tcase
	out   map[tcase]*outcome
	stat  stats
	viol  []violation
	extra map[string]any
}

func (g *timeGrid) name() string { return "time" }
func (g *timeGrid) st() *stats   { return &g.stat }

func us(y int, m time.Month, d, hh, mm, ss int) int64 {
	return time.Date(y, m, d, hh, mm, ss, 0, time.UTC).UnixMicro()
}

func newTimeGrid(quick bool) *timeGrid {
	g := &timeGrid{out: map[tcase]*outcome{}, extra: map[string]any{}}
	seen := map[int64]bool{}
	add := func(u int64, group int) {
		if seen[u] {
			return
		}
		seen[u] = true
		fr := ((u % 1000000) + 1000000) % 1000000
		g.rows = append(g.rows, trow{Us: u, Group: group, Frac: fr, Text: time.UnixMicro(u).UTC().Format("2006-01-02 15:04:05.999999")})
	}
	P := us(2024, 3, 13, 10, 20, 31) // a Wednesday, odd second, after every past origin, before the future origin
	Q := us(1969, 12, 31, 23, 29, 29)
	for _, f := range []int64{0, 300000, 500000, 700000} {
		add(P+f, 0)
	}
	for _, f := range []int64{0, 300000, 500000, 700000} {
		add(Q+f, 1)
	}
	offs := []int64{-700000, -500000, -300000, 0, 300000, 500000, 700000}
	if !quick {
		offs = append(offs, -999999, -500001, -499999, -1, 1, 499999, 500001, 999999)
	}
	bounds := []int64{
		us(2024, 3, 13, 10, 20, 30), // second boundary
		us(2024, 3, 13, 10, 21, 0),  // minute boundary
		us(2024, 3, 13, 11, 0, 0),   // hour boundary
		us(2024, 3, 14, 0, 0, 0),    // day boundary (a Thursday 00:00)
		us(2024, 3, 11, 0, 0, 0),    // a Monday 00:00
		us(1970, 1, 1, 0, 0, 0),     // the epoch (-0.3 s is 1969-12-31 23:59:59.7)
		us(2262, 4, 11, 23, 47, 16), // last whole second of the int64-nanosecond range
	}
	if !quick {
		bounds = append(bounds,
			us(2000, 1, 3, 0, 0, 0),     // DuckDB's default time_bucket origin
			us(1969, 12, 29, 0, 0, 0),   // a pre-epoch Monday
			us(1900, 1, 1, 0, 0, 0),     // far past
			us(2030, 1, 1, 0, 0, 0),     // the future origin itself
			us(2024, 2, 29, 23, 59, 59), // leap day
		)
	}
	for _, b := range bounds {
		for _, o := range offs {
			add(b+o, 2)
		}
	}
	for _, u := range []int64{
		us(2024, 3, 14, 12, 0, 0),   // a Thursday
		us(2024, 3, 10, 12, 0, 0),   // a Sunday
		us(1969, 12, 31, 23, 30, 0), // pre-epoch half hour
		us(1969, 12, 31, 23, 59, 30),
		us(2262, 4, 12, 0, 0, 0),
	} {
		add(u, 2)
	}
	// cases
	for sp := range tbSpell {
		for a := range tAmounts {
			for u := range tUnits {
				for _, tz := range []bool{false, true} {
					g.cases = append(g.cases, tcase{Kind: 0, Sp: sp, Amt: a, Unit: u, Org: -1, Tz: tz})
					for o := range tOrigins {
						for _, kw := range []bool{false, true} {
							g.cases = append(g.cases, tcase{Kind: 0, Sp: sp, Amt: a, Unit: u, Org: o, Kw: kw, Tz: tz})
						}
					}
				}
			}
		}
	}
	for sp := range dtSpell {
		for u := range dUnits {
			for _, tz := range []bool{false, true} {
				g.cases = append(g.cases, tcase{Kind: 1, Sp: sp, Unit: u, Org: -1, Tz: tz})
			}
		}
	}
	return g
}

func (g *timeGrid) setup() []string {
	s := []string{"CREATE TABLE g_ts(i INTEGER, time TIMESTAMP)", "CREATE TABLE g_tz(i INTEGER, time TIMESTAMP WITH TIME ZONE)"}
	for i, r := range g.rows {
		s = append(s, fmt.Sprintf("INSERT INTO g_ts VALUES (%d, make_timestamp(%d::BIGINT))", i, r.Us))
		s = append(s, fmt.Sprintf("INSERT INTO g_tz VALUES (%d, make_timestamptz(%d::BIGINT))", i, r.Us))
	}
	return s
}

// ---- exploration ---------------------------------------------------------------

func (g *timeGrid) explore(run *ev.Run, ws []*worker, samples *ev.Samples) bool {
	n := len(g.rows)
	// the stored rows must be exactly the grid (guards the harness, not Arc)
	chk, err := ws[0].rowsOf("SELECT i, epoch_us(time) FROM g_ts ORDER BY i", n)
	chk2, err2 := ws[0].rowsOf("SELECT i, epoch_us(time) FROM g_tz ORDER BY i", n)
	if err != nil || err2 != nil {
		ev.Unbound("time grid table unreadable")
	}
	for i, r := range g.rows {
		if chk[i].V != strconv.FormatInt(r.Us, 10) || chk2[i].V != chk[i].V {
			ev.Unbound(fmt.Sprintf("time grid row %d stored as %s/%s, wanted %d", i, chk[i].V, chk2[i].V, r.Us))
		}
	}
	outs := make([]*outcome, len(g.cases))
	ok := forAll(run, ws, len(g.cases), func(w *worker, k int) {
		outs[k] = w.evaluate(g.cases[k].sql(), n, true)
	})
	for k, o := range outs {
		if o == nil {
			continue
		}
		g.out[g.cases[k]] = o
		g.stat.account(o)
	}
	for _, c := range []tcase{{Kind: 0, Amt: 0, Unit: 2, Org: -1}, {Kind: 0, Amt: 3, Unit: 1, Org: 0, Kw: true, Tz: true}, {Kind: 1, Unit: 3, Org: -1, Tz: true}} {
		if o := g.out[c]; o != nil {
			samples.Add(map[string]string{"original": c.sql(), "rewritten": o.Rewrite})
		}
	}
	// result type change (recorded, not judged)
	var t1, t2 string
	ws[0].db.QueryRow("SELECT typeof(date_trunc('hour', time)) FROM g_ts LIMIT 1").Scan(&t1)
	ws[0].db.QueryRow(pipeline("SELECT typeof(date_trunc('hour', time)) FROM g_ts LIMIT 1")).Scan(&t2)
	g.extra["result_type_original_vs_rewritten_on_TIMESTAMP_column"] = t1 + " vs " + t2
	g.classify()
	return ok
}

func (g *timeGrid) fails(c tcase, r int) bool {
	o := g.out[c]
	return o != nil && o.differs(r)
}

func (g *timeGrid) rowIndex(group int, frac int64) int {
	for i, r := range g.rows {
		if r.Group == group && r.Frac == frac {
			return i
		}
	}
	return -1
}

// shrink candidates, simplest first; every candidate removes or reduces exactly one feature
func (g *timeGrid) shrinks(c tcase, r int) []struct {
	c tcase
	r int
} {
	type cr = struct {
		c tcase
		r int
	}
	var out []cr
	if c.Org >= 0 {
		d := c
		d.Org, d.Kw = -1, false
		out = append(out, cr{d, r})
	}
	if c.Kw {
		d := c
		d.Kw = false
		out = append(out, cr{d, r})
	}
	if c.Sp != 0 {
		d := c
		d.Sp = 0
		out = append(out, cr{d, r})
	}
	if c.Tz {
		d := c
		d.Tz = false
		out = append(out, cr{d, r})
	}
	for a := 0; a < c.Amt; a++ {
		d := c
		d.Amt = a
		out = append(out, cr{d, r})
	}
	for u := 0; u < c.Unit; u++ {
		d := c
		d.Unit = u
		out = append(out, cr{d, r})
	}
	cur := g.rows[r]
	// the canonical plain second P is always a candidate; the canonical pre-epoch second Q only for a row that
	// already lies before the epoch or before the origin (same feature: negative offset from the bucket origin)
	groups := []int{0}
	if cur.Us < 0 || (c.Org >= 0 && cur.Us < originUs(c.Org)) {
		groups = append(groups, 1)
	}
	for _, grp := range groups {
		for _, f := range []int64{0, 300000, 500000, 700000} {
			if f > cur.Frac || grp > cur.Group || (grp == cur.Group && f >= cur.Frac) {
				continue
			}
			if i := g.rowIndex(grp, f); i >= 0 {
				out = append(out, cr{c, i})
			}
		}
	}
	return out
}

func originUs(i int) int64 {
	for _, f := range []string{"2006-01-02 15:04:05", "2006-01-02T15:04:05", "2006-01-02 15:04:05Z", "2006-01-02"} {
		if t, err := time.Parse(f, tOrigins[i]); err == nil {
			return t.UnixMicro()
		}
	}
	panic("origin " + tOrigins[i])
}

func fmtDelta(orig, rew cell) string {
	if rew.Err != "" {
		return "error(" + rew.Err + ")"
	}
	if orig.Null || rew.Null {
		return orig.String() + "->" + rew.String()
	}
	a, e1 := strconv.ParseInt(orig.V, 10, 64)
	b, e2 := strconv.ParseInt(rew.V, 10, 64)
	if e1 != nil || e2 != nil {
		return orig.V + "->" + rew.V
	}
	d := b - a
	sign := "+"
	if d < 0 {
		sign, d = "-", -d
	}
	s := fmt.Sprintf("%s%d", sign, d/1000000)
	if d%1000000 != 0 {
		s += strings.TrimRight(fmt.Sprintf(".%06d", d%1000000), "0")
	}
	return s + "s"
}

func usText(c cell) string {
	if c.Err != "" || c.Null {
		return c.String()
	}
	v, err := strconv.ParseInt(c.V, 10, 64)
	if err != nil {
		return c.V
	}
	return time.UnixMicro(v).UTC().Format("2006-01-02 15:04:05.999999")
}

func (g *timeGrid) classify() {
	type cls struct {
		c tcase
		r int
		n int
	}
	classes := map[string]*cls{}
	memo := map[struct {
		c tcase
		r int
	}]string{}
	for _, c := range g.cases {
		o := g.out[c]
		if o == nil || !o.Fired || !o.Accepted {
			continue
		}
		for r := range g.rows {
			if !o.differs(r) {
				continue
			}
			key := struct {
				c tcase
				r int
			}{c, r}
			sig, ok := memo[key]
			if !ok {
				mc, mr := c, r
				for changed := true; changed; {
					changed = false
					for _, s := range g.shrinks(mc, mr) {
						if g.fails(s.c, s.r) {
							mc, mr = s.c, s.r
							changed = true
							break
						}
					}
				}
				sig = g.signature(mc, mr)
				memo[key] = sig
				if _, ok := classes[sig]; !ok {
					classes[sig] = &cls{c: mc, r: mr}
				}
			}
			classes[sig].n++
		}
	}
	sigs := make([]string, 0, len(classes))
	for s := range classes {
		sigs = append(sigs, s)
	}
	sort.Strings(sigs)
	for _, s := range sigs {
		k := classes[s]
		o := g.out[k.c]
		g.viol = append(g.viol, violation{Sig: s,
			Desc: fmt.Sprintf("%s on time='%s': DuckDB gives %s, Arc's rewrite gives %s", k.c.expr(), g.rows[k.r].Text, usText(o.Orig[k.r]), usText(o.Rew[k.r])),
			Replay: map[string]any{"standalone_original_sql": g.standalone(k.c, k.r), "original_sql": k.c.sql(), "rewritten_sql": o.Rewrite, "row_time_utc": g.rows[k.r].Text, "row_epoch_us": g.rows[k.r].Us,
				"duckdb_original": usText(o.Orig[k.r]), "arc_rewritten": usText(o.Rew[k.r]), "column_type": map[bool]string{false: "TIMESTAMP", true: "TIMESTAMP WITH TIME ZONE"}[k.c.Tz]},
			Instances: k.n})
	}
}

func (g *timeGrid) signature(c tcase, r int) string {
	o := g.out[c]
	var b strings.Builder
	if c.Kind == 0 {
		fmt.Fprintf(&b, "time_bucket|%d %s", tAmounts[c.Amt], tUnits[c.Unit])
		if c.Org >= 0 {
			kw := ""
			if c.Kw {
				kw = "TIMESTAMP "
			}
			fmt.Fprintf(&b, "|origin=%s'%s'", kw, tOrigins[c.Org])
		}
	} else {
		fmt.Fprintf(&b, "date_trunc|%s", dUnits[c.Unit])
	}
	if c.Sp != 0 {
		fmt.Fprintf(&b, "|spelling=%d", c.Sp)
	}
	if c.Tz {
		b.WriteString("|col=timestamptz")
	}
	fmt.Fprintf(&b, "|t=%s|arc-duckdb=%s", g.rows[r].Text, fmtDelta(o.Orig[r], o.Rew[r]))
	return b.String()
}

// standalone renders the case over a one-row inline table (for --replay: no grid tables needed)
func (g *timeGrid) standalone(c tcase, r int) string {
	mk := "make_timestamp"
	if c.Tz {
		mk = "make_timestamptz"
	}
	return fmt.Sprintf("SELECT i, epoch_us(%s) FROM (SELECT 0 AS i, %s(%d::BIGINT) AS time) g", c.expr(), mk, g.rows[r].Us)
}

func (g *timeGrid) classes() []violation { return g.viol }

func (g *timeGrid) coverage() map[string]any {
	m := g.stat.cov()
	m["timestamps"] = len(g.rows)
	m["amounts"] = tAmounts
	m["time_bucket_units"] = tUnits
	m["date_trunc_units"] = dUnits
	m["origins"] = tOrigins
	m["spellings"] = len(tbSpell) + len(dtSpell)
	m["column_types"] = []string{"TIMESTAMP", "TIMESTAMP WITH TIME ZONE"}
	m["classes"] = len(g.viol)
	for k, v := range g.extra {
		m[k] = v
	}
	return m
}
