package main

// Section "timeorigin": the origin dimension of time_bucket, explored where the epoch-arithmetic rewrite is
// REQUIRED to agree with DuckDB.
//
// The legacy "time" grid (time.go) uses one fixed table of timestamps and a greedy minimiser that accepts any
// shrink step that "still fails". Dropping the origin is such a step, so a wrong 3-argument rewrite is walked down
// to the origin-less known classes (round-to-nearest, truncating //, epoch-aligned buckets) and disappears in them.
// This section has no such step. It enumerates width x origin x timestamp and puts every timestamp INSIDE the range
// where the formula  origin + floor((t - origin) / width) * width  and DuckDB are the same function and where the
// three known defects of the unchanged rewrite cannot fire:
//   - fractional part of the second < .5                       (epoch(t)::BIGINT rounds to nearest: known)
//   - a timestamp before the origin only ON a bucket boundary   (// truncates toward zero: known)
//     (plus a fraction < .5 after such a boundary, which stays inside the bucket that starts there)
//   - 2-argument form and date_trunc only for widths whose DuckDB grid (origin 2000-01-03 00:00:00, or the
//     calendar unit) coincides with the epoch grid: width divides 946857600 s   (epoch-aligned buckets: known)
// so on the unchanged tree this section produces NO mismatch, and every mismatch is reported in its own signature
// family "tbo|..." that no known-finding entry mentions.

import (
	"fmt"
	"sort"
	"strings"
	"sync/atomic"
	"time"

	"github.com/basekick-labs/arc/zzverif/engine/ev"
)

const defaultOriginSec = 946857600 // 2000-01-03 00:00:00 UTC, DuckDB's time_bucket origin for day/sub-day widths

type owidth struct {
	Amt  int
	Unit string
}

func (w owidth) sec() int64 {
	return int64(w.Amt) * map[string]int64{"second": 1, "minute": 60, "hour": 3600, "day": 86400, "week": 604800}[w.Unit]
}

func (w owidth) String() string { return fmt.Sprintf("%d %s", w.Amt, w.Unit) }

// wdiv is the divisibility class of a width: the part of the calendar it tiles exactly.
func wdiv(s int64) string {
	switch {
	case 60%s == 0:
		return "divides-minute"
	case 3600%s == 0:
		return "divides-hour"
	case 86400%s == 0:
		return "divides-day"
	case s < 86400:
		return "subday-nondivisor"
	case s%86400 == 0:
		return "whole-days"
	}
	return "multiday-nondays"
}

type oorigin struct {
	Text string
	Kind string // midnight | hour (whole hour, not midnight) | unaligned (anything else)
}

func (o oorigin) sec() int64 {
	for _, f := range []string{"2006-01-02 15:04:05", "2006-01-02T15:04:05", "2006-01-02 15:04:05Z", "2006-01-02T15:04:05Z", "2006-01-02"} {
		if t, err := time.Parse(f, o.Text); err == nil {
			return t.Unix()
		}
	}
	panic("origin " + o.Text)
}

func originKind(sec int64) string {
	switch {
	case floorMod(sec, 86400) == 0:
		return "midnight"
	case floorMod(sec, 3600) == 0:
		return "hour"
	}
	return "unaligned"
}

func floorMod(a, b int64) int64 { return ((a % b) + b) % b }
func floorDiv(a, b int64) int64 { return (a - floorMod(a, b)) / b }

var (
	// quick prefix first, thorough extras appended: the preferred (= earliest) representative of a class is the
	// same in both tiers whenever the class is visible in quick.
	oWidthsQuick = []owidth{{13, "second"}, {15, "second"}, {7, "minute"}, {25, "minute"}, {45, "minute"}, {1, "hour"},
		{5, "hour"}, {7, "hour"}, {1, "day"}, {2, "day"}, {36, "hour"}, {1, "week"}}
	oWidthsMore = []owidth{{1, "second"}, {2, "second"}, {7, "second"}, {90, "second"}, {1, "minute"}, {15, "minute"}, {90, "minute"},
		{2, "hour"}, {6, "hour"}, {9, "hour"}, {11, "hour"}, {15, "hour"}, {24, "hour"}, {25, "hour"}, {90, "hour"}, {1440, "minute"}, {86400, "second"},
		{86401, "second"}, {50, "minute"}, {7, "day"}, {15, "day"}, {2, "week"}}
	oOriginsQuick = []string{"2024-01-01", "2024-01-01 00:00:00", "2024-01-01T00:00:00Z", "2023-11-15 00:00:00", "1970-01-01 00:00:00", "1969-12-29 00:00:00",
		"2024-01-01 05:00:00", "2024-01-01T13:00:00", "2024-01-01 00:30:00", "2024-01-01 10:17:43"}
	oOriginsMore = []string{"2000-01-03", "2030-01-01 00:00:00", "2024-02-29 23:00:00Z", "1969-12-31 23:59:59", "2024-01-01 00:00:01", "2024-01-01 23:59:59",
		"2024-03-10T00:00:00", "1969-12-31 18:00:00"}
	oSpell = []string{"time_bucket(INTERVAL '%[1]d %[2]s', time%[3]s)", "time_bucket('%[1]d %[2]ss', time%[3]s)", "TIME_BUCKET( INTERVAL '%[1]d  %[2]s' , time %[3]s )"}
	oDtU   = []string{"second", "minute", "hour", "day"}
)

const (
	fnTB3 = iota
	fnTB2
	fnDT
)

var fnName = []string{"time_bucket3", "time_bucket2", "date_trunc"}

type ocase struct {
	Fn  int
	W   int // index in widths (fnDT: index in oDtU)
	Org int // index in origins (fnTB3 only)
	Sp  int
	Tz  bool
}

type orow struct {
	Us  int64
	Rel string // before | at | after  (relative to the case's origin)
	How string // how the row was derived (for the evidence / replay)
}

type originGrid struct {
	quick   bool
	widths  []owidth
	origins []oorigin
	fracs   []int64
	cases   []ocase
	stat    stats
	viol    []violation
	cells   map[string]int64 // "<fn>/<origin kind>/<wdiv>/<relation>" -> judged comparisons
	// vacuity / sensitivity counters (measured)
	originMatters   int64 // comparisons where the origin-less epoch formula floor(t/w)*w would give a different bucket
	modelDisagree   int64 // comparisons where DuckDB's original differs from the floor model (must be 0: it justifies the range)
	modelExample    string
	rowsMin         int
	rowsMax         int
	distinctBuckets int64
}

func (g *originGrid) name() string    { return "timeorigin" }
func (g *originGrid) st() *stats      { return &g.stat }
func (g *originGrid) setup() []string { return nil }

func newOriginGrid(quick bool) *originGrid {
	g := &originGrid{quick: quick, cells: map[string]int64{}}
	g.widths = append(g.widths, oWidthsQuick...)
	ot := append([]string{}, oOriginsQuick...)
	g.fracs = []int64{0, 300000}
	nsp := 2
	if !quick {
		g.widths = append(g.widths, oWidthsMore...)
		ot = append(ot, oOriginsMore...)
		g.fracs = []int64{0, 300000, 1, 499999}
		nsp = len(oSpell)
	}
	for _, t := range ot {
		o := oorigin{Text: t}
		o.Kind = originKind(o.sec())
		g.origins = append(g.origins, o)
	}
	for w := range g.widths {
		for o := range g.origins {
			for sp := 0; sp < nsp; sp++ {
				for _, tz := range []bool{false, true} {
					g.cases = append(g.cases, ocase{Fn: fnTB3, W: w, Org: o, Sp: sp, Tz: tz})
				}
			}
		}
		if defaultOriginSec%g.widths[w].sec() == 0 { // the 2-argument form is only required to agree on these widths
			for sp := 0; sp < nsp; sp++ {
				for _, tz := range []bool{false, true} {
					g.cases = append(g.cases, ocase{Fn: fnTB2, W: w, Org: -1, Sp: sp, Tz: tz})
				}
			}
		}
	}
	for u := range oDtU {
		for sp := 0; sp < nsp && sp < len(dtSpell); sp++ {
			for _, tz := range []bool{false, true} {
				g.cases = append(g.cases, ocase{Fn: fnDT, W: u, Org: -1, Sp: sp, Tz: tz})
			}
		}
	}
	return g
}

func (g *originGrid) width(c ocase) owidth {
	if c.Fn == fnDT {
		return owidth{1, oDtU[c.W]}
	}
	return g.widths[c.W]
}

// originSec is the origin DuckDB uses for the case: explicit, 2000-01-03 (2-argument form), the epoch (date_trunc
// of second/minute/hour/day is the calendar unit = the epoch grid in UTC).
func (g *originGrid) originSec(c ocase) int64 {
	switch c.Fn {
	case fnTB3:
		return g.origins[c.Org].sec()
	case fnTB2:
		return defaultOriginSec
	}
	return 0
}

func (g *originGrid) kind(c ocase) string {
	switch c.Fn {
	case fnTB3:
		return g.origins[c.Org].Kind
	case fnTB2:
		return "default"
	}
	return "calendar"
}

func (g *originGrid) expr(c ocase) string {
	w := g.width(c)
	if c.Fn == fnDT {
		u := w.Unit
		if c.Sp == 1 {
			u = strings.ToUpper(u)
		}
		return fmt.Sprintf(dtSpell[c.Sp], u)
	}
	org := ""
	if c.Fn == fnTB3 {
		org = ", TIMESTAMP '" + g.origins[c.Org].Text + "'"
	}
	return fmt.Sprintf(oSpell[c.Sp], w.Amt, w.Unit, org)
}

const (
	maxSec     = 9223372036 // 2262-04-11 23:47:16, last whole second of the int64-nanosecond range
	minSec     = -9223372036
	fracMaxSec = 4102444800 // 2100-01-01: fractions only below it (epoch()'s DOUBLE keeps microseconds exactly there)
)

// rows enumerates the timestamps of a case: a fixed list of offsets from the origin (in seconds and in widths),
// the calendar boundaries next to the origin, three absolute anchors, each with every fraction of g.fracs.
func (g *originGrid) rows(c ocase) []orow {
	o, w := g.originSec(c), g.width(c).sec()
	type sr struct {
		s   int64
		how string
	}
	var secs []sr
	add := func(s int64, how string) { secs = append(secs, sr{s, how}) }
	add(o, "origin")
	for _, d := range []struct {
		d   int64
		how string
	}{{1, "origin+1s"}, {w - 1, "origin+w-1s"}, {w, "origin+w"}, {w + 1, "origin+w+1s"}, {2*w - 1, "origin+2w-1s"}, {2 * w, "origin+2w"},
		{3*w + w/2, "origin+3.5w"}, {1000*w - 1, "origin+1000w-1s"}, {1000 * w, "origin+1000w"}, {1000*w + w/3, "origin+1000w+w/3"}} {
		add(o+d.d, d.how)
	}
	// calendar boundaries after the origin
	m := (floorDiv(o, 86400) + 1) * 86400
	h := (floorDiv(o, 3600) + 1) * 3600
	for _, d := range []struct {
		s   int64
		how string
	}{{h - 1, "next-hour-1s"}, {h, "next-hour"}, {h + 1, "next-hour+1s"}, {m - 1, "next-midnight-1s"}, {m, "next-midnight"}, {m + 1, "next-midnight+1s"},
		{m + 86400, "second-midnight"}, {m + 7*86400 + 3600, "midnight+7d+1h"}} {
		add(d.s, d.how)
	}
	// absolute anchors (used on whichever side of the origin they fall when on a boundary, otherwise only after it)
	for _, d := range []struct {
		s   int64
		how string
	}{{-1, "1969-12-31 23:59:59"}, {0, "epoch"}, {1, "epoch+1s"}, {1710325231, "2024-03-13 10:20:31"}, {1710374400, "2024-03-14 00:00:00"}, {maxSec, "2262-04-11 23:47:16"}} {
		add(d.s, d.how)
	}
	// before the origin: bucket boundaries only
	for _, k := range []int64{1, 2, 3, 1000} {
		add(o-k*w, fmt.Sprintf("origin-%dw", k))
	}
	if !g.quick {
		add(o-100000*w, "origin-100000w")
		add(o+100000*w+1, "origin+100000w+1s")
	}
	var out []orow
	seen := map[int64]bool{}
	for _, s := range secs {
		if s.s > maxSec || s.s < minSec {
			continue
		}
		rel := "after"
		if s.s == o {
			rel = "at"
		} else if s.s < o {
			if floorMod(s.s-o, w) != 0 {
				continue // before the origin and not on a boundary: outside the agreeing range
			}
			rel = "before"
		}
		for _, f := range g.fracs {
			if f != 0 && (s.s >= fracMaxSec || s.s <= -fracMaxSec) {
				continue
			}
			us := s.s*1000000 + f
			if seen[us] {
				continue
			}
			seen[us] = true
			how := s.how
			if f != 0 {
				how += fmt.Sprintf("+%dus", f)
			}
			out = append(out, orow{Us: us, Rel: rel, How: how})
		}
	}
	return out
}

func (g *originGrid) sqlRows(c ocase, rows []orow) string {
	mk := "make_timestamp"
	if c.Tz {
		mk = "make_timestamptz"
	}
	var b strings.Builder
	b.WriteString("SELECT i, epoch_us(" + g.expr(c) + ") FROM (VALUES ")
	for i, r := range rows {
		if i > 0 {
			b.WriteString(", ")
		}
		fmt.Fprintf(&b, "(%d, %s(%d::BIGINT))", i, mk, r.Us)
	}
	b.WriteString(") g(i, time) ORDER BY i")
	return b.String()
}

func (g *originGrid) standalone(c ocase, r orow) string {
	mk := "make_timestamp"
	if c.Tz {
		mk = "make_timestamptz"
	}
	return fmt.Sprintf("SELECT i, epoch_us(%s) FROM (SELECT 0 AS i, %s(%d::BIGINT) AS time) g", g.expr(c), mk, r.Us)
}

type omis struct {
	k    int // case index
	r    int // row index
	row  orow
	orig cell
	rew  cell
	rw   string
}

func (g *originGrid) explore(run *ev.Run, ws []*worker, samples *ev.Samples) bool {
	outs := make([]*outcome, len(g.cases))
	rowsOf := make([][]orow, len(g.cases))
	ok := forAll(run, ws, len(g.cases), func(w *worker, k int) {
		rows := g.rows(g.cases[k])
		rowsOf[k] = rows
		outs[k] = w.evaluate(g.sqlRows(g.cases[k], rows), len(rows), true)
	})
	var mis []omis
	buckets := map[int64]bool{}
	g.rowsMin = 1 << 30
	for k, o := range outs {
		if o == nil {
			continue
		}
		c := g.cases[k]
		g.stat.account(o)
		if !o.Fired || !o.Accepted {
			continue
		}
		rows := rowsOf[k]
		if len(rows) < g.rowsMin {
			g.rowsMin = len(rows)
		}
		if len(rows) > g.rowsMax {
			g.rowsMax = len(rows)
		}
		osec, w := g.originSec(c), g.width(c).sec()
		for r, row := range rows {
			if o.Orig[r].Err != "" {
				continue
			}
			g.cells[fnName[c.Fn]+"/"+g.kind(c)+"/"+wdiv(w)+"/"+row.Rel]++
			// independent arithmetic model of the ORIGINAL expression (justifies the stated range; decides nothing)
			want := (osec + floorDiv(floorDiv(row.Us, 1000000)-osec, w)*w) * 1000000
			if o.Orig[r].Null || o.Orig[r].V != fmt.Sprint(want) {
				if atomic.AddInt64(&g.modelDisagree, 1) == 1 {
					g.modelExample = fmt.Sprintf("%s on %d us: DuckDB %s, floor model %d", g.expr(c), row.Us, o.Orig[r], want)
				}
			} else {
				buckets[want] = true
			}
			if floorDiv(floorDiv(row.Us, 1000000), w)*w*1000000 != want {
				g.originMatters++
			}
			if o.differs(r) {
				mis = append(mis, omis{k: k, r: r, row: row, orig: o.Orig[r], rew: o.Rew[r], rw: o.Rewrite})
			}
		}
	}
	g.distinctBuckets = int64(len(buckets))
	if g.rowsMin == 1<<30 {
		g.rowsMin = 0
	}
	for _, k := range []int{0, len(g.cases) / 2} {
		if k < len(outs) && outs[k] != nil && len(rowsOf[k]) > 0 {
			samples.Add(map[string]string{"original": g.standalone(g.cases[k], rowsOf[k][len(rowsOf[k])/2]), "rewritten_full_statement": outs[k].Rewrite[:min(len(outs[k].Rewrite), 200)] + "..."})
		}
	}
	g.classify(mis)
	return ok
}

// classify groups the mismatches by (function, divisibility class of the width, origin kind, position of the
// timestamp relative to the origin, direction and kind of the difference). No step changes the meaning of a case:
// the representative of a class is simply its first member in grid order (cases are generated width-major in the
// order of the alphabets, rows in the order of rows()).
func (g *originGrid) classify(mis []omis) {
	type cls struct {
		first omis
		n     int
		wset  map[string]bool
		oset  map[string]bool
	}
	classes := map[string]*cls{}
	for _, m := range mis {
		c := g.cases[m.k]
		w := g.width(c).sec()
		key := fmt.Sprintf("tbo|fn=%s|width=%s|origin=%s|t=%s|diff=%s", fnName[c.Fn], wdiv(w), g.kind(c), m.row.Rel, diffKind(m.orig, m.rew, w))
		k := classes[key]
		if k == nil {
			k = &cls{first: m, wset: map[string]bool{}, oset: map[string]bool{}}
			classes[key] = k
		} else if m.k < k.first.k || (m.k == k.first.k && m.r < k.first.r) {
			k.first = m
		}
		k.n++
		k.wset[g.width(c).String()] = true
		if c.Fn == fnTB3 {
			k.oset[g.origins[c.Org].Text] = true
		}
	}
	keys := make([]string, 0, len(classes))
	for k := range classes {
		keys = append(keys, k)
	}
	sort.Strings(keys)
	for _, key := range keys {
		k := classes[key]
		m := k.first
		c := g.cases[m.k]
		eg := "e.g. " + g.width(c).String()
		if c.Fn == fnTB3 {
			eg += ",origin='" + g.origins[c.Org].Text + "'"
		}
		if c.Sp != 0 {
			eg += fmt.Sprintf(",spelling=%d", c.Sp)
		}
		if c.Tz {
			eg += ",col=timestamptz"
		}
		t := time.UnixMicro(m.row.Us).UTC().Format("2006-01-02 15:04:05.999999")
		eg += ",t=" + t + ",arc-duckdb=" + fmtDelta(m.orig, m.rew)
		g.viol = append(g.viol, violation{Sig: key + "|" + eg,
			Desc: fmt.Sprintf("%s on time='%s' (%s): DuckDB gives %s, Arc's rewrite gives %s; %d mismatching (statement,row) pairs in this class over widths %s origins %s",
				g.expr(c), t, m.row.How, usText(m.orig), usText(m.rew), k.n, setList(k.wset), setList(k.oset)),
			Replay: map[string]any{"standalone_original_sql": g.standalone(c, m.row), "rewritten_sql_of_grid_statement": m.rw[:min(len(m.rw), 300)], "row_time_utc": t, "row_epoch_us": m.row.Us,
				"row_derivation": m.row.How, "duckdb_original": usText(m.orig), "arc_rewritten": usText(m.rew), "column_type": map[bool]string{false: "TIMESTAMP", true: "TIMESTAMP WITH TIME ZONE"}[c.Tz]},
			Instances: k.n})
	}
}

func setList(m map[string]bool) string {
	l := make([]string, 0, len(m))
	for k := range m {
		l = append(l, k)
	}
	sort.Strings(l)
	return "[" + strings.Join(l, ", ") + "]"
}

// diffKind: direction and kind of the difference: a whole number of buckets, or a shifted grid (partial bucket).
func diffKind(orig, rew cell, w int64) string {
	if rew.Err != "" {
		return "error(" + rew.Err + ")"
	}
	if orig.Null || rew.Null {
		return orig.String() + "->" + rew.String()
	}
	var a, b int64
	if _, err := fmt.Sscan(orig.V, &a); err != nil {
		return "unparsable"
	}
	if _, err := fmt.Sscan(rew.V, &b); err != nil {
		return "unparsable"
	}
	d := b - a
	dir := "later"
	if d < 0 {
		dir, d = "earlier", -d
	}
	switch {
	case d%(w*1000000) == 0 && d == w*1000000:
		return dir + "-by-1-bucket"
	case d%(w*1000000) == 0:
		return dir + "-by-whole-buckets"
	case d < w*1000000:
		return dir + "-by-part-of-a-bucket"
	}
	return dir + "-by-more-than-a-bucket"
}

func (g *originGrid) classes() []violation { return g.viol }

func (g *originGrid) coverage() map[string]any {
	m := g.stat.cov()
	ws := make([]string, len(g.widths))
	for i, w := range g.widths {
		ws[i] = w.String() + " (" + wdiv(w.sec()) + ")"
	}
	os := make([]string, len(g.origins))
	for i, o := range g.origins {
		os[i] = o.Text + " (" + o.Kind + ")"
	}
	m["widths"] = ws
	m["origins"] = os
	m["fractions_us"] = g.fracs
	m["date_trunc_units"] = oDtU
	m["rows_per_statement_min"] = g.rowsMin
	m["rows_per_statement_max"] = g.rowsMax
	m["comparisons_per_fn_originkind_widthclass_relation"] = g.cells
	m["comparisons_where_the_origin_less_epoch_formula_would_differ"] = g.originMatters
	m["duckdb_vs_floor_model_disagreements"] = g.modelDisagree
	if g.modelExample != "" {
		m["duckdb_vs_floor_model_example"] = g.modelExample
	}
	m["distinct_bucket_starts"] = g.distinctBuckets
	m["classes"] = len(g.viol)
	m["bounds"] = "3-argument form: every width x every origin (always written TIMESTAMP '...': DuckDB rejects a bare string origin) x spellings x {TIMESTAMP, TIMESTAMPTZ column}; " +
		"2-argument form for the widths that divide 946857600 s; date_trunc second/minute/hour/day. Timestamps per case: origin, origin+{1s, w-1s, w, w+1s, 2w-1s, 2w, 3.5w, 1000w-1s, 1000w, 1000w+w/3}, " +
		"the whole hour and the midnight after the origin (-1s, 0, +1s), the second midnight, midnight+7d+1h, the anchors 1969-12-31 23:59:59 / epoch / epoch+1s / 2024-03-13 10:20:31 / 2024-03-14 00:00:00 / 2262-04-11 23:47:16, " +
		"origin-{1,2,3,1000}w (thorough also origin-100000w and origin+100000w+1s); an anchor before the origin is used only if it lies on a bucket boundary; every timestamp with every fraction of fractions_us (fractions only between 1840 and 2100)"
	return m
}
