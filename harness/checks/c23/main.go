// C23 — Cluster role assignments stay consistent.
// Explicit-state BFS over the real ClusterFSM: invariants evaluated in every reachable state,
// and a per-transition check that re-registering an existing node leaves the recorded role alone.
package main

import (
	"fmt"
	"sort"
	"strings"
	"sync"

	"github.com/basekick-labs/arc/zzverif/engine/ev"
	"github.com/basekick-labs/arc/zzverif/engine/xstate"
	"github.com/basekick-labs/arc/zzverif/fsmx"
)

type scenario struct {
	name  string
	seed  []fsmx.Cmd
	alpha []fsmx.Cmd
	depth int
}

type pre struct{ class, last string }

var (
	mu       sync.Mutex
	reps     = map[pre][]int{}
	repsScen = map[pre]*scenario{}
	inherit  sync.Map
	evals    int64
)

func report(sc *scenario, class string, hist []int) {
	last := ""
	if len(hist) > 0 {
		last = sc.alpha[hist[len(hist)-1]].Name
	}
	p := pre{class, last}
	mu.Lock()
	if old, ok := reps[p]; !ok || len(hist) < len(old) {
		reps[p] = append([]int{}, hist...)
		repsScen[p] = sc
	}
	mu.Unlock()
}

type roleView struct {
	primaryID string
	writer    map[string]string // node id -> WriterState
	role      map[string]string
}

func view(d fsmx.Dump) roleView {
	v := roleView{writer: map[string]string{}, role: map[string]string{}}
	v.primaryID, _ = d["primaryWriterID"].(string)
	if nodes, ok := d["nodes"].(map[string]any); ok {
		for id, n := range nodes {
			nm := n.(map[string]any)
			ws, _ := nm["writer_state"].(string)
			v.writer[id] = ws
			v.role[id], _ = nm["role"].(string)
		}
	}
	return v
}

// stateInvariants returns the violated invariant classes in state d.
func stateInvariants(d fsmx.Dump) map[string]bool {
	out := map[string]bool{}
	v := view(d)
	n := 0
	for _, ws := range v.writer {
		if ws == "primary" {
			n++
		}
	}
	if n > 1 {
		out["two-nodes-marked-primary"] = true
	}
	if v.primaryID != "" {
		ws, ok := v.writer[v.primaryID]
		if !ok {
			out["primary-id-names-missing-node"] = true
		} else if ws != "primary" {
			out["primary-id-names-node-not-marked-primary"] = true
		}
	}
	for _, o := range fsmx.RBACOrphans(d) {
		out["rbac-orphan:"+strings.Fields(o)[0]] = true
	}
	return out
}

func histClasses(sc *scenario, hist []int) map[string]bool {
	f := fsmx.Replay(sc.alpha, sc.seed, hist)
	d, _ := fsmx.Canon(f)
	return stateInvariants(d)
}

// transitionClasses: re-registration (AddNode of an id that already exists) must not change the
// recorded writer state of that node nor which node is the primary.
func transitionClasses(sc *scenario, hist []int, c int) map[string]bool {
	out := map[string]bool{}
	cmd := sc.alpha[c]
	if !strings.HasPrefix(cmd.Name, "AddNode(") {
		return out
	}
	id := strings.SplitN(strings.TrimPrefix(cmd.Name, "AddNode("), ",", 2)[0]
	f := fsmx.Replay(sc.alpha, sc.seed, hist)
	d0, _ := fsmx.Canon(f)
	v0 := view(d0)
	if _, exists := v0.writer[id]; !exists {
		return out
	}
	cmd.Apply(f, uint64(len(sc.seed)+len(hist)+1))
	d1, _ := fsmx.Canon(f)
	v1 := view(d1)
	if v0.role[id] == v1.role[id] { // same role re-registered
		if v0.writer[id] != v1.writer[id] {
			out["T:reregister-changes-writer-state"] = true
		}
		if v0.primaryID != v1.primaryID {
			out["T:reregister-changes-primary-id"] = true
		}
	}
	return out
}

func failsWith(sc *scenario, class string) func([]int) bool {
	return func(h []int) bool {
		if strings.HasPrefix(class, "T:") {
			if len(h) == 0 {
				return false
			}
			return transitionClasses(sc, h[:len(h)-1], h[len(h)-1])[class]
		}
		return histClasses(sc, h)[class]
	}
}

func main() {
	run := ev.Start("C23", "model_checking")
	quick := run.Quick()
	roles := map[string]string{"n1": "writer", "n2": "writer", "n3": "reader"} // n4 is never registered
	nodeAlpha := fsmx.NodeCmds([]string{"n1", "n2", "n3", "n4"}, roles)
	rbacAlpha := append(fsmx.RBACCmds([]int64{1, 2}, []int64{2, 3}, []int64{3, 4}, []int64{4, 5}, []int64{1, 2}), fsmx.TokenCmds([]int64{1})[:1]...)
	rbacSeeded := fsmx.RBACCmds([]int64{2, 7}, []int64{3, 8}, []int64{4}, []int64{5}, []int64{1})
	mixed := append(append([]fsmx.Cmd{}, fsmx.NodeCmds([]string{"n1", "n2"}, roles)...), fsmx.RBACCmds([]int64{1}, []int64{2}, []int64{3}, []int64{4}, []int64{1})...)
	scs := []*scenario{
		{name: "nodes: 3 registered ids + 1 unregistered", alpha: nodeAlpha, depth: pick(quick, 5, 6)},
		{name: "rbac from empty", alpha: rbacAlpha, depth: pick(quick, 4, 5)},
		{name: "rbac from full hierarchy", seed: fsmx.HierarchySeed(), alpha: rbacSeeded, depth: pick(quick, 3, 4)},
		{name: "nodes x rbac interleaved", alpha: mixed, depth: pick(quick, 4, 5)},
	}
	samples := ev.NewSamples(6)
	totalStates, totalTrans := 0, int64(0)
	complete := true
	var per []map[string]any
	for _, sc := range scs {
		sc := sc
		res := xstate.BFS(xstate.Config{NCmds: len(sc.alpha), MaxDepth: sc.depth, Stop: run.TimeUp,
			Expand: func(hist []int, wantKey string, leaf bool, visit func(int, string)) {
				f := fsmx.Replay(sc.alpha, sc.seed, hist)
				d, key := fsmx.Canon(f)
				key = fmt.Sprintf("%d|%s", len(hist), key)
				if wantKey != "" && key != wantKey {
					ev.Nondeterminism(fmt.Sprintf("C23 replay of %v produced a different state", fsmx.Names(sc.alpha, hist)))
				}
				viol := stateInvariants(d)
				var inh map[string]bool
				if v, ok := inherit.Load(wantKey); ok {
					inh = v.(map[string]bool)
				}
				for cl := range viol {
					if !inh[cl] {
						report(sc, cl, hist)
					}
				}
				mu.Lock()
				evals++
				mu.Unlock()
				if len(hist) == sc.depth {
					samples.Add(fsmx.Names(sc.alpha, hist))
				}
				if leaf {
					return
				}
				for c := range sc.alpha {
					for cl := range transitionClasses(sc, hist, c) {
						report(sc, cl, append(append([]int{}, hist...), c))
					}
					g := fsmx.Replay(sc.alpha, sc.seed, hist)
					sc.alpha[c].Apply(g, uint64(len(sc.seed)+len(hist)+1))
					_, sk := fsmx.Canon(g)
					sk = fmt.Sprintf("%d|%s", len(hist)+1, sk)
					if len(viol) > 0 {
						inherit.LoadOrStore(sk, viol)
					}
					visit(c, sk)
				}
			}})
		totalStates += res.States
		totalTrans += res.Transitions
		complete = complete && res.Complete
		per = append(per, map[string]any{"scenario": sc.name, "alphabet": len(sc.alpha), "seed_len": len(sc.seed), "depth": sc.depth,
			"states": res.States, "transitions": res.Transitions, "per_depth_frontier": res.PerDepth, "complete": res.Complete})
		fmt.Printf("scenario %q: alphabet=%d depth=%d states=%d transitions=%d complete=%v\n", sc.name, len(sc.alpha), sc.depth, res.States, res.Transitions, res.Complete)
	}
	keys := make([]pre, 0, len(reps))
	for p := range reps {
		keys = append(keys, p)
	}
	sort.Slice(keys, func(i, j int) bool { return keys[i].class+keys[i].last < keys[j].class+keys[j].last })
	for _, p := range keys {
		sc := repsScen[p]
		min := ev.Minimize(reps[p], failsWith(sc, p.class))
		names := fsmx.Names(sc.alpha, min)
		seedNote := ""
		if len(sc.seed) > 0 {
			seedNote = "seed=hierarchy;"
		}
		run.Violate(p.class+"|"+seedNote+strings.Join(names, ";"), "invariant "+p.class+" is false after this command history",
			map[string]any{"scenario": sc.name, "history": names, "found_at": fsmx.Names(sc.alpha, reps[p])})
	}
	run.Coverage["states"] = totalStates
	run.Coverage["transitions"] = totalTrans
	run.Coverage["traces_validated_against_impl"] = totalTrans
	run.Coverage["samples"] = samples.List()
	run.Coverage["exhaustive"] = complete
	run.Coverage["scenarios"] = per
	run.Coverage["invariant_evaluations"] = evals
	run.Assume("AddNode payloads have exactly the fields the join paths set (no WriterState); UpdateNode is a read-modify-write of the current record")
	run.Assume("node ids n1,n2 (writers), n3 (reader), n4 (never registered); RBAC ids as in C22; depth bound per scenario as reported")
	run.Finish()
}

func pick(q bool, a, b int) int {
	if q {
		return a
	}
	return b
}
