// C23 — Cluster role assignments stay consistent.
// Explicit-state BFS over the real ClusterFSM: invariants evaluated in every reachable state,
// and a per-transition check that re-registering an existing node leaves the recorded role alone.
// A product pass then installs the snapshot of every reachable state onto FSMs that already hold
// another reachable state (InstallSnapshot on a lagging follower): the role invariants and the role
// assignment of the snapshot's state must hold in the result and after one more command.
package main

import (
	"encoding/json"
	"fmt"
	"runtime/debug"
	"sort"
	"strings"
	"sync"

	"github.com/basekick-labs/arc/zzverif/engine/ev"
	"github.com/basekick-labs/arc/zzverif/engine/xstate"
	"github.com/basekick-labs/arc/zzverif/fsmx"
)

type scenario struct {
	name  string
	seed  []fsmx.Cmd
	alpha []fsmx.Cmd
	depth int
	recs  [][]rec // distinct reachable states by depth
}

// rec is one distinct reachable state: representative history, bytes of a Snapshot+Persist taken in
// it, and its un-normalised dump.
type rec struct {
	hist []int
	b    []byte
	fp   uint64 // fingerprint of the state's dump (vacuity counter only)
}

type pre struct{ class, last string }

var (
	mu       sync.Mutex
	reps     = map[pre][]int{}
	repsScen = map[pre]*scenario{}
	inherit  sync.Map
	evals    int64
)

func report(sc *scenario, class string, hist []int) {
	last := ""
	if len(hist) > 0 {
		last = sc.alpha[hist[len(hist)-1]].Name
	}
	p := pre{class, last}
	mu.Lock()
	if old, ok := reps[p]; !ok || fsmx.LessHist(hist, old) {
		reps[p] = append([]int{}, hist...)
		repsScen[p] = sc
	}
	mu.Unlock()
}

type roleView struct {
	primaryID string
	writer    map[string]string // node id -> WriterState
	role      map[string]string
}

func view(d fsmx.Dump) roleView {
	v := roleView{writer: map[string]string{}, role: map[string]string{}}
	v.primaryID, _ = d["primaryWriterID"].(string)
	if nodes, ok := d["nodes"].(map[string]any); ok {
		for id, n := range nodes {
			nm := n.(map[string]any)
			ws, _ := nm["writer_state"].(string)
			v.writer[id] = ws
			v.role[id], _ = nm["role"].(string)
		}
	}
	return v
}

// stateInvariants returns the violated invariant classes in state d.
func stateInvariants(d fsmx.Dump) map[string]bool {
	out := map[string]bool{}
	v := view(d)
	n := 0
	for _, ws := range v.writer {
		if ws == "primary" {
			n++
		}
	}
	if n > 1 {
		out["two-nodes-marked-primary"] = true
	}
	if v.primaryID != "" {
		ws, ok := v.writer[v.primaryID]
		if !ok {
			out["primary-id-names-missing-node"] = true
		} else if ws != "primary" {
			out["primary-id-names-node-not-marked-primary"] = true
		}
	}
	for _, o := range fsmx.RBACOrphans(d) {
		out["rbac-orphan:"+strings.Fields(o)[0]] = true
	}
	return out
}

func histClasses(sc *scenario, hist []int) map[string]bool {
	f := fsmx.Replay(sc.alpha, sc.seed, hist)
	d, _ := fsmx.Canon(f)
	return stateInvariants(d)
}

// transitionClasses: re-registration (AddNode of an id that already exists) must not change the
// recorded writer state of that node nor which node is the primary.
func transitionClasses(sc *scenario, hist []int, c int) map[string]bool {
	out := map[string]bool{}
	cmd := sc.alpha[c]
	if !strings.HasPrefix(cmd.Name, "AddNode(") {
		return out
	}
	id := strings.SplitN(strings.TrimPrefix(cmd.Name, "AddNode("), ",", 2)[0]
	f := fsmx.Replay(sc.alpha, sc.seed, hist)
	d0, _ := fsmx.Canon(f)
	v0 := view(d0)
	if _, exists := v0.writer[id]; !exists {
		return out
	}
	cmd.Apply(f, uint64(len(sc.seed)+len(hist)+1))
	d1, _ := fsmx.Canon(f)
	v1 := view(d1)
	if v0.role[id] == v1.role[id] { // same role re-registered
		if v0.writer[id] != v1.writer[id] {
			out["T:reregister-changes-writer-state"] = true
		}
		if v0.primaryID != v1.primaryID {
			out["T:reregister-changes-primary-id"] = true
		}
	}
	return out
}

func failsWith(sc *scenario, class string) func([]int) bool {
	return func(h []int) bool {
		if strings.HasPrefix(class, "T:") {
			if len(h) == 0 {
				return false
			}
			return transitionClasses(sc, h[:len(h)-1], h[len(h)-1])[class]
		}
		return histClasses(sc, h)[class]
	}
}

// ---- snapshot installed onto an FSM that already holds state ---------------------------------------

type target struct {
	names []string
	cmds  []fsmx.Cmd
	fp    uint64
}

func mkTarget(sc *scenario, hist []int) target {
	t := target{}
	t.cmds = append(t.cmds, sc.seed...)
	if len(sc.seed) > 0 {
		t.names = append(t.names, "seed=hierarchy")
	}
	for _, h := range hist {
		t.cmds = append(t.cmds, sc.alpha[h])
		t.names = append(t.names, sc.alpha[h].Name)
	}
	return t
}

// richTargets: followers holding nodes in every role marking plus (second one) the RBAC hierarchy.
func richTargets() []target {
	roles := map[string]string{"n1": "writer", "n2": "writer", "n3": "reader"}
	n := fsmx.NodeCmds([]string{"n1", "n2", "n3"}, roles)
	pickCmd := func(name string) fsmx.Cmd {
		for _, c := range n {
			if c.Name == name {
				return c
			}
		}
		panic("no command " + name)
	}
	a := []fsmx.Cmd{pickCmd("AddNode(n1,writer)"), pickCmd("AddNode(n2,writer)"), pickCmd("AddNode(n3,reader)"), pickCmd("Promote(n1)"), pickCmd("AssignCompactor(n3)")}
	mk := func(cs []fsmx.Cmd) target {
		t := target{cmds: cs}
		for _, c := range cs {
			t.names = append(t.names, c.Name)
		}
		fsmx.Prepare(cs)
		f := fsmx.Build(cs)
		t.fp = fsmx.Fingerprint(f)
		d, _ := fsmx.Canon(f)
		want := []string{"nodes", "primaryWriterID", "activeCompactorID"}
		if len(cs) > len(a) {
			want = append(want, "tokens", "organizations", "teams", "roles", "measurementPermissions", "tokenMemberships")
		}
		for _, k := range want {
			if x, _ := json.Marshal(d[k]); len(x) <= 2 {
				ev.Unbound("C23 rich snapshot-install target holds no " + k + " (alphabet drifted)")
			}
		}
		return t
	}
	// the hierarchy goes first: its commands refer to ids stamped from log positions 1..8
	return []target{mk(a), mk(append(append([]fsmx.Cmd{}, fsmx.HierarchySeed()...), a...))}
}

var roleKeys = []string{"nodes", "primaryWriterID", "activeCompactorID"}

// judge compares the state dt reached through the snapshot install with the reference state ds
// (straight replay): invariant classes dt violates and ds does not, plus any difference in the role
// assignment (node records, primary writer id, compactor id).
func judge(prefix string, ds, dt fsmx.Dump) []string {
	var out []string
	own := stateInvariants(ds)
	for cl := range stateInvariants(dt) {
		if !own[cl] {
			out = append(out, prefix+cl)
		}
	}
	for _, k := range roleKeys {
		x, _ := json.Marshal(ds[k])
		y, _ := json.Marshal(dt[k])
		if string(x) != string(y) {
			out = append(out, prefix+"role-state-differs")
			break
		}
	}
	sort.Strings(out)
	return out
}

const (
	ontoPrefix  = "restore-onto-nonfresh:"
	onto1Prefix = "restore-onto-nonfresh+1:"
)

// ontoClasses evaluates one case from scratch (minimiser + reference implementation of the bulk pass):
// snapshot of seed+hist installed onto an FSM that replayed tcmds; then >= 0: one more command
// applied to both the straight replay and the installed FSM.
func ontoClasses(sc *scenario, hist []int, tcmds []fsmx.Cmd, then int) []string {
	s := fsmx.Replay(sc.alpha, sc.seed, hist)
	b, err := fsmx.SnapshotBytes(s)
	if err != nil {
		return nil
	}
	t := fsmx.Build(tcmds)
	if err := fsmx.RestoreOnto(t, b); err != nil {
		return []string{ontoPrefix + "error"}
	}
	prefix := ontoPrefix
	if then >= 0 {
		idx := uint64(len(sc.seed) + len(hist) + 1)
		sc.alpha[then].Apply(s, idx)
		sc.alpha[then].Apply(t, idx)
		prefix = onto1Prefix
	}
	ds, _ := fsmx.Canon(s)
	dt, _ := fsmx.Canon(t)
	return judge(prefix, ds, dt)
}

type ontoCase struct {
	sc   *scenario
	hist []int
	tgt  target
	then int
}

var ontoReps = map[string]ontoCase{}

func ontoLess(a, b ontoCase) bool {
	if x, y := len(a.hist)+len(a.tgt.cmds), len(b.hist)+len(b.tgt.cmds); x != y {
		return x < y
	}
	if len(a.hist) != len(b.hist) {
		return len(a.hist) < len(b.hist)
	}
	if x, y := strings.Join(a.tgt.names, ";"), strings.Join(b.tgt.names, ";"); x != y {
		return x < y
	}
	if a.then != b.then {
		return a.then < b.then
	}
	return fsmx.LessHist(a.hist, b.hist)
}

func reportOnto(class string, c ontoCase) {
	mu.Lock()
	if old, ok := ontoReps[class]; !ok || ontoLess(c, old) {
		ontoReps[class] = c
	}
	mu.Unlock()
}

func has(l []string, x string) bool {
	for _, e := range l {
		if e == x {
			return true
		}
	}
	return false
}

// ontoPass runs the product for one scenario. Returns (pairs, pairs where the target held another
// state, +1 evaluations, complete).
func ontoPass(sc *scenario, quick bool, rich []target, stop func() bool) (int64, int64, int64, bool) {
	lim := pick(quick, 2, 3)
	// triangular product: the many deepest states meet the fewer shallow targets.
	// quick: depth-bound states -> the scenario root only, every other state -> all targets at depth <= 2;
	// thorough: state at depth k -> all targets at depth <= min(3, bound-k).
	tdepth := func(k int) int {
		if quick {
			if k == sc.depth {
				return 0
			}
			return lim
		}
		if rem := sc.depth - k; rem < lim {
			return rem
		}
		return lim
	}
	var tg [][]target
	for d := 0; d <= sc.depth && d <= lim; d++ {
		var l []target
		for _, r := range sc.recs[d] {
			t := mkTarget(sc, r.hist)
			t.fp = r.fp
			l = append(l, t)
		}
		tg = append(tg, l)
	}
	var ss []rec
	for d := 0; d <= sc.depth; d++ {
		ss = append(ss, sc.recs[d]...)
	}
	var pairs, held, plus1 int64
	ok := fsmx.ParallelFor(len(ss), stop, func(i int) {
		s := ss[i]
		k := len(s.hist)
		ds, _ := fsmx.Canon(fsmx.Replay(sc.alpha, sc.seed, s.hist))
		fr, err := fsmx.RestoreFrom(s.b)
		if err != nil {
			reportOnto(ontoPrefix+"error", ontoCase{sc, s.hist, target{}, -1})
			return
		}
		rawFresh := fsmx.Raw(fr)
		dfr, _ := fsmx.Canon(fr)
		clsFresh := judge(ontoPrefix, ds, dfr)
		// +1 step (snapshot states at depth <= bound-2, targets at depth <= 2): references per command
		doPlus := k <= sc.depth-2
		type ref1 struct {
			ds  fsmx.Dump
			raw string
			cls []string
		}
		var refs []ref1
		idx := uint64(len(sc.seed) + k + 1)
		if doPlus {
			for c := range sc.alpha {
				sr := fsmx.Replay(sc.alpha, sc.seed, s.hist)
				sc.alpha[c].Apply(sr, idx)
				d1, _ := fsmx.Canon(sr)
				f1, _ := fsmx.RestoreFrom(s.b)
				sc.alpha[c].Apply(f1, idx)
				df1, _ := fsmx.Canon(f1)
				refs = append(refs, ref1{d1, fsmx.Raw(f1), judge(onto1Prefix, d1, df1)})
			}
		}
		var n, h, p1 int64
		try := func(t target, plusOK bool) {
			n++
			if t.fp != s.fp {
				h++
			}
			ft := fsmx.Build(t.cmds)
			if err := fsmx.RestoreOnto(ft, s.b); err != nil {
				reportOnto(ontoPrefix+"error", ontoCase{sc, s.hist, t, -1})
				return
			}
			cls := clsFresh
			if fsmx.Raw(ft) != rawFresh {
				dt, _ := fsmx.Canon(ft)
				cls = judge(ontoPrefix, ds, dt)
			}
			for _, cl := range cls {
				reportOnto(cl, ontoCase{sc, s.hist, t, -1})
			}
			if len(cls) > 0 || !doPlus || !plusOK {
				return
			}
			for c := range sc.alpha {
				p1++
				f2 := fsmx.Build(t.cmds)
				if fsmx.RestoreOnto(f2, s.b) != nil {
					continue
				}
				sc.alpha[c].Apply(f2, idx)
				cls1 := refs[c].cls
				if fsmx.Raw(f2) != refs[c].raw {
					d2, _ := fsmx.Canon(f2)
					cls1 = judge(onto1Prefix, refs[c].ds, d2)
				}
				for _, cl := range cls1 {
					reportOnto(cl, ontoCase{sc, s.hist, t, c})
				}
			}
		}
		td := tdepth(k)
		for d := 0; d <= td && d < len(tg); d++ {
			for _, t := range tg[d] {
				try(t, d <= 1)
			}
		}
		for j := td + 1; j < k; j++ { // the lagging follower: deeper proper prefixes of s's own history
			t := mkTarget(sc, s.hist[:j])
			t.fp = fsmx.Fingerprint(fsmx.Build(t.cmds))
			try(t, true)
		}
		for _, t := range rich {
			try(t, true)
		}
		mu.Lock()
		pairs += n
		held += h
		plus1 += p1
		mu.Unlock()
	})
	return pairs, held, plus1, ok
}

func main() {
	debug.SetGCPercent(400) // allocation-heavy (JSON in Apply/Restore/dump), small live heap: trade memory for GC time
	run := ev.Start("C23", "model_checking")
	quick := run.Quick()
	roles := map[string]string{"n1": "writer", "n2": "writer", "n3": "reader"} // n4 is never registered
	nodeAlpha := fsmx.NodeCmds([]string{"n1", "n2", "n3", "n4"}, roles)
	rbacAlpha := append(fsmx.RBACCmds([]int64{1, 2}, []int64{2, 3}, []int64{3, 4}, []int64{4, 5}, []int64{1, 2}), fsmx.TokenCmds([]int64{1})[:1]...)
	rbacSeeded := fsmx.RBACCmds([]int64{2, 7}, []int64{3, 8}, []int64{4}, []int64{5}, []int64{1})
	mixed := append(append([]fsmx.Cmd{}, fsmx.NodeCmds([]string{"n1", "n2"}, roles)...), fsmx.RBACCmds([]int64{1}, []int64{2}, []int64{3}, []int64{4}, []int64{1})...)
	scs := []*scenario{
		{name: "nodes: 3 registered ids + 1 unregistered", alpha: nodeAlpha, depth: pick(quick, 5, 6)},
		{name: "rbac from empty", alpha: rbacAlpha, depth: pick(quick, 4, 5)},
		{name: "rbac from full hierarchy", seed: fsmx.HierarchySeed(), alpha: rbacSeeded, depth: pick(quick, 3, 4)},
		{name: "nodes x rbac interleaved", alpha: mixed, depth: pick(quick, 4, 5)},
	}
	samples := ev.NewSamples(6)
	totalStates, totalTrans := 0, int64(0)
	complete := true
	var per []map[string]any
	for _, sc := range scs {
		sc := sc
		fsmx.Prepare(sc.alpha)
		fsmx.Prepare(sc.seed)
		sc.recs = make([][]rec, sc.depth+1)
		res := xstate.BFS(xstate.Config{NCmds: len(sc.alpha), MaxDepth: sc.depth, Stop: run.TimeUp,
			Expand: func(hist []int, wantKey string, leaf bool, visit func(int, string)) {
				f := fsmx.Replay(sc.alpha, sc.seed, hist)
				d, key := fsmx.Canon(f)
				key = fmt.Sprintf("%d|%s", len(hist), key)
				if wantKey != "" && key != wantKey {
					ev.Nondeterminism(fmt.Sprintf("C23 replay of %v produced a different state", fsmx.Names(sc.alpha, hist)))
				}
				viol := stateInvariants(d)
				if b, err := fsmx.SnapshotBytes(f); err == nil {
					mu.Lock()
					sc.recs[len(hist)] = append(sc.recs[len(hist)], rec{hist: append([]int{}, hist...), b: b, fp: fsmx.Fingerprint(f)})
					mu.Unlock()
				} else {
					report(sc, "snapshot-error", hist)
				}
				var inh map[string]bool
				if v, ok := inherit.Load(wantKey); ok {
					inh = v.(map[string]bool)
				}
				for cl := range viol {
					if !inh[cl] {
						report(sc, cl, hist)
					}
				}
				mu.Lock()
				evals++
				mu.Unlock()
				if len(hist) == sc.depth {
					samples.Add(fsmx.Names(sc.alpha, hist))
				}
				if leaf {
					return
				}
				for c := range sc.alpha {
					for cl := range transitionClasses(sc, hist, c) {
						report(sc, cl, append(append([]int{}, hist...), c))
					}
					g := fsmx.Replay(sc.alpha, sc.seed, hist)
					sc.alpha[c].Apply(g, uint64(len(sc.seed)+len(hist)+1))
					_, sk := fsmx.Canon(g)
					sk = fmt.Sprintf("%d|%s", len(hist)+1, sk)
					if len(viol) > 0 {
						inherit.LoadOrStore(sk, viol)
					}
					visit(c, sk)
				}
			}})
		totalStates += res.States
		totalTrans += res.Transitions
		complete = complete && res.Complete
		per = append(per, map[string]any{"scenario": sc.name, "alphabet": len(sc.alpha), "seed_len": len(sc.seed), "depth": sc.depth,
			"states": res.States, "transitions": res.Transitions, "per_depth_frontier": res.PerDepth, "complete": res.Complete})
		fmt.Printf("scenario %q: alphabet=%d depth=%d states=%d transitions=%d complete=%v\n", sc.name, len(sc.alpha), sc.depth, res.States, res.Transitions, res.Complete)
		for _, l := range sc.recs {
			sort.Slice(l, func(i, j int) bool { return fsmx.LessHist(l[i].hist, l[j].hist) })
		}
	}
	rich := richTargets()
	var ontoCov []map[string]any
	var ontoPairs, ontoPlus1 int64
	for _, sc := range scs {
		pairs, held, plus1, ok := ontoPass(sc, quick, rich, run.TimeUp)
		complete = complete && ok
		ontoPairs += pairs
		ontoPlus1 += plus1
		ontoCov = append(ontoCov, map[string]any{"scenario": sc.name, "pairs": pairs, "pairs_target_held_another_state": held, "plus_one_command_evaluations": plus1, "complete": ok})
		fmt.Printf("scenario %q: snapshot-install pass: %d (snapshot,target) pairs (%d onto a different state), %d one-more-command evaluations complete=%v\n", sc.name, pairs, held, plus1, ok)
	}
	keys := make([]pre, 0, len(reps))
	for p := range reps {
		keys = append(keys, p)
	}
	sort.Slice(keys, func(i, j int) bool { return keys[i].class+keys[i].last < keys[j].class+keys[j].last })
	for _, p := range keys {
		sc := repsScen[p]
		min := ev.Minimize(reps[p], failsWith(sc, p.class))
		names := fsmx.Names(sc.alpha, min)
		seedNote := ""
		if len(sc.seed) > 0 {
			seedNote = "seed=hierarchy;"
		}
		run.Violate(p.class+"|"+seedNote+strings.Join(names, ";"), "invariant "+p.class+" is false after this command history",
			map[string]any{"scenario": sc.name, "history": names, "found_at": fsmx.Names(sc.alpha, reps[p])})
	}
	var ocl []string
	for cl := range ontoReps {
		ocl = append(ocl, cl)
	}
	sort.Strings(ocl)
	for _, class := range ocl {
		c := ontoReps[class]
		sc, tc := c.sc, c.tgt.cmds
		minH := ev.Minimize(c.hist, func(h []int) bool { return has(ontoClasses(sc, h, tc, c.then), class) })
		ix := make([]int, len(tc))
		for i := range ix {
			ix[i] = i
		}
		sub := func(l []int) []fsmx.Cmd {
			var o []fsmx.Cmd
			for _, i := range l {
				o = append(o, tc[i])
			}
			return o
		}
		minT := sub(ev.Minimize(ix, func(l []int) bool { return has(ontoClasses(sc, minH, sub(l), c.then), class) }))
		seedNote := ""
		if len(sc.seed) > 0 {
			seedNote = "seed=hierarchy;"
		}
		var tn []string
		for _, x := range minT {
			tn = append(tn, x.Name)
		}
		sig := class + "|snapshot-of=" + snapName(seedNote, fsmx.Names(sc.alpha, minH)) + "|onto=" + ontoName(tn)
		rep := map[string]any{"scenario": sc.name, "snapshot_of": fsmx.Names(sc.alpha, minH), "installed_onto_fsm_that_applied": tn,
			"found_at": map[string]any{"snapshot_of": fsmx.Names(sc.alpha, c.hist), "installed_onto": c.tgt.names}}
		if c.then >= 0 {
			sig += "|then=" + sc.alpha[c.then].Name
			rep["then"] = sc.alpha[c.then].Name
		}
		run.Violate(sig, "after installing the snapshot of the first history onto an FSM that had already applied the second history, "+strings.TrimPrefix(strings.TrimPrefix(class, onto1Prefix), ontoPrefix)+" (relative to the state the snapshot was taken from)", rep)
	}
	run.Coverage["snapshot_install"] = ontoCov
	run.Coverage["snapshot_install_pairs"] = ontoPairs
	run.Coverage["snapshot_install_plus_one_evaluations"] = ontoPlus1
	run.Coverage["snapshot_install_bound"] = "snapshot of every reachable state (depth k) installed with the real Restore onto every reachable state of the same scenario at depth <= " + pick2(quick, "2 (k < bound) / the scenario root only (k = bound)", "min(3, bound-k)") + ", onto every deeper proper prefix of its own history (lagging follower) and onto " + fmt.Sprint(len(rich)) + " rich targets; for k <= bound-2 and targets at depth <= 1 / prefixes / rich, every alphabet command is applied afterwards"
	run.Coverage["states"] = totalStates
	run.Coverage["transitions"] = totalTrans
	run.Coverage["traces_validated_against_impl"] = totalTrans
	run.Coverage["samples"] = samples.List()
	run.Coverage["exhaustive"] = complete
	run.Coverage["scenarios"] = per
	run.Coverage["invariant_evaluations"] = evals
	run.Assume("AddNode payloads have exactly the fields the join paths set (no WriterState); UpdateNode is a read-modify-write of the current record")
	run.Assume("node ids n1,n2 (writers), n3 (reader), n4 (never registered); RBAC ids as in C22; depth bound per scenario as reported")
	run.Finish()
}

func ontoName(names []string) string {
	if len(names) == 0 {
		return "<fresh FSM>"
	}
	return strings.Join(names, ";")
}

func snapName(seedNote string, names []string) string {
	if seedNote == "" && len(names) == 0 {
		return "<empty state>"
	}
	return seedNote + strings.Join(names, ";")
}

func pick2(q bool, a, b string) string {
	if q {
		return a
	}
	return b
}

func pick(q bool, a, b int) int {
	if q {
		return a
	}
	return b
}
