// C30 — Requests are served by a capable node after at most one forward.
//
// Exhaustive configuration enumeration on the real code: 1..4 in-process nodes, each a real
// api.Server (fiber app + production middleware) with the real MsgPack / LineProtocol / TLE /
// Query handlers, a real ArrowBuffer on its own LocalBackend, its own DuckDB and its own real
// cluster.Router + cluster.Registry. The routers' http.Transport (RouterConfig.Transport) dials
// fasthttputil in-memory listeners served by the other nodes' fiber apps, so a forward is a real
// HTTP/1.1 exchange through BuildHTTPRequest -> Router.RouteWrite/RouteQuery -> doForward ->
// the peer's fasthttp server -> CopyResponse. Nothing of the routing logic is modelled.
//
// Observation per node and per case: inbound requests (harness middleware in front of the routes,
// with the X-Arc-Forwarded-By value seen), local write processing (recording ingest.WALWriter wired
// with ArrowBuffer.SetWAL + the buffer's own total_records_buffered counter; later the flushed Parquet
// files of the node's store), local query execution (the node's real queryregistry history and a
// per-node marker measurement whose row count identifies the node in the response).
//
// Containment: every client request carries a neutral X-C30-Case header (copied by the forwarding path like any
// other header) so that inbound requests are attributed to the case that caused them; a case is read only after no
// request is inside any node's handler chain; a forwarding loop (only possible on a broken tree) is cut by the
// harness middleware after 6 inbound requests, when "more than one hop" is already established.
//
// Request histories (history.go): besides the single-request cases (fresh cluster per case), sequences of 2 (quick) /
// 2-3 (thorough) requests are sent to the SAME receiving node of ONE long-lived cluster of 2-3 nodes, with one
// membership/registry transition between consecutive requests (peer unhealthy / failed / healthy again, writer
// promoted or demoted, peer unregistered / registered, recorded role changed, peer restarted with another role, peer
// crashed without any registry noticing), applied through the registry's production mutation paths; every request is judged against the cluster as it stands then.
// This covers routing state carried from one request to the next (cached targets, negative caches, rotation state).
//
// Oracle (judge): incapable-node-processed, forwarded-more-than-once, processed-more-than-once,
// capable-receiver-did-not-serve, success-without-processing / error-but-processed, not-forwarded-to-capable-peer,
// and - where forwards are ADDRESSED, from the per-node inbound observation - forward-delivered-to-incapable-node (an
// inter-node delivery may only arrive at a member whose role as recorded in the registries can serve the request kind)
// and forward-delivered-to-several-nodes (all deliveries of one client request arrive at one and the same node).
// The routers run with RouterConfig.Retries left at 0 (NewRouter's production default, read back through Router.Stats
// and recorded), so that a peer that is recorded healthy but refuses connections (crashed-undetected, or "crash" in a
// history) drives the real retry loop of Router.forwardRequest; router.go's clock is virtual (overlay "time"), so a
// back-off between attempts takes no wall time.
// Violations are minimised (drop header, drop peers, reset attributes) to a class signature
// "<oracle>|<kind>|hdr=..|recv=..|peers=[..]"; a failure that needs a history (the last request alone, on a fresh cluster
// in the final state, does not fail) to "<oracle>|history|<req>;<transition>(peerK[,role]);<req>|hdr=absent|recv=..|peers=[..]"
// (peers = the cluster before the first request). Mutations and candidate fixes are applied with an overlay
// "replace" (see BUILDERS.md), never by editing /repo.
package main

import (
	"bytes"
	"context"
	"encoding/json"
	"errors"
	"fmt"
	"io"
	"io/fs"
	"math/rand"
	"net"
	"net/http"
	"os"
	"path/filepath"
	"runtime"
	"sort"
	"strconv"
	"strings"
	"sync"
	"sync/atomic"
	"syscall"
	"time"

	"github.com/Basekick-Labs/msgpack/v6"
	"github.com/apache/arrow-go/v18/arrow/ipc"
	"github.com/basekick-labs/arc/internal/api"
	"github.com/basekick-labs/arc/internal/cluster"
	"github.com/basekick-labs/arc/internal/config"
	"github.com/basekick-labs/arc/internal/database"
	"github.com/basekick-labs/arc/internal/ingest"
	"github.com/basekick-labs/arc/internal/queryregistry"
	"github.com/basekick-labs/arc/internal/storage"
	"github.com/basekick-labs/arc/zzverif/engine/ev"
	"github.com/basekick-labs/arc/zzverif/hx"
	"github.com/basekick-labs/arc/zzverif/shim/vclock"
	"github.com/gofiber/fiber/v2"
	"github.com/rs/zerolog"
	"github.com/valyala/fasthttp/fasthttputil"
)

// ---------------------------------------------------------------------------------------------
// configuration space

const maxNodes = 4

// roles, by the letter used in signatures
var roleOf = map[byte]cluster.NodeRole{'S': cluster.RoleStandalone, 'W': cluster.RoleWriter, 'R': cluster.RoleReader, 'C': cluster.RoleCompactor}
var roleName = map[byte]string{'S': "standalone", 'W': "writer", 'R': "reader", 'C': "compactor"}
var roleLetters = []byte{'S', 'W', 'R', 'C'}

// nodeCfg is one node of a configuration.
//
//	Real   role the node really runs with (its router's LocalNode.Role)
//	Rec    role recorded for the node in the OTHER nodes' registries (Rec != Real: stale view)
//	WS     writer state recorded for it: '-' none, 'p' primary, 's' standby (only when Rec == 'W')
//	Health 'h' recorded healthy and reachable, 'u' recorded unhealthy (reachable), 'f' failed: recorded dead and
//	       unreachable, 'x' crashed but not yet detected: recorded healthy, unreachable (peers only)
//	Router false = the node has no cluster router wired into its handlers (receiving node only)
//	Gone   true = the node runs but is not a member: no other node's registry has an entry for it (peers only;
//	       used by the request histories, where "peer unregistered" / "peer registered" are transitions)
type nodeCfg struct {
	Real, Rec, WS, Health byte
	Router                bool
	Gone                  bool
}

func (n nodeCfg) stale() bool { return n.Rec != n.Real }

func (n nodeCfg) String() string {
	s := roleName[n.Real]
	var attrs []string
	if n.stale() {
		attrs = append(attrs, "seen-as="+roleName[n.Rec])
	}
	switch n.WS {
	case 'p':
		attrs = append(attrs, "primary")
	case 's':
		attrs = append(attrs, "standby")
	}
	switch n.Health {
	case 'u':
		attrs = append(attrs, "unhealthy")
	case 'f':
		attrs = append(attrs, "failed")
	case 'x':
		attrs = append(attrs, "crashed-undetected")
	}
	if !n.Router {
		attrs = append(attrs, "no-router")
	}
	if n.Gone {
		attrs = append(attrs, "unregistered")
	}
	if len(attrs) > 0 {
		s += "(" + strings.Join(attrs, ",") + ")"
	}
	return s
}

func (n nodeCfg) key() string {
	r := byte('r')
	if !n.Router {
		r = '-'
	}
	if n.Gone {
		return string([]byte{n.Real, n.Rec, n.WS, n.Health, r, 'g'})
	}
	return string([]byte{n.Real, n.Rec, n.WS, n.Health, r})
}

func (n nodeCfg) up() bool { return n.Health == 'h' || n.Health == 'u' }

// request kinds
type kindDef struct {
	Name    string
	IsWrite bool
	Primary bool // the three kinds named by the property's mechanism; the others are the sibling endpoints
}

const (
	kMsgpack = iota
	kLP
	kLPv1
	kLPv2
	kTLE
	kQuery
	kQueryShow
	kQueryMsgpack
	kQueryArrow
	kQueryEstimate
	kQueryMeasurement
	nKinds
)

var kinds = [nKinds]kindDef{
	kMsgpack:          {"write-msgpack", true, true},
	kLP:               {"write-lp", true, true},
	kLPv1:             {"write-lp-influx1", true, false},
	kLPv2:             {"write-lp-influx2", true, false},
	kTLE:              {"write-tle", true, false},
	kQuery:            {"query", false, true},
	kQueryShow:        {"query-show", false, true},
	kQueryMsgpack:     {"query-msgpack", false, false},
	kQueryArrow:       {"query-arrow", false, false},
	kQueryEstimate:    {"query-estimate", false, false},
	kQueryMeasurement: {"query-measurement", false, false},
}

// client-supplied X-Arc-Forwarded-By
const (
	hAbsent = iota
	hJunk
	hSelf  // the receiving node's own id
	hPeer  // the id of another node of the cluster (N >= 2)
	hLower // junk value, header name sent in lower case
	nHdrs
)

var hdrName = [nHdrs]string{"absent", "junk", "self-id", "peer-id", "junk-lowercase-name"}

type caseCfg struct {
	Nodes []nodeCfg // [0] = receiving node, the rest = peers (order irrelevant: canonical = sorted)
	Kind  int
	Hdr   int
}

func (c caseCfg) clone() caseCfg {
	return caseCfg{Nodes: append([]nodeCfg{}, c.Nodes...), Kind: c.Kind, Hdr: c.Hdr}
}

func (c caseCfg) canon() caseCfg {
	o := c.clone()
	p := o.Nodes[1:]
	sort.Slice(p, func(i, j int) bool { return p[i].key() < p[j].key() })
	return o
}

func (c caseCfg) String() string {
	c = c.canon()
	var ps []string
	for _, p := range c.Nodes[1:] {
		ps = append(ps, p.String())
	}
	return fmt.Sprintf("%s|hdr=%s|recv=%s|peers=[%s]", kinds[c.Kind].Name, hdrName[c.Hdr], c.Nodes[0], strings.Join(ps, ","))
}

func (c caseCfg) key() string {
	c = c.canon()
	var b strings.Builder
	fmt.Fprintf(&b, "%d/%d", c.Kind, c.Hdr)
	for _, n := range c.Nodes {
		b.WriteByte('/')
		b.WriteString(n.key())
	}
	return b.String()
}

// ---------------------------------------------------------------------------------------------
// the in-process cluster ("chassis": built once per worker, re-wired per case)

type inboundRec struct {
	Path  string
	FwdBy string
	Has   bool
}

type walRec struct {
	mu     sync.Mutex
	events []string // one rendered string per append call
}

func (w *walRec) add(s string) { w.mu.Lock(); w.events = append(w.events, s); w.mu.Unlock() }
func (w *walRec) Append(records []map[string]interface{}) error {
	w.add(fmt.Sprint(records))
	return nil
}
func (w *walRec) AppendRaw(payload []byte) error { w.add(string(payload)); return nil }
func (w *walRec) AppendRawWithMeta(database string, payload []byte) error {
	w.add(database + "\x00" + string(payload))
	return nil
}
func (w *walRec) Stats() map[string]interface{} { return map[string]interface{}{} }
func (w *walRec) Close() error                  { return nil }
func (w *walRec) take() []string {
	w.mu.Lock()
	defer w.mu.Unlock()
	e := w.events
	w.events = nil
	return e
}

type node struct {
	idx   int
	id    string
	addr  string
	dir   string
	store *storage.LocalBackend
	db    *database.DuckDB
	buf   *ingest.ArrowBuffer
	wal   *walRec
	srv   *api.Server
	app   *fiber.App
	ln    *fasthttputil.InmemoryListener
	mp    *api.MsgPackHandler
	lp    *api.LineProtocolHandler
	tle   *api.TLEHandler
	qh    *api.QueryHandler
	qreg  *queryregistry.Registry

	mu      sync.Mutex
	inbound []inboundRec
}

func (n *node) takeInbound() []inboundRec {
	n.mu.Lock()
	defer n.mu.Unlock()
	r := n.inbound
	n.inbound = nil
	return r
}

func (n *node) buffered() int64 {
	v, _ := n.buf.GetStats()["total_records_buffered"].(int64)
	return v
}

type chassis struct {
	id        int
	root      string
	nodes     [maxNodes]*node
	tr        *http.Transport
	client    *http.Client
	dialFails atomic.Int64
	// reachability switch of the histories: a node that is down refuses new connections; open counts the transport's
	// connections to each node so that none survives the moment the node goes down
	down [maxNodes]atomic.Bool
	open [maxNodes]atomic.Int64
	seq  int64 // case counter -> unique cid
	rlog routerLog
	// forward attempts that failed with a transport error the harness did not inject (case re-executed, never judged)
	fwdTransportErrs    int64
	lastFwdTransportErr string
	// Retries of the routers as NewRouter configured them (RouterConfig.Retries left at 0 = production default)
	retries int
	// end-to-end reconciliation of the stores
	expectStore map[string]int // cid -> node index whose WAL saw it
	sinceFlush  int
	storeRows   int64
	storeBad    []string
	// case attribution and containment
	cur         atomic.Value // cid of the running case ("" during set-up)
	active      atomic.Int64 // requests inside some node's handler chain right now
	caseInbound atomic.Int64
	residual    atomic.Int64 // inbound requests that belonged to an earlier case (rejected unprocessed)
	broken      atomic.Int64 // loop-breaker activations
	// client-side transport errors (retried, never judged)
	transportErrs    int64
	lastTransportErr string
}

const routerTimeout = 10 * time.Minute // longer than the harness client's own 60 s: a case that slow is re-executed, never judged
const caseHeader = "X-C30-Case"
const maxInboundPerCase = 6
const markerMeas = "c30marker"
const writeMeas = "c30w"

func ingestCfg() *config.IngestConfig {
	return &config.IngestConfig{MaxBufferSize: 10_000_000, MaxBufferAgeMS: 3_600_000, Compression: "snappy", FlushWorkers: 1,
		FlushQueueSize: 16, ShardCount: 1, FlushTimeoutSeconds: 60, WriteStatistics: true}
}

func nodeID(i int) string   { return fmt.Sprintf("node-%d", i) }
func nodeAddr(i int) string { return fmt.Sprintf("n%d.c30.test:8000", i) }
func downAddr(i int) string { return fmt.Sprintf("down%d.c30.test:8000", i) }
func nodeDB(i int) string   { return fmt.Sprintf("c30db%d", i) }

func newChassis(id int, root string) (*chassis, error) {
	ch := &chassis{id: id, root: root, expectStore: map[string]int{}}
	ch.cur.Store("")
	lg := zerolog.Nop()
	byAddr := map[string]int{}
	for i := 0; i < maxNodes; i++ {
		n := &node{idx: i, id: nodeID(i), addr: nodeAddr(i), dir: filepath.Join(root, fmt.Sprintf("n%d", i)), wal: &walRec{}}
		storeDir := filepath.Join(n.dir, "store")
		tmp := filepath.Join(n.dir, "tmp")
		for _, d := range []string{storeDir, filepath.Join(tmp, "spill"), filepath.Join(tmp, "upload")} {
			if err := os.MkdirAll(d, 0o755); err != nil {
				return nil, err
			}
		}
		var err error
		if n.store, err = storage.NewLocalBackend(storeDir, lg); err != nil {
			return nil, err
		}
		if n.db, err = database.New(&database.Config{MaxConnections: 2, MemoryLimit: "256MB", ThreadCount: 1,
			TempDirectory: filepath.Join(tmp, "spill"), UploadDir: filepath.Join(tmp, "upload"), LocalStorageRoot: n.store.GetBasePath()}, lg); err != nil {
			return nil, fmt.Errorf("database.New: %w", err)
		}
		n.buf = ingest.NewArrowBuffer(ingestCfg(), n.store, lg)
		n.buf.SetWAL(n.wal)
		n.srv = api.NewServer(&api.ServerConfig{Port: 8000, ReadTimeout: 30 * time.Second, WriteTimeout: 30 * time.Second,
			IdleTimeout: 120 * time.Second, ShutdownTimeout: time.Second, MaxPayloadSize: 16 << 20}, lg)
		n.app = n.srv.GetApp()
		nn := n
		n.app.Use(func(c *fiber.Ctx) error {
			ch.active.Add(1)
			defer ch.active.Add(-1)
			// requests are attributed to the case that issued them by a neutral client header that the
			// forwarding path copies like any other; anything else is residue of an earlier case
			cur, _ := ch.cur.Load().(string)
			if string(c.Request().Header.Peek(caseHeader)) != cur {
				ch.residual.Add(1)
				return c.Status(599).SendString("c30 harness: request of an earlier case")
			}
			v := c.Request().Header.Peek("X-Arc-Forwarded-By")
			rec := inboundRec{Path: string(c.Request().URI().Path()), FwdBy: string(v), Has: len(v) > 0}
			nn.mu.Lock()
			nn.inbound = append(nn.inbound, rec)
			nn.mu.Unlock()
			// loop breaker: a correct cluster shows at most 2 inbound requests per case (client + one forward);
			// a forwarding loop is cut here once it is beyond doubt, so that a broken tree is reported quickly
			if cur != "" && ch.caseInbound.Add(1) > maxInboundPerCase {
				ch.broken.Add(1)
				return c.Status(599).SendString("c30 harness: forwarding loop cut")
			}
			return c.Next()
		})
		n.mp = api.NewMsgPackHandler(lg, n.buf, 16<<20)
		n.mp.RegisterRoutes(n.app)
		n.lp = api.NewLineProtocolHandler(n.buf, lg)
		n.lp.RegisterRoutes(n.app)
		n.tle = api.NewTLEHandler(n.buf, lg)
		n.tle.RegisterRoutes(n.app)
		n.qh = api.NewQueryHandler(n.db, n.store, lg, 30, 0)
		n.qreg = queryregistry.NewRegistry(&queryregistry.RegistryConfig{HistorySize: 16}, lg)
		n.qh.SetQueryRegistry(n.qreg)
		n.qh.RegisterRoutes(n.app)
		n.ln = fasthttputil.NewInmemoryListener()
		byAddr[n.addr] = i
		go func() { _ = nn.app.Listener(nn.ln) }()
		ch.nodes[i] = n
	}
	ch.tr = &http.Transport{
		DialContext: func(ctx context.Context, network, addr string) (net.Conn, error) {
			if i, ok := byAddr[addr]; ok {
				if !ch.down[i].Load() {
					conn, err := ch.nodes[i].ln.Dial()
					if err != nil {
						return nil, err
					}
					ch.open[i].Add(1)
					tc := &trackedConn{Conn: conn, n: &ch.open[i]}
					if !ch.down[i].Load() {
						return tc, nil
					}
					tc.Close() // the node went down while this (background) dial was under way
				}
			}
			ch.dialFails.Add(1)
			return nil, &net.OpError{Op: "dial", Net: network, Err: errors.New(injectedRefusal)}
		},
		MaxIdleConns: 64, MaxIdleConnsPerHost: 8, IdleConnTimeout: time.Hour, DisableCompression: true,
	}
	ch.client = &http.Client{Transport: ch.tr, Timeout: 60 * time.Second}
	// marker measurement: node i holds i+1 rows, written through its own real write path and flushed
	for i, n := range ch.nodes {
		ch.wire(n, nil)
		var lines []string
		for j := 0; j <= i; j++ {
			lines = append(lines, fmt.Sprintf("%s,src=n%d v=%di %d", markerMeas, i, j, int64(1_700_000_000_000_000_000)+int64(j)*1_000_000))
		}
		st, body, err := ch.do(i, "POST", "/api/v1/write/line-protocol", "text/plain", []byte(strings.Join(lines, "\n")), nil)
		if err != nil || st != 204 {
			return nil, fmt.Errorf("marker write on node %d: status %d err %v body %s", i, st, err, body)
		}
		st, body, err = ch.do(i, "POST", "/api/v1/write/line-protocol", "text/plain", []byte(lines[0]), map[string][]string{"X-Arc-Database": {nodeDB(i)}})
		if err != nil || st != 204 {
			return nil, fmt.Errorf("marker database write on node %d: status %d err %v body %s", i, st, err, body)
		}
		if err := n.buf.FlushAll(context.Background()); err != nil {
			return nil, fmt.Errorf("marker flush: %w", err)
		}
		n.wal.take()
		n.takeInbound()
	}
	// wait for the asynchronous flush workers, then verify through the real query path
	deadline := time.Now().Add(20 * time.Second)
	for i, n := range ch.nodes {
		for {
			nrows, st, body := ch.markerRows(i)
			if st == 200 && nrows == i+1 {
				if who, _ := ch.showNode(i); who == i {
					break
				}
			}
			if time.Now().After(deadline) {
				return nil, fmt.Errorf("marker on node %d not queryable: status %d rows %d body %.300s", i, st, nrows, body)
			}
			time.Sleep(20 * time.Millisecond)
		}
		n.takeInbound()
	}
	return ch, nil
}

// markerRows runs the marker query directly against node i (router unwired).
func (ch *chassis) markerRows(i int) (int, int, string) {
	b, _ := json.Marshal(map[string]string{"sql": "SELECT 0 AS cid, count(*) AS nrows FROM " + markerMeas})
	st, body, err := ch.do(i, "POST", "/api/v1/query", "application/json", b, nil)
	if err != nil {
		return -1, -1, err.Error()
	}
	_, nrows, ok := parseJSONQuery(body)
	if !ok {
		return -1, st, string(body)
	}
	return nrows, st, string(body)
}

// showNode runs SHOW DATABASES directly against node i and returns the node its answer identifies.
func (ch *chassis) showNode(i int) (int, int) {
	b, _ := json.Marshal(map[string]string{"sql": "SHOW DATABASES"})
	st, body, err := ch.do(i, "POST", "/api/v1/query", "application/json", b, nil)
	if err != nil {
		return -1, -1
	}
	who, _ := parseShow(body)
	return who, st
}

// parseShow: the node whose private database directory the answer lists (-1: none or ambiguous).
func parseShow(b []byte) (int, bool) {
	var r struct {
		Success bool            `json:"success"`
		Data    [][]interface{} `json:"data"`
	}
	if json.Unmarshal(b, &r) != nil || !r.Success {
		return -1, false
	}
	who := -1
	for _, row := range r.Data {
		if len(row) == 0 {
			continue
		}
		s, _ := row[0].(string)
		for i := 0; i < maxNodes; i++ {
			if s == nodeDB(i) {
				if who >= 0 && who != i {
					return -1, true
				}
				who = i
			}
		}
	}
	return who, true
}

// routerLog collects what the routers of one chassis log at warn level and above (production logging: zerolog). It is
// used for ONE purpose: to recognise a case in which the forwarding router's own HTTP client reported a transport
// error that the harness did not inject (see fwdTransportErrors) - such a case is re-executed, never judged.
type routerLog struct {
	mu  sync.Mutex
	buf bytes.Buffer
}

func (l *routerLog) Write(p []byte) (int, error) {
	l.mu.Lock()
	defer l.mu.Unlock()
	if l.buf.Len() < 1<<20 {
		l.buf.Write(p)
	}
	return len(p), nil
}

func (l *routerLog) take() []byte {
	l.mu.Lock()
	defer l.mu.Unlock()
	if l.buf.Len() == 0 {
		return nil
	}
	b := append([]byte{}, l.buf.Bytes()...)
	l.buf.Reset()
	return b
}

var debugRouterLog = os.Getenv("VERIF_C30_ROUTERLOG") != "" // debugging aid: print what the routers logged in each request

const injectedRefusal = "connection refused (node is down)"

// fwdTransportErrors returns the errors of failed forward attempts (Router.forwardRequest: "Forward attempt failed")
// that come from the router's http.Client itself (a *url.Error, rendered `Post "http://...": ...`) and are not the
// dial refusal the harness injects for unreachable nodes: a response that could not be read or parsed, a broken or
// stale pooled connection, a client timeout. These are transport faults around a delivery - outside this check's
// space - and they do happen on the unchanged tree: the Arrow endpoint writes its execution-time trailer into the
// response header object while fasthttp may still be serialising the head (the race that also breaks the harness
// client's own connection now and then), and any endpoint can exceed a timeout on an overloaded machine. An error the
// router produced itself (for instance from a status code) is not rendered that way and is never excused.
func fwdTransportErrors(log []byte) []string {
	var out []string
	for _, line := range bytes.Split(log, []byte{'\n'}) {
		if len(line) == 0 {
			continue
		}
		var e struct {
			Message string `json:"message"`
			Error   string `json:"error"`
		}
		if json.Unmarshal(line, &e) != nil || e.Message != "Forward attempt failed" {
			continue
		}
		if strings.Contains(e.Error, injectedRefusal) {
			continue
		}
		for _, m := range []string{"Post \"http://", "Get \"http://"} {
			if strings.HasPrefix(e.Error, m) {
				out = append(out, e.Error)
				break
			}
		}
	}
	return out
}

type trackedConn struct {
	net.Conn
	n    *atomic.Int64
	once sync.Once
}

func (t *trackedConn) Close() error {
	t.once.Do(func() { t.n.Add(-1) })
	return t.Conn.Close()
}

// setDown switches the reachability of node i. Going down also drops every pooled connection to it (called only while
// no request is in flight, so every connection is idle or the product of a background dial, which re-checks the flag).
func (ch *chassis) setDown(i int, down bool) {
	if ch.down[i].Load() == down {
		return
	}
	ch.down[i].Store(down)
	if !down {
		return
	}
	for t0 := time.Now(); ; {
		ch.tr.CloseIdleConnections()
		if ch.open[i].Load() == 0 {
			return
		}
		if time.Since(t0) > 30*time.Second {
			ev.Unbound(fmt.Sprintf("connections to node %d still open 30s after it was taken down", i))
		}
		time.Sleep(50 * time.Microsecond)
	}
}

func (ch *chassis) wire(n *node, r *cluster.Router) {
	n.mp.SetRouter(r)
	n.lp.SetRouter(r)
	n.tle.SetRouter(r)
	n.qh.SetRouter(r)
}

func (ch *chassis) do(target int, method, path, ct string, body []byte, hdr map[string][]string) (int, []byte, error) {
	req, err := http.NewRequest(method, "http://"+nodeAddr(target)+path, bytes.NewReader(body))
	if err != nil {
		return 0, nil, err
	}
	if ct != "" {
		req.Header.Set("Content-Type", ct)
	}
	for k, v := range hdr {
		req.Header[k] = v // raw key: lets a case send a non-canonical header name
	}
	if cur, _ := ch.cur.Load().(string); cur != "" {
		req.Header.Set(caseHeader, cur)
	}
	resp, err := ch.client.Do(req)
	if err != nil {
		return 0, nil, err
	}
	defer resp.Body.Close()
	b, err := io.ReadAll(resp.Body)
	if debugRouterLog && len(resp.Trailer) > 0 {
		fmt.Fprintf(os.Stderr, "response trailer of %s: %v\n", path, resp.Trailer)
	}
	return resp.StatusCode, b, err
}

func (ch *chassis) close() {
	for _, n := range ch.nodes {
		if n == nil {
			continue
		}
		ch.wire(n, nil)
		_ = n.app.ShutdownWithTimeout(time.Second)
		_ = n.buf.Close()
		_ = n.db.Close()
	}
	ch.tr.CloseIdleConnections()
}

// ---------------------------------------------------------------------------------------------
// executing one case

type obs struct {
	Status   int
	Inbound  [][]inboundRec // per node
	Proc     []int          // per node: local processings of THIS request
	Forwards int            // delivered inter-node requests (inbound beyond the client's own)
	ExecNode int            // query kinds: node identified by the marker in a 2xx response (-1 = none)
	CidEcho  bool           // query kinds: response carried this case's cid
	DialFail int64
	Body     string
	Err      string
}

func tleChecksum(l string) string {
	sum := 0
	for _, ch := range l {
		if ch >= '0' && ch <= '9' {
			sum += int(ch - '0')
		} else if ch == '-' {
			sum++
		}
	}
	return l + strconv.Itoa(sum%10)
}

func tleBody(cid string) []byte {
	l1 := tleChecksum("1 25544U 98067A   24001.50000000  .00016717  00000-0  10270-3 0  900")
	l2 := tleChecksum("2 25544  51.6400 208.9163 0006703  69.9862  25.2906 15.49560000    1")
	return []byte(cid + "\n" + l1 + "\n" + l2 + "\n")
}

// liveCluster is the wired cluster of one case or of one request history: every node's own LocalNode, Registry and
// Router. In a history it lives across the requests and is changed between them only through the registry's
// production mutation API (history.go).
type liveCluster struct {
	n       int
	dynamic bool
	locals  [maxNodes]*cluster.Node
	regs    [maxNodes]*cluster.Registry
	routers [maxNodes]*cluster.Router
}

// recordedNode builds the entry the other nodes hold for node j. static: an unreachable node is recorded under an
// address nobody listens on; dynamic (histories): every node keeps its address and reachability is switched in the
// dialer (chassis.setDown), so that a node can fail and come back between two requests.
func recordedNode(j int, pc nodeCfg, dynamic bool) *cluster.Node {
	p := cluster.NewNode(nodeID(j), nodeID(j), roleOf[pc.Rec], "c30")
	if pc.up() || dynamic {
		p.SetAddresses("", nodeAddr(j))
	} else {
		p.SetAddresses("", downAddr(j))
	}
	switch pc.Health {
	case 'h', 'x':
		p.UpdateState(cluster.StateHealthy)
	case 'u':
		p.UpdateState(cluster.StateUnhealthy)
	case 'f':
		p.UpdateState(cluster.StateDead)
	}
	if pc.Rec == 'W' {
		p.SetWriterState(wsOf(pc.WS))
	}
	return p
}

// wireNode gives node i a fresh LocalNode, a fresh Registry (own entry = its LocalNode; the others as recorded) and a
// fresh Router.
func (ch *chassis) wireNode(lc *liveCluster, nodes []nodeCfg, i int) {
	nc := nodes[i]
	if !nc.Router {
		lc.locals[i], lc.regs[i], lc.routers[i] = nil, nil, nil
		ch.wire(ch.nodes[i], nil)
		return
	}
	local := cluster.NewNode(nodeID(i), nodeID(i), roleOf[nc.Real], "c30")
	local.SetAddresses("", nodeAddr(i))
	local.UpdateState(cluster.StateHealthy)
	if nc.Real == 'W' && nc.Rec == 'W' {
		local.SetWriterState(wsOf(nc.WS))
	}
	reg := cluster.NewRegistry(&cluster.RegistryConfig{LocalNode: local, Logger: zerolog.Nop()})
	for j := 0; j < len(nodes); j++ {
		if j == i || nodes[j].Gone {
			continue
		}
		if err := reg.Register(recordedNode(j, nodes[j], lc.dynamic)); err != nil {
			ev.Unbound("registry.Register: " + err.Error())
		}
	}
	// Retries stays 0 = NewRouter's production default. Timeout is the one knob that is set: it is enforced by net/http on
	// the REAL clock (production default 5 s), and on a heavily loaded machine a forward that was delivered and is being
	// served can exceed it, whereupon Router.forwardRequest sends the request again (a transport fault after delivery:
	// outside this check's space, see the assumptions) - the wall clock must not decide a verdict.
	r := cluster.NewRouter(&cluster.RouterConfig{Registry: reg, LocalNode: local, Logger: zerolog.New(&ch.rlog).Level(zerolog.WarnLevel), Transport: ch.tr, Timeout: routerTimeout})
	if ch.retries == 0 {
		if v, ok := r.Stats()["retries"].(int); ok {
			ch.retries = v
		} else {
			ch.retries = -1
		}
	}
	lc.locals[i], lc.regs[i], lc.routers[i] = local, reg, r
	ch.wire(ch.nodes[i], r)
}

// wireCluster wires nodes[0..N) as one cluster (fresh registries and routers) and unwires the rest of the chassis.
func (ch *chassis) wireCluster(nodes []nodeCfg, dynamic bool) *liveCluster {
	lc := &liveCluster{n: len(nodes), dynamic: dynamic}
	for i := 0; i < maxNodes; i++ {
		ch.setDown(i, dynamic && i < len(nodes) && !nodes[i].up())
	}
	for i := range nodes {
		ch.wireNode(lc, nodes, i)
	}
	for i := len(nodes); i < maxNodes; i++ {
		ch.wire(ch.nodes[i], nil)
	}
	return lc
}

// run executes the case on a freshly wired cluster and returns what every node did.
func (ch *chassis) run(c caseCfg) obs {
	ch.wireCluster(c.Nodes, false)
	return ch.request(c)
}

// request sends the case's request to node 0 of the cluster wired at present (c.Nodes = its current state) and returns
// what every node did.
func (ch *chassis) request(c caseCfg) obs {
	N := len(c.Nodes)
	ch.seq++
	cidNum := int64(ch.id)*1_000_000_000 + ch.seq
	cid := fmt.Sprintf("CID%dX", cidNum)

	before := make([]int64, maxNodes)
	for i, n := range ch.nodes {
		before[i] = n.buffered()
	}
	df0 := ch.dialFails.Load()

	// the request
	var method, path, ct string
	var body []byte
	method = "POST"
	switch c.Kind {
	case kMsgpack:
		path, ct = "/api/v1/write/msgpack", "application/msgpack"
		body, _ = msgpack.Marshal(map[string]interface{}{"m": writeMeas, "columns": map[string]interface{}{
			"time": []interface{}{int64(1_700_000_000_000_000) + ch.seq}, "cid": []interface{}{cid}, "v": []interface{}{1.5}}})
	case kLP, kLPv1, kLPv2:
		ct = "text/plain"
		path = map[int]string{kLP: "/api/v1/write/line-protocol", kLPv1: "/write?db=default", kLPv2: "/api/v2/write?bucket=default&org=o"}[c.Kind]
		body = []byte(fmt.Sprintf("%s,cid=%s v=1i %d", writeMeas, cid, int64(1_700_000_000_000_000_000)+ch.seq*1000))
	case kTLE:
		path, ct = "/api/v1/write/tle", "text/plain"
		body = tleBody(cid)
	case kQuery:
		// executed by DuckDB on whichever node serves it; that node's query registry logs the statement
		path, ct = "/api/v1/query", "application/json"
		body, _ = json.Marshal(map[string]string{"sql": fmt.Sprintf("SELECT %d AS cid, 0 AS nrows", cidNum)})
	case kQueryMsgpack, kQueryArrow:
		path = map[int]string{kQueryMsgpack: "/api/v1/query/msgpack", kQueryArrow: "/api/v1/query/arrow"}[c.Kind]
		ct = "application/json"
		body, _ = json.Marshal(map[string]string{"sql": fmt.Sprintf("SELECT %d AS cid, count(*) AS nrows FROM %s", cidNum, markerMeas)})
	case kQueryShow:
		path, ct = "/api/v1/query", "application/json"
		body, _ = json.Marshal(map[string]string{"sql": fmt.Sprintf("SHOW DATABASES -- %d", cidNum)})
	case kQueryEstimate:
		path, ct = "/api/v1/query/estimate", "application/json"
		body, _ = json.Marshal(map[string]string{"sql": fmt.Sprintf("SELECT *, %d AS cid FROM %s", cidNum, markerMeas)})
	case kQueryMeasurement:
		method, path = "GET", "/api/v1/query/"+markerMeas+"?limit=50"
	}
	var hdr map[string][]string
	switch c.Hdr {
	case hJunk:
		hdr = map[string][]string{"X-Arc-Forwarded-By": {"not-a-node"}}
	case hSelf:
		hdr = map[string][]string{"X-Arc-Forwarded-By": {nodeID(0)}}
	case hPeer:
		hdr = map[string][]string{"X-Arc-Forwarded-By": {nodeID(N - 1)}}
	case hLower:
		hdr = map[string][]string{"x-arc-forwarded-by": {"not-a-node"}}
	}
	ch.caseInbound.Store(0)
	ch.rlog.take()
	ch.cur.Store(cid)
	st, rb, err := ch.do(0, method, path, ct, body, hdr)
	// quiescence: nothing of this case may still be running inside a node when its effects are read
	for t0 := time.Now(); ch.active.Load() != 0; {
		if time.Since(t0) > 60*time.Second {
			ev.Unbound(fmt.Sprintf("requests still in flight 60s after the client was answered in %s", c))
		}
		time.Sleep(200 * time.Microsecond)
	}
	ch.cur.Store("")

	o := obs{Status: st, Inbound: make([][]inboundRec, N), Proc: make([]int, N), ExecNode: -1, DialFail: ch.dialFails.Load() - df0}
	if err != nil {
		o.Err = err.Error()
	}
	rl := ch.rlog.take()
	if debugRouterLog && len(rl) > 0 {
		fmt.Fprintf(os.Stderr, "router log of %s:\n%s", c, rl)
	}
	if fe := fwdTransportErrors(rl); len(fe) > 0 && o.Err == "" {
		ch.fwdTransportErrs++
		ch.lastFwdTransportErr = fe[0]
		o.Err = "transport error on the forwarding hop: " + fe[0]
	}
	if len(rb) > 400 {
		o.Body = string(rb[:400])
	} else {
		o.Body = string(rb)
	}
	total := 0
	for i := 0; i < maxNodes; i++ {
		in := ch.nodes[i].takeInbound()
		evs := ch.nodes[i].wal.take()
		delta := ch.nodes[i].buffered() - before[i]
		if i >= N {
			if len(in) > 0 || len(evs) > 0 || delta != 0 {
				ev.Unbound(fmt.Sprintf("node %d is outside the %d-node configuration but saw traffic (%d inbound, %d wal) in %s", i, N, len(in), len(evs), c))
			}
			continue
		}
		o.Inbound[i] = in
		total += len(in)
		if kinds[c.Kind].IsWrite {
			k := 0
			for _, e := range evs {
				if strings.Contains(e, cid) {
					k++
				} else {
					ev.Unbound(fmt.Sprintf("node %d WAL saw a foreign append during %s: %.200q", i, c, e))
				}
			}
			if int64(k) != delta && !(c.Kind == kTLE) {
				// WAL append and buffer accounting must agree (1 record per request); TLE rows are typed and counted alike, checked below
				ev.Unbound(fmt.Sprintf("node %d: %d WAL appends but buffered-records delta %d in %s", i, k, delta, c))
			}
			if c.Kind == kTLE && (k > 0) != (delta > 0) {
				ev.Unbound(fmt.Sprintf("node %d: %d WAL appends but buffered-records delta %d in %s", i, k, delta, c))
			}
			o.Proc[i] = k
			if k > 0 {
				ch.expectStore[cid] = i
			}
		} else {
			if len(evs) > 0 || delta != 0 {
				ev.Unbound(fmt.Sprintf("node %d ingested during a query case %s", i, c))
			}
			if c.Kind == kQuery || c.Kind == kQueryMsgpack {
				needle := fmt.Sprintf("SELECT %d AS cid", cidNum)
				for _, q := range ch.nodes[i].qreg.GetHistory(16) {
					if strings.Contains(q.SQL, needle) {
						o.Proc[i]++
					}
				}
				for _, q := range ch.nodes[i].qreg.GetActive() {
					if strings.Contains(q.SQL, needle) {
						o.Proc[i]++
					}
				}
			}
		}
	}
	o.Forwards = total - 1
	if !kinds[c.Kind].IsWrite && st >= 200 && st < 300 {
		gotCid, nrows, ok := int64(0), 0, false
		switch c.Kind {
		case kQuery:
			gotCid, nrows, ok = parseJSONQuery(rb)
		case kQueryMsgpack:
			gotCid, nrows, ok = parseMsgpackQuery(rb)
		case kQueryArrow:
			gotCid, nrows, ok = parseArrowQuery(rb)
		case kQueryShow:
			if who, good := parseShow(rb); good && who >= 0 {
				gotCid, nrows, ok = cidNum, who+1, true
			}
		case kQueryEstimate:
			var r struct {
				Success bool  `json:"success"`
				Rows    int64 `json:"estimated_rows"`
			}
			if json.Unmarshal(rb, &r) == nil && r.Success {
				gotCid, nrows, ok = cidNum, int(r.Rows), true
			}
		case kQueryMeasurement:
			var r struct {
				Success bool            `json:"success"`
				Data    [][]interface{} `json:"data"`
			}
			if json.Unmarshal(rb, &r) == nil && r.Success {
				gotCid, nrows, ok = cidNum, len(r.Data), true
			}
		}
		if ok && c.Kind == kQuery {
			o.CidEcho = gotCid == cidNum
		}
		if ok && nrows >= 1 && nrows <= maxNodes {
			o.ExecNode = nrows - 1
			o.CidEcho = gotCid == cidNum
			if c.Kind != kQuery && c.Kind != kQueryMsgpack && o.ExecNode < N {
				o.Proc[o.ExecNode] = 1 // no per-node execution log for these endpoints: the marker in the answer is the evidence
			}
		}
	}
	ch.sinceFlush++
	return o
}

func wsOf(b byte) cluster.WriterState {
	switch b {
	case 'p':
		return cluster.WriterStatePrimary
	case 's':
		return cluster.WriterStateStandby
	}
	return cluster.WriterStateNone
}

func toInt(v interface{}) (int64, bool) {
	switch x := v.(type) {
	case float64:
		return int64(x), true
	case int64:
		return x, true
	case int32:
		return int64(x), true
	case int16:
		return int64(x), true
	case int8:
		return int64(x), true
	case int:
		return int64(x), true
	case uint64:
		return int64(x), true
	case uint32:
		return int64(x), true
	case uint16:
		return int64(x), true
	case uint8:
		return int64(x), true
	case json.Number:
		n, err := x.Int64()
		return n, err == nil
	}
	return 0, false
}

func parseJSONQuery(b []byte) (cid int64, nrows int, ok bool) {
	var r struct {
		Success bool            `json:"success"`
		Data    [][]interface{} `json:"data"`
	}
	d := json.NewDecoder(bytes.NewReader(b))
	d.UseNumber()
	if d.Decode(&r) != nil || !r.Success || len(r.Data) != 1 || len(r.Data[0]) != 2 {
		return 0, 0, false
	}
	a, ok1 := toInt(r.Data[0][0])
	n, ok2 := toInt(r.Data[0][1])
	return a, int(n), ok1 && ok2
}

func parseMsgpackQuery(b []byte) (cid int64, nrows int, ok bool) {
	var r map[string]interface{}
	if msgpack.Unmarshal(b, &r) != nil {
		return 0, 0, false
	}
	if s, _ := r["success"].(bool); !s {
		return 0, 0, false
	}
	cols, _ := r["data"].([]interface{}) // columnar
	if len(cols) != 2 {
		return 0, 0, false
	}
	c0, _ := cols[0].([]interface{})
	c1, _ := cols[1].([]interface{})
	if len(c0) != 1 || len(c1) != 1 {
		return 0, 0, false
	}
	a, ok1 := toInt(c0[0])
	n, ok2 := toInt(c1[0])
	return a, int(n), ok1 && ok2
}

func parseArrowQuery(b []byte) (cid int64, nrows int, ok bool) {
	rd, err := ipc.NewReader(bytes.NewReader(b))
	if err != nil {
		return 0, 0, false
	}
	defer rd.Release()
	for rd.Next() {
		rec := rd.Record()
		if rec.NumCols() != 2 || rec.NumRows() != 1 {
			return 0, 0, false
		}
		a, err1 := strconv.ParseInt(rec.Column(0).ValueStr(0), 10, 64)
		n, err2 := strconv.ParseInt(rec.Column(1).ValueStr(0), 10, 64)
		return a, int(n), err1 == nil && err2 == nil
	}
	return 0, 0, false
}

// reconcile flushes every node's buffer and compares the Parquet files in each node's store with what the
// per-request WAL observation said that node accepted (end-to-end evidence that "processed locally" is real).
func (ch *chassis) reconcile() {
	for _, n := range ch.nodes {
		if err := n.buf.FlushAll(context.Background()); err != nil {
			ev.Unbound("FlushAll: " + err.Error())
		}
	}
	want := len(ch.expectStore)
	found := map[string]int{}
	deadline := time.Now().Add(30 * time.Second)
	for {
		for i, n := range ch.nodes {
			base := n.store.GetBasePath()
			_ = filepath.WalkDir(base, func(p string, d fs.DirEntry, err error) error {
				if err != nil || d.IsDir() || !strings.HasSuffix(p, ".parquet") {
					return nil
				}
				rel, _ := filepath.Rel(base, p)
				if strings.Contains(rel, "/"+markerMeas+"/") {
					return nil
				}
				b, err := os.ReadFile(p)
				if err != nil {
					return nil
				}
				rows, _, _, err := hx.ReadParquet(b)
				if err != nil {
					return nil // still being written; picked up on the next pass
				}
				for _, r := range rows {
					for _, v := range r {
						if s, ok := v.(string); ok && strings.HasPrefix(s, "CID") && strings.HasSuffix(s, "X") {
							if prev, dup := found[s]; dup && prev != i {
								ch.storeBad = append(ch.storeBad, fmt.Sprintf("%s stored on node %d and node %d", s, prev, i))
							}
							found[s] = i
						}
					}
				}
				os.Remove(p)
				return nil
			})
		}
		if len(found) >= want || time.Now().After(deadline) {
			break
		}
		time.Sleep(5 * time.Millisecond)
	}
	for cid, i := range ch.expectStore {
		if j, ok := found[cid]; !ok {
			ch.storeBad = append(ch.storeBad, fmt.Sprintf("%s accepted by node %d but not in its store after flush", cid, i))
		} else if j != i {
			ch.storeBad = append(ch.storeBad, fmt.Sprintf("%s accepted by node %d but stored on node %d", cid, i, j))
		}
	}
	for cid, j := range found {
		if _, ok := ch.expectStore[cid]; !ok {
			ch.storeBad = append(ch.storeBad, fmt.Sprintf("%s in the store of node %d but no node's WAL saw it", cid, j))
		}
	}
	ch.storeRows += int64(len(found))
	ch.expectStore = map[string]int{}
	ch.sinceFlush = 0
}

// ---------------------------------------------------------------------------------------------
// oracle — exactly the property. The capability table is the SPECIFICATION (role.go's documented
// contract), written out here so that a change of GetCapabilities is judged, not followed.

func specCan(role byte, write bool) bool {
	switch role {
	case 'S', 'W':
		return true
	case 'R':
		return !write
	}
	return false // compactor: neither ingests nor serves queries
}

// capable: can node i of the configuration serve this request kind locally?
// A node without a cluster router is not clustered at all: it is a stand-alone server and serves everything.
func capable(c caseCfg, i int) bool {
	n := c.Nodes[i]
	if !n.Router {
		return true
	}
	return specCan(n.Real, kinds[c.Kind].IsWrite)
}

type finding struct {
	Kind string
	Desc string
}

func ok2xx(st int) bool { return st >= 200 && st < 300 }

func judge(c caseCfg, o obs) []finding {
	N := len(c.Nodes)
	isW := kinds[c.Kind].IsWrite
	var out []finding
	sum, procBy := 0, -1
	for i := 0; i < N; i++ {
		sum += o.Proc[i]
		if o.Proc[i] > 0 {
			procBy = i
		}
	}
	chain := func() string {
		var parts []string
		for i := 0; i < N; i++ {
			for _, in := range o.Inbound[i] {
				f := "-"
				if in.Has {
					f = in.FwdBy
				}
				parts = append(parts, fmt.Sprintf("node-%d<-[fwd-by:%s]", i, f))
			}
		}
		return fmt.Sprintf("status=%d forwards=%d processed=%v inbound={%s}", o.Status, o.Forwards, o.Proc, strings.Join(parts, " "))
	}
	// S1: a node whose role cannot serve the request never processes it locally
	for i := 0; i < N; i++ {
		if o.Proc[i] > 0 && !capable(c, i) {
			who := "a peer"
			if i == 0 {
				who = "the receiving node"
			}
			out = append(out, finding{"incapable-node-processed", fmt.Sprintf("%s (%s) processed the request locally although its role cannot serve it; %s", who, c.Nodes[i], chain())})
			break
		}
	}
	// S2: at most one forward, never forwarded again
	if o.Forwards > 1 {
		out = append(out, finding{"forwarded-more-than-once", "the request crossed more than one inter-node hop; " + chain()})
	}
	// S3: handled once
	if sum > 1 {
		out = append(out, finding{"processed-more-than-once", "the request was processed more than once; " + chain()})
	}
	// S4: the receiving node serves it when its role can
	if capable(c, 0) && !(o.Proc[0] == 1 && o.Forwards == 0 && ok2xx(o.Status)) {
		out = append(out, finding{"capable-receiver-did-not-serve", "the receiving node can serve this request but did not simply serve it; " + chain()})
	}
	// S5: what the client is told matches what happened
	if ok2xx(o.Status) && sum == 0 {
		out = append(out, finding{"success-without-processing", "the client got a success answer but no node processed the request; " + chain()})
	}
	if !ok2xx(o.Status) && sum > 0 {
		out = append(out, finding{"error-but-processed", "the client got an error but a node processed the request; " + chain()})
	}
	// L1: otherwise forwarded once to a capable peer. Demanded only when the request is not marked as forwarded
	// and every peer the receiving node could pick (a member recorded healthy with a recorded role able to serve it)
	// really is reachable and capable, so that the answer does not depend on which of them the router picks; the node
	// that served it must then be one of those peers as the cluster stands NOW (in a request history: not a node that
	// was eligible for an earlier request and has since been recorded unhealthy/dead, re-roled or unregistered).
	if !capable(c, 0) && c.Hdr == hAbsent && o.Proc[0] == 0 {
		cand, good := 0, 0
		goodPeer := make([]bool, N)
		for j := 1; j < N; j++ {
			p := c.Nodes[j]
			if !p.Gone && (p.Health == 'h' || p.Health == 'x') && specCan(p.Rec, isW) {
				cand++
				if p.Health == 'h' && capable(c, j) {
					good++
					goodPeer[j] = true
				}
			}
		}
		if cand > 0 && good == cand {
			if !(o.Forwards == 1 && sum == 1 && procBy > 0 && goodPeer[procBy] && ok2xx(o.Status)) {
				out = append(out, finding{"not-forwarded-to-capable-peer", "the receiving node cannot serve the request, a healthy capable peer exists in its registry, yet the request was not served by such a peer through exactly one forward; " + chain()})
			}
		}
	}
	// F1/F2: WHERE forwards are addressed ("otherwise forwarded once to a capable peer"), judged from the per-node inbound
	// observation alone. An inter-node delivery is every inbound request of a peer (the client talks to node 0 only) and
	// every inbound request of node 0 after the client's own. Every delivery must arrive at a node that is a member of
	// the forwarding node's registry with a RECORDED role able to serve this request kind (whatever the node really is:
	// a stale record is the registry's business, addressing by it is correct), and all deliveries of one client request
	// must arrive at one and the same node (retries against the same target are fine; S2 counts hops).
	{
		var bad, targets []string
		seen := make([]bool, N)
		ndel := 0
		for j := 0; j < N; j++ {
			for k, in := range o.Inbound[j] {
				if j == 0 && k == 0 {
					continue // the client's own request
				}
				ndel++
				if !seen[j] {
					seen[j] = true
					targets = append(targets, fmt.Sprintf("node-%d (%s)", j, c.Nodes[j]))
				}
				rec := c.Nodes[j].Rec
				if in.Has && in.FwdBy == nodeID(j) {
					rec = c.Nodes[j].Real // a node's own registry entry is its LocalNode
				}
				by := "unmarked"
				if in.Has {
					by = in.FwdBy
				}
				switch {
				case c.Nodes[j].Gone:
					bad = append(bad, fmt.Sprintf("node-%d (%s), which is not a member of any registry, received it from %s", j, c.Nodes[j], by))
				case !specCan(rec, isW):
					bad = append(bad, fmt.Sprintf("node-%d (%s), recorded in the registries as %s, received it from %s", j, c.Nodes[j], roleName[rec], by))
				}
			}
		}
		if len(bad) > 0 {
			what := "query"
			if isW {
				what = "write"
			}
			out = append(out, finding{"forward-delivered-to-incapable-node", fmt.Sprintf("a forwarded %s was delivered to a node whose recorded role cannot serve it: %s; %s", what, bad[0], chain())})
		}
		if len(targets) > 1 {
			out = append(out, finding{"forward-delivered-to-several-nodes", fmt.Sprintf("one client request was delivered by forwarding to %d different nodes (%s) in %d deliveries; %s", len(targets), strings.Join(targets, ", "), ndel, chain())})
		}
	}
	if !isW && ok2xx(o.Status) && !o.CidEcho {
		out = append(out, finding{"unrecognised-answer", "a success answer that is not the answer to this request: " + fmt.Sprintf("%.160q; ", o.Body) + chain()})
	}
	if !isW && ok2xx(o.Status) && o.ExecNode >= 0 && o.ExecNode < N && o.Proc[o.ExecNode] == 0 {
		out = append(out, finding{"answer-from-unrecorded-node", fmt.Sprintf("the answer carries the marker of node-%d whose query log has no trace of it; %s", o.ExecNode, chain())})
	}
	return out
}

// ---------------------------------------------------------------------------------------------
// enumeration

type cfgItem struct {
	nodes [maxNodes]nodeCfg
	n     int8
	space int8
	hist  bool // a configuration of a history space (index into the history spaces)
}

type spaceDef struct {
	Name      string
	N         int
	Recv      []nodeCfg
	Peers     []nodeCfg
	MaxStale  int // max number of nodes (receiver included) whose recorded role differs from the real one; -1 = no limit
	Kinds     []int
	Hdrs      []int
	configs   int
	cases     int64
	nontriv   int64
	Desc      string
	First     bool // small space scheduled before everything else (so that a time cap never drops it)
	peerLabel string
	recvLabel string
}

func recWS(rec byte) []byte {
	if rec == 'W' {
		return []byte{'-', 'p', 's'}
	}
	return []byte{'-'}
}

// receiver sets
func recvSet(full bool, healths []byte) []nodeCfg {
	var out []nodeCfg
	for _, real := range roleLetters {
		for _, router := range []bool{true, false} {
			if full {
				for _, rec := range roleLetters {
					for _, ws := range recWS(rec) {
						for _, h := range healths {
							out = append(out, nodeCfg{real, rec, ws, h, router, false})
						}
					}
				}
				continue
			}
			// lite: seen consistently, or seen as the node every confused peer would forward to
			seen := map[string]bool{}
			for _, rw := range [][2]byte{{real, '-'}, {'W', 'p'}, {'R', '-'}} {
				k := string(rw[:])
				if seen[k] {
					continue
				}
				seen[k] = true
				for _, h := range healths {
					out = append(out, nodeCfg{real, rw[0], rw[1], h, router, false})
				}
			}
		}
	}
	return out
}

func peerSet(healths []byte, consistentOnly bool) []nodeCfg {
	var out []nodeCfg
	for _, real := range roleLetters {
		for _, rec := range roleLetters {
			if consistentOnly && rec != real {
				continue
			}
			for _, ws := range recWS(rec) {
				for _, h := range healths {
					out = append(out, nodeCfg{real, rec, ws, h, true, false})
				}
			}
		}
	}
	sort.Slice(out, func(i, j int) bool { return out[i].key() < out[j].key() })
	return out
}

// expand enumerates the configurations of a space: receiver x every MULTISET of N-1 peers (peers are interchangeable:
// node ids carry no meaning for the router), filtered by the staleness bound.
func (s *spaceDef) expand(si int, emit func(cfgItem)) {
	np := s.N - 1
	idx := make([]int, np)
	for _, r := range s.Recv {
		var rec func(pos, from int)
		rec = func(pos, from int) {
			if pos == np {
				it := cfgItem{n: int8(s.N), space: int8(si)}
				it.nodes[0] = r
				stale := 0
				if r.stale() {
					stale++
				}
				for k := 0; k < np; k++ {
					it.nodes[k+1] = s.Peers[idx[k]]
					if it.nodes[k+1].stale() {
						stale++
					}
				}
				if s.MaxStale >= 0 && stale > s.MaxStale {
					return
				}
				emit(it)
				return
			}
			for i := from; i < len(s.Peers); i++ {
				idx[pos] = i
				rec(pos+1, i)
			}
		}
		rec(0, 0)
	}
}

func (s *spaceDef) hdrsFor() []int {
	var h []int
	for _, x := range s.Hdrs {
		if x == hPeer && s.N < 2 {
			continue
		}
		h = append(h, x)
	}
	return h
}

var (
	allKinds      = []int{kMsgpack, kLP, kLPv1, kLPv2, kTLE, kQuery, kQueryShow, kQueryMsgpack, kQueryArrow, kQueryEstimate, kQueryMeasurement}
	routedKinds   = []int{kMsgpack, kLP, kLPv1, kLPv2, kTLE, kQuery, kQueryShow}         // cheap enough for the wide spaces
	endpointKinds = []int{kQueryMsgpack, kQueryArrow, kQueryEstimate, kQueryMeasurement} // DuckDB scans of the marker measurement
	siblingKinds  = []int{kLPv1, kLPv2, kTLE, kQueryMsgpack, kQueryArrow, kQueryEstimate, kQueryMeasurement}
	primaryKinds  = []int{kMsgpack, kLP, kQuery, kQueryShow}
	cheapKinds    = []int{kMsgpack, kLP, kQueryShow}
	allHdrs       = []int{hAbsent, hJunk, hSelf, hPeer, hLower}
	mainHdrs      = []int{hAbsent, hJunk, hPeer}
	twoHdrs       = []int{hAbsent, hJunk}
)

func spaces(quick bool) []*spaceDef {
	h3 := []byte{'h', 'u', 'f'}
	h4 := []byte{'h', 'u', 'f', 'x'}
	h1 := []byte{'h'}
	var sp []*spaceDef
	add := func(s *spaceDef) { sp = append(sp, s) }
	// one node: role x router presence (what the others record is unobservable)
	var solo []nodeCfg
	for _, real := range roleLetters {
		for _, router := range []bool{true, false} {
			solo = append(solo, nodeCfg{real, real, '-', 'h', router, false})
		}
	}
	const recvLite = "receiving node {4 roles x router wired/absent x recorded by the others as {its real role, primary writer, reader}}"
	const recvFull = "receiving node {4 roles x router wired/absent x recorded by the others as any role (writer: primary/standby/none) x recorded healthy/unhealthy/dead}"
	const peerFull = "peer {4 real roles x recorded as any of the 4 roles (writer: primary/standby/none) x healthy/unhealthy/failed/crashed-undetected}"
	const peerCons = "peer {4 roles recorded correctly (writer: primary/standby/none) x healthy/unhealthy/failed/crashed-undetected}"
	// forward retry/failover spaces: the receiving nodes that ever forward (a reader or a compactor with a router; a
	// receiving node that can serve the request, or has no router, never looks at its peers: S4, covered by the other
	// spaces) next to peers that are recorded healthy and are reachable or crashed-undetected, i.e. every configuration
	// in which the peer the router selects refuses the connection while other healthy peers (capable or not) exist
	hx := []byte{'h', 'x'}
	var forwarding []nodeCfg
	for _, r := range recvSet(false, h1) {
		if r.Router && (r.Real == 'R' || r.Real == 'C') {
			forwarding = append(forwarding, r)
		}
	}
	const recvFwd = "receiving node {reader, compactor; router wired; recorded by the others as {its real role, primary writer, reader}}"
	const peerHX = "peer {4 roles recorded correctly (writer: primary/standby/none) x recorded healthy and reachable / recorded healthy but refusing connections (crashed-undetected)}"
	add(&spaceDef{Name: "N1", N: 1, Recv: solo, MaxStale: -1, Kinds: allKinds, Hdrs: allHdrs, Desc: "1 node: 4 roles x router wired/absent"})
	if quick {
		add(&spaceDef{Name: "N2", N: 2, Recv: recvSet(false, h1), Peers: peerSet(h4, false), MaxStale: -1, Kinds: routedKinds, Hdrs: allHdrs,
			Desc: "2 nodes: " + recvLite + " x " + peerFull})
		add(&spaceDef{Name: "N2-endpoints", N: 2, Recv: recvSet(false, h1), Peers: peerSet(h4, true), MaxStale: -1, Kinds: endpointKinds, Hdrs: twoHdrs,
			Desc: "2 nodes, remaining query endpoints: " + recvLite + " x " + peerCons})
		add(&spaceDef{Name: "N3", N: 3, Recv: recvSet(false, h1), Peers: peerSet(h4, false), MaxStale: 1, Kinds: cheapKinds, Hdrs: mainHdrs,
			Desc: "3 nodes: " + recvLite + " x every multiset of 2 x " + peerFull + ", at most one node with a stale recorded role"})
		add(&spaceDef{Name: "N3-select", N: 3, Recv: recvSet(false, h1), Peers: peerSet(h3, false), MaxStale: 1, Kinds: []int{kQuery}, Hdrs: twoHdrs,
			Desc: "3 nodes, executed SELECT: peers healthy/unhealthy/failed, at most one stale node"})
		// a receiving node without a router ignores its peers altogether (N1..N3 cover it): at N=4 only wired ones
		var wired []nodeCfg
		for _, r := range recvSet(false, h1) {
			if r.Router {
				wired = append(wired, r)
			}
		}
		add(&spaceDef{Name: "N4", N: 4, Recv: wired, Peers: peerSet(h4, true), MaxStale: 0, Kinds: cheapKinds, Hdrs: mainHdrs,
			Desc: "4 nodes, consistent registries: receiving node {4 roles, router wired; a writer also as recorded primary} x every multiset of 3 x " + peerCons})
		add(&spaceDef{Name: "N3-failover", N: 3, Recv: forwarding, Peers: peerSet(hx, true), MaxStale: -1, Kinds: allKinds, Hdrs: []int{hAbsent}, First: true,
			Desc: "3 nodes, forward retry/failover, EVERY request kind: " + recvFwd + " x every multiset of 2 x " + peerHX})
	} else {
		add(&spaceDef{Name: "N2", N: 2, Recv: recvSet(true, h3), Peers: peerSet(h4, false), MaxStale: -1, Kinds: routedKinds, Hdrs: allHdrs,
			Desc: "2 nodes: " + recvFull + " x " + peerFull})
		add(&spaceDef{Name: "N2-endpoints", N: 2, Recv: recvSet(false, h1), Peers: peerSet(h4, false), MaxStale: -1, Kinds: endpointKinds, Hdrs: mainHdrs,
			Desc: "2 nodes, remaining query endpoints: " + recvLite + " x " + peerFull})
		add(&spaceDef{Name: "N3", N: 3, Recv: recvSet(false, h1), Peers: peerSet(h4, false), MaxStale: -1, Kinds: primaryKinds, Hdrs: allHdrs,
			Desc: "3 nodes: " + recvLite + " x every multiset of 2 x " + peerFull + ", any staleness"})
		add(&spaceDef{Name: "N3-endpoints", N: 3, Recv: recvSet(false, h1), Peers: peerSet(h3, true), MaxStale: 0, Kinds: siblingKinds, Hdrs: mainHdrs,
			Desc: "3 nodes, sibling endpoints, consistent registries: receiving node {4 roles x router wired/absent} x every multiset of 2 peers {4 roles x healthy/unhealthy/failed}"})
		add(&spaceDef{Name: "N3-failover", N: 3, Recv: recvSet(false, h1), Peers: peerSet(h4, true), MaxStale: -1, Kinds: allKinds, Hdrs: mainHdrs,
			Desc: "3 nodes, forward retry/failover, EVERY request kind: " + recvLite + " x every multiset of 2 x " + peerCons})
		add(&spaceDef{Name: "N4", N: 4, Recv: recvSet(false, h1), Peers: peerSet(h4, false), MaxStale: 2, Kinds: cheapKinds, Hdrs: mainHdrs,
			Desc: "4 nodes: " + recvLite + " x every multiset of 3 x " + peerFull + ", at most two nodes with a stale recorded role"})
		add(&spaceDef{Name: "N4-select", N: 4, Recv: recvSet(false, h1), Peers: peerSet(h3, false), MaxStale: 1, Kinds: []int{kQuery}, Hdrs: twoHdrs,
			Desc: "4 nodes, executed SELECT: peers healthy/unhealthy/failed, at most one stale node"})
		add(&spaceDef{Name: "N4-failover", N: 4, Recv: forwarding, Peers: peerSet(hx, true), MaxStale: -1, Kinds: allKinds, Hdrs: []int{hAbsent}, First: true,
			Desc: "4 nodes, forward retry/failover, EVERY request kind: " + recvFwd + " x every multiset of 3 x " + peerHX})
	}
	return sp
}

// nontrivial: the routing layer has something to decide — the receiving node cannot serve the request itself,
// or the client sent a forwarding header, or somebody's recorded role is stale.
func nontrivial(c caseCfg) bool {
	if !capable(c, 0) || c.Hdr != hAbsent {
		return true
	}
	for _, n := range c.Nodes {
		if n.stale() {
			return true
		}
	}
	return false
}

// failoverTrap: the receiving node has to forward (no client marker), some member recorded healthy with a recorded role
// able to serve the request refuses connections (crashed-undetected), and some other member recorded healthy and
// reachable has a recorded role that cannot serve it: the configurations in which a retry that leaves the selected
// peer can end up at an incapable node.
func failoverTrap(c caseCfg) bool {
	if capable(c, 0) || c.Hdr != hAbsent {
		return false
	}
	isW := kinds[c.Kind].IsWrite
	x, bad := false, false
	for _, p := range c.Nodes[1:] {
		if p.Gone {
			continue
		}
		if p.Health == 'x' && specCan(p.Rec, isW) {
			x = true
		}
		if p.Health == 'h' && !specCan(p.Rec, isW) {
			bad = true
		}
	}
	return x && bad
}

// fwdStats: what the forward-addressing clauses saw (per worker, merged at the end).
type fwdStats struct {
	Deliveries   int64            // inter-node deliveries judged by F1/F2
	Refused      [10]int64        // requests by number of refused forward attempts (index 9 = 9 or more)
	Trap         map[string]int64 // failoverTrap requests by request kind
	TrapSelected map[string]int64 // ... in which the crashed peer was selected (>= 1 refused attempt)
	TrapRetried  map[string]int64 // ... and the router tried again (>= 2 refused attempts or a delivery after a refusal)
}

func newFwdStats() *fwdStats {
	return &fwdStats{Trap: map[string]int64{}, TrapSelected: map[string]int64{}, TrapRetried: map[string]int64{}}
}

func (f *fwdStats) add(c caseCfg, o obs) {
	if o.Forwards > 0 {
		f.Deliveries += int64(o.Forwards)
	}
	d := o.DialFail
	if d > 9 {
		d = 9
	}
	if d >= 0 {
		f.Refused[d]++
	}
	if failoverTrap(c) {
		k := kinds[c.Kind].Name
		f.Trap[k]++
		if o.DialFail >= 1 {
			f.TrapSelected[k]++
			if o.DialFail >= 2 || o.Forwards > 0 {
				f.TrapRetried[k]++
			}
		}
	}
}

func (f *fwdStats) merge(g *fwdStats) {
	f.Deliveries += g.Deliveries
	for i := range f.Refused {
		f.Refused[i] += g.Refused[i]
	}
	for k, v := range g.Trap {
		f.Trap[k] += v
	}
	for k, v := range g.TrapSelected {
		f.TrapSelected[k] += v
	}
	for k, v := range g.TrapRetried {
		f.TrapRetried[k] += v
	}
}

// ---------------------------------------------------------------------------------------------
// violation classes: minimisation and attribution

type classes struct {
	mu      sync.Mutex
	minimal map[string][]caseCfg // oracle kind -> minimal cases found so far
	sig     map[string]string    // oracle kind + minimal case key -> signature
	count   map[string]int
	desc    map[string]string
	replay  map[string]any
	minRuns int64
	flaky   int
	// request histories (history.go)
	histMinimal map[string][]histCfg // oracle kind -> minimal histories found so far
	singleFails map[string]bool      // oracle kind + final-state case key -> fails without any history as well
}

func attrReduces(c, m nodeCfg) bool {
	roles := (m.Real == c.Real && (m.Rec == c.Rec || m.Rec == m.Real)) || (m.Real == c.Rec && m.Rec == c.Rec)
	return roles && (m.WS == c.WS || m.WS == '-') && (m.Health == c.Health || m.Health == 'h') && (m.Router == c.Router || m.Router) && m.Gone == c.Gone
}

// reducesTo: can the raw case c be turned into the minimal case m by the minimiser's own steps
// (drop a peer, header -> junk -> absent, attribute -> default)?
func reducesTo(c, m caseCfg) bool {
	if c.Kind != m.Kind || len(m.Nodes) > len(c.Nodes) {
		return false
	}
	if !(m.Hdr == c.Hdr || m.Hdr == hAbsent || (m.Hdr == hJunk && c.Hdr != hAbsent)) {
		return false
	}
	if !attrReduces(c.Nodes[0], m.Nodes[0]) {
		return false
	}
	mp, cp := m.Nodes[1:], c.Nodes[1:]
	used := make([]bool, len(cp))
	var match func(i int) bool
	match = func(i int) bool {
		if i == len(mp) {
			return true
		}
		for j := range cp {
			if !used[j] && attrReduces(cp[j], mp[i]) {
				used[j] = true
				if match(i + 1) {
					return true
				}
				used[j] = false
			}
		}
		return false
	}
	return match(0)
}

func hasKind(fs []finding, k string) (finding, bool) {
	for _, f := range fs {
		if f.Kind == k {
			return f, true
		}
	}
	return finding{}, false
}

// failsAny: the case shows oracle kind k in at least one of n executions (which eligible peer a router picks
// depends on Go map order, so a configuration with several eligible peers may fail only sometimes).
// Returns how many of the executions failed.
func (ch *chassis) failsAny(c caseCfg, k string, n int, stopAtFirst bool, cl *classes) (finding, int) {
	var last finding
	bad := 0
	for i := 0; i < n; i++ {
		atomic.AddInt64(&cl.minRuns, 1)
		o, ok := ch.runRetry(c)
		if !ok {
			continue
		}
		if f, is := hasKind(judge(c, o), k); is {
			last = f
			bad++
			if stopAtFirst {
				return last, bad
			}
		}
	}
	return last, bad
}

const minimiseTries = 8

// minimise greedily shrinks a failing case (drop the header, drop peers, reset attributes to their defaults) while
// the same oracle still fails; the third result tells whether the minimal case fails on every execution.
func (ch *chassis) minimise(c caseCfg, k string, cl *classes) (caseCfg, finding, bool) {
	cur := c.canon()
	f, n := ch.failsAny(cur, k, minimiseTries, true, cl)
	if n == 0 {
		return cur, f, false
	}
	try := func(cand caseCfg) bool {
		if g, n := ch.failsAny(cand, k, minimiseTries, true, cl); n > 0 {
			cur, f = cand.canon(), g
			return true
		}
		return false
	}
	for changed := true; changed; {
		changed = false
		if cur.Hdr != hAbsent {
			cand := cur.clone()
			cand.Hdr = hAbsent
			if try(cand) {
				changed = true
			} else if cur.Hdr != hJunk {
				cand.Hdr = hJunk
				if try(cand) {
					changed = true
				}
			}
		}
		for i := len(cur.Nodes) - 1; i >= 1; i-- {
			if cur.Hdr == hPeer && len(cur.Nodes) == 2 {
				break
			}
			if i >= len(cur.Nodes) {
				continue
			}
			cand := cur.clone()
			cand.Nodes = append(cand.Nodes[:i], cand.Nodes[i+1:]...)
			if try(cand) {
				changed = true
			}
		}
		for i := 0; i < len(cur.Nodes); i++ {
			n := cur.Nodes[i]
			var alts []nodeCfg
			if !n.Router {
				a := n
				a.Router = true
				alts = append(alts, a)
			}
			if n.Health != 'h' {
				a := n
				a.Health = 'h'
				alts = append(alts, a)
			}
			if n.stale() {
				a := n
				a.Rec, a.WS = a.Real, '-' // recorded correctly
				alts = append(alts, a)
				b := n
				b.Real = b.Rec // really what it is recorded as
				alts = append(alts, b)
			}
			if n.WS != '-' {
				a := n
				a.WS = '-'
				alts = append(alts, a)
			}
			for _, a := range alts {
				cand := cur.clone()
				cand.Nodes[i] = a
				if try(cand) {
					changed = true
					break
				}
			}
		}
	}
	g, bad := ch.failsAny(cur, k, 10, false, cl)
	if bad == 0 {
		return cur, f, false
	}
	return cur, g, bad == 10
}

func (cl *classes) report(ch *chassis, c caseCfg, f finding) {
	cl.mu.Lock()
	for _, m := range cl.minimal[f.Kind] {
		if reducesTo(c.canon(), m) {
			cl.count[cl.sig[f.Kind+"#"+m.key()]]++
			cl.mu.Unlock()
			return
		}
	}
	cl.mu.Unlock()
	m, g, stable := ch.minimise(c, f.Kind, cl)
	sig := f.Kind + "|" + m.String()
	if !stable {
		sig += "|intermittent" // depends on which of several eligible peers the router picks
	}
	if g.Desc == "" {
		g = f
	}
	cl.mu.Lock()
	defer cl.mu.Unlock()
	if !stable {
		cl.flaky++
	}
	if _, seen := cl.desc[sig]; !seen {
		cl.desc[sig] = g.Desc
		cl.replay[sig] = map[string]any{"minimal_case": m.String(), "nodes": describe(m), "first_raw_case": c.String(), "oracle": f.Kind,
			"request_kind": kinds[m.Kind].Name, "client_header": hdrName[m.Hdr],
			"how": "./check C30 --replay <this file> re-executes minimal_case 5 times on a fresh in-process cluster and prints what every node did"}
		cl.minimal[f.Kind] = append(cl.minimal[f.Kind], m)
		cl.sig[f.Kind+"#"+m.key()] = sig
	}
	cl.count[sig]++
}

func describe(c caseCfg) []map[string]any {
	var out []map[string]any
	for i, n := range c.Nodes {
		who := "peer"
		if i == 0 {
			who = "receiving node"
		}
		out = append(out, map[string]any{"node": nodeID(i), "is": who, "real_role": roleName[n.Real], "role_recorded_by_others": roleName[n.Rec],
			"writer_state_recorded": string(n.WS), "health": string(n.Health), "router_wired": n.Router, "unregistered": n.Gone})
	}
	return out
}

// runRetry re-executes a case whose CLIENT connection broke (never judged: see the note on the Arrow trailer race).
func (ch *chassis) runRetry(c caseCfg) (obs, bool) {
	for i := 0; i < 6; i++ {
		o := ch.run(c)
		if o.Err == "" {
			return o, true
		}
		ch.transportErrs++
		ch.lastTransportErr = o.Err
		ch.tr.CloseIdleConnections()
	}
	return obs{}, false
}

// ---------------------------------------------------------------------------------------------

type replayNode struct {
	Real   string `json:"real_role"`
	Rec    string `json:"role_recorded_by_others"`
	WS     string `json:"writer_state_recorded"`
	Health string `json:"health"`
	Router bool   `json:"router_wired"`
	Gone   bool   `json:"unregistered"`
}

func roleLetter(name string) byte {
	for _, l := range roleLetters {
		if roleName[l] == name {
			return l
		}
	}
	return 0
}

func (n replayNode) cfg() (nodeCfg, bool) {
	nc := nodeCfg{Real: roleLetter(n.Real), Rec: roleLetter(n.Rec), Router: n.Router, Gone: n.Gone}
	if len(n.WS) != 1 || len(n.Health) != 1 || nc.Real == 0 || nc.Rec == 0 {
		return nodeCfg{}, false
	}
	nc.WS, nc.Health = n.WS[0], n.Health[0]
	return nc, true
}

// loadReplay rebuilds the case of a replay artefact written by this check (histories: loadReplayHist).
func loadReplay(path string) (caseCfg, bool) {
	if path == "" {
		return caseCfg{}, false
	}
	b, err := os.ReadFile(path)
	if err != nil {
		return caseCfg{}, false
	}
	var f struct {
		Replay struct {
			Kind  string       `json:"request_kind"`
			Hdr   string       `json:"client_header"`
			Nodes []replayNode `json:"nodes"`
		} `json:"replay"`
	}
	if json.Unmarshal(b, &f) != nil || len(f.Replay.Nodes) == 0 || len(f.Replay.Nodes) > maxNodes {
		return caseCfg{}, false
	}
	c := caseCfg{Kind: -1, Hdr: -1}
	for k := range kinds {
		if kinds[k].Name == f.Replay.Kind {
			c.Kind = k
		}
	}
	for h := range hdrName {
		if hdrName[h] == f.Replay.Hdr {
			c.Hdr = h
		}
	}
	for _, n := range f.Replay.Nodes {
		nc, ok := n.cfg()
		if !ok {
			return caseCfg{}, false
		}
		c.Nodes = append(c.Nodes, nc)
	}
	if c.Kind < 0 || c.Hdr < 0 {
		return caseCfg{}, false
	}
	return c, true
}

func cpuSeconds() float64 {
	var ru syscall.Rusage
	syscall.Getrusage(syscall.RUSAGE_SELF, &ru)
	return float64(ru.Utime.Sec+ru.Stime.Sec) + float64(ru.Utime.Usec+ru.Stime.Usec)/1e6
}

func main() {
	run := ev.Start("C30", "exploration")
	root := fmt.Sprintf("/dev/shm/verif.c30.%d", os.Getpid())
	os.RemoveAll(root)
	// scratch of earlier runs that died through a HARNESS-UNBOUND exit (their process is gone)
	if old, _ := filepath.Glob("/dev/shm/verif.c30.*"); len(old) > 0 {
		for _, d := range old {
			if pid, err := strconv.Atoi(strings.TrimPrefix(filepath.Base(d), "verif.c30.")); err == nil && pid != os.Getpid() {
				if syscall.Kill(pid, 0) != nil {
					os.RemoveAll(d)
				}
			}
		}
	}
	cleanup := func() { os.RemoveAll(root) }
	defer cleanup()

	// The router's clock (internal/cluster/router.go, overlay "time") is virtual: a back-off between forward attempts
	// (time.Sleep advances the virtual clock at once; timers are fired by the pump below) costs no wall time and no
	// verdict depends on how long it is. Only router.go is rewritten; net/http's own deadlines stay real.
	vclock.Install(time.Unix(1_700_000_000, 0))
	go func() {
		for {
			time.Sleep(200 * time.Microsecond)
			vclock.Advance(time.Minute)
		}
	}()

	sp := spaces(run.Quick())
	hsp := histSpaces(run.Quick())
	// debugging aid (the run is then reported as not exhaustive): VERIF_C30_ONLY=hist|single
	only := os.Getenv("VERIF_C30_ONLY")
	switch only {
	case "hist":
		sp = nil
	case "single":
		hsp = nil
	}
	var items []cfgItem
	// the small forward retry/failover spaces come first of all (a time cap must never drop them)
	for si, s := range sp {
		if s.First {
			s.expand(si, func(it cfgItem) {
				items = append(items, it)
				s.configs++
			})
		}
	}
	// then the history configurations: they are the larger work items
	var totalHist, totalHistReq int64
	for si, s := range hsp {
		s.expand(si, func(it cfgItem) {
			items = append(items, it)
			s.configs++
			s.forEach(it.nodes[:it.n], func(h histCfg) bool {
				s.histories++
				s.requests += int64(s.Len)
				return true
			})
		})
		totalHist += s.histories
		totalHistReq += s.requests
		fmt.Printf("history space %-8s N=%d requests/history=%d configs=%d histories=%d requests=%d\n", s.Name, s.N, s.Len, s.configs, s.histories, s.requests)
	}
	for si, s := range sp {
		if !s.First {
			s.expand(si, func(it cfgItem) {
				items = append(items, it)
				s.configs++
			})
		}
		s.cases = int64(s.configs) * int64(len(s.Kinds)) * int64(len(s.hdrsFor()))
	}
	var totalCases int64
	for _, s := range sp {
		totalCases += s.cases
		fmt.Printf("space %-18s N=%d configs=%d kinds=%d hdrs=%d cases=%d\n", s.Name, s.N, s.configs, len(s.Kinds), len(s.hdrsFor()), s.cases)
	}
	fmt.Printf("total configurations=%d single-request cases=%d histories=%d (requests=%d)\n", len(items), totalCases, totalHist, totalHistReq)
	if os.Getenv("VERIF_C30_DRY") != "" {
		return
	}
	if run.Seed != 0 {
		rand.New(rand.NewSource(int64(run.Seed))).Shuffle(len(items), func(i, j int) { items[i], items[j] = items[j], items[i] })
	}

	nw := runtime.NumCPU()
	if nw > 16 {
		nw = 16
	}
	if s := os.Getenv("VERIF_C30_WORKERS"); s != "" {
		nw, _ = strconv.Atoi(s)
	}
	if _, ok := loadReplay(run.Replay); ok {
		nw = 1
	}
	if _, ok := loadReplayHist(run.Replay); ok {
		nw = 1
	}
	t0 := time.Now()
	chs := make([]*chassis, nw)
	var wg sync.WaitGroup
	var setupErr atomic.Value
	for w := 0; w < nw; w++ {
		wg.Add(1)
		go func(w int) {
			defer wg.Done()
			ch, err := newChassis(w, filepath.Join(root, fmt.Sprintf("w%d", w)))
			if err != nil {
				setupErr.Store(err.Error())
				return
			}
			chs[w] = ch
		}(w)
	}
	wg.Wait()
	if e := setupErr.Load(); e != nil {
		cleanup()
		ev.Unbound("cannot bring the in-process cluster up: " + e.(string))
	}
	fmt.Printf("%d in-process clusters of %d nodes up in %.1fs\n", nw, maxNodes, time.Since(t0).Seconds())

	if rh, ok := loadReplayHist(run.Replay); ok {
		ch := chs[0]
		bad := 0
		for i := 0; i < 5; i++ {
			res, okRun := ch.runHist(rh)
			fmt.Printf("replay %d: %s (complete=%v)\n", i+1, rh, okRun)
			failed := false
			for _, r := range res {
				fmt.Printf("  step %d: request on the cluster as it stands now: %s -> status=%d forwards=%d processed=%v\n", r.Step+1, r.Case, r.Obs.Status, r.Obs.Forwards, r.Obs.Proc)
				for _, f := range r.Findings {
					fmt.Printf("    %s: %s\n", f.Kind, f.Desc)
					failed = true
				}
			}
			if failed {
				bad++
			}
		}
		for _, c := range chs {
			c.close()
		}
		cleanup()
		if bad > 0 {
			fmt.Printf("VIOLATION property=C30 replay=%s  # reproduced %d/5\n", run.Replay, bad)
			os.Exit(1)
		}
		fmt.Println("replay: no violation")
		os.Exit(0)
	}
	if rc, ok := loadReplay(run.Replay); ok {
		ch := chs[0]
		bad := 0
		for i := 0; i < 5; i++ {
			o, okRun := ch.runRetry(rc)
			fs := judge(rc, o)
			fmt.Printf("replay %d: %s -> status=%d forwards=%d processed=%v transport_ok=%v\n", i+1, rc, o.Status, o.Forwards, o.Proc, okRun)
			for _, f := range fs {
				fmt.Printf("  %s: %s\n", f.Kind, f.Desc)
			}
			if len(fs) > 0 {
				bad++
			}
		}
		for _, c := range chs {
			c.close()
		}
		cleanup()
		if bad > 0 {
			fmt.Printf("VIOLATION property=C30 replay=%s  # reproduced %d/5\n", run.Replay, bad)
			os.Exit(1)
		}
		fmt.Println("replay: no violation")
		os.Exit(0)
	}
	if os.Getenv("VERIF_C30_BENCH") != "" {
		bench(chs[0])
		cleanup()
		return
	}

	cl := &classes{minimal: map[string][]caseCfg{}, sig: map[string]string{}, count: map[string]int{}, desc: map[string]string{}, replay: map[string]any{},
		histMinimal: map[string][]histCfg{}, singleFails: map[string]bool{}}
	var sampleMu sync.Mutex
	sampleBy := map[string]any{} // one executed case per distinct outcome
	var next, evals, nontriv, indeterminate, forwarded, rejected508 atomic.Int64
	var histDone, histReqs, histNontriv, histIndet, histTargetChanged, histFwdThenNot, histNotThenFwd, histFwdBoth atomic.Int64
	perHistEval := make([][]int64, nw)
	fstats := make([]*fwdStats, nw)
	var timeUp atomic.Bool
	outcomes := make([]map[string]int64, nw)
	perSpaceEval := make([][]int64, nw)
	perSpaceNT := make([][]int64, nw)
	const chunk = 4
	outcomeKey := func(k int, o obs) string {
		by := "nobody"
		for i, p := range o.Proc {
			if p > 0 {
				if i == 0 {
					by = "receiver"
				} else {
					by = "peer"
				}
			}
		}
		wq := "query"
		if kinds[k].IsWrite {
			wq = "write"
		}
		return fmt.Sprintf("%s status=%d forwards=%d served-by=%s", wq, o.Status, o.Forwards, by)
	}
	servedBy := func(o obs) int {
		for i, p := range o.Proc {
			if p > 0 {
				return i
			}
		}
		return -1
	}
	for w := 0; w < nw; w++ {
		wg.Add(1)
		outcomes[w] = map[string]int64{}
		fstats[w] = newFwdStats()
		perHistEval[w] = make([]int64, len(hsp))
		perSpaceEval[w] = make([]int64, len(sp))
		perSpaceNT[w] = make([]int64, len(sp))
		go func(w int) {
			defer wg.Done()
			ch := chs[w]
			for {
				lo := int(next.Add(chunk)) - chunk
				if lo >= len(items) {
					return
				}
				hi := lo + chunk
				if hi > len(items) {
					hi = len(items)
				}
				for _, it := range items[lo:hi] {
					if run.TimeUp() {
						timeUp.Store(true)
						return
					}
					if it.hist {
						hs := hsp[it.space]
						done := hs.forEach(it.nodes[:it.n], func(h histCfg) bool {
							if run.TimeUp() {
								return false
							}
							res, ok := ch.runHist(h)
							if !ok {
								histIndet.Add(1)
								return true
							}
							histDone.Add(1)
							perHistEval[w][it.space]++
							nreq := 0
							var prev *stepRes
							for ri := range res {
								r := &res[ri]
								nreq++
								evals.Add(1)
								histReqs.Add(1)
								fstats[w].add(r.Case, r.Obs)
								if nontrivial(r.Case) {
									nontriv.Add(1)
									histNontriv.Add(1)
								}
								okey := fmt.Sprintf("history request %d: %s", nreq, outcomeKey(r.Case.Kind, r.Obs))
								outcomes[w][okey]++
								if outcomes[w][okey] == 1 {
									sampleMu.Lock()
									if _, have := sampleBy[okey]; !have {
										sampleBy[okey] = map[string]any{"outcome": okey, "history": histCfg{Nodes: h.Nodes, Steps: h.Steps[:r.Step+1]}.String(),
											"cluster_at_this_request": r.Case.String(), "status": r.Obs.Status, "forwards": r.Obs.Forwards, "processed_per_node": r.Obs.Proc}
									}
									sampleMu.Unlock()
								}
								if prev != nil && kinds[prev.Case.Kind].IsWrite == kinds[r.Case.Kind].IsWrite {
									a, b := servedBy(prev.Obs), servedBy(r.Obs)
									switch {
									case a > 0 && b > 0 && a != b:
										histTargetChanged.Add(1)
									case a > 0 && b > 0:
										histFwdBoth.Add(1)
									case a > 0 && b <= 0:
										histFwdThenNot.Add(1)
									case a < 0 && b > 0:
										histNotThenFwd.Add(1)
									}
								}
								prev = r
								for _, f := range r.Findings {
									cl.reportHist(ch, histCfg{Nodes: h.Nodes, Steps: h.Steps[:r.Step+1]}, f)
								}
							}
							return true
						})
						if !done {
							timeUp.Store(true)
							return
						}
						if ch.sinceFlush >= 20000 {
							ch.reconcile()
						}
						continue
					}
					s := sp[it.space]
					for _, k := range s.Kinds {
						for _, h := range s.hdrsFor() {
							c := caseCfg{Nodes: append([]nodeCfg{}, it.nodes[:it.n]...), Kind: k, Hdr: h}
							o, ok := ch.runRetry(c)
							if !ok {
								indeterminate.Add(1)
								continue
							}
							evals.Add(1)
							perSpaceEval[w][it.space]++
							fstats[w].add(c, o)
							if nontrivial(c) {
								nontriv.Add(1)
								perSpaceNT[w][it.space]++
							}
							if o.Forwards > 0 {
								forwarded.Add(1)
							}
							if o.Status == 508 {
								rejected508.Add(1)
							}
							okey := outcomeKey(k, o)
							outcomes[w][okey]++
							if outcomes[w][okey] == 1 {
								sampleMu.Lock()
								if _, have := sampleBy[okey]; !have {
									sampleBy[okey] = map[string]any{"outcome": okey, "case": c.String(), "status": o.Status, "forwards": o.Forwards, "processed_per_node": o.Proc}
								}
								sampleMu.Unlock()
							}
							fs := judge(c, o)
							for _, f := range fs {
								cl.report(ch, c, f)
							}
						}
					}
					if ch.sinceFlush >= 20000 {
						ch.reconcile()
					}
				}
			}
		}(w)
	}
	wg.Wait()
	fwd := newFwdStats()
	routerRetries := 0
	for w, ch := range chs {
		fwd.merge(fstats[w])
		if ch.retries != 0 && (routerRetries == 0 || ch.retries < routerRetries) {
			routerRetries = ch.retries
		}
	}
	var storeRows, tErrs, residual, broken, fwdTErrs int64
	lastFTE := ""
	var storeBad []string
	lastTE := ""
	for _, ch := range chs {
		ch.reconcile()
		storeRows += ch.storeRows
		storeBad = append(storeBad, ch.storeBad...)
		tErrs += ch.transportErrs
		fwdTErrs += ch.fwdTransportErrs
		if ch.lastFwdTransportErr != "" {
			lastFTE = ch.lastFwdTransportErr
		}
		residual += ch.residual.Load()
		broken += ch.broken.Load()
		if ch.lastTransportErr != "" {
			lastTE = ch.lastTransportErr
		}
	}
	for _, ch := range chs {
		ch.close()
	}
	cleanup()
	if len(storeBad) > 0 {
		sort.Strings(storeBad)
		ev.Unbound(fmt.Sprintf("observation inconsistent: %d store/WAL mismatches, e.g. %s", len(storeBad), storeBad[0]))
	}

	merged := map[string]int64{}
	for _, m := range outcomes {
		for k, v := range m {
			merged[k] += v
		}
	}
	okeys := make([]string, 0, len(merged))
	for k := range merged {
		okeys = append(okeys, k)
	}
	sort.Strings(okeys)
	var spaceRows []map[string]any
	for si, s := range sp {
		var e, nt int64
		for w := 0; w < nw; w++ {
			e += perSpaceEval[w][si]
			nt += perSpaceNT[w][si]
		}
		var kn []string
		for _, k := range s.Kinds {
			kn = append(kn, kinds[k].Name)
		}
		var hn []string
		for _, h := range s.hdrsFor() {
			hn = append(hn, hdrName[h])
		}
		spaceRows = append(spaceRows, map[string]any{"space": s.Name, "nodes": s.N, "what": s.Desc, "configurations": s.configs, "request_kinds": kn,
			"client_headers": hn, "cases": s.cases, "evaluated": e, "nontrivial": nt, "max_stale_nodes": s.MaxStale})
	}
	var histRows []map[string]any
	for si, s := range hsp {
		var e int64
		for w := 0; w < nw; w++ {
			e += perHistEval[w][si]
		}
		var kn, tn []string
		for _, k := range s.Kinds {
			kn = append(kn, kinds[k].Name)
		}
		for _, op := range s.Ops {
			tn = append(tn, transName[op])
		}
		histRows = append(histRows, map[string]any{"space": s.Name, "nodes": s.N, "requests_per_history": s.Len, "what": s.Desc, "configurations": s.configs,
			"request_kinds": kn, "transitions": tn, "histories": s.histories, "histories_executed": e, "requests": s.requests})
	}
	exhaustive := only == "" && !timeUp.Load() && evals.Load()-histReqs.Load()+indeterminate.Load() == totalCases && indeterminate.Load() == 0 &&
		histDone.Load() == totalHist && histReqs.Load() == totalHistReq && histIndet.Load() == 0
	run.Coverage["evaluations"] = evals.Load()
	run.Coverage["distinct_nontrivial"] = nontriv.Load()
	run.Coverage["rule"] = "cases = every configuration of each listed space (receiving node x every multiset of peers x staleness bound; the N3-failover/N4-failover spaces = every forwarding receiving node x every multiset of peers recorded healthy that are reachable or refuse connections, for ALL 11 request kinds, scheduled first) x request kind x client X-Arc-Forwarded-By value, each executed once on real fiber apps/handlers/routers wired over in-memory HTTP; all cases are distinct by construction (canonical key = kind, header, receiver attributes, sorted peer attributes); non-trivial = the receiving node cannot serve the request itself, or the client sent a forwarding header, or some node's recorded role is stale"
	run.Coverage["rule"] = run.Coverage["rule"].(string) + "; PLUS request histories: every configuration of each history space x every sequence of request kinds x every applicable transition between consecutive requests, all requests sent to the same receiving node of one long-lived cluster (routers and registries kept, changed only through Registry.UpdateNodeState/Get+Register/Register/Unregister), every request judged against the cluster state at that moment and counted as one evaluation; histories are distinct by construction (identical initial peers are interchangeable: the first transition touches only the first of them)"
	run.Coverage["spaces"] = spaceRows
	run.Coverage["history_spaces"] = histRows
	run.Coverage["single_request_cases"] = evals.Load() - histReqs.Load()
	run.Coverage["histories"] = histDone.Load()
	run.Coverage["history_requests"] = histReqs.Load()
	run.Coverage["history_requests_nontrivial"] = histNontriv.Load()
	run.Coverage["histories_indeterminate"] = histIndet.Load()
	run.Coverage["history_consecutive_same_class_requests"] = map[string]int64{
		"forwarded_then_forwarded_to_another_peer": histTargetChanged.Load(), "forwarded_twice_to_the_same_peer": histFwdBoth.Load(),
		"forwarded_then_not_served_by_a_peer": histFwdThenNot.Load(), "served_by_nobody_then_by_a_peer": histNotThenFwd.Load()}
	run.Coverage["exhaustive"] = exhaustive
	run.Coverage["indeterminate_client_transport_errors"] = indeterminate.Load()
	run.Coverage["client_transport_errors_retried"] = tErrs
	if lastTE != "" {
		run.Coverage["client_transport_error_example"] = lastTE
	}
	run.Coverage["forwarding_hop_transport_errors_reexecuted"] = fwdTErrs // included in client_transport_errors_retried
	if lastFTE != "" {
		run.Coverage["forwarding_hop_transport_error_example"] = lastFTE
	}
	run.Coverage["stale_requests_rejected_by_harness"] = residual
	run.Coverage["forwarding_loops_cut_by_harness"] = broken
	run.Coverage["cases_forwarded"] = forwarded.Load()
	run.Coverage["router_retries_configured"] = routerRetries
	run.Coverage["forward_deliveries_judged_for_their_address"] = fwd.Deliveries
	refused := map[string]int64{}
	for i, v := range fwd.Refused {
		if v > 0 {
			k := strconv.Itoa(i)
			if i == 9 {
				k = "9+"
			}
			refused[k] = v
		}
	}
	run.Coverage["requests_by_refused_forward_attempts"] = refused
	run.Coverage["failover_trap_requests_by_kind"] = map[string]any{
		"what":                        "requests (single-request cases and history requests) whose receiving node must forward while a member recorded healthy with a capable recorded role refuses connections (crashed-undetected) and another member recorded healthy and reachable has an incapable recorded role",
		"all":                         fwd.Trap,
		"crashed_peer_selected":       fwd.TrapSelected,
		"and_forward_attempted_again": fwd.TrapRetried,
	}
	run.Coverage["cases_rejected_508"] = rejected508.Load()
	run.Coverage["distinct_outcomes"] = len(merged)
	run.Coverage["outcomes"] = merged
	run.Coverage["store_rows_reconciled"] = storeRows
	run.Coverage["reference_validated"] = fmt.Sprintf("%d accepted writes found, after flush, in the Parquet store of exactly the node whose WAL hook saw them", storeRows)
	run.Coverage["minimisation_executions"] = atomic.LoadInt64(&cl.minRuns)
	run.Coverage["workers"] = nw
	var sl []any
	for _, k := range okeys {
		if v, ok := sampleBy[k]; ok {
			sl = append(sl, v)
		}
	}
	run.Coverage["samples"] = sl
	run.Assume("capability table used by the oracle (standalone/writer: ingest+query; reader: query only; compactor: neither) is the documented contract of internal/cluster/role.go, written out in the harness")
	run.Assume("a node without a cluster router is a non-clustered server (main.go wires a router whenever a coordinator exists), so it may serve everything locally")
	run.Assume("every node's registry holds its own LocalNode plus the same recorded entry for each other node (a shared, possibly stale, membership view); per-viewer divergent views are not enumerated")
	run.Assume("peers are interchangeable (node ids are opaque to Router/Registry), so multisets of peers are enumerated instead of tuples; which of several equally eligible peers the router picks depends on Go map order and is not controlled — the safety clauses are demanded of whatever it picks, the 'must be forwarded' clause only when every eligible pick is good")
	run.Assume("a client header on a request that the receiving node cannot serve may be answered by an error (508) instead of a forward: the property demands no local processing and no second hop there, not success")
	run.Assume("request histories: receiving node with a router and a correctly recorded role, no client forwarding header, 2-3 nodes, 2 (quick) / 2-3 (thorough) requests with exactly one transition between consecutive requests; an unregistered peer keeps running and stays reachable (unless it had crashed before); crash(p) changes no registry; all nodes' registries receive the same transition; the 'served by a capable peer' clause counts a peer as eligible by the registry state at the time of THAT request (member, recorded healthy, recorded role able to serve) and demands that the serving node is one of them")
	run.Assume("RouterConfig.Timeout (net/http client timeout on the real clock, production default 5 s) is set to 10 min so that machine load cannot turn a delivered forward into a timed-out one: observed once on a machine with load average ~250, where Router.forwardRequest re-sent a write that the peer had already ingested (processed twice) - retrying a non-idempotent forward after a lost response is at-least-once delivery and belongs to the excluded 'transport faults after delivery'")
	run.Assume("an execution in which a forward attempt failed with an error of the router's own http.Client that the harness did not inject (recognised in the routers' warn-level log: message 'Forward attempt failed' with a url.Error-formatted error other than the injected dial refusal - unreadable/unparsable response, broken or stale pooled connection, client timeout) is re-executed like one whose client connection broke, and never judged; errors the router makes up itself are not excused")
	run.Assume("transport faults after delivery (forward retried by Router.forwardRequest after a lost response) are outside the configuration space; unreachable peers refuse the connection (every forward attempt against them fails at dial, which runs the router's retry loop with its production default number of retries: see router_retries_configured and requests_by_refused_forward_attempts)")
	run.Assume("forward-addressing clauses: an inter-node delivery is every inbound request of a peer and every inbound request of the receiving node after the client's own (the client talks to the receiving node only); the role a delivery is judged by is the one RECORDED for the target in the shared membership view (a target that is not a member has none), not its real role and not its health; forward attempts that are refused at dial arrive nowhere and are not judged; internal/cluster/router.go runs on a virtual clock (time.Sleep returns at once, timers are fired by a harness pump), net/http deadlines stay real")
	run.Assume("import, delete, continuous-query and management endpoints are not request kinds of this property; auth/RBAC disabled")
	run.Assume("inter-node HTTP runs over fasthttputil in-memory listeners through the production http.Transport type injected via RouterConfig.Transport (DialContext only); no TLS")
	if !exhaustive {
		run.Assume(fmt.Sprintf("NOT exhaustive: %d of %d single-request cases and %d of %d histories evaluated (time cap or %d+%d indeterminate)", evals.Load()-histReqs.Load(), totalCases, histDone.Load(), totalHist, indeterminate.Load(), histIndet.Load()))
	}
	sigs := make([]string, 0, len(cl.desc))
	for s := range cl.desc {
		sigs = append(sigs, s)
	}
	sort.Strings(sigs)
	for _, s := range sigs {
		for i := 0; i < cl.count[s]; i++ {
			run.Violate(s, cl.desc[s], cl.replay[s])
		}
	}
	for _, r := range histRows {
		fmt.Printf("history space %-8v N=%v requests/history=%v configurations=%v histories=%v executed=%v\n", r["space"], r["nodes"], r["requests_per_history"], r["configurations"], r["histories"], r["histories_executed"])
	}
	fmt.Printf("histories=%d requests=%d nontrivial=%d; consecutive same-class requests: target changed=%d same target=%d forwarded-then-not=%d not-then-forwarded=%d\n",
		histDone.Load(), histReqs.Load(), histNontriv.Load(), histTargetChanged.Load(), histFwdBoth.Load(), histFwdThenNot.Load(), histNotThenFwd.Load())
	for _, r := range spaceRows {
		fmt.Printf("space %-14v N=%v configurations=%v evaluated=%v nontrivial=%v\n", r["space"], r["nodes"], r["configurations"], r["evaluated"], r["nontrivial"])
	}
	for _, k := range okeys {
		fmt.Printf("  outcome %-55s %d\n", k, merged[k])
	}
	var trapAll, trapSel, trapRetry int64
	for _, k := range kinds {
		trapAll += fwd.Trap[k.Name]
		trapSel += fwd.TrapSelected[k.Name]
		trapRetry += fwd.TrapRetried[k.Name]
	}
	fmt.Printf("forward addressing: router retries=%d deliveries judged=%d refused-attempt histogram=%v failover-trap requests=%d (kinds=%d) crashed peer selected=%d retried=%d\n",
		routerRetries, fwd.Deliveries, fwd.Refused, trapAll, len(fwd.Trap), trapSel, trapRetry)
	fmt.Printf("C30 evaluated=%d nontrivial=%d forwarded=%d rejected508=%d outcomes=%d classes=%d exhaustive=%v cpu=%.0fs wall=%.1fs\n",
		evals.Load(), nontriv.Load(), forwarded.Load(), rejected508.Load(), len(merged), len(sigs), exhaustive, cpuSeconds(), time.Since(t0).Seconds())
	run.Finish()
}

func bench(ch *chassis) {
	W := nodeCfg{'W', 'W', '-', 'h', true, false}
	R := nodeCfg{'R', 'R', '-', 'h', true, false}
	C := nodeCfg{'C', 'C', '-', 'h', true, false}
	for k := 0; k < nKinds; k++ {
		for _, cc := range []caseCfg{{[]nodeCfg{W, R, C}, k, hAbsent}, {[]nodeCfg{C, W, R}, k, hAbsent}, {[]nodeCfg{C, C, C}, k, hAbsent}} {
			n := 500
			c0, t := cpuSeconds(), time.Now()
			st := 0
			for i := 0; i < n; i++ {
				o, _ := ch.runRetry(cc)
				st = o.Status
			}
			fmt.Printf("%-70s st=%d cpu/case=%.0fus wall/case=%.0fus\n", cc, st, (cpuSeconds()-c0)/float64(n)*1e6, float64(time.Since(t).Microseconds())/float64(n))
		}
	}
}
