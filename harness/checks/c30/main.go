// C30 — Requests are served by a capable node after at most one forward.
//
// Exhaustive configuration enumeration on the real code: 1..4 in-process nodes, each a real
// api.Server (fiber app + production middleware) with the real MsgPack / LineProtocol / TLE /
// Query handlers, a real ArrowBuffer on its own LocalBackend, its own DuckDB and its own real
// cluster.Router + cluster.Registry. The routers' http.Transport (RouterConfig.Transport) dials
// fasthttputil in-memory listeners served by the other nodes' fiber apps, so a forward is a real
// HTTP/1.1 exchange through BuildHTTPRequest -> Router.RouteWrite/RouteQuery -> doForward ->
// the peer's fasthttp server -> CopyResponse. Nothing of the routing logic is modelled.
//
// Observation per node and per case: inbound requests (harness middleware in front of the routes,
// with the X-Arc-Forwarded-By value seen), local write processing (recording ingest.WALWriter wired
// with ArrowBuffer.SetWAL + the buffer's own total_records_buffered counter; later the flushed Parquet
// files of the node's store), local query execution (the node's real queryregistry history and a
// per-node marker measurement whose row count identifies the node in the response).
package main

import (
	"bytes"
	"context"
	"encoding/json"
	"errors"
	"fmt"
	"io"
	"io/fs"
	"net"
	"net/http"
	"os"
	"path/filepath"
	"math/rand"
	"runtime"
	"syscall"
	"sort"
	"strconv"
	"strings"
	"sync"
	"sync/atomic"
	"time"

	"github.com/Basekick-Labs/msgpack/v6"
	"github.com/apache/arrow-go/v18/arrow/ipc"
	"github.com/basekick-labs/arc/internal/api"
	"github.com/basekick-labs/arc/internal/cluster"
	"github.com/basekick-labs/arc/internal/config"
	"github.com/basekick-labs/arc/internal/database"
	"github.com/basekick-labs/arc/internal/ingest"
	"github.com/basekick-labs/arc/internal/queryregistry"
	"github.com/basekick-labs/arc/internal/storage"
	"github.com/basekick-labs/arc/zzverif/engine/ev"
	"github.com/basekick-labs/arc/zzverif/hx"
	"github.com/gofiber/fiber/v2"
	"github.com/rs/zerolog"
	"github.com/valyala/fasthttp/fasthttputil"
)

// ---------------------------------------------------------------------------------------------
// configuration space

const maxNodes = 4

// roles, by the letter used in signatures
var roleOf = map[byte]cluster.NodeRole{'S': cluster.RoleStandalone, 'W': cluster.RoleWriter, 'R': cluster.RoleReader, 'C': cluster.RoleCompactor}
var roleName = map[byte]string{'S': "standalone", 'W': "writer", 'R': "reader", 'C': "compactor"}
var roleLetters = []byte{'S', 'W', 'R', 'C'}

// nodeCfg is one node of a configuration.
//
//	Real   role the node really runs with (its router's LocalNode.Role)
//	Rec    role recorded for the node in the OTHER nodes' registries (Rec != Real: stale view)
//	WS     writer state recorded for it: '-' none, 'p' primary, 's' standby (only when Rec == 'W')
//	Health 'h' recorded healthy and reachable, 'u' recorded unhealthy (reachable), 'f' failed: recorded dead and
//	       unreachable, 'x' crashed but not yet detected: recorded healthy, unreachable (peers only)
//	Router false = the node has no cluster router wired into its handlers (receiving node only)
type nodeCfg struct {
	Real, Rec, WS, Health byte
	Router                bool
}

func (n nodeCfg) stale() bool { return n.Rec != n.Real }

func (n nodeCfg) String() string {
	s := roleName[n.Real]
	var attrs []string
	if n.stale() {
		attrs = append(attrs, "seen-as="+roleName[n.Rec])
	}
	switch n.WS {
	case 'p':
		attrs = append(attrs, "primary")
	case 's':
		attrs = append(attrs, "standby")
	}
	switch n.Health {
	case 'u':
		attrs = append(attrs, "unhealthy")
	case 'f':
		attrs = append(attrs, "failed")
	case 'x':
		attrs = append(attrs, "crashed-undetected")
	}
	if !n.Router {
		attrs = append(attrs, "no-router")
	}
	if len(attrs) > 0 {
		s += "(" + strings.Join(attrs, ",") + ")"
	}
	return s
}

func (n nodeCfg) key() string {
	r := byte('r')
	if !n.Router {
		r = '-'
	}
	return string([]byte{n.Real, n.Rec, n.WS, n.Health, r})
}

func (n nodeCfg) up() bool { return n.Health == 'h' || n.Health == 'u' }

// request kinds
type kindDef struct {
	Name    string
	IsWrite bool
	Primary bool // the three kinds named by the property's mechanism; the others are the sibling endpoints
}

const (
	kMsgpack = iota
	kLP
	kLPv1
	kLPv2
	kTLE
	kQuery
	kQueryShow
	kQueryMsgpack
	kQueryArrow
	kQueryEstimate
	kQueryMeasurement
	nKinds
)

var kinds = [nKinds]kindDef{
	kMsgpack:          {"write-msgpack", true, true},
	kLP:               {"write-lp", true, true},
	kLPv1:             {"write-lp-influx1", true, false},
	kLPv2:             {"write-lp-influx2", true, false},
	kTLE:              {"write-tle", true, false},
	kQuery:            {"query", false, true},
	kQueryShow:        {"query-show", false, true},
	kQueryMsgpack:     {"query-msgpack", false, false},
	kQueryArrow:       {"query-arrow", false, false},
	kQueryEstimate:    {"query-estimate", false, false},
	kQueryMeasurement: {"query-measurement", false, false},
}

// client-supplied X-Arc-Forwarded-By
const (
	hAbsent = iota
	hJunk
	hSelf  // the receiving node's own id
	hPeer  // the id of another node of the cluster (N >= 2)
	hLower // junk value, header name sent in lower case
	nHdrs
)

var hdrName = [nHdrs]string{"absent", "junk", "self-id", "peer-id", "junk-lowercase-name"}

type caseCfg struct {
	Nodes []nodeCfg // [0] = receiving node, the rest = peers (order irrelevant: canonical = sorted)
	Kind  int
	Hdr   int
}

func (c caseCfg) clone() caseCfg {
	return caseCfg{Nodes: append([]nodeCfg{}, c.Nodes...), Kind: c.Kind, Hdr: c.Hdr}
}

func (c caseCfg) canon() caseCfg {
	o := c.clone()
	p := o.Nodes[1:]
	sort.Slice(p, func(i, j int) bool { return p[i].key() < p[j].key() })
	return o
}

func (c caseCfg) String() string {
	c = c.canon()
	var ps []string
	for _, p := range c.Nodes[1:] {
		ps = append(ps, p.String())
	}
	return fmt.Sprintf("%s|hdr=%s|recv=%s|peers=[%s]", kinds[c.Kind].Name, hdrName[c.Hdr], c.Nodes[0], strings.Join(ps, ","))
}

func (c caseCfg) key() string {
	c = c.canon()
	var b strings.Builder
	fmt.Fprintf(&b, "%d/%d", c.Kind, c.Hdr)
	for _, n := range c.Nodes {
		b.WriteByte('/')
		b.WriteString(n.key())
	}
	return b.String()
}

// ---------------------------------------------------------------------------------------------
// the in-process cluster ("chassis": built once per worker, re-wired per case)

type inboundRec struct {
	Path  string
	FwdBy string
	Has   bool
}

type walRec struct {
	mu     sync.Mutex
	events []string // one rendered string per append call
}

func (w *walRec) add(s string) { w.mu.Lock(); w.events = append(w.events, s); w.mu.Unlock() }
func (w *walRec) Append(records []map[string]interface{}) error {
	w.add(fmt.Sprint(records))
	return nil
}
func (w *walRec) AppendRaw(payload []byte) error { w.add(string(payload)); return nil }
func (w *walRec) AppendRawWithMeta(database string, payload []byte) error {
	w.add(database + "\x00" + string(payload))
	return nil
}
func (w *walRec) Stats() map[string]interface{} { return map[string]interface{}{} }
func (w *walRec) Close() error                   { return nil }
func (w *walRec) take() []string {
	w.mu.Lock()
	defer w.mu.Unlock()
	e := w.events
	w.events = nil
	return e
}

type node struct {
	idx   int
	id    string
	addr  string
	dir   string
	store *storage.LocalBackend
	db    *database.DuckDB
	buf   *ingest.ArrowBuffer
	wal   *walRec
	srv   *api.Server
	app   *fiber.App
	ln    *fasthttputil.InmemoryListener
	mp    *api.MsgPackHandler
	lp    *api.LineProtocolHandler
	tle   *api.TLEHandler
	qh    *api.QueryHandler
	qreg  *queryregistry.Registry

	mu      sync.Mutex
	inbound []inboundRec
}

func (n *node) takeInbound() []inboundRec {
	n.mu.Lock()
	defer n.mu.Unlock()
	r := n.inbound
	n.inbound = nil
	return r
}

func (n *node) buffered() int64 {
	v, _ := n.buf.GetStats()["total_records_buffered"].(int64)
	return v
}

type chassis struct {
	id        int
	root      string
	nodes     [maxNodes]*node
	tr        *http.Transport
	client    *http.Client
	dialFails atomic.Int64
	seq       int64 // case counter -> unique cid
	// end-to-end reconciliation of the stores
	expectStore map[string]int // cid -> node index whose WAL saw it
	sinceFlush  int
	storeRows   int64
	storeBad    []string
}

const markerMeas = "c30marker"
const writeMeas = "c30w"

func ingestCfg() *config.IngestConfig {
	return &config.IngestConfig{MaxBufferSize: 10_000_000, MaxBufferAgeMS: 3_600_000, Compression: "snappy", FlushWorkers: 1,
		FlushQueueSize: 16, ShardCount: 1, FlushTimeoutSeconds: 60, WriteStatistics: true}
}

func nodeID(i int) string   { return fmt.Sprintf("node-%d", i) }
func nodeAddr(i int) string { return fmt.Sprintf("n%d.c30.test:8000", i) }
func downAddr(i int) string { return fmt.Sprintf("down%d.c30.test:8000", i) }

func newChassis(id int, root string) (*chassis, error) {
	ch := &chassis{id: id, root: root, expectStore: map[string]int{}}
	lg := zerolog.Nop()
	byAddr := map[string]*fasthttputil.InmemoryListener{}
	for i := 0; i < maxNodes; i++ {
		n := &node{idx: i, id: nodeID(i), addr: nodeAddr(i), dir: filepath.Join(root, fmt.Sprintf("n%d", i)), wal: &walRec{}}
		storeDir := filepath.Join(n.dir, "store")
		tmp := filepath.Join(n.dir, "tmp")
		for _, d := range []string{storeDir, filepath.Join(tmp, "spill"), filepath.Join(tmp, "upload")} {
			if err := os.MkdirAll(d, 0o755); err != nil {
				return nil, err
			}
		}
		var err error
		if n.store, err = storage.NewLocalBackend(storeDir, lg); err != nil {
			return nil, err
		}
		if n.db, err = database.New(&database.Config{MaxConnections: 2, MemoryLimit: "256MB", ThreadCount: 1,
			TempDirectory: filepath.Join(tmp, "spill"), UploadDir: filepath.Join(tmp, "upload"), LocalStorageRoot: n.store.GetBasePath()}, lg); err != nil {
			return nil, fmt.Errorf("database.New: %w", err)
		}
		n.buf = ingest.NewArrowBuffer(ingestCfg(), n.store, lg)
		n.buf.SetWAL(n.wal)
		n.srv = api.NewServer(&api.ServerConfig{Port: 8000, ReadTimeout: 30 * time.Second, WriteTimeout: 30 * time.Second,
			IdleTimeout: 120 * time.Second, ShutdownTimeout: time.Second, MaxPayloadSize: 16 << 20}, lg)
		n.app = n.srv.GetApp()
		nn := n
		n.app.Use(func(c *fiber.Ctx) error {
			v := c.Request().Header.Peek("X-Arc-Forwarded-By")
			rec := inboundRec{Path: string(c.Request().URI().Path()), FwdBy: string(v), Has: len(v) > 0}
			nn.mu.Lock()
			nn.inbound = append(nn.inbound, rec)
			nn.mu.Unlock()
			return c.Next()
		})
		n.mp = api.NewMsgPackHandler(lg, n.buf, 16<<20)
		n.mp.RegisterRoutes(n.app)
		n.lp = api.NewLineProtocolHandler(n.buf, lg)
		n.lp.RegisterRoutes(n.app)
		n.tle = api.NewTLEHandler(n.buf, lg)
		n.tle.RegisterRoutes(n.app)
		n.qh = api.NewQueryHandler(n.db, n.store, lg, 30, 0)
		n.qreg = queryregistry.NewRegistry(&queryregistry.RegistryConfig{HistorySize: 16}, lg)
		n.qh.SetQueryRegistry(n.qreg)
		n.qh.RegisterRoutes(n.app)
		n.ln = fasthttputil.NewInmemoryListener()
		byAddr[n.addr] = n.ln
		go func() { _ = nn.app.Listener(nn.ln) }()
		ch.nodes[i] = n
	}
	ch.tr = &http.Transport{
		DialContext: func(ctx context.Context, network, addr string) (net.Conn, error) {
			if ln, ok := byAddr[addr]; ok {
				return ln.Dial()
			}
			ch.dialFails.Add(1)
			return nil, &net.OpError{Op: "dial", Net: network, Err: errors.New("connection refused (node is down)")}
		},
		MaxIdleConns: 64, MaxIdleConnsPerHost: 8, IdleConnTimeout: time.Hour, DisableCompression: true,
	}
	ch.client = &http.Client{Transport: ch.tr, Timeout: 60 * time.Second}
	// marker measurement: node i holds i+1 rows, written through its own real write path and flushed
	for i, n := range ch.nodes {
		ch.wire(n, nil)
		var lines []string
		for j := 0; j <= i; j++ {
			lines = append(lines, fmt.Sprintf("%s,src=n%d v=%di %d", markerMeas, i, j, int64(1_700_000_000_000_000_000)+int64(j)*1_000_000))
		}
		st, body, err := ch.do(i, "POST", "/api/v1/write/line-protocol", "text/plain", []byte(strings.Join(lines, "\n")), nil)
		if err != nil || st != 204 {
			return nil, fmt.Errorf("marker write on node %d: status %d err %v body %s", i, st, err, body)
		}
		if err := n.buf.FlushAll(context.Background()); err != nil {
			return nil, fmt.Errorf("marker flush: %w", err)
		}
		n.wal.take()
		n.takeInbound()
	}
	// wait for the asynchronous flush workers, then verify through the real query path
	deadline := time.Now().Add(20 * time.Second)
	for i, n := range ch.nodes {
		for {
			nrows, st, body := ch.markerRows(i)
			if st == 200 && nrows == i+1 {
				break
			}
			if time.Now().After(deadline) {
				return nil, fmt.Errorf("marker on node %d not queryable: status %d rows %d body %.300s", i, st, nrows, body)
			}
			time.Sleep(20 * time.Millisecond)
		}
		n.takeInbound()
	}
	return ch, nil
}

// markerRows runs the marker query directly against node i (router unwired).
func (ch *chassis) markerRows(i int) (int, int, string) {
	b, _ := json.Marshal(map[string]string{"sql": "SELECT 0 AS cid, count(*) AS nrows FROM " + markerMeas})
	st, body, err := ch.do(i, "POST", "/api/v1/query", "application/json", b, nil)
	if err != nil {
		return -1, -1, err.Error()
	}
	_, nrows, ok := parseJSONQuery(body)
	if !ok {
		return -1, st, string(body)
	}
	return nrows, st, string(body)
}

func (ch *chassis) wire(n *node, r *cluster.Router) {
	n.mp.SetRouter(r)
	n.lp.SetRouter(r)
	n.tle.SetRouter(r)
	n.qh.SetRouter(r)
}

func (ch *chassis) do(target int, method, path, ct string, body []byte, hdr map[string][]string) (int, []byte, error) {
	req, err := http.NewRequest(method, "http://"+nodeAddr(target)+path, bytes.NewReader(body))
	if err != nil {
		return 0, nil, err
	}
	if ct != "" {
		req.Header.Set("Content-Type", ct)
	}
	for k, v := range hdr {
		req.Header[k] = v // raw key: lets a case send a non-canonical header name
	}
	resp, err := ch.client.Do(req)
	if err != nil {
		return 0, nil, err
	}
	defer resp.Body.Close()
	b, err := io.ReadAll(resp.Body)
	return resp.StatusCode, b, err
}

func (ch *chassis) close() {
	for _, n := range ch.nodes {
		if n == nil {
			continue
		}
		ch.wire(n, nil)
		_ = n.app.ShutdownWithTimeout(time.Second)
		_ = n.buf.Close()
		_ = n.db.Close()
	}
	ch.tr.CloseIdleConnections()
}

// ---------------------------------------------------------------------------------------------
// executing one case

type obs struct {
	Status   int
	Inbound  [][]inboundRec // per node
	Proc     []int          // per node: local processings of THIS request
	Forwards int            // delivered inter-node requests (inbound beyond the client's own)
	ExecNode int            // query kinds: node identified by the marker in a 2xx response (-1 = none)
	CidEcho  bool           // query kinds: response carried this case's cid
	DialFail int64
	Body     string
	Err      string
}

func tleBody(cid string) []byte {
	return []byte(cid + "\n1 25544U 98067A   24001.50000000  .00016717  00000-0  10270-3 0  9005\n2 25544  51.6400 208.9163 0006703  69.9862  25.2906 15.49560000    13\n")
}

// run executes the case on the chassis and returns what every node did.
func (ch *chassis) run(c caseCfg) obs {
	N := len(c.Nodes)
	ch.seq++
	cidNum := int64(ch.id)*1_000_000_000 + ch.seq
	cid := fmt.Sprintf("CID%dX", cidNum)

	// cluster wiring: every node has its own registry (own entry = its LocalNode; the others as recorded)
	for i := 0; i < N; i++ {
		nc := c.Nodes[i]
		if !nc.Router {
			ch.wire(ch.nodes[i], nil)
			continue
		}
		local := cluster.NewNode(nodeID(i), nodeID(i), roleOf[nc.Real], "c30")
		local.SetAddresses("", nodeAddr(i))
		local.UpdateState(cluster.StateHealthy)
		if nc.Real == 'W' && nc.Rec == 'W' {
			local.SetWriterState(wsOf(nc.WS))
		}
		reg := cluster.NewRegistry(&cluster.RegistryConfig{LocalNode: local, Logger: zerolog.Nop()})
		for j := 0; j < N; j++ {
			if j == i {
				continue
			}
			pc := c.Nodes[j]
			p := cluster.NewNode(nodeID(j), nodeID(j), roleOf[pc.Rec], "c30")
			if pc.up() {
				p.SetAddresses("", nodeAddr(j))
			} else {
				p.SetAddresses("", downAddr(j))
			}
			switch pc.Health {
			case 'h', 'x':
				p.UpdateState(cluster.StateHealthy)
			case 'u':
				p.UpdateState(cluster.StateUnhealthy)
			case 'f':
				p.UpdateState(cluster.StateDead)
			}
			if pc.Rec == 'W' {
				p.SetWriterState(wsOf(pc.WS))
			}
			if err := reg.Register(p); err != nil {
				ev.Unbound("registry.Register: " + err.Error())
			}
		}
		r := cluster.NewRouter(&cluster.RouterConfig{Registry: reg, LocalNode: local, Logger: zerolog.Nop(), Transport: ch.tr})
		ch.wire(ch.nodes[i], r)
	}
	for i := N; i < maxNodes; i++ {
		ch.wire(ch.nodes[i], nil)
	}

	before := make([]int64, maxNodes)
	for i, n := range ch.nodes {
		before[i] = n.buffered()
	}
	df0 := ch.dialFails.Load()

	// the request
	var method, path, ct string
	var body []byte
	method = "POST"
	switch c.Kind {
	case kMsgpack:
		path, ct = "/api/v1/write/msgpack", "application/msgpack"
		body, _ = msgpack.Marshal(map[string]interface{}{"m": writeMeas, "columns": map[string]interface{}{
			"time": []interface{}{int64(1_700_000_000_000_000) + ch.seq}, "cid": []interface{}{cid}, "v": []interface{}{1.5}}})
	case kLP, kLPv1, kLPv2:
		ct = "text/plain"
		path = map[int]string{kLP: "/api/v1/write/line-protocol", kLPv1: "/write?db=default", kLPv2: "/api/v2/write?bucket=default&org=o"}[c.Kind]
		body = []byte(fmt.Sprintf("%s,cid=%s v=1i %d", writeMeas, cid, int64(1_700_000_000_000_000_000)+ch.seq*1000))
	case kTLE:
		path, ct = "/api/v1/write/tle", "text/plain"
		body = tleBody(cid)
	case kQuery, kQueryMsgpack, kQueryArrow:
		path = map[int]string{kQuery: "/api/v1/query", kQueryMsgpack: "/api/v1/query/msgpack", kQueryArrow: "/api/v1/query/arrow"}[c.Kind]
		ct = "application/json"
		body, _ = json.Marshal(map[string]string{"sql": fmt.Sprintf("SELECT %d AS cid, count(*) AS nrows FROM %s", cidNum, markerMeas)})
	case kQueryEstimate:
		path, ct = "/api/v1/query/estimate", "application/json"
		body, _ = json.Marshal(map[string]string{"sql": fmt.Sprintf("SELECT *, %d AS cid FROM %s", cidNum, markerMeas)})
	case kQueryMeasurement:
		method, path = "GET", "/api/v1/query/"+markerMeas+"?limit=50"
	}
	var hdr map[string][]string
	switch c.Hdr {
	case hJunk:
		hdr = map[string][]string{"X-Arc-Forwarded-By": {"not-a-node"}}
	case hSelf:
		hdr = map[string][]string{"X-Arc-Forwarded-By": {nodeID(0)}}
	case hPeer:
		hdr = map[string][]string{"X-Arc-Forwarded-By": {nodeID(N - 1)}}
	case hLower:
		hdr = map[string][]string{"x-arc-forwarded-by": {"not-a-node"}}
	}
	st, rb, err := ch.do(0, method, path, ct, body, hdr)

	o := obs{Status: st, Inbound: make([][]inboundRec, N), Proc: make([]int, N), ExecNode: -1, DialFail: ch.dialFails.Load() - df0}
	if err != nil {
		o.Err = err.Error()
	}
	if len(rb) > 400 {
		o.Body = string(rb[:400])
	} else {
		o.Body = string(rb)
	}
	total := 0
	for i := 0; i < maxNodes; i++ {
		in := ch.nodes[i].takeInbound()
		evs := ch.nodes[i].wal.take()
		delta := ch.nodes[i].buffered() - before[i]
		if i >= N {
			if len(in) > 0 || len(evs) > 0 || delta != 0 {
				ev.Unbound(fmt.Sprintf("node %d is outside the %d-node configuration but saw traffic (%d inbound, %d wal) in %s", i, N, len(in), len(evs), c))
			}
			continue
		}
		o.Inbound[i] = in
		total += len(in)
		if kinds[c.Kind].IsWrite {
			k := 0
			for _, e := range evs {
				if strings.Contains(e, cid) {
					k++
				} else {
					ev.Unbound(fmt.Sprintf("node %d WAL saw a foreign append during %s: %.200q", i, c, e))
				}
			}
			if int64(k) != delta && !(c.Kind == kTLE) {
				// WAL append and buffer accounting must agree (1 record per request); TLE rows are typed and counted alike, checked below
				ev.Unbound(fmt.Sprintf("node %d: %d WAL appends but buffered-records delta %d in %s", i, k, delta, c))
			}
			if c.Kind == kTLE && (k > 0) != (delta > 0) {
				ev.Unbound(fmt.Sprintf("node %d: %d WAL appends but buffered-records delta %d in %s", i, k, delta, c))
			}
			o.Proc[i] = k
			if k > 0 {
				ch.expectStore[cid] = i
			}
		} else {
			if len(evs) > 0 || delta != 0 {
				ev.Unbound(fmt.Sprintf("node %d ingested during a query case %s", i, c))
			}
			if c.Kind == kQuery || c.Kind == kQueryMsgpack {
				needle := fmt.Sprintf("SELECT %d AS cid", cidNum)
				for _, q := range ch.nodes[i].qreg.GetHistory(16) {
					if strings.Contains(q.SQL, needle) {
						o.Proc[i]++
					}
				}
				for _, q := range ch.nodes[i].qreg.GetActive() {
					if strings.Contains(q.SQL, needle) {
						o.Proc[i]++
					}
				}
			}
		}
	}
	o.Forwards = total - 1
	if !kinds[c.Kind].IsWrite && st >= 200 && st < 300 {
		gotCid, nrows, ok := int64(0), 0, false
		switch c.Kind {
		case kQuery:
			gotCid, nrows, ok = parseJSONQuery(rb)
		case kQueryMsgpack:
			gotCid, nrows, ok = parseMsgpackQuery(rb)
		case kQueryArrow:
			gotCid, nrows, ok = parseArrowQuery(rb)
		case kQueryEstimate:
			var r struct {
				Success bool  `json:"success"`
				Rows    int64 `json:"estimated_rows"`
			}
			if json.Unmarshal(rb, &r) == nil && r.Success {
				gotCid, nrows, ok = cidNum, int(r.Rows), true
			}
		case kQueryMeasurement:
			var r struct {
				Success bool            `json:"success"`
				Data    [][]interface{} `json:"data"`
			}
			if json.Unmarshal(rb, &r) == nil && r.Success {
				gotCid, nrows, ok = cidNum, len(r.Data), true
			}
		}
		if ok && nrows >= 1 && nrows <= maxNodes {
			o.ExecNode = nrows - 1
			o.CidEcho = gotCid == cidNum
			if c.Kind != kQuery && c.Kind != kQueryMsgpack && o.ExecNode < N {
				o.Proc[o.ExecNode] = 1 // no per-node execution log for these endpoints: the marker in the answer is the evidence
			}
		}
	}
	ch.sinceFlush++
	return o
}

func wsOf(b byte) cluster.WriterState {
	switch b {
	case 'p':
		return cluster.WriterStatePrimary
	case 's':
		return cluster.WriterStateStandby
	}
	return cluster.WriterStateNone
}

func toInt(v interface{}) (int64, bool) {
	switch x := v.(type) {
	case float64:
		return int64(x), true
	case int64:
		return x, true
	case int32:
		return int64(x), true
	case int16:
		return int64(x), true
	case int8:
		return int64(x), true
	case int:
		return int64(x), true
	case uint64:
		return int64(x), true
	case uint32:
		return int64(x), true
	case uint16:
		return int64(x), true
	case uint8:
		return int64(x), true
	case json.Number:
		n, err := x.Int64()
		return n, err == nil
	}
	return 0, false
}

func parseJSONQuery(b []byte) (cid int64, nrows int, ok bool) {
	var r struct {
		Success bool            `json:"success"`
		Data    [][]interface{} `json:"data"`
	}
	d := json.NewDecoder(bytes.NewReader(b))
	d.UseNumber()
	if d.Decode(&r) != nil || !r.Success || len(r.Data) != 1 || len(r.Data[0]) != 2 {
		return 0, 0, false
	}
	a, ok1 := toInt(r.Data[0][0])
	n, ok2 := toInt(r.Data[0][1])
	return a, int(n), ok1 && ok2
}

func parseMsgpackQuery(b []byte) (cid int64, nrows int, ok bool) {
	var r map[string]interface{}
	if msgpack.Unmarshal(b, &r) != nil {
		return 0, 0, false
	}
	if s, _ := r["success"].(bool); !s {
		return 0, 0, false
	}
	cols, _ := r["data"].([]interface{}) // columnar
	if len(cols) != 2 {
		return 0, 0, false
	}
	c0, _ := cols[0].([]interface{})
	c1, _ := cols[1].([]interface{})
	if len(c0) != 1 || len(c1) != 1 {
		return 0, 0, false
	}
	a, ok1 := toInt(c0[0])
	n, ok2 := toInt(c1[0])
	return a, int(n), ok1 && ok2
}

func parseArrowQuery(b []byte) (cid int64, nrows int, ok bool) {
	rd, err := ipc.NewReader(bytes.NewReader(b))
	if err != nil {
		return 0, 0, false
	}
	defer rd.Release()
	for rd.Next() {
		rec := rd.Record()
		if rec.NumCols() != 2 || rec.NumRows() != 1 {
			return 0, 0, false
		}
		a, err1 := strconv.ParseInt(rec.Column(0).ValueStr(0), 10, 64)
		n, err2 := strconv.ParseInt(rec.Column(1).ValueStr(0), 10, 64)
		return a, int(n), err1 == nil && err2 == nil
	}
	return 0, 0, false
}

// reconcile flushes every node's buffer and compares the Parquet files in each node's store with what the
// per-request WAL observation said that node accepted (end-to-end evidence that "processed locally" is real).
func (ch *chassis) reconcile() {
	for _, n := range ch.nodes {
		if err := n.buf.FlushAll(context.Background()); err != nil {
			ev.Unbound("FlushAll: " + err.Error())
		}
	}
	want := len(ch.expectStore)
	found := map[string]int{}
	deadline := time.Now().Add(30 * time.Second)
	for {
		for i, n := range ch.nodes {
			base := n.store.GetBasePath()
			_ = filepath.WalkDir(base, func(p string, d fs.DirEntry, err error) error {
				if err != nil || d.IsDir() || !strings.HasSuffix(p, ".parquet") {
					return nil
				}
				rel, _ := filepath.Rel(base, p)
				if strings.Contains(rel, "/"+markerMeas+"/") {
					return nil
				}
				b, err := os.ReadFile(p)
				if err != nil {
					return nil
				}
				rows, _, _, err := hx.ReadParquet(b)
				if err != nil {
					return nil // still being written; picked up on the next pass
				}
				for _, r := range rows {
					for _, v := range r {
						if s, ok := v.(string); ok && strings.HasPrefix(s, "CID") && strings.HasSuffix(s, "X") {
							if prev, dup := found[s]; dup && prev != i {
								ch.storeBad = append(ch.storeBad, fmt.Sprintf("%s stored on node %d and node %d", s, prev, i))
							}
							found[s] = i
						}
					}
				}
				os.Remove(p)
				return nil
			})
		}
		if len(found) >= want || time.Now().After(deadline) {
			break
		}
		time.Sleep(5 * time.Millisecond)
	}
	for cid, i := range ch.expectStore {
		if j, ok := found[cid]; !ok {
			ch.storeBad = append(ch.storeBad, fmt.Sprintf("%s accepted by node %d but not in its store after flush", cid, i))
		} else if j != i {
			ch.storeBad = append(ch.storeBad, fmt.Sprintf("%s accepted by node %d but stored on node %d", cid, i, j))
		}
	}
	for cid, j := range found {
		if _, ok := ch.expectStore[cid]; !ok {
			ch.storeBad = append(ch.storeBad, fmt.Sprintf("%s in the store of node %d but no node's WAL saw it", cid, j))
		}
	}
	ch.storeRows += int64(len(found))
	ch.expectStore = map[string]int{}
	ch.sinceFlush = 0
}

